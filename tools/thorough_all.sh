#!/bin/bash
# run every check's thorough tier once, print one line per check
cd "$(dirname "$0")/.."
for P in $(cat checks/READY); do
  ./check $P --tier thorough > out.thorough.$P.txt 2>&1; rc=$?
  echo "$P exit=$rc $(grep -E '^C[0-9]+ tier' out.thorough.$P.txt | cut -c1-220)"
  grep -E "^(VIOLATION|HARNESS|  sig)" out.thorough.$P.txt | cut -c1-250
done
echo ALLDONE
