#!/usr/bin/env python3
"""Regenerate the generated tables of DESIGN.md (between BEGIN/END GENERATED markers) from
known_findings.json, seeded/*/meta.json and evidence/*.json."""
import json, os, glob, re
V = os.path.dirname(os.path.dirname(os.path.abspath(__file__)))
def esc(t): return (t or "").replace("|", "\\|").replace("\n", " ")
k = json.load(open(os.path.join(V, "known_findings.json")))["findings"]
out = []
out.append("| property | signature | status | commit | what fails |\n|---|---|---|---|---|")
for f in sorted(k, key=lambda f: (f["property"], f["status"], f["signature"])):
    what = re.sub(r"^fixed: property=\S+ \S+ ", "", f["what"])
    out.append("| %s | `%s` | %s | %s | %s |" % (f["property"], f["signature"], f["status"], f.get("commit", ""), esc(what)))
findings = "\n".join(out)
nfix = sum(1 for f in k if f["status"] == "fixed"); nkn = sum(1 for f in k if f["status"] == "known")
out = ["| id | property | change (site) | needs to manifest | result of the checks |\n|---|---|---|---|---|"]
for d in sorted(glob.glob(os.path.join(V, "seeded", "*"))):
    mp = os.path.join(d, "meta.json")
    if not os.path.exists(mp): continue
    m = json.load(open(mp))
    out.append("| %s | %s | %s (%s) | %s | %s |" % (os.path.basename(d), m.get("property"), esc(m.get("title") or "")[:160], esc(", ".join(m.get("files_touched") or [])), esc(m.get("needs_to_manifest") or "")[:260], esc(m.get("checks_result") or "")))
seeded = "\n".join(out)
out = ["| check | cases | held | known-finding cases | inconclusive | distinct non-trivial | events | wall s |\n|---|---|---|---|---|---|---|---|"]
for p in sorted(glob.glob(os.path.join(V, "evidence", "C*.json"))):
    e = json.load(open(p)); c = e["coverage"]; v = c.get("verdicts", {})
    out.append("| %s (%s, seed %s) | %s | %s | %s | %s | %s | %s | %s |" % (e["property_id"], e["tier"], e["seed"], c["evaluations"], v.get("held"), v.get("violated"), v.get("inconclusive"), c["distinct_nontrivial"], c.get("events_observed"), e["wall_s"]))
numbers = "\n".join(out)
s = open(os.path.join(V, "DESIGN.md")).read()
def put(name, text):
    global s
    a = "<!-- BEGIN GENERATED %s -->" % name; b = "<!-- END GENERATED %s -->" % name
    i = s.index(a) + len(a); j = s.index(b)
    s = s[:i] + "\n" + text + "\n" + s[j:]
put("findings", "%d entries: %d fixed, %d known.\n\n" % (len(k), nfix, nkn) + findings)
put("seeded", seeded)
put("numbers", numbers)
open(os.path.join(V, "DESIGN.md"), "w").write(s)
print("DESIGN.md tables regenerated:", len(k), "findings")
