#!/usr/bin/env python3
"""Generate /verif/MANIFEST.json from checks.json (single source of truth)."""
import json, os, subprocess
V = os.path.dirname(os.path.dirname(os.path.abspath(__file__)))
import glob
conf = {os.path.basename(f)[:-5]: json.load(open(f)) for f in glob.glob(os.path.join(V, "checks", "C*.json"))}
props = [json.loads(l) for l in open(os.path.join(V, "properties.jsonl"))]
baseline = json.load(open("/root/.vp/BASELINE.json"))["cmd"]
hooks = subprocess.run(["git", "-C", "/repo", "log", "--format=%H %s"], capture_output=True, text=True).stdout.splitlines()
hook_commits = [l.split()[0] for l in hooks if " verif hook:" in l]
checks = []
na = []
for p in props:
    pid = p["id"]
    c = conf.get(pid)
    ready = open(os.path.join(V, "checks", "READY")).read().split()
    if c and pid not in ready:
        c = None
    if not c or c.get("disabled"):
        na.append({"property_id": pid, "reason": (c or {}).get("na_reason", "no check registered yet: the monitor for this property is still being built (see DESIGN.md section 4)")})
        continue
    checks.append({
        "property_id": pid,
        "quick_cmd": "./check %s --tier quick" % pid,
        "thorough_cmd": "./check %s --tier thorough" % pid,
        "evidence_file": "/verif/evidence/%s.json" % pid,
        "replay_cmd_template": "./check %s --replay {path}" % pid,
        "engine": "harness",
        "level_claimed": {"category": c.get("level", "exploration"), "text": c["level_text"], "design_ref": "DESIGN.md section 4, " + pid},
        "level_note": c["level_note"],
        "technique": c["technique"],
    })
m = {
    "version": 1,
    "setup_cmd": "./setup.sh",
    "hooks": {
        "guard": "verif (Go build tag)",
        "enable": "go build -tags verif (harness module /verif/harness with replace ergo.services/ergo => /repo); lib.SetVerifHook installs the scheduler",
        "baseline_off_cmd": baseline,
        "source_commits": hook_commits,
        "add_only": True,
    },
    "engines": [{"name": "harness", "path": "/verif/harness", "serves_properties": [c["property_id"] for c in checks],
                 "kind_free_text": "Go runtime-monitoring harness: instrumented behaviours, hook scheduler (gates + seeded stress), reference-model and history checkers, race-detector canaries; driver /verif/check"}],
    "checks": checks,
    "notes": "Runtime monitoring only. Every verdict is 'held on what was observed / violated with witness / inconclusive'. known_findings.json lists genuine defects (known / fixed).",
    "not_applicable": na,
}
json.dump(m, open(os.path.join(V, "MANIFEST.json"), "w"), indent=1)
print("checks:", [c["property_id"] for c in checks], "na:", [n["property_id"] for n in na])
