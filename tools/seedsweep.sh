#!/bin/bash
# Re-run every kept seeded change against the check of its property on the current /repo HEAD
# (scratch worktree + VERIF_REPO_OVERRIDE; /repo is never modified). Writes seeded/RESULTS.tsv
cd /verif
out=seeded/RESULTS.tsv; : > $out.tmp
for d in seeded/C*-*; do
  id=$(basename $d); P=${id%-*}
  r=$(SKIP_DEMO=1 tools/seedtest.sh $d $P 2>&1 | grep -E "^(PATCH|check exit|baseline sigs|HARNESS)" | tr '\n' ' ' | cut -c1-600)
  printf "%s\t%s\t%s\t%s\n" "$id" "$P" "$(git -C /repo log -1 --format=%h)" "$r" >> $out.tmp
done
mv $out.tmp $out; echo SWEEPDONE
