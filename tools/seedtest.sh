#!/bin/bash
# tools/seedtest.sh <seed dir with patch.diff/meta.json/demo> <PROP> [more PROPs...]
# 1. fresh scratch worktree of /repo HEAD under /tmp/st, 2. demo without patch (must pass), 3. apply patch, build,
# demo with patch (must fail), 4. run the given checks against the patched copy (VERIF_REPO_OVERRIDE), 5. clean up.
set -u
SD=$(readlink -f "$1"); shift
export GOFLAGS=-mod=mod GOPROXY=off GOSUMDB=off GOTOOLCHAIN=local GOCACHE=/verif/.gocache
W=/tmp/st/$(basename $(dirname $SD))-$(basename $SD)-$$
mkdir -p /tmp/st
git -C /repo worktree add -q --detach $W HEAD || exit 9
trap 'git -C /repo worktree remove --force $W >/dev/null 2>&1; rm -rf $W' EXIT
DEMO_PATH=$(python3 -c "import json;print(json.load(open('$SD/meta.json')).get('demo_path',''))")
DEMO_CMD=$(python3 -c "import json;print(json.load(open('$SD/meta.json')).get('demo_cmd',''))")
echo "== seed $SD  demo_path=$DEMO_PATH demo_cmd=$DEMO_CMD"
if [ "${SKIP_DEMO:-0}" != 1 ]; then
  # place demo files: files directly under demo/ go to dirname(demo_path) (or demo_path if it is a directory);
  # a single sub-directory under demo/ holds the files of the demo package
  if [ -d "$SD/demo" ]; then
    d=$DEMO_PATH; [[ "$d" == *.go ]] && d=$(dirname $d)
    [ -z "$d" ] && d=seeddemo
    mkdir -p $W/$d
    find $SD/demo -type f | while read f; do cp "$f" $W/$d/; done
  fi
  # demo commands written for the author's worktree: point them at this scratch worktree
  DEMO_CMD=$(echo "$DEMO_CMD" | sed -E "s#/tmp/seed2?/C[0-9]+#$W#g; s#   \(.*\$##; s#GOCACHE=[^ ]+ ##")
  (cd $W && timeout 900 bash -c "$DEMO_CMD" >/tmp/st/demo_clean.$$ 2>&1); r0=$?
  echo "demo WITHOUT patch: exit $r0 (want 0)"; [ $r0 != 0 ] && tail -15 /tmp/st/demo_clean.$$
fi
(cd $W && git apply $SD/patch.diff) || { echo "PATCH DOES NOT APPLY"; exit 8; }
(cd $W && go build ./... && go build -tags verif ./...) || { echo "PATCHED TREE DOES NOT BUILD"; exit 7; }
if [ "${SKIP_DEMO:-0}" != 1 ]; then
  (cd $W && timeout 900 bash -c "$DEMO_CMD" >/tmp/st/demo_mut.$$ 2>&1); r1=$?
  echo "demo WITH patch: exit $r1 (want != 0)"; [ $r1 = 0 ] && tail -5 /tmp/st/demo_mut.$$
fi
for P in "$@"; do
  echo "-- check $P against mutant"
  (cd /verif && VERIF_REPO_OVERRIDE=$W ./check $P 2>&1 | grep -E "^(VIOLATION|KNOWN-FINDING|HARNESS-ERROR|  signature|C[0-9]+ tier)" | cut -c1-260 | head -12; echo "check exit ${PIPESTATUS[0]}"; python3 /verif/tools/sigdiff.py $P /verif/out/$P-alt-$(python3 -c "import hashlib;print(hashlib.sha1('$W'.encode()).hexdigest()[:8])"))
done
rm -f /tmp/st/demo_clean.$$ /tmp/st/demo_mut.$$
