#!/usr/bin/env python3
"""tools/sigdiff.py <PROP> <alt out dir>: signatures seen in the alt run but not in the baseline evidence (unchanged tree)"""
import json,sys,os,glob
p,alt=sys.argv[1],sys.argv[2]
e=json.load(open('/verif/evidence/%s.json'%p))['coverage']
base=set(e.get('new_violation_signatures',[]))|set(e.get('known_findings_matched',{}).keys())
seen={}
for l in open(os.path.join(alt,'stdout.jsonl'),errors='replace'):
    try:o=json.loads(l)
    except: continue
    if o.get('t')=='case' and o.get('verdict')=='violated':
        seen[o.get('sig','?')]=seen.get(o.get('sig','?'),0)+1
for f in glob.glob(os.path.join(alt,'race_viol_*.txt')): seen['race-canary']=seen.get('race-canary',0)+1
if os.path.exists(os.path.join(alt,'crash.txt')): seen['framework-crash']=1
new={s:n for s,n in seen.items() if s not in base}
print("baseline sigs:",len(base),"| alt sigs:",len(seen),"| NEW in alt:",json.dumps(new))
