#!/bin/bash
# tools/seedimport.sh <seed dir> <id> "<what I ran / result text>" <caught_by list or 'MISSED'>
SD=$1; ID=$2; RAN=$3; CAUGHT=$4
D=/verif/seeded/$ID; mkdir -p $D
cp $SD/patch.diff $D/patch.diff; rm -rf $D/demo; cp -r $SD/demo $D/demo
python3 - "$SD/meta.json" "$D/meta.json" "$RAN" "$CAUGHT" <<'PY'
import json,sys
m=json.load(open(sys.argv[1]))
out={"property":m.get("property"),"title":m.get("title"),"breaks":m.get("what_breaks"),"needs_to_manifest":m.get("needs_to_manifest"),
"files_touched":m.get("files_touched"),"demo_path":m.get("demo_path"),"demo_cmd":m.get("demo_cmd"),
"author_tests_run":m.get("tests_run"),"confirmed_by_lead":sys.argv[3],"checks_result":sys.argv[4]}
json.dump(out,open(sys.argv[2],"w"),indent=1)
PY
echo imported $D
