#!/bin/bash
# Build every monitor binary once (warms /verif/.gocache). Offline.
set -e
cd "$(dirname "$0")"
export GOFLAGS=-mod=mod GOPROXY=off GOSUMDB=off GOTOOLCHAIN=local GOCACHE=$PWD/.gocache CGO_ENABLED=1
mkdir -p .bin out evidence
touch harness/go.sum
python3 - <<'PY'
import json,subprocess,os,sys
import glob
conf={os.path.basename(f)[:-5]: json.load(open(f)) for f in glob.glob('checks/C*.json')}
jobs=[]
ready=open('checks/READY').read().split()
for pid,c in sorted(conf.items()):
    if c.get('disabled') or pid not in ready: continue
    variants=set([bool(c.get('race',False)), bool(c.get('race_thorough',c.get('race',False)))])
    for race in variants:
        out='.bin/'+pid.lower()+('-race' if race else '')
        cmd=['go','build','-tags','verif']+(['-race'] if race else [])+['-o',os.path.abspath(out),'./cmd/'+pid.lower()]
        jobs.append(cmd)
fail=0
for cmd in jobs:
    r=subprocess.run(cmd,cwd='harness')
    if r.returncode!=0:
        print('setup: build failed:',' '.join(cmd)); fail=1
sys.exit(fail)
PY
echo "setup ok"
