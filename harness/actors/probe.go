// Package actors holds the instrumented behaviours (act.Actor, raw
// gen.ProcessBehavior, gen.MetaBehavior) the monitors are built on.
package actors

import (
	"fmt"
	"runtime"
	"sync"
	"sync/atomic"

	"ergo.services/ergo/act"
	"ergo.services/ergo/gen"

	"verif/harness/canary"
	"verif/harness/hk"
)

// Ev is one callback of an instrumented process
type Ev struct {
	L    int64   `json:"l"`           // logical clock at entry
	LX   int64   `json:"lx"`          // logical clock at exit
	CB   string  `json:"cb"`          // init msg call event inspect log terminate msgname msgalias callname callalias start(meta)
	From gen.PID `json:"from"`        //
	Msg  any     `json:"msg"`         //
	Ref  gen.Ref `json:"ref"`         //
	Err  error   `json:"err"`         // reason (terminate)
	Tgt  any     `json:"tgt"`         // name/alias for split handlers
	G    uint64  `json:"g,omitempty"` // goroutine id hint
}

func (e Ev) String() string {
	return fmt.Sprintf("{%d-%d %s from=%s msg=%v err=%v}", e.L, e.LX, e.CB, e.From, e.Msg, e.Err)
}

// Inst is the instrumentation core shared by all probe kinds.
// Enter must be the first statement of a callback and the returned func the
// last (deferred first).
type Inst struct {
	Label string

	can   canary.Word // touched plainly: outermost on entry and exit
	depth atomic.Int32
	// Overlaps counts callback entries that found another callback in progress
	Overlaps atomic.Int64
	// Callbacks counts callback entries
	Callbacks atomic.Int64
	// AfterTerm counts callbacks that began after the terminate callback began
	AfterTerm atomic.Int64
	// TermCount counts terminate callbacks
	TermCount atomic.Int32
	termSeen  atomic.Bool
	// exits counts finished callbacks; incremented after the final canary touch so
	// that a reader which observed exits==Callbacks is ordered after every touch
	exits atomic.Int64

	mu       sync.Mutex
	evs      []Ev
	overlapW []string

	PID   gen.PID
	Alias gen.Alias // for meta
}

// Enter marks the beginning of a callback. Returns the event index.
func (i *Inst) Enter(cb string) int {
	i.can.Touch() // outermost: before any synchronisation of the harness
	d := i.depth.Add(1)
	i.Callbacks.Add(1)
	l := hk.Tick()
	if d > 1 {
		i.Overlaps.Add(1)
		buf := make([]byte, 2048)
		n := runtime.Stack(buf, false)
		i.mu.Lock()
		if len(i.overlapW) < 4 {
			i.overlapW = append(i.overlapW, fmt.Sprintf("callback %q entered at depth %d (lclock %d)\n%s", cb, d, l, buf[:n]))
		}
		i.mu.Unlock()
	}
	if cb == "terminate" {
		i.TermCount.Add(1)
		i.termSeen.Store(true)
	} else if i.termSeen.Load() {
		i.AfterTerm.Add(1)
	}
	i.mu.Lock()
	i.evs = append(i.evs, Ev{L: l, CB: cb})
	idx := len(i.evs) - 1
	i.mu.Unlock()
	return idx
}

// Set fills in the details of event idx
func (i *Inst) Set(idx int, f func(e *Ev)) {
	i.mu.Lock()
	f(&i.evs[idx])
	i.mu.Unlock()
}

// Exit marks the end of the callback
func (i *Inst) Exit(idx int) {
	lx := hk.Tick()
	i.mu.Lock()
	i.evs[idx].LX = lx
	i.mu.Unlock()
	i.depth.Add(-1)
	i.can.Touch() // outermost
	i.exits.Add(1)
}

// Events returns a copy of the log
func (i *Inst) Events() []Ev {
	i.mu.Lock()
	defer i.mu.Unlock()
	return append([]Ev(nil), i.evs...)
}

// OverlapWitness returns stacks captured when an overlap was seen
func (i *Inst) OverlapWitness() []string {
	i.mu.Lock()
	defer i.mu.Unlock()
	return append([]string(nil), i.overlapW...)
}

// CanaryOK: at quiescence the plain counter must equal 2 x callbacks (a lost
// update means two callbacks overlapped even if the depth counter missed it)
func (i *Inst) CanaryOK() (uint64, uint64, bool) {
	if i.Quiet() == false {
		// a callback is still in progress: reading the plain word now would itself be a race
		return 0, 0, true
	}
	v := i.can.Value()
	c := uint64(i.Callbacks.Load()) * 2
	return v, c, v == c
}

// Quiet reports that every callback that began has completely finished
func (i *Inst) Quiet() bool { return i.exits.Load() == i.Callbacks.Load() }

// InCallback reports whether a callback is in progress right now
func (i *Inst) InCallback() bool { return i.depth.Load() > 0 || i.Quiet() == false }

// ---------------------------------------------------------------------------
// act.Actor probe

// Hooks are the per-scenario behaviours of a Probe. Any nil hook = default
// (record only).
type Hooks struct {
	Init      func(p *Probe, args ...any) error
	Msg       func(p *Probe, from gen.PID, msg any) error
	Call      func(p *Probe, from gen.PID, ref gen.Ref, req any) (any, error)
	Event     func(p *Probe, ev gen.MessageEvent) error
	Inspect   func(p *Probe, from gen.PID, item ...string) map[string]string
	Log       func(p *Probe, m gen.MessageLog) error
	Terminate func(p *Probe, reason error)
}

// Probe is an instrumented act.Actor
type Probe struct {
	act.Actor
	I *Inst
	H *Hooks
}

// NewProbe returns a factory and the instrumentation record of the process it will create.
// The factory must be used for exactly one spawn.
func NewProbe(label string, h *Hooks) (gen.ProcessFactory, *Inst) {
	i := &Inst{Label: label}
	if h == nil {
		h = &Hooks{}
	}
	return func() gen.ProcessBehavior { return &Probe{I: i, H: h} }, i
}

// NewProbeMulti returns a factory that creates a fresh Inst per spawn (for
// supervisor children / pool workers); created Insts are reported through reg.
func NewProbeMulti(label string, h *Hooks, reg func(i *Inst)) gen.ProcessFactory {
	if h == nil {
		h = &Hooks{}
	}
	return func() gen.ProcessBehavior {
		i := &Inst{Label: label}
		if reg != nil {
			reg(i)
		}
		return &Probe{I: i, H: h}
	}
}

func (p *Probe) Init(args ...any) (err error) {
	x := p.I.Enter("init")
	defer p.I.Exit(x)
	p.I.PID = p.PID()
	if p.H.Init != nil {
		return p.H.Init(p, args...)
	}
	return nil
}

func (p *Probe) HandleMessage(from gen.PID, message any) error {
	x := p.I.Enter("msg")
	defer p.I.Exit(x)
	p.I.Set(x, func(e *Ev) { e.From = from; e.Msg = message })
	if p.H.Msg != nil {
		return p.H.Msg(p, from, message)
	}
	return nil
}

func (p *Probe) HandleMessageName(name gen.Atom, from gen.PID, message any) error {
	x := p.I.Enter("msgname")
	defer p.I.Exit(x)
	p.I.Set(x, func(e *Ev) { e.From = from; e.Msg = message; e.Tgt = name })
	if p.H.Msg != nil {
		return p.H.Msg(p, from, message)
	}
	return nil
}

func (p *Probe) HandleMessageAlias(alias gen.Alias, from gen.PID, message any) error {
	x := p.I.Enter("msgalias")
	defer p.I.Exit(x)
	p.I.Set(x, func(e *Ev) { e.From = from; e.Msg = message; e.Tgt = alias })
	if p.H.Msg != nil {
		return p.H.Msg(p, from, message)
	}
	return nil
}

func (p *Probe) HandleCall(from gen.PID, ref gen.Ref, request any) (any, error) {
	x := p.I.Enter("call")
	defer p.I.Exit(x)
	p.I.Set(x, func(e *Ev) { e.From = from; e.Msg = request; e.Ref = ref })
	if p.H.Call != nil {
		return p.H.Call(p, from, ref, request)
	}
	return request, nil
}

func (p *Probe) HandleCallName(name gen.Atom, from gen.PID, ref gen.Ref, request any) (any, error) {
	x := p.I.Enter("callname")
	defer p.I.Exit(x)
	p.I.Set(x, func(e *Ev) { e.From = from; e.Msg = request; e.Ref = ref; e.Tgt = name })
	if p.H.Call != nil {
		return p.H.Call(p, from, ref, request)
	}
	return request, nil
}

func (p *Probe) HandleCallAlias(alias gen.Alias, from gen.PID, ref gen.Ref, request any) (any, error) {
	x := p.I.Enter("callalias")
	defer p.I.Exit(x)
	p.I.Set(x, func(e *Ev) { e.From = from; e.Msg = request; e.Ref = ref; e.Tgt = alias })
	if p.H.Call != nil {
		return p.H.Call(p, from, ref, request)
	}
	return request, nil
}

func (p *Probe) HandleEvent(ev gen.MessageEvent) error {
	x := p.I.Enter("event")
	defer p.I.Exit(x)
	p.I.Set(x, func(e *Ev) { e.Msg = ev })
	if p.H.Event != nil {
		return p.H.Event(p, ev)
	}
	return nil
}

func (p *Probe) HandleInspect(from gen.PID, item ...string) map[string]string {
	x := p.I.Enter("inspect")
	defer p.I.Exit(x)
	p.I.Set(x, func(e *Ev) { e.From = from; e.Msg = item })
	if p.H.Inspect != nil {
		return p.H.Inspect(p, from, item...)
	}
	return map[string]string{"probe": p.I.Label}
}

func (p *Probe) HandleLog(m gen.MessageLog) error {
	x := p.I.Enter("log")
	defer p.I.Exit(x)
	p.I.Set(x, func(e *Ev) { e.Msg = m })
	if p.H.Log != nil {
		return p.H.Log(p, m)
	}
	return nil
}

func (p *Probe) Terminate(reason error) {
	x := p.I.Enter("terminate")
	defer p.I.Exit(x)
	p.I.Set(x, func(e *Ev) { e.Err = reason })
	if p.H.Terminate != nil {
		p.H.Terminate(p, reason)
	}
}

// ---------------------------------------------------------------------------
// raw gen.ProcessBehavior probe: handles its mailbox itself

// RawHooks configure a Raw probe
type RawHooks struct {
	// Handle is called for every mailbox message popped; returning an error terminates
	Handle func(r *Raw, m *gen.MailboxMessage) error
}

// Raw is an instrumented raw process behaviour
type Raw struct {
	gen.Process
	I *Inst
	H *RawHooks
}

func NewRaw(label string, h *RawHooks) (gen.ProcessFactory, *Inst) {
	i := &Inst{Label: label}
	if h == nil {
		h = &RawHooks{}
	}
	return func() gen.ProcessBehavior { return &Raw{I: i, H: h} }, i
}

func (r *Raw) ProcessInit(p gen.Process, args ...any) error {
	x := r.I.Enter("init")
	defer r.I.Exit(x)
	r.Process = p
	r.I.PID = p.PID()
	return nil
}

// ProcessRun is one callback: it drains the mailbox
func (r *Raw) ProcessRun() error {
	x := r.I.Enter("run")
	defer r.I.Exit(x)
	mb := r.Mailbox()
	for {
		if r.State() != gen.ProcessStateRunning {
			return gen.TerminateReasonKill
		}
		v, ok := mb.Urgent.Pop()
		if !ok {
			v, ok = mb.System.Pop()
		}
		if !ok {
			v, ok = mb.Main.Pop()
		}
		if !ok {
			return nil
		}
		m := v.(*gen.MailboxMessage)
		if m.Type == gen.MailboxMessageTypeExit {
			if e, ok := m.Message.(gen.MessageExitPID); ok {
				return e.Reason
			}
		}
		r.I.mu.Lock()
		r.I.evs = append(r.I.evs, Ev{L: hk.Tick(), CB: "rawmsg", From: m.From, Msg: m.Message})
		r.I.mu.Unlock()
		if r.H.Handle != nil {
			if err := r.H.Handle(r, m); err != nil {
				return err
			}
		}
	}
}

func (r *Raw) ProcessTerminate(reason error) {
	x := r.I.Enter("terminate")
	defer r.I.Exit(x)
	r.I.Set(x, func(e *Ev) { e.Err = reason })
}

// ---------------------------------------------------------------------------
// meta process probe

type MetaHooks struct {
	// Start is the meta main loop; default blocks until Stop is closed
	Start   func(m *Meta) error
	Msg     func(m *Meta, from gen.PID, msg any) error
	Call    func(m *Meta, from gen.PID, ref gen.Ref, req any) (any, error)
	OnTerm  func(m *Meta, reason error)
}

// Meta is an instrumented meta process. Start (the main loop) is concurrent to
// the handlers by design and is not counted as a callback.
type Meta struct {
	gen.MetaProcess
	I    *Inst
	H    *MetaHooks
	Stop chan struct{}
	// StopReason is returned by Start when Stop is closed
	StopReason error
	Started    chan struct{}
	once       sync.Once
}

func NewMeta(label string, h *MetaHooks) *Meta {
	if h == nil {
		h = &MetaHooks{}
	}
	return &Meta{I: &Inst{Label: label}, H: h, Stop: make(chan struct{}), Started: make(chan struct{})}
}

func (m *Meta) Init(p gen.MetaProcess) error {
	x := m.I.Enter("init")
	defer m.I.Exit(x)
	m.MetaProcess = p
	m.I.Alias = p.ID()
	return nil
}

func (m *Meta) Start() error {
	m.once.Do(func() { close(m.Started) })
	if m.H.Start != nil {
		return m.H.Start(m)
	}
	<-m.Stop
	return m.StopReason
}

func (m *Meta) HandleMessage(from gen.PID, message any) error {
	x := m.I.Enter("msg")
	defer m.I.Exit(x)
	m.I.Set(x, func(e *Ev) { e.From = from; e.Msg = message })
	if m.H.Msg != nil {
		return m.H.Msg(m, from, message)
	}
	return nil
}

func (m *Meta) HandleCall(from gen.PID, ref gen.Ref, request any) (any, error) {
	x := m.I.Enter("call")
	defer m.I.Exit(x)
	m.I.Set(x, func(e *Ev) { e.From = from; e.Msg = request; e.Ref = ref })
	if m.H.Call != nil {
		return m.H.Call(m, from, ref, request)
	}
	return request, nil
}

func (m *Meta) HandleInspect(from gen.PID, item ...string) map[string]string {
	x := m.I.Enter("inspect")
	defer m.I.Exit(x)
	return map[string]string{"meta": m.I.Label}
}

func (m *Meta) Terminate(reason error) {
	x := m.I.Enter("terminate")
	defer m.I.Exit(x)
	m.I.Set(x, func(e *Ev) { e.Err = reason })
	if m.H.OnTerm != nil {
		m.H.OnTerm(m, reason)
	}
}
