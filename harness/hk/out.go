// Package hk is the common kit of the verification harness: result protocol,
// seeds, hook scheduler, node helpers.
package hk

import (
	"encoding/json"
	"fmt"
	"os"
	"strconv"
	"sync"
)

// Verdicts
const (
	Held         = "held"
	Violated     = "violated"
	Inconclusive = "inconclusive"
)

// Case is one decided case. It is printed as one JSON line on stdout and
// aggregated by the driver (/verif/check).
type Case struct {
	T          string `json:"t"`                    // always "case"
	ID         string `json:"id"`                   // unique, deterministic id of the case (replay key)
	Scenario   string `json:"scenario"`             // scenario family
	Verdict    string `json:"verdict"`              // held | violated | inconclusive
	Sig        string `json:"sig,omitempty"`        // violation signature: WHAT fails (matched against known_findings.json)
	What       string `json:"what,omitempty"`       // human readable description of the violation / inconclusive reason
	Key        string `json:"key,omitempty"`        // distinctness key (scenario x parameters x observed class)
	Nontrivial bool   `json:"nontrivial,omitempty"` // met the per-property non-triviality rule
	Events     int64  `json:"events,omitempty"`     // events observed by the monitors in this case
	Detail     any    `json:"detail,omitempty"`     // witness / descriptor
}

var outMu sync.Mutex
var outEnc = json.NewEncoder(os.Stdout)

func emit(v any) {
	outMu.Lock()
	defer outMu.Unlock()
	if err := outEnc.Encode(v); err != nil {
		fmt.Fprintf(os.Stderr, "emit error: %v\n", err)
	}
}

// Emit prints a decided case
func Emit(c Case) {
	c.T = "case"
	if c.Verdict == "" {
		c.Verdict = Held
	}
	emit(c)
}

// Stat adds v to the named counter in the evidence
func Stat(name string, v int64) {
	emit(map[string]any{"t": "stat", "name": name, "value": v})
}

// StatMax records the maximum of the named value
func StatMax(name string, v int64) {
	emit(map[string]any{"t": "statmax", "name": name, "value": v})
}

// Sample adds an actual explored case, written out, to the evidence samples
func Sample(v any) {
	emit(map[string]any{"t": "sample", "sample": v})
}

// Rule states the generation / non-triviality rule for the evidence
func Rule(text string) {
	emit(map[string]any{"t": "rule", "text": text})
}

// Assume states an assumption of the check for the evidence
func Assume(text string) {
	emit(map[string]any{"t": "assume", "text": text})
}

// Note is free text for the evidence
func Note(name string, v any) {
	emit(map[string]any{"t": "note", "name": name, "value": v})
}

// Seed returns VERIF_SEED (default 1)
func Seed() int64 {
	if s := os.Getenv("VERIF_SEED"); s != "" {
		if v, err := strconv.ParseInt(s, 10, 64); err == nil {
			return v
		}
	}
	return 1
}

// Thorough reports whether VERIF_TIER=thorough
func Thorough() bool {
	return os.Getenv("VERIF_TIER") == "thorough"
}

// Only returns the case id to replay ("" = run everything)
func Only() string {
	return os.Getenv("VERIF_ONLY")
}

// Want reports whether case id should run (replay filter)
func Want(id string) bool {
	o := Only()
	return o == "" || o == id
}

// Pick returns q in quick tier and t in thorough tier
func Pick(q, t int) int {
	if Thorough() {
		return t
	}
	return q
}
