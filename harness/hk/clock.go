package hk

import "sync/atomic"

var lclock atomic.Int64

// Tick advances and returns the global logical clock
func Tick() int64 { return lclock.Add(1) }

// Now reads the global logical clock
func Now() int64 { return lclock.Load() }
