package hk

import (
	"hash/fnv"
	"math/rand"
)

// Rng returns a PRNG determined by VERIF_SEED and the given key parts
func Rng(parts ...string) *rand.Rand {
	h := fnv.New64a()
	for _, p := range parts {
		h.Write([]byte(p))
		h.Write([]byte{0})
	}
	return rand.New(rand.NewSource(int64(h.Sum64()) ^ (Seed() * 0x9E3779B97F4A7C)))
}

// Hash64 hashes strings
func Hash64(parts ...string) uint64 {
	h := fnv.New64a()
	for _, p := range parts {
		h.Write([]byte(p))
		h.Write([]byte{0})
	}
	return h.Sum64()
}
