package hk

import (
	"runtime"
	"sync"
	"sync/atomic"
	"time"

	"ergo.services/ergo/lib"
)

// The scheduler owns the single global lib.VerifPoint hook.  It offers
//   - per-point hit counters,
//   - stress mode: seeded random yields / short sleeps at chosen points,
//   - gates: park the goroutine that arrives at (point, subject) until released,
//   - observers: callbacks at (point, subject),
//   - live runner accounting from proc.run.enter/exit and meta.enter/exit.
//
// The hook never takes a lock of the code under test and every gate has a
// release deadline, so the monitor cannot deadlock the system it observes.

type pointState struct {
	hits   atomic.Int64
	delays atomic.Int64
	prob   atomic.Uint32 // probability of a perturbation in 1/65536 units
}

var (
	pointsMu sync.RWMutex
	points   = map[string]*pointState{}

	stressOn  atomic.Bool
	stressMax atomic.Int64 // max sleep in ns
	stressKey atomic.Uint64

	gatesMu     sync.RWMutex
	gates       []*Gate
	gatesActive atomic.Int32

	obsMu     sync.RWMutex
	observers []*observer
	obsActive atomic.Int32

	runners sync.Map // subject -> *atomic.Int32 (live runner goroutines)
	// RunnerOverlap counts observations of >1 live runner goroutines for one subject
	RunnerOverlap atomic.Int64
	runnerMaxSeen atomic.Int32

	hookInstalled atomic.Bool
)

type observer struct {
	point string
	match func(any) bool
	fn    func(point string, subject any)
	dead  atomic.Bool
}

func pstate(point string) *pointState {
	pointsMu.RLock()
	ps := points[point]
	pointsMu.RUnlock()
	if ps != nil {
		return ps
	}
	pointsMu.Lock()
	defer pointsMu.Unlock()
	if ps = points[point]; ps == nil {
		ps = &pointState{}
		points[point] = ps
	}
	return ps
}

// InstallHook installs the scheduler hook (idempotent)
func InstallHook() {
	if hookInstalled.Swap(true) {
		return
	}
	lib.SetVerifHook(hook)
}

func splitmix(x uint64) uint64 {
	x += 0x9E3779B97F4A7C15
	x = (x ^ (x >> 30)) * 0xBF58476D1CE4E5B9
	x = (x ^ (x >> 27)) * 0x94D049BB133111EB
	return x ^ (x >> 31)
}

func hook(point string, subject any) {
	ps := pstate(point)
	n := ps.hits.Add(1)

	switch point {
	case "proc.run.enter", "meta.enter":
		v, _ := runners.LoadOrStore(subject, new(atomic.Int32))
		c := v.(*atomic.Int32).Add(1)
		if c > 1 {
			RunnerOverlap.Add(1)
		}
		for {
			m := runnerMaxSeen.Load()
			if c <= m || runnerMaxSeen.CompareAndSwap(m, c) {
				break
			}
		}
	case "proc.run.exit", "meta.exit":
		if v, ok := runners.Load(subject); ok {
			v.(*atomic.Int32).Add(-1)
		}
	}

	if obsActive.Load() > 0 {
		obsMu.RLock()
		obs := observers
		obsMu.RUnlock()
		for _, o := range obs {
			if o.dead.Load() || o.point != point {
				continue
			}
			if o.match == nil || o.match(subject) {
				o.fn(point, subject)
			}
		}
	}

	if gatesActive.Load() > 0 {
		gatesMu.RLock()
		gs := gates
		gatesMu.RUnlock()
		for _, g := range gs {
			if g.point != point || g.removed.Load() {
				continue
			}
			if g.match != nil && g.match(subject) == false {
				continue
			}
			g.park()
		}
	}

	if stressOn.Load() {
		p := ps.prob.Load()
		if p == 0 {
			return
		}
		r := splitmix(stressKey.Load() ^ Hash64(point) ^ uint64(n)*0x9E3779B97F4A7C15)
		if uint32(r&0xffff) >= p {
			return
		}
		ps.delays.Add(1)
		r >>= 16
		switch r & 3 {
		case 0, 1:
			runtime.Gosched()
		default:
			max := stressMax.Load()
			if max <= 0 {
				runtime.Gosched()
				return
			}
			d := time.Duration((r >> 2) % uint64(max))
			if d < time.Microsecond {
				runtime.Gosched()
				return
			}
			time.Sleep(d)
		}
	}
}

// Stress enables seeded random perturbation. probs maps a point name to the
// probability (0..1) of a yield/sleep at that point; maxSleep bounds the sleep.
func Stress(key string, probs map[string]float64, maxSleep time.Duration) {
	InstallHook()
	pointsMu.RLock()
	for _, ps := range points {
		ps.prob.Store(0)
	}
	pointsMu.RUnlock()
	for p, pr := range probs {
		v := uint32(pr * 65536)
		if v > 65536 {
			v = 65536
		}
		pstate(p).prob.Store(v)
	}
	stressMax.Store(int64(maxSleep))
	stressKey.Store(Hash64(key) ^ uint64(Seed())*0x9E3779B97F4A7C15)
	stressOn.Store(true)
}

// StressOff disables random perturbation
func StressOff() { stressOn.Store(false) }

// Hits returns how often a point has been passed
func Hits(point string) int64 { return pstate(point).hits.Load() }

// Delays returns how many perturbations were injected at a point
func Delays(point string) int64 { return pstate(point).delays.Load() }

// PointStats returns hits and delays per point
func PointStats() (map[string]int64, map[string]int64) {
	h := map[string]int64{}
	d := map[string]int64{}
	pointsMu.RLock()
	defer pointsMu.RUnlock()
	for k, ps := range points {
		if v := ps.hits.Load(); v > 0 {
			h[k] = v
		}
		if v := ps.delays.Load(); v > 0 {
			d[k] = v
		}
	}
	return h, d
}

// LiveRunners returns the number of live runner goroutines for a subject (pid or meta alias)
func LiveRunners(subject any) int {
	if v, ok := runners.Load(subject); ok {
		return int(v.(*atomic.Int32).Load())
	}
	return 0
}

// MaxRunnersSeen returns the maximum number of simultaneously live runner goroutines seen for any subject
func MaxRunnersSeen() int { return int(runnerMaxSeen.Load()) }

// Observe registers a callback invoked at (point, subject). Returns a cancel function.
// The callback must be fast and must not block.
func Observe(point string, match func(any) bool, fn func(point string, subject any)) func() {
	InstallHook()
	o := &observer{point: point, match: match, fn: fn}
	obsMu.Lock()
	observers = append(append([]*observer(nil), observers...), o)
	obsMu.Unlock()
	obsActive.Add(1)
	return func() {
		if o.dead.Swap(true) {
			return
		}
		obsActive.Add(-1)
		obsMu.Lock()
		n := make([]*observer, 0, len(observers))
		for _, x := range observers {
			if x != o {
				n = append(n, x)
			}
		}
		observers = n
		obsMu.Unlock()
	}
}

// Gate parks goroutines that arrive at (point, subject)
type Gate struct {
	point   string
	match   func(any) bool
	once    bool
	maxWait time.Duration

	arrived   chan struct{}
	release   chan struct{}
	arrivedN  atomic.Int32
	timedOut  atomic.Bool
	removed   atomic.Bool
	relOnce   sync.Once
	arrOnce   sync.Once
	passedOne atomic.Bool
}

// Park creates an active gate at point for subjects accepted by match (nil = any).
// Only the first arriving goroutine is parked (later arrivals pass) unless all is true.
func Park(point string, match func(any) bool, all bool) *Gate {
	InstallHook()
	g := &Gate{
		point:   point,
		match:   match,
		once:    !all,
		maxWait: 3 * time.Second,
		arrived: make(chan struct{}),
		release: make(chan struct{}),
	}
	gatesMu.Lock()
	gates = append(append([]*Gate(nil), gates...), g)
	gatesMu.Unlock()
	gatesActive.Add(1)
	return g
}

func (g *Gate) park() {
	if g.once && g.passedOne.Swap(true) {
		return
	}
	g.arrivedN.Add(1)
	g.arrOnce.Do(func() { close(g.arrived) })
	t := time.NewTimer(g.maxWait)
	select {
	case <-g.release:
		t.Stop()
	case <-t.C:
		g.timedOut.Store(true)
	}
}

// Arrived is closed once a goroutine has been parked at the gate
func (g *Gate) Arrived() <-chan struct{} { return g.arrived }

// WaitArrived waits until a goroutine is parked (true) or d elapsed (false)
func (g *Gate) WaitArrived(d time.Duration) bool {
	t := time.NewTimer(d)
	defer t.Stop()
	select {
	case <-g.arrived:
		return true
	case <-t.C:
		return false
	}
}

// ArrivedCount returns the number of goroutines that have parked
func (g *Gate) ArrivedCount() int { return int(g.arrivedN.Load()) }

// Release lets parked goroutines continue and deactivates the gate
func (g *Gate) Release() {
	g.relOnce.Do(func() {
		g.removed.Store(true)
		close(g.release)
		gatesActive.Add(-1)
		gatesMu.Lock()
		n := make([]*Gate, 0, len(gates))
		for _, x := range gates {
			if x != g {
				n = append(n, x)
			}
		}
		gates = n
		gatesMu.Unlock()
	})
}

// TimedOut reports whether a parked goroutine was released by the deadline
// instead of by Release (the case is then inconclusive)
func (g *Gate) TimedOut() bool { return g.timedOut.Load() }

// SetMaxWait changes the release deadline (before any arrival)
func (g *Gate) SetMaxWait(d time.Duration) *Gate { g.maxWait = d; return g }

// Eq returns a matcher for subject == v
func Eq(v any) func(any) bool { return func(s any) bool { return s == v } }

// WaitUntil polls cond until true or the deadline passes (watchdog helper; expiry means inconclusive)
func WaitUntil(d time.Duration, cond func() bool) bool {
	deadline := time.Now().Add(d)
	for i := 0; ; i++ {
		if cond() {
			return true
		}
		if time.Now().After(deadline) {
			return false
		}
		if i < 50 {
			runtime.Gosched()
		} else if i < 200 {
			time.Sleep(50 * time.Microsecond)
		} else {
			time.Sleep(time.Millisecond)
		}
	}
}
