package hk

import (
	"fmt"
	"net"
	"strings"
	"sync"
	"sync/atomic"
	"time"

	"ergo.services/ergo"
	"ergo.services/ergo/gen"
	"ergo.services/ergo/net/handshake"
	"ergo.services/ergo/net/registrar"
)

// FreePort returns a TCP port that was free a moment ago on 127.0.0.1
func FreePort() uint16 {
	l, err := net.Listen("tcp", "127.0.0.1:0")
	if err != nil {
		panic(err)
	}
	p := l.Addr().(*net.TCPAddr).Port
	l.Close()
	return uint16(p)
}

// LogLine is one captured framework log line
type LogLine struct {
	Level gen.LogLevel
	Text  string
	Src   string
}

// CapLogger captures framework log lines (panic and error level) so that
// monitors can treat an internal panic of the framework as an observation.
type CapLogger struct {
	mu     sync.Mutex
	lines  []LogLine
	Panics atomic.Int64
	Errors atomic.Int64
}

func (c *CapLogger) Log(m gen.MessageLog) {
	if m.Level != gen.LogLevelPanic && m.Level != gen.LogLevelError {
		return
	}
	if m.Level == gen.LogLevelPanic {
		c.Panics.Add(1)
	} else {
		c.Errors.Add(1)
	}
	c.mu.Lock()
	if len(c.lines) < 200 {
		c.lines = append(c.lines, LogLine{Level: m.Level, Text: fmt.Sprintf(m.Format, m.Args...), Src: fmt.Sprintf("%v", m.Source)})
	}
	c.mu.Unlock()
}
func (c *CapLogger) Terminate() {}

// Lines returns the captured lines
func (c *CapLogger) Lines() []LogLine {
	c.mu.Lock()
	defer c.mu.Unlock()
	return append([]LogLine(nil), c.lines...)
}

// PanicLines returns captured panic-level texts
func (c *CapLogger) PanicLines() []string {
	var r []string
	for _, l := range c.Lines() {
		if l.Level == gen.LogLevelPanic {
			r = append(r, l.Text)
		}
	}
	return r
}

// NodeCfg describes a harness node
type NodeCfg struct {
	Name     string // short name; "@localhost" is appended when no '@' is present
	Network  bool   // enable networking (own registrar port + one acceptor on a free port)
	Cookie   string
	PoolSize int
	RegPort  uint16 // registrar port shared by the nodes of one check process (0 = pick)
	Tweak    func(o *gen.NodeOptions)
}

// HNode is a started node plus what the harness knows about it
type HNode struct {
	gen.Node
	Cap     *CapLogger
	Port    uint16 // acceptor port (0 if networking disabled)
	RegPort uint16
	Cookie  string
}

var nodeSeq atomic.Int64

// UniqueName returns a node name unique within this OS process
func UniqueName(prefix string) string {
	return fmt.Sprintf("%s%d@localhost", prefix, nodeSeq.Add(1))
}

// StartNode starts a node. With Network=false the node runs with networking disabled.
func StartNode(cfg NodeCfg) (*HNode, error) {
	name := cfg.Name
	if name == "" {
		name = UniqueName("n")
	}
	if strings.Contains(name, "@") == false {
		name += "@localhost"
	}
	cl := &CapLogger{}
	var o gen.NodeOptions
	o.Log.DefaultLogger.Disable = true
	o.Log.Level = gen.LogLevelError
	o.Log.Loggers = []gen.Logger{{Name: "verifcap", Logger: cl}}
	h := &HNode{Cap: cl, Cookie: cfg.Cookie}
	if cfg.Network {
		if cfg.Cookie == "" {
			cfg.Cookie = "verif-cookie"
			h.Cookie = cfg.Cookie
		}
		if cfg.RegPort == 0 {
			cfg.RegPort = FreePort()
		}
		if cfg.PoolSize == 0 {
			cfg.PoolSize = 1
		}
		h.RegPort = cfg.RegPort
		o.Network.Cookie = cfg.Cookie
		o.Network.Registrar = registrar.Create(registrar.Options{Port: cfg.RegPort})
	} else {
		o.Network.Mode = gen.NetworkModeDisabled
	}
	var lastErr error
	for attempt := 0; attempt < 5; attempt++ {
		if cfg.Network {
			h.Port = FreePort()
			o.Network.Acceptors = []gen.AcceptorOptions{{
				Host:      "127.0.0.1",
				Port:      h.Port,
				PortRange: h.Port,
				Handshake: handshake.Create(handshake.Options{PoolSize: cfg.PoolSize}),
			}}
		}
		if cfg.Tweak != nil {
			cfg.Tweak(&o)
		}
		n, err := ergo.StartNode(gen.Atom(name), o)
		if err == nil {
			h.Node = n
			return h, nil
		}
		lastErr = err
		time.Sleep(20 * time.Millisecond)
	}
	return nil, lastErr
}

// Connect makes a connect to b directly via b's acceptor port
func Connect(a, b *HNode) (gen.RemoteNode, error) {
	return a.Network().GetNodeWithRoute(b.Name(), gen.NetworkRoute{
		Route:  gen.Route{Host: "127.0.0.1", Port: b.Port},
		Cookie: b.Cookie,
	})
}

// ConnectVia makes a connect to b through the given host:port (e.g. a relay in front of b)
func ConnectVia(a, b *HNode, host string, port uint16) (gen.RemoteNode, error) {
	return a.Network().GetNodeWithRoute(b.Name(), gen.NetworkRoute{
		Route:  gen.Route{Host: host, Port: port},
		Cookie: b.Cookie,
	})
}
