package p08

import (
	"errors"
	"fmt"

	"ergo.services/ergo/act"
	"ergo.services/ergo/gen"
)

// Reference model of the supervisor restart semantics.
//
// Written from the documentation comments in act/supervisor.go and the
// statement of property C08, not from the state machines:
//
//   - SupervisorTypeOneForOne: "If one child process terminates and is to be
//     restarted, only that child process is affected."
//   - SupervisorTypeAllForOne: "... all other child processes are terminated and
//     then all child processes are restarted."
//   - SupervisorTypeRestForOne: "... the 'rest' of the child processes (that is,
//     the child processes after the terminated child process in the start order)
//     are terminated. Then the terminated child process and all child processes
//     after it are restarted."
//   - SupervisorTypeSimpleOneForOne: "a simplified one_for_one supervisor, where
//     all child processes are dynamically added instances".
//   - Transient: restarted only if it terminates abnormally (reason other than
//     TerminateReasonNormal, TerminateReasonShutdown); Temporary: never
//     restarted; Permanent: always restarted.
//   - DisableAutoShutdown: without it the supervisor shuts down when no running
//     child process is left (all terminated normally or were disabled); ignored
//     for SOFO or with Permanent.
//   - Significant: ignored for SOFO or with Permanent; otherwise the termination
//     of a significant child that is not restarted ends the supervisor.
//   - DisableChild "stops the child process with TerminateReasonShutdown and
//     disables it in the supervisor spec"; EnableChild "enables the child ... and
//     attempts to start it"; StartChild "starts new child process defined in the
//     supervisor spec"; AddChild adds (and, except SOFO, starts) a child.
//   - An exit signal from a non-child / an error from a handler ends the
//     supervisor with that reason after its children have been stopped.
//
// The model tracks, per spec, how many instances are really up (fed from the
// observed starts and terminations) and how many it wants up at the next
// quiescent point. Where the documentation is silent the model does not
// predict (Lost / EitherDead).

type Phase int

const (
	PNormal   Phase = iota
	PWave           // a restart wave is stopping the children with index >= From
	PShutdown       // the supervisor is stopping all children in order to terminate
	PDead
)

func (p Phase) String() string {
	return [...]string{"normal", "restart-wave", "shutdown", "dead"}[p]
}

type MSpec struct {
	Sig      bool
	Disabled bool
	Up       int // instances running (observed)
	Want     int // instances that must be running at quiescence
}

type Model struct {
	Type      act.SupervisorType
	Strategy  act.SupervisorStrategy
	KeepOrder bool
	DAS       bool
	Specs     []MSpec

	Phase  Phase
	From   int
	Reason error // termination reason (PShutdown / PDead)

	// Lost: the documentation does not determine what must happen; semantic checks stop
	Lost    bool
	LostWhy string
	// EitherDead: with Permanent the auto-shutdown option is documented as "ignored":
	// a supervisor whose children were all disabled may or may not end
	EitherDead bool
	// ReasonSoft: do not check the termination reason
	ReasonSoft bool

	// classification helpers for violation signatures
	ExtendedWave bool // rest-for-one: a child before the range of a wave in progress died and must be restarted too
	SigInWave    bool // a significant child before the range ended (not to be restarted) while a wave was in progress
}

func NewModel(c Cfg) *Model {
	m := &Model{Type: c.Type, Strategy: c.Strategy, KeepOrder: c.KeepOrder, DAS: c.DAS}
	for i := 0; i < c.N; i++ {
		sp := MSpec{Sig: c.Sig&(1<<uint(i)) != 0}
		if c.Type != act.SupervisorTypeSimpleOneForOne {
			sp.Want = 1 // all children are started at init
		}
		m.Specs = append(m.Specs, sp)
	}
	return m
}

func (m *Model) sofo() bool { return m.Type == act.SupervisorTypeSimpleOneForOne }

func (m *Model) TotalUp() int {
	n := 0
	for _, s := range m.Specs {
		n += s.Up
	}
	return n
}

func (m *Model) sigApplies(i int) bool {
	return m.Specs[i].Sig && m.sofo() == false && m.Strategy != act.SupervisorStrategyPermanent
}

func (m *Model) lose(why string) {
	if m.Lost == false {
		m.Lost = true
		m.LostWhy = why
	}
}

// Started: an instance of spec i was started (observation)
func (m *Model) Started(i int) {
	if i >= 0 && i < len(m.Specs) {
		m.Specs[i].Up++
		if m.Phase == PWave && i >= m.From {
			// the start phase of the wave has begun; all its starts happen in this same step
			m.Phase = PNormal
			m.From = 0
		}
	}
}

// reasonClass: 0 normal/shutdown, 1 abnormal, 2 undetermined (wraps normal/shutdown)
func reasonClass(r error) int {
	if r == gen.TerminateReasonNormal || r == gen.TerminateReasonShutdown {
		return 0
	}
	if errors.Is(r, gen.TerminateReasonNormal) || errors.Is(r, gen.TerminateReasonShutdown) {
		return 2
	}
	return 1
}

func (m *Model) shutdown(reason error) {
	for i := range m.Specs {
		m.Specs[i].Want = 0
	}
	m.Phase = PShutdown
	m.Reason = reason
	if m.TotalUp() == 0 {
		m.Phase = PDead
	}
}

func (m *Model) waveMaybeDone() {
	if m.Phase != PWave {
		return
	}
	for k := m.From; k < len(m.Specs); k++ {
		if m.Specs[k].Up > 0 && m.Specs[k].Disabled == false {
			return
		}
	}
	// every (enabled) child of the range is down: the starts happen now (observed through Started)
	m.Phase = PNormal
	m.From = 0
}

func (m *Model) autoShutdown(reason error) {
	if m.TotalUp() > 0 || m.sofo() {
		return
	}
	for _, s := range m.Specs {
		if s.Want > 0 {
			return
		}
	}
	if m.Strategy == act.SupervisorStrategyPermanent {
		// "This options is ignored ... if used restart strategy SupervisorStrategyPermanent": undetermined
		m.EitherDead = true
		return
	}
	if m.DAS {
		return
	}
	m.Phase = PDead
	m.Reason = reason
}

// Term: an instance of spec i terminated with reason (delivered to the supervisor)
func (m *Model) Term(i int, reason error, disableRequested bool) {
	if i < 0 || i >= len(m.Specs) {
		return
	}
	sp := &m.Specs[i]
	if sp.Up > 0 {
		sp.Up--
	}
	if disableRequested && sp.Disabled == false && m.Phase != PShutdown && m.Phase != PDead {
		m.lose("child stopped by DisableChild but its spec was enabled again before it terminated")
		return
	}
	inWave := false
	switch m.Phase {
	case PDead:
		return
	case PShutdown:
		if m.TotalUp() == 0 {
			m.Phase = PDead
		}
		return
	case PWave:
		if i >= m.From {
			// part of the wave: it is going to be replaced whatever its reason
			m.waveMaybeDone()
			return
		}
		inWave = true // rest-for-one only: a child before the range terminated on its own
	}

	rc := reasonClass(reason)

	if m.sofo() {
		restart := false
		switch m.Strategy {
		case act.SupervisorStrategyPermanent:
			restart = true
		case act.SupervisorStrategyTransient:
			if rc == 2 {
				m.lose("transient child ended with a wrapped normal/shutdown reason")
				return
			}
			restart = rc == 1
		}
		if sp.Disabled {
			restart = false
		}
		if restart == false && sp.Want > 0 {
			sp.Want--
		}
		return
	}

	if sp.Disabled {
		// "a disabled child stays down"
		sp.Want = 0
		if inWave == false {
			m.autoShutdown(reason)
		}
		return
	}

	restart := false
	switch m.Strategy {
	case act.SupervisorStrategyPermanent:
		restart = true
	case act.SupervisorStrategyTransient:
		if rc == 2 {
			m.lose("transient child ended with a wrapped normal/shutdown reason")
			return
		}
		restart = rc == 1
	case act.SupervisorStrategyTemporary:
		restart = false
	}

	if restart {
		switch m.Type {
		case act.SupervisorTypeOneForOne:
			sp.Want = 1
		case act.SupervisorTypeAllForOne:
			m.From = 0
			m.Phase = PWave
		case act.SupervisorTypeRestForOne:
			if inWave == false || i < m.From {
				m.From = i
			}
			if inWave {
				m.ExtendedWave = true
			}
			m.Phase = PWave
		}
		if m.Phase == PWave {
			for k := m.From; k < len(m.Specs); k++ {
				if m.Specs[k].Disabled == false {
					m.Specs[k].Want = 1
				}
			}
			m.waveMaybeDone()
		}
		return
	}

	// not restarted
	sp.Want = 0
	if m.sigApplies(i) {
		if inWave {
			m.SigInWave = true
		}
		m.shutdown(reason)
		return
	}
	if inWave == false {
		m.autoShutdown(reason)
	}
}

// Foreign: exit signal from a non-child, or an error returned by a handler
func (m *Model) Foreign(reason error) {
	if m.Phase == PDead {
		return
	}
	if m.Phase == PShutdown {
		// already ending: which of the two reasons wins is not documented
		m.ReasonSoft = true
		if m.TotalUp() == 0 {
			m.Phase = PDead
		}
		return
	}
	m.shutdown(reason)
}

// Mgmt: a management call returned err. flags are the Disabled flags reported by
// Children() afterwards (nil for SOFO, whose Children() lists instances only).
// It returns a description if a nil result did not have the documented effect on the flag.
func (m *Model) Mgmt(k EvKind, i int, err error, flags []bool) string {
	if m.Phase == PShutdown || m.Phase == PDead {
		return ""
	}
	note := ""
	if k == EvAdd {
		if err == nil {
			sp := MSpec{}
			if m.sofo() == false {
				sp.Want = 1
			}
			m.Specs = append(m.Specs, sp)
		}
	} else if i >= 0 && i < len(m.Specs) {
		sp := &m.Specs[i]
		if err == nil {
			switch k {
			case EvStart:
				if m.sofo() {
					sp.Want++
				} else {
					sp.Want = 1
				}
			case EvEnable:
				if sp.Disabled {
					sp.Disabled = false
					if m.sofo() == false {
						sp.Want = 1
					}
				}
			case EvDisable:
				sp.Disabled = true
				sp.Want = 0
				if flags != nil && i < len(flags) && flags[i] == false {
					note = fmt.Sprintf("DisableChild(c%d) returned nil but Children() does not report the spec as disabled", i)
				}
			}
		}
	}
	if flags != nil {
		// take the flags as reported: a failed call may or may not have changed them
		for k := range m.Specs {
			if k < len(flags) {
				m.Specs[k].Disabled = flags[k]
			}
		}
	}
	return note
}

// Key is the model part of the state hash
func (m *Model) Key() string {
	s := fmt.Sprintf("M%d/%d/%s/%v/%v/%v/%v%v", m.Phase, m.From, Label(m.Reason), m.Lost, m.EitherDead, m.ReasonSoft, m.ExtendedWave, m.SigInWave)
	for _, sp := range m.Specs {
		s += fmt.Sprintf("|%v%v%d%d", sp.Sig, sp.Disabled, sp.Up, sp.Want)
	}
	return s
}
