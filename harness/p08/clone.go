package p08

import (
	"reflect"
	"unsafe"

	"ergo.services/ergo/act"
	"ergo.services/ergo/gen"
)

// Cloning of the real state machine (a performance device of the explorer:
// branch from a state without replaying its history). The copy is a generic,
// pointer-identity preserving deep copy done with reflection. Because a wrong
// copy could fabricate behaviour, (1) SelfTestClone compares clone+step with
// replay+step before cloning is used, and (2) every violation found on a cloned
// state is confirmed by replaying its history on a fresh machine before it is
// reported.

const actPkg = "ergo.services/ergo/act"

func rw(v reflect.Value) reflect.Value {
	if v.CanAddr() == false {
		return v
	}
	return reflect.NewAt(v.Type(), unsafe.Pointer(v.UnsafeAddr())).Elem()
}

func deepCopyInto(dst, src reflect.Value, memo map[uintptr]reflect.Value) {
	switch src.Kind() {
	case reflect.Ptr:
		if src.IsNil() {
			return
		}
		et := src.Type().Elem()
		if et.PkgPath() != actPkg {
			dst.Set(src) // shared (errors, foreign objects)
			return
		}
		if n, ok := memo[src.Pointer()]; ok {
			dst.Set(n)
			return
		}
		n := reflect.New(et)
		memo[src.Pointer()] = n
		deepCopyInto(n.Elem(), src.Elem(), memo)
		dst.Set(n)
	case reflect.Interface:
		if src.IsNil() {
			return
		}
		e := src.Elem()
		if e.Kind() == reflect.Ptr && e.Type().Elem().PkgPath() == actPkg {
			if n, ok := memo[e.Pointer()]; ok {
				dst.Set(n)
				return
			}
			n := reflect.New(e.Type().Elem())
			memo[e.Pointer()] = n
			deepCopyInto(n.Elem(), reflect.NewAt(e.Type().Elem(), unsafe.Pointer(e.Pointer())).Elem(), memo)
			dst.Set(n)
			return
		}
		dst.Set(src)
	case reflect.Struct:
		if src.Type().PkgPath() != actPkg {
			dst.Set(src)
			return
		}
		for i := 0; i < src.NumField(); i++ {
			deepCopyInto(rw(dst.Field(i)), rw(src.Field(i)), memo)
		}
	case reflect.Map:
		if src.IsNil() {
			return
		}
		n := reflect.MakeMapWithSize(src.Type(), src.Len())
		it := src.MapRange()
		for it.Next() {
			v := it.Value()
			nv := reflect.New(v.Type()).Elem()
			// map values are not addressable: copy through a temporary
			tmp := reflect.New(v.Type()).Elem()
			tmp.Set(v)
			deepCopyInto(nv, tmp, memo)
			n.SetMapIndex(it.Key(), nv)
		}
		dst.Set(n)
	case reflect.Slice:
		if src.IsNil() {
			return
		}
		n := reflect.MakeSlice(src.Type(), src.Len(), src.Len())
		for i := 0; i < src.Len(); i++ {
			deepCopyInto(n.Index(i), rw(src.Index(i)), memo)
		}
		dst.Set(n)
	default:
		dst.Set(src)
	}
}

func cloneSup(s *act.VerifSup) *act.VerifSup {
	n := &act.VerifSup{}
	memo := map[uintptr]reflect.Value{}
	deepCopyInto(reflect.ValueOf(n).Elem(), reflect.ValueOf(s).Elem(), memo)
	return n
}

// Clone copies the simulator including the real state machine
func (s *Sim) Clone() *Sim {
	n := *s
	n.Sup = cloneSup(s.Sup)
	n.Names = append([]gen.Atom(nil), s.Names...)
	n.Procs = make([]*Proc, len(s.Procs))
	n.byPID = make(map[gen.PID]*Proc, len(s.Procs))
	for i, p := range s.Procs {
		c := *p
		n.Procs[i] = &c
		n.byPID[c.PID] = &c
	}
	n.Trace = append([]string(nil), s.Trace...)
	return &n
}

func (m *Model) Clone() *Model {
	n := *m
	n.Specs = append([]MSpec(nil), m.Specs...)
	return &n
}

func (r *Run) Clone() *Run {
	n := *r
	n.Sim = r.Sim.Clone()
	n.M = r.M.Clone()
	n.V = append([]Viol(nil), r.V...)
	n.Soft = nil
	n.Path = append([]Ev(nil), r.Path...)
	n.diedPending = make(map[int]bool, len(r.diedPending))
	for k, v := range r.diedPending {
		n.diedPending[k] = v
	}
	n.disableReq = make(map[gen.PID]bool, len(r.disableReq))
	for k, v := range r.disableReq {
		n.disableReq[k] = v
	}
	return &n
}
