// Package p08 is shared by the C08 and C09 monitors: a simulator that plays
// the node around the real supervisor restart state machines (exported by
// /repo/act/verif_export.go under build tag verif), a reference model written
// from the documentation comments of act/supervisor.go and the property
// statement, and a small-scope exhaustive explorer.
package p08

import (
	"errors"
	"fmt"
	"reflect"
	"sort"
	"strings"
	"sync"
	"sync/atomic"

	"ergo.services/ergo/act"
	"ergo.services/ergo/gen"
)

// Cfg is one supervisor configuration
type Cfg struct {
	Type      act.SupervisorType
	Strategy  act.SupervisorStrategy
	KeepOrder bool
	N         int    // number of child specs
	Sig       uint32 // bit i: child i is significant
	DAS       bool   // DisableAutoShutdown
	Intensity uint16
	Period    uint16
}

func TypeShort(t act.SupervisorType) string {
	switch t {
	case act.SupervisorTypeOneForOne:
		return "OFO"
	case act.SupervisorTypeAllForOne:
		return "AFO"
	case act.SupervisorTypeRestForOne:
		return "RFO"
	case act.SupervisorTypeSimpleOneForOne:
		return "SOFO"
	}
	return "?"
}

func StrategyShort(s act.SupervisorStrategy) string {
	switch s {
	case act.SupervisorStrategyPermanent:
		return "perm"
	case act.SupervisorStrategyTransient:
		return "trans"
	case act.SupervisorStrategyTemporary:
		return "temp"
	}
	return "?"
}

func (c Cfg) ID() string {
	return fmt.Sprintf("%s/%s/ko=%v/n=%d/sig=%b/das=%v", TypeShort(c.Type), StrategyShort(c.Strategy), c.KeepOrder, c.N, c.Sig, c.DAS)
}

func (c Cfg) Spec() act.SupervisorSpec {
	var s act.SupervisorSpec
	s.Type = c.Type
	s.Restart.Strategy = c.Strategy
	s.Restart.KeepOrder = c.KeepOrder
	s.Restart.Intensity = c.Intensity
	s.Restart.Period = c.Period
	s.DisableAutoShutdown = c.DAS
	for i := 0; i < c.N; i++ {
		s.Children = append(s.Children, ChildSpec(i, c.Sig&(1<<uint(i)) != 0))
	}
	return s
}

func dummyFactory() gen.ProcessBehavior { return nil }

func SpecName(i int) gen.Atom { return gen.Atom(fmt.Sprintf("c%d", i)) }

func ChildSpec(i int, significant bool) act.SupervisorChildSpec {
	return act.SupervisorChildSpec{Name: SpecName(i), Significant: significant, Factory: dummyFactory}
}

// ---------------------------------------------------------------------------
// reasons (interned, so that state hashing can label them)

var (
	ErrCrash   = errors.New("crash")
	ErrForeign = errors.New("foreign-exit")
	ErrSelf    = errors.New("handler-error")

	labelMu   sync.Mutex                        // serialises writers
	labelsPtr atomic.Pointer[map[uintptr]string] // copy-on-write: readers never lock
	wrapPtr   atomic.Pointer[map[string]error]
)

func labelOf(p uintptr) (string, bool) {
	m := labelsPtr.Load()
	if m == nil {
		return "", false
	}
	l, ok := (*m)[p]
	return l, ok
}

func setLabel(p uintptr, l string) {
	old := labelsPtr.Load()
	n := map[uintptr]string{}
	if old != nil {
		for k, v := range *old {
			n[k] = v
		}
	}
	n[p] = l
	labelsPtr.Store(&n)
}

func regLabel(e error, l string) {
	v := reflect.ValueOf(e)
	if v.Kind() == reflect.Ptr {
		labelMu.Lock()
		setLabel(v.Pointer(), l)
		labelMu.Unlock()
	}
}

func init() {
	regLabel(gen.TerminateReasonNormal, "normal")
	regLabel(gen.TerminateReasonShutdown, "shutdown")
	regLabel(gen.TerminateReasonKill, "kill")
	regLabel(gen.TerminateReasonPanic, "panic")
	regLabel(ErrCrash, "crash")
	regLabel(ErrForeign, "foreign")
	regLabel(ErrSelf, "self")
	regLabel(act.ErrSupervisorRestartsExceeded, "exceeded")
	regLabel(gen.ErrTaken, "taken")
}

// Label returns the label of an interned reason
func Label(e error) string {
	if e == nil {
		return "nil"
	}
	v := reflect.ValueOf(e)
	if v.Kind() == reflect.Ptr {
		if l, ok := labelOf(v.Pointer()); ok {
			return l
		}
	}
	return "?" + e.Error()
}

// Wrap mirrors what an act.Actor child does with an exit signal from its
// parent: it terminates with fmt.Errorf("%s: %w", exit.PID, exit.Reason)
// (act/actor.go). Wrapped reasons are interned.
func Wrap(reason error) error {
	l := "w(" + Label(reason) + ")"
	if m := wrapPtr.Load(); m != nil {
		if e, ok := (*m)[l]; ok {
			return e
		}
	}
	labelMu.Lock()
	defer labelMu.Unlock()
	old := wrapPtr.Load()
	n := map[string]error{}
	if old != nil {
		if e, ok := (*old)[l]; ok {
			return e
		}
		for k, v := range *old {
			n[k] = v
		}
	}
	e := fmt.Errorf("<sup>: %w", reason)
	n[l] = e
	if v := reflect.ValueOf(e); v.Kind() == reflect.Ptr {
		setLabel(v.Pointer(), l)
	}
	wrapPtr.Store(&n)
	return e
}

// reason classes of spontaneous deaths
const (
	RNormal = iota
	RShutdown
	RCrash
)

func ReasonOf(class int) error {
	switch class {
	case RNormal:
		return gen.TerminateReasonNormal
	case RShutdown:
		return gen.TerminateReasonShutdown
	}
	return ErrCrash
}

// ---------------------------------------------------------------------------
// events of the environment

type EvKind int

const (
	EvDie        EvKind = iota // spontaneous termination of a live child: P = proc seq, R = reason class
	EvDeliver                  // an exit-requested child terminates (with the wrapped requested reason): P
	EvForeignPID               // exit signal from a process that is not a child (name "", foreign pid)
	EvSelfErr                  // a handler of the supervisor returned an error / exit from alias,event,name,node link (own name+pid)
	EvStart                    // StartChild(spec S)
	EvEnable                   // EnableChild(spec S)
	EvDisable                  // DisableChild(spec S)
	EvAdd                      // AddChild(new spec)
	EvAge                      // virtual clock advance by R milliseconds (C09)
)

type Ev struct {
	K EvKind
	P int
	S int
	R int
}

func (e Ev) String() string {
	switch e.K {
	case EvDie:
		return fmt.Sprintf("die(#%d,%s)", e.P, Label(ReasonOf(e.R)))
	case EvDeliver:
		return fmt.Sprintf("stopped(#%d)", e.P)
	case EvForeignPID:
		return "foreign-exit"
	case EvSelfErr:
		return "self-error"
	case EvStart:
		return fmt.Sprintf("StartChild(c%d)", e.S)
	case EvEnable:
		return fmt.Sprintf("EnableChild(c%d)", e.S)
	case EvDisable:
		return fmt.Sprintf("DisableChild(c%d)", e.S)
	case EvAdd:
		return "AddChild"
	case EvAge:
		return fmt.Sprintf("age(%dms)", e.R)
	}
	return "?"
}

func (e Ev) IsMgmt() bool { return e.K >= EvStart && e.K <= EvAdd }

// ---------------------------------------------------------------------------
// the simulated node around the real state machine

type Proc struct {
	PID        gen.PID
	SpecI      int
	Name       gen.Atom
	Seq        int
	Alive      bool
	ExitReq    bool
	ExitReason error
}

// StepObs is what the simulated node saw the machine do in reaction to one event
type StepObs struct {
	Starts      []int       // spec indices started, in order
	StartPIDs   []gen.PID   //
	Stops       [][]gen.PID // each terminate-children action
	StopReasons []error
	StopUnknown int  // exit requests to pids that are not live children
	SpawnErr    bool // a start action for a registered spec whose previous instance is still alive (ErrTaken)
	SpawnErrI   int
	Panic       any
	BadAction   int // Do value the real handleAction does not know (it would panic)
	Terminated  bool
	Reason      error
	LiveAtTerm  int   // children alive and not exit-requested when the supervisor terminated
	MgmtErr     error // result of the management call
	Calls       int   // machine calls made
}

type Sim struct {
	Cfg     Cfg
	Sup     *act.VerifSup
	SupName gen.Atom
	SupPID  gen.PID
	Foreign gen.PID

	Names []gen.Atom // spec names by index
	Procs []*Proc    // every process ever started
	byPID map[gen.PID]*Proc

	Dead       bool
	DeadReason error
	Panicked   bool
	Trace      []string
	Tracing    bool
	Calls      int
	nextID     uint64
}

const nodeName = gen.Atom("sim@localhost")

// NewSim creates the machine and performs what Supervisor.ProcessInit does
func NewSim(cfg Cfg, tracing bool) (*Sim, StepObs, error) {
	s := &Sim{Cfg: cfg, byPID: map[gen.PID]*Proc{}, nextID: 1000, Tracing: tracing}
	s.Sup = act.VerifNewSup(cfg.Type)
	s.SupName = "sup"
	s.SupPID = gen.PID{Node: nodeName, ID: 900, Creation: 1}
	s.Foreign = gen.PID{Node: nodeName, ID: 901, Creation: 1}
	for i := 0; i < cfg.N; i++ {
		s.Names = append(s.Names, SpecName(i))
	}
	var obs StepObs
	var a act.VerifSupAction
	var err error
	s.guard(&obs, func() { a, err = s.Sup.Init(cfg.Spec()); obs.Calls++ })
	if err != nil || obs.Panic != nil {
		return s, obs, err
	}
	herr := s.handle(a, &obs)
	if herr != nil {
		// ProcessInit fails
		s.Dead = true
		s.DeadReason = herr
		obs.Terminated = true
		obs.Reason = herr
	}
	s.Calls += obs.Calls
	return s, obs, nil
}

func (s *Sim) tracef(format string, a ...any) {
	if s.Tracing {
		s.Trace = append(s.Trace, fmt.Sprintf(format, a...))
	}
}

func (s *Sim) guard(obs *StepObs, f func()) {
	defer func() {
		if r := recover(); r != nil {
			obs.Panic = r
			s.Panicked = true
		}
	}()
	f()
}

func (s *Sim) specIndex(name gen.Atom) int {
	for i, n := range s.Names {
		if n == name {
			return i
		}
	}
	return -1
}

// Live returns live processes of spec i (all if i < 0) in creation order
func (s *Sim) Live(i int) []*Proc {
	var r []*Proc
	for _, p := range s.Procs {
		if p.Alive && (i < 0 || p.SpecI == i) {
			r = append(r, p)
		}
	}
	return r
}

// Pending returns live processes that have been asked to exit
func (s *Sim) Pending() []*Proc {
	var r []*Proc
	for _, p := range s.Procs {
		if p.Alive && p.ExitReq {
			r = append(r, p)
		}
	}
	return r
}

func (s *Sim) Quiescent() bool { return len(s.Pending()) == 0 }

// handle mirrors Supervisor.handleAction (act/supervisor.go)
func (s *Sim) handle(a act.VerifSupAction, obs *StepObs) error {
	for {
		switch a.Do {
		case 0:
			return nil
		case 1:
			i := s.specIndex(a.SpecName)
			if s.Cfg.Type != act.SupervisorTypeSimpleOneForOne && i >= 0 && len(s.Live(i)) > 0 {
				// SpawnRegister(name) while the previous instance still holds the name
				obs.SpawnErr = true
				obs.SpawnErrI = i
				return gen.ErrTaken
			}
			s.nextID++
			pid := gen.PID{Node: nodeName, ID: s.nextID, Creation: 1}
			p := &Proc{PID: pid, SpecI: i, Name: a.SpecName, Seq: len(s.Procs), Alive: true}
			s.Procs = append(s.Procs, p)
			s.byPID[pid] = p
			obs.Starts = append(obs.Starts, i)
			obs.StartPIDs = append(obs.StartPIDs, pid)
			s.tracef("  -> start %s as #%d", a.SpecName, p.Seq)
			var next act.VerifSupAction
			s.guard(obs, func() { next = s.Sup.ChildStarted(a, pid); obs.Calls++ })
			if obs.Panic != nil {
				return nil
			}
			a = next
			continue
		case 2:
			if len(a.Terminate) == 0 {
				return a.Reason
			}
			var names []string
			for _, pid := range a.Terminate {
				p := s.byPID[pid]
				if p == nil || p.Alive == false {
					obs.StopUnknown++ // SendExit returns an error, which is ignored
					if s.Tracing {
						names = append(names, "dead/unknown")
					}
					continue
				}
				if s.Tracing {
					names = append(names, fmt.Sprintf("#%d", p.Seq))
				}
				if p.ExitReq == false {
					p.ExitReq = true
					p.ExitReason = a.Reason
				}
			}
			obs.Stops = append(obs.Stops, append([]gen.PID(nil), a.Terminate...))
			obs.StopReasons = append(obs.StopReasons, a.Reason)
			s.tracef("  -> send exit(%s) to %s", Label(a.Reason), strings.Join(names, ","))
			return nil
		case 4:
			return a.Reason
		default:
			obs.BadAction = a.Do
			return nil
		}
	}
}

func (s *Sim) terminate(reason error, obs *StepObs) {
	s.Dead = true
	s.DeadReason = reason
	obs.Terminated = true
	obs.Reason = reason
	for _, p := range s.Live(-1) {
		if p.ExitReq == false {
			obs.LiveAtTerm++
		}
	}
	s.tracef("  -> supervisor terminates with %s", Label(reason))
}

// inExit mirrors the exit branch of Supervisor.ProcessRun
func (s *Sim) inExit(name gen.Atom, pid gen.PID, reason error, obs *StepObs) {
	var a act.VerifSupAction
	s.guard(obs, func() { a = s.Sup.ChildTerminated(name, pid, reason); obs.Calls++ })
	if obs.Panic != nil {
		s.tracef("  -> PANIC %v", obs.Panic)
		return
	}
	if err := s.handle(a, obs); err != nil {
		s.terminate(err, obs)
	}
	if obs.Panic != nil {
		s.tracef("  -> PANIC %v", obs.Panic)
	}
}

// Enabled lists the events the environment can produce now
func (s *Sim) Enabled(opt EnumOpt) []Ev {
	var evs []Ev
	if s.Dead || s.Panicked {
		return nil
	}
	for _, p := range s.Procs {
		if p.Alive == false {
			continue
		}
		if p.ExitReq {
			evs = append(evs, Ev{K: EvDeliver, P: p.Seq})
			continue
		}
		for r := RNormal; r <= RCrash; r++ {
			evs = append(evs, Ev{K: EvDie, P: p.Seq, R: r})
		}
	}
	evs = append(evs, Ev{K: EvForeignPID}, Ev{K: EvSelfErr})
	if opt.Mgmt {
		sofo := s.Cfg.Type == act.SupervisorTypeSimpleOneForOne
		for i := range s.Names {
			if sofo && len(s.Live(-1)) >= opt.MaxInst {
				// bound the number of dynamic instances
			} else {
				evs = append(evs, Ev{K: EvStart, S: i})
			}
			evs = append(evs, Ev{K: EvEnable, S: i}, Ev{K: EvDisable, S: i})
		}
		if len(s.Names) == s.Cfg.N && len(s.Names) < opt.MaxSpecs {
			evs = append(evs, Ev{K: EvAdd})
		}
	}
	return evs
}

type EnumOpt struct {
	Mgmt     bool
	MaxInst  int
	MaxSpecs int
}

func (s *Sim) proc(seq int) *Proc {
	if seq < 0 || seq >= len(s.Procs) {
		return nil
	}
	return s.Procs[seq]
}

// Apply performs one environment event. ok=false: the event is not possible now.
func (s *Sim) Apply(e Ev) (obs StepObs, ok bool) {
	if s.Dead || s.Panicked {
		return obs, false
	}
	if s.Tracing {
		s.Trace = append(s.Trace, e.String())
	}
	defer func() { s.Calls += obs.Calls }()
	switch e.K {
	case EvDie, EvDeliver:
		p := s.proc(e.P)
		if p == nil || p.Alive == false {
			return obs, false
		}
		var reason error
		if e.K == EvDeliver {
			if p.ExitReq == false {
				return obs, false
			}
			reason = Wrap(p.ExitReason)
		} else {
			reason = ReasonOf(e.R)
		}
		p.Alive = false
		s.inExit(p.Name, p.PID, reason, &obs)
	case EvForeignPID:
		// MessageExitPID from a pid that is not in Supervisor.children: name is the zero Atom
		s.inExit("", s.Foreign, ErrForeign, &obs)
	case EvSelfErr:
		s.inExit(s.SupName, s.SupPID, ErrSelf, &obs)
	case EvStart, EvEnable, EvDisable, EvAdd:
		var a act.VerifSupAction
		var err error
		s.guard(&obs, func() {
			obs.Calls++
			switch e.K {
			case EvStart:
				a, err = s.Sup.ChildSpec(s.name(e.S))
			case EvEnable:
				a, err = s.Sup.ChildEnable(s.name(e.S))
			case EvDisable:
				a, err = s.Sup.ChildDisable(s.name(e.S))
			case EvAdd:
				i := len(s.Names)
				a, err = s.Sup.ChildAddSpec(ChildSpec(i, false))
				if err == nil {
					s.Names = append(s.Names, SpecName(i))
				}
			}
		})
		if obs.Panic != nil {
			s.tracef("  -> PANIC %v", obs.Panic)
			return obs, true
		}
		if err == nil {
			// the error of handleAction is returned to the caller of the API, the supervisor goes on
			err = s.handle(a, &obs)
		}
		obs.MgmtErr = err
		if err != nil {
			s.tracef("  -> returns error %q", err.Error())
		}
	case EvAge:
		s.Sup.AgeRestarts(int64(e.R))
	}
	return obs, true
}

func (s *Sim) name(i int) gen.Atom {
	if i >= 0 && i < len(s.Names) {
		return s.Names[i]
	}
	return gen.Atom(fmt.Sprintf("c%d", i))
}

// Children returns the machine's view, guarded
func (s *Sim) Children() (c []act.SupervisorChild, panicked any) {
	defer func() {
		if r := recover(); r != nil {
			panicked = r
		}
	}()
	return s.Sup.Children(), nil
}

// SortedLive returns live pids sorted by ID
func (s *Sim) SortedLive() []gen.PID {
	var r []gen.PID
	for _, p := range s.Live(-1) {
		r = append(r, p.PID)
	}
	sort.Slice(r, func(i, j int) bool { return r[i].ID < r[j].ID })
	return r
}
