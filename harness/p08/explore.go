package p08

import (
	"fmt"
	"math/rand"
	"sort"
	"strings"

	"ergo.services/ergo/act"
	"ergo.services/ergo/gen"
)

// Viol is one disagreement between the real state machine and the reference
type Viol struct {
	Sig   string
	What  string
	Trace []string
	Path  []Ev
}

// Run is simulator + model + oracles for one history
type Run struct {
	Cfg Cfg
	Sim *Sim
	M   *Model
	V   []Viol
	// Soft: disagreements after which the reference can follow the implementation (it takes the
	// observed result); they are reported but do not end the exploration of the history
	Soft []Viol

	// measured non-triviality
	DeathWhilePending int // spontaneous deaths / foreign exits delivered while exit requests were pending
	MgmtWhilePending  int // management calls while exit requests were pending
	Path              []Ev

	disableReq  map[gen.PID]bool // pids asked to exit by DisableChild
	diedPending map[int]bool     // specs whose instance died on its own while exit requests were pending (since the last clean quiescence)
	sigPending  bool             // ... and one of them was a significant child
	shutdownSeq int              // number of processes started when the reference began to end the supervisor (-1: not ending)
	idleBefore  bool             // the previous event ended in a quiescent state with the reference in phase normal
}

func (r *Run) soft(sig, format string, a ...any) {
	for _, v := range r.Soft {
		if v.Sig == sig {
			return
		}
	}
	r.Soft = append(r.Soft, Viol{Sig: sig, What: fmt.Sprintf(format, a...), Path: append([]Ev(nil), r.Path...)})
}

func (r *Run) viol(sig, format string, a ...any) {
	r.V = append(r.V, Viol{Sig: sig, What: fmt.Sprintf(format, a...)})
}

// family names the state machine the configuration runs on
func (r *Run) family() string {
	switch r.Cfg.Type {
	case act.SupervisorTypeAllForOne, act.SupervisorTypeRestForOne:
		return "ARFO"
	}
	return TypeShort(r.Cfg.Type)
}

func (r *Run) familyKO() string {
	s := r.family()
	if r.Cfg.KeepOrder && s == "ARFO" {
		s += "-keeporder"
	}
	return s
}

func (r *Run) typeKO() string {
	s := TypeShort(r.Cfg.Type)
	if r.Cfg.KeepOrder && r.family() == "ARFO" {
		s += "-keeporder"
	}
	return s
}

// NewRun performs the supervisor initialisation and checks the initial state
func NewRun(cfg Cfg, tracing bool) *Run {
	r := &Run{Cfg: cfg, M: NewModel(cfg), disableReq: map[gen.PID]bool{}, diedPending: map[int]bool{}, shutdownSeq: -1}
	sim, obs, err := NewSim(cfg, tracing)
	r.Sim = sim
	if err != nil {
		r.viol("init-error", "init returned %v", err)
		return r
	}
	r.after(Ev{K: -1}, obs, PNormal)
	return r
}

func (r *Run) flags() []bool {
	if r.Cfg.Type == act.SupervisorTypeSimpleOneForOne {
		return nil
	}
	c, p := r.Sim.Children()
	if p != nil {
		return nil
	}
	f := make([]bool, len(c))
	for i := range c {
		f[i] = c[i].Disabled
	}
	return f
}

// Step applies one environment event and all oracles. ok=false: event impossible.
func (r *Run) Step(e Ev) bool {
	if len(r.V) > 0 {
		return false
	}
	s := r.Sim
	pending := len(s.Pending()) > 0
	var victim *Proc
	if e.K == EvDie || e.K == EvDeliver {
		victim = s.proc(e.P)
		if victim == nil || victim.Alive == false || (e.K == EvDeliver && victim.ExitReq == false) {
			return false
		}
	}
	var victimReason error
	if victim != nil {
		if e.K == EvDeliver {
			victimReason = Wrap(victim.ExitReason)
		} else {
			victimReason = ReasonOf(e.R)
		}
	}
	phase0 := r.M.Phase
	obs, ok := s.Apply(e)
	if ok == false {
		return false
	}
	r.Path = append(r.Path, e)
	if pending {
		if e.K == EvDie || e.K == EvForeignPID || e.K == EvSelfErr {
			r.DeathWhilePending++
		}
		if e.K == EvDie && r.Cfg.Type == act.SupervisorTypeRestForOne {
			r.diedPending[victim.SpecI] = true
			if r.M.sigApplies(victim.SpecI) {
				r.sigPending = true
			}
		}
		if e.IsMgmt() {
			r.MgmtWhilePending++
		}
	}
	// feed the model
	switch e.K {
	case EvDie, EvDeliver:
		r.M.Term(victim.SpecI, victimReason, r.disableReq[victim.PID])
	case EvForeignPID:
		r.M.Foreign(ErrForeign)
	case EvSelfErr:
		r.M.Foreign(ErrSelf)
	}
	r.after(e, obs, phase0)
	return true
}

// after runs the step oracles and, at quiescence, the state oracles
func (r *Run) after(e Ev, obs StepObs, phase0 Phase) {
	s, m := r.Sim, r.M
	// ---- a panic inside the state machine: the supervisor ends with an internal panic reason
	if obs.Panic != nil {
		r.viol("machine-panic:"+r.familyKO()+":"+strings.ReplaceAll(fmt.Sprint(obs.Panic), " ", "-"), "the restart state machine panicked (%v) in reaction to %s; Supervisor.ProcessRun recovers and ends the supervisor with TerminateReasonPanic", obs.Panic, e)
		return
	}
	if obs.BadAction != 0 {
		r.viol("unknown-action:"+r.familyKO(), "the state machine returned action %d which Supervisor.handleAction answers with panic(\"unknown supAction\")", obs.BadAction)
		return
	}
	phase := m.Phase // phase after the model consumed the event = phase in which the reaction happens
	exitCtx := e.K == EvDie || e.K == EvDeliver || e.K == EvForeignPID || e.K == EvSelfErr

	if (m.Phase == PShutdown || m.Phase == PDead) && r.shutdownSeq < 0 {
		r.shutdownSeq = len(s.Procs) - len(obs.Starts)
	}
	if e.IsMgmt() && (phase0 == PShutdown || phase0 == PDead) && len(obs.Starts) > 0 {
		m.lose("a management call started a child while the supervisor was ending")
	}
	// ---- management results
	disabledBefore := make([]bool, len(m.Specs)+1)
	for i, sp := range m.Specs {
		disabledBefore[i] = sp.Disabled
	}
	mgmtNote := ""
	if e.IsMgmt() {
		mgmtNote = m.Mgmt(e.K, e.S, obs.MgmtErr, r.flags())
		if e.K == EvDisable {
			for _, pids := range obs.Stops {
				for _, pid := range pids {
					r.disableReq[pid] = true
				}
			}
		}
	}
	// ---- starts
	for k, i := range obs.Starts {
		if k > 0 && obs.Starts[k-1] >= i {
			r.viol("start-order:"+r.family(), "children started in the order %v, not in spec order", obs.Starts)
		}
		if i >= 0 && i < len(disabledBefore) && disabledBefore[i] && e.K != EvEnable && m.Lost == false && phase != PShutdown && phase != PDead {
			r.viol("disabled-child-started:"+r.family(), "disabled child c%d was started in reaction to %s", i, e)
		}
		m.Started(i)
	}
	if obs.SpawnErr && exitCtx {
		r.viol("restart-while-old-instance-alive:"+r.family(), "in reaction to %s the machine asked to start c%d although its previous instance has not terminated yet (SpawnRegister fails with ErrTaken and the supervisor terminates with it)", e, obs.SpawnErrI)
	}

	if e.IsMgmt() {
		if mgmtNote != "" && m.Lost == false {
			r.soft("disable-returns-nil-without-disabling:"+r.family(), "%s", mgmtNote)
		}
		if obs.MgmtErr == act.ErrSupervisorStrategyActive && phase0 == PNormal && s.Quiescent() && len(obs.Stops) == 0 && m.Lost == false && r.idleBefore {
			r.soft("strategy-active-while-idle:"+r.family(), "%s returned ErrSupervisorStrategyActive although no restart is in progress (no exit request pending, every wanted child running)", e)
		}
	}

	// ---- stop requests
	if m.Lost == false {
		for k, pids := range obs.Stops {
			var idx []int
			for _, pid := range pids {
				if p := s.byPID[pid]; p != nil {
					idx = append(idx, p.SpecI)
				}
			}
			if e.K == EvDisable {
				continue
			}
			switch phase {
			case PNormal:
				if exitCtx && phase0 != PWave {
					r.viol("sibling-stopped-without-restart:"+r.typeKO()+":"+StrategyShort(r.Cfg.Strategy), "in reaction to %s the supervisor stopped children %v although this termination neither restarts nor ends anything", e, idx)
				}
			case PWave:
				for _, i := range idx {
					if i < m.From {
						r.viol("stopped-child-before-restart-range:"+r.typeKO(), "restart wave from c%d stopped c%d", m.From, i)
					}
				}
				if r.Cfg.KeepOrder {
					if len(pids) != 1 {
						r.viol("keeporder-stops-several:"+r.typeKO(), "KeepOrder: one action stopped %v", idx)
					} else if k == 0 {
						r.checkKeepOrder(pids[0])
					}
				}
			}
		}
	}

	// ---- supervisor termination
	if s.Dead {
		if m.Lost {
			return
		}
		liveAtTerm := 0
		for _, p := range s.Live(-1) {
			if p.ExitReq == false && (r.shutdownSeq < 0 || p.Seq < r.shutdownSeq) {
				liveAtTerm++
			}
		}
		if liveAtTerm > 0 {
			r.viol("terminated-with-running-children:"+r.family(), "supervisor terminated (%s) while %d children were running and had not been asked to exit", Label(s.DeadReason), liveAtTerm)
		}
		if s.DeadReason == gen.TerminateReasonPanic {
			r.viol("ends-with-panic-reason:"+r.family(), "supervisor terminated with the internal panic reason")
			return
		}
		if m.Phase != PDead {
			if m.EitherDead && m.TotalUp() == 0 {
				return
			}
			r.viol("terminated-unexpectedly:"+r.typeKO()+":"+StrategyShort(r.Cfg.Strategy), "supervisor terminated with %s in reaction to %s; the reference is in phase %s and wants %s", Label(s.DeadReason), e, m.Phase, r.wantString())
			return
		}
		if m.ReasonSoft == false && s.DeadReason != m.Reason {
			r.viol("terminate-reason:"+r.family(), "supervisor terminated with %s, reference: %s", Label(s.DeadReason), Label(m.Reason))
		}
		return
	}

	r.idleBefore = false
	if s.Quiescent() == false {
		return
	}
	// ---- quiescence: no pending exit request, no pending action
	children, p := s.Children()
	if p != nil {
		r.viol("children-panic:"+r.family(), "Children() panicked: %v", p)
		return
	}
	r.checkChildrenList(children)
	if m.Lost {
		return
	}
	if m.Phase == PDead || m.Phase == PShutdown {
		if m.Phase == PDead && m.EitherDead {
			// undetermined
		} else if m.SigInWave || r.sigPending {
			r.viol("rfo-significant-exit-during-stop-phase-ignored", "rest-for-one: a significant child before the restart range ended (%s, not to be restarted) while the supervisor was stopping the range; the supervisor neither ended nor noticed it (running: %s)", Label(m.Reason), r.upString())
			return
		} else if m.Phase == PDead {
			lbl := Label(m.Reason)
			if lbl == "foreign" || lbl == "self" {
				lbl = "external"
			}
			r.viol("not-terminated:"+r.typeKO()+":"+lbl, "supervisor is still alive at quiescence; the reference ended with reason %s (children running: %s)", Label(m.Reason), r.upString())
			return
		} else {
			r.viol("shutdown-stalled:"+r.typeKO(), "supervisor is ending (%s) but children %s are running and none has been asked to exit", Label(m.Reason), r.upString())
			return
		}
	}
	if m.Phase == PWave {
		r.viol("restart-wave-stalled:"+r.typeKO(), "restart wave from c%d: children %s still running and none has been asked to exit", m.From, r.upString())
		return
	}
	for i, sp := range m.Specs {
		up := len(s.Live(i))
		if sp.Disabled && up > 0 {
			r.viol("disabled-child-running:"+r.family(), "c%d is disabled but has %d running instance(s)", i, up)
		}
		if up != sp.Want {
			if up < sp.Want && (m.ExtendedWave || r.diedPending[i]) {
				r.viol("rfo-child-before-range-died-during-stop-phase-not-restarted", "rest-for-one: c%d (not one of the children the supervisor was waiting for) terminated while the supervisor was stopping children for a restart and is to be restarted, but it stays down: running %s, wanted %s", i, r.upString(), r.wantString())
				continue
			}
			kind := "missing"
			if up > sp.Want {
				kind = "unexpected"
			}
			r.viol(fmt.Sprintf("child-%s:%s:%s", kind, r.typeKO(), StrategyShort(r.Cfg.Strategy)), "at quiescence c%d has %d running instance(s), the reference wants %d (after %s; running: %s, wanted: %s)", i, up, sp.Want, e, r.upString(), r.wantString())
		}
	}
	if len(r.V) == 0 {
		m.ExtendedWave = false
		if len(r.diedPending) > 0 {
			r.diedPending = map[int]bool{}
		}
		r.sigPending = false
	}
	if m.Phase == PNormal {
		r.idleBefore = true
	}
}

func (r *Run) upString() string {
	var a []string
	for i := range r.Sim.Names {
		if n := len(r.Sim.Live(i)); n == 1 {
			a = append(a, fmt.Sprintf("c%d", i))
		} else if n > 1 {
			a = append(a, fmt.Sprintf("c%dx%d", i, n))
		}
	}
	return "{" + strings.Join(a, ",") + "}"
}

func (r *Run) wantString() string {
	var a []string
	for i, sp := range r.M.Specs {
		if sp.Want == 1 {
			a = append(a, fmt.Sprintf("c%d", i))
		} else if sp.Want > 1 {
			a = append(a, fmt.Sprintf("c%dx%d", i, sp.Want))
		}
	}
	return "{" + strings.Join(a, ",") + "}"
}

// checkKeepOrder: the pid just asked to exit must be the running, enabled child with
// the highest index, and no other child of the wave may be pending
func (r *Run) checkKeepOrder(pid gen.PID) {
	s, m := r.Sim, r.M
	target := s.byPID[pid]
	if target == nil {
		return
	}
	for _, p := range s.Live(-1) {
		if p == target || p.SpecI < m.From || m.Specs[p.SpecI].Disabled || r.disableReq[p.PID] {
			continue
		}
		if p.ExitReq {
			r.viol("keeporder-two-pending:"+r.typeKO(), "KeepOrder: c%d asked to exit while c%d has not terminated yet", target.SpecI, p.SpecI)
			return
		}
		if p.SpecI > target.SpecI {
			r.viol("keeporder-not-reverse:"+r.typeKO(), "KeepOrder: c%d asked to exit while c%d (started later) is still running", target.SpecI, p.SpecI)
			return
		}
	}
}

// checkChildrenList: Children() must list exactly the live instances ("no child termination goes unnoticed")
func (r *Run) checkChildrenList(children []act.SupervisorChild) {
	s := r.Sim
	ctx := r.family()
	listed := map[gen.PID]bool{}
	var empty gen.PID
	if r.Cfg.Type != act.SupervisorTypeSimpleOneForOne {
		if len(children) != len(s.Names) {
			r.viol("children-list:"+ctx, "Children() has %d entries for %d specs", len(children), len(s.Names))
			return
		}
		for i, c := range children {
			if c.Spec != s.Names[i] {
				r.viol("children-list:"+ctx, "Children()[%d] is %s, expected %s", i, c.Spec, s.Names[i])
				return
			}
		}
	}
	for _, c := range children {
		if c.PID == empty {
			continue
		}
		listed[c.PID] = true
		p := s.byPID[c.PID]
		if p == nil || p.Alive == false {
			r.viol("dead-child-listed:"+ctx, "Children() lists %s with a pid that has terminated (termination went unnoticed)", c.Spec)
		} else if p.Name != c.Spec {
			r.viol("children-list:"+ctx, "Children() lists pid of %s under %s", p.Name, c.Spec)
		}
	}
	for _, p := range s.Live(-1) {
		if listed[p.PID] == false {
			r.viol("running-child-not-listed:"+ctx, "instance #%d of %s is running but Children() does not list it (the supervisor lost track of it)", p.Seq, p.Name)
		}
	}
}

// ---------------------------------------------------------------------------
// exhaustive exploration

type ExploreResult struct {
	States            int
	Transitions       int
	MachineCalls      int
	MaxDepth          int
	DeathWhilePending int
	MgmtWhilePending  int
	Lost              int
	Unconfirmed       int             // violations seen on a cloned state that a fresh replay did not reproduce (dropped)
	Viols             map[string]Viol // shortest witness per signature
	Truncated         bool
}

func replayT(cfg Cfg, path []Ev, tracing bool) *Run {
	r := NewRun(cfg, tracing)
	for _, e := range path {
		if r.Step(e) == false {
			break
		}
	}
	return r
}

// Replay runs one history on a fresh machine, with tracing
func Replay(cfg Cfg, path []Ev) *Run { return replayT(cfg, path, true) }

func (r *Run) stateKey() string {
	var dp []int
	for k := range r.diedPending {
		dp = append(dp, k)
	}
	sort.Ints(dp)
	return r.Sim.Key() + r.M.Key() + fmt.Sprint(r.idleBefore, dp, r.sigPending)
}

// UseClone selects branching by cloning (fast) instead of replaying every history from the start
var UseClone = true

// SelfTestClone compares clone+step with replay+step on random histories
func SelfTestClone(cfgs []Cfg, rounds int, rng *rand.Rand) error {
	for _, cfg := range cfgs {
		for k := 0; k < rounds; k++ {
			r := NewRun(cfg, false)
			var path []Ev
			for d := 0; d < 7; d++ {
				evs := r.Sim.Enabled(EnumOpt{Mgmt: true, MaxInst: 3, MaxSpecs: cfg.N + 1})
				if len(evs) == 0 {
					break
				}
				e := evs[rng.Intn(len(evs))]
				c := r.Clone()
				if r.Step(e) == false {
					break
				}
				path = append(path, e)
				c.Step(e)
				f := replayT(cfg, path, false)
				if c.stateKey() != r.stateKey() || f.stateKey() != r.stateKey() || len(c.V) != len(r.V) || len(f.V) != len(r.V) {
					return fmt.Errorf("clone self-test failed for %s after %v: orig %q clone %q replay %q", cfg.ID(), path, r.stateKey(), c.stateKey(), f.stateKey())
				}
				if len(r.V) > 0 || r.Sim.Dead || r.Sim.Panicked {
					break
				}
			}
		}
	}
	return nil
}

// Explore enumerates all event sequences up to depth with visited-state pruning
func Explore(cfg Cfg, depth int, opt EnumOpt, maxStates int) *ExploreResult {
	res := &ExploreResult{Viols: map[string]Viol{}}
	seen := map[string]bool{}
	record := func(r *Run) {
		all := append(append([]Viol(nil), r.V...), r.Soft...)
		for _, v := range all {
			if _, ok := res.Viols[v.Sig]; ok {
				continue
			}
			// confirm on a fresh machine
			path := r.Path
			if v.Path != nil {
				path = v.Path
			}
			f := replayT(cfg, path, true)
			confirmed := false
			for _, fv := range append(append([]Viol(nil), f.V...), f.Soft...) {
				if fv.Sig == v.Sig {
					confirmed = true
					v.What = fv.What
				}
			}
			if confirmed == false {
				res.Unconfirmed++
				continue
			}
			v.Path = append([]Ev(nil), path...)
			v.Trace = f.Sim.Trace
			res.Viols[v.Sig] = v
		}
	}
	r0 := NewRun(cfg, false)
	res.MachineCalls += r0.Sim.Calls
	record(r0)
	if len(r0.V) > 0 {
		return res
	}
	seen[r0.stateKey()] = true
	res.States = 1
	frontier := [][]Ev{nil}
	for d := 0; d < depth && len(frontier) > 0; d++ {
		var next [][]Ev
		for _, path := range frontier {
			base := replayT(cfg, path, false)
			evs := base.Sim.Enabled(opt)
			for _, e := range evs {
				var r *Run
				if UseClone {
					r = base.Clone()
				} else {
					r = replayT(cfg, path, false)
				}
				calls0 := r.Sim.Calls
				dwp0, mwp0 := r.DeathWhilePending, r.MgmtWhilePending
				if r.Step(e) == false {
					continue
				}
				res.Transitions++
				res.MachineCalls += r.Sim.Calls - calls0
				res.DeathWhilePending += r.DeathWhilePending - dwp0
				res.MgmtWhilePending += r.MgmtWhilePending - mwp0
				if len(r.V) > 0 {
					record(r)
					continue
				}
				if len(r.Soft) > 0 {
					record(r)
					r.Soft = nil
				}
				if r.Sim.Dead || r.Sim.Panicked {
					continue
				}
				if r.M.Lost {
					res.Lost++
					continue
				}
				if d+1 == depth {
					continue // leaves need no bookkeeping
				}
				key := r.stateKey()
				if seen[key] {
					continue
				}
				seen[key] = true
				res.States++
				if d+1 > res.MaxDepth {
					res.MaxDepth = d + 1
				}
				if maxStates > 0 && res.States >= maxStates {
					res.Truncated = true
					return res
				}
				next = append(next, r.Path)
			}
		}
		frontier = next
	}
	return res
}

// SortedSigs returns the violation signatures in a stable order
func (r *ExploreResult) SortedSigs() []string {
	var s []string
	for k := range r.Viols {
		s = append(s, k)
	}
	sort.Strings(s)
	return s
}
