package p08

import (
	"errors"
	"fmt"
	"sort"
	"sync"
	"sync/atomic"
	"time"

	"ergo.services/ergo/act"
	"ergo.services/ergo/gen"

	"verif/harness/actors"
	"verif/harness/hk"
)

// Live supervisors on a real node (layer B of C08 and C09).

type ChildRec struct {
	SpecI  int
	Inst   *actors.Inst
	Seq    int   // order of creation (factory call) within this supervisor
	T      int64 // logical clock at factory call
	dieCmd atomic.Bool
}

type LiveSup struct {
	Node   *hk.HNode
	Driver gen.PID
	Cfg    Cfg
	Prefix string
	PID    gen.PID
	Names  []gen.Atom

	mu      sync.Mutex
	recs    []*ChildRec
	parkOn  map[int]*InitPark // spec index -> park the next Init of that spec
	termR   error
	termed  chan struct{}
	termOne sync.Once
}

// InitPark parks a child inside its Init callback (the supervisor is then blocked in Spawn)
type InitPark struct {
	Entered chan struct{}
	Release chan struct{}
	PID     gen.PID
}

type (
	reqChildren struct{}
	reqMgmt     struct {
		Op   EvKind
		Name gen.Atom
	}
	resMgmt struct{ Err error }
	msgHold struct {
		Entered chan struct{}
		Release chan struct{}
	}
	msgFail struct{ Err error }
	msgDie  struct{ Reason error }
)

type liveSupB struct {
	act.Supervisor
	L *LiveSup
}

func (s *liveSupB) Init(args ...any) (act.SupervisorSpec, error) {
	return s.L.spec(), nil
}

func (s *liveSupB) HandleCall(from gen.PID, ref gen.Ref, request any) (any, error) {
	switch r := request.(type) {
	case reqChildren:
		c := s.Children()
		if c == nil {
			c = []act.SupervisorChild{}
		}
		return c, nil
	case reqMgmt:
		var err error
		switch r.Op {
		case EvStart:
			err = s.StartChild(r.Name)
		case EvEnable:
			err = s.EnableChild(r.Name)
		case EvDisable:
			err = s.DisableChild(r.Name)
		}
		return resMgmt{Err: err}, nil
	}
	return "?", nil
}

func (s *liveSupB) HandleMessage(from gen.PID, message any) error {
	switch m := message.(type) {
	case msgHold:
		close(m.Entered)
		<-m.Release
	case msgFail:
		return m.Err
	}
	return nil
}

func (s *liveSupB) Terminate(reason error) {
	s.L.mu.Lock()
	s.L.termR = reason
	s.L.mu.Unlock()
	s.L.termOne.Do(func() { close(s.L.termed) })
}

func (l *LiveSup) spec() act.SupervisorSpec {
	sp := l.Cfg.Spec()
	for i := range sp.Children {
		i := i
		sp.Children[i].Name = l.Names[i]
		sp.Children[i].Factory = actors.NewProbeMulti(string(l.Names[i]), l.hooks(i), func(inst *actors.Inst) {
			l.mu.Lock()
			l.recs = append(l.recs, &ChildRec{SpecI: i, Inst: inst, Seq: len(l.recs), T: hk.Tick()})
			l.mu.Unlock()
		})
	}
	return sp
}

func (l *LiveSup) hooks(i int) *actors.Hooks {
	return &actors.Hooks{
		Init: func(p *actors.Probe, args ...any) error {
			l.mu.Lock()
			pk := l.parkOn[i]
			if pk != nil {
				delete(l.parkOn, i)
			}
			l.mu.Unlock()
			if pk != nil {
				pk.PID = p.PID()
				close(pk.Entered)
				select {
				case <-pk.Release:
				case <-time.After(10 * time.Second):
				}
			}
			return nil
		},
		Msg: func(p *actors.Probe, from gen.PID, msg any) error {
			if d, ok := msg.(msgDie); ok {
				return d.Reason
			}
			return nil
		},
	}
}

var liveSeq atomic.Int64

// driverHooks: the driver probe executes closures inside its own callback
func DriverHooks() *actors.Hooks {
	return &actors.Hooks{
		Msg: func(p *actors.Probe, from gen.PID, msg any) error {
			if f, ok := msg.(func(p *actors.Probe)); ok {
				f(p)
			}
			return nil
		},
	}
}

// StartLive spawns a supervisor with cfg on node
func StartLive(node *hk.HNode, driver gen.PID, cfg Cfg) (*LiveSup, error) {
	l := &LiveSup{Node: node, Driver: driver, Cfg: cfg, parkOn: map[int]*InitPark{}, termed: make(chan struct{})}
	l.Prefix = fmt.Sprintf("s%d", liveSeq.Add(1))
	for i := 0; i < cfg.N; i++ {
		l.Names = append(l.Names, gen.Atom(fmt.Sprintf("%s_c%d", l.Prefix, i)))
	}
	pid, err := node.Spawn(func() gen.ProcessBehavior { return &liveSupB{L: l} }, gen.ProcessOptions{})
	if err != nil {
		return nil, err
	}
	l.PID = pid
	return l, nil
}

// Recs returns the child records in creation order
func (l *LiveSup) Recs() []*ChildRec {
	l.mu.Lock()
	defer l.mu.Unlock()
	return append([]*ChildRec(nil), l.recs...)
}

func (l *LiveSup) alive(pid gen.PID) bool {
	_, err := l.Node.ProcessInfo(pid)
	return err == nil
}

// LiveOf returns the running instances of spec i (all: i<0), in creation order
func (l *LiveSup) LiveOf(i int) []*ChildRec {
	var r []*ChildRec
	var empty gen.PID
	for _, c := range l.Recs() {
		if (i < 0 || c.SpecI == i) && c.Inst.PID != empty && c.Inst.TermCount.Load() == 0 && l.alive(c.Inst.PID) {
			r = append(r, c)
		}
	}
	return r
}

// ArmPark parks the next Init of spec i
func (l *LiveSup) ArmPark(i int) *InitPark {
	pk := &InitPark{Entered: make(chan struct{}), Release: make(chan struct{})}
	l.mu.Lock()
	l.parkOn[i] = pk
	l.mu.Unlock()
	return pk
}

// Kill makes a child terminate with reason and waits until its termination is complete
// (which includes the exit signal being queued at the supervisor). false = watchdog.
func (l *LiveSup) Kill(c *ChildRec, reason error) bool {
	if reason == gen.TerminateReasonKill {
		l.Node.Kill(c.Inst.PID)
	} else {
		l.Node.Send(c.Inst.PID, msgDie{Reason: reason})
	}
	return hk.WaitUntil(10*time.Second, func() bool {
		return c.Inst.TermCount.Load() > 0 && c.Inst.Quiet() && hk.LiveRunners(c.Inst.PID) == 0
	})
}

// Hold blocks the supervisor inside HandleMessage; exit signals queue up meanwhile
func (l *LiveSup) Hold() (release func(), ok bool) {
	h := msgHold{Entered: make(chan struct{}), Release: make(chan struct{})}
	l.Node.Send(l.PID, h)
	select {
	case <-h.Entered:
	case <-time.After(10 * time.Second):
		return func() { close(h.Release) }, false
	}
	var once sync.Once
	return func() { once.Do(func() { close(h.Release) }) }, true
}

// Fail makes HandleMessage of the supervisor return err
func (l *LiveSup) Fail(err error) { l.Node.Send(l.PID, msgFail{Err: err}) }

func (l *LiveSup) call(req any) (any, error) {
	type res struct {
		v   any
		err error
	}
	ch := make(chan res, 1)
	l.Node.Send(l.Driver, func(p *actors.Probe) {
		v, err := p.CallWithTimeout(l.PID, req, 10)
		ch <- res{v, err}
	})
	select {
	case r := <-ch:
		return r.v, r.err
	case <-time.After(15 * time.Second):
		return nil, errors.New("watchdog: driver call did not return")
	}
}

// Children asks the supervisor for Supervisor.Children()
func (l *LiveSup) Children() ([]act.SupervisorChild, error) {
	v, err := l.call(reqChildren{})
	if err != nil {
		return nil, err
	}
	c, ok := v.([]act.SupervisorChild)
	if ok == false {
		return nil, fmt.Errorf("unexpected reply %T", v)
	}
	return c, nil
}

// Mgmt performs StartChild/EnableChild/DisableChild inside the supervisor; callErr = transport problem
func (l *LiveSup) Mgmt(op EvKind, i int) (result error, callErr error) {
	v, err := l.call(reqMgmt{Op: op, Name: l.Names[i]})
	if err != nil {
		return nil, err
	}
	r, ok := v.(resMgmt)
	if ok == false {
		return nil, fmt.Errorf("unexpected reply %T", v)
	}
	return r.Err, nil
}

// Terminated reports whether the supervisor has terminated and with which reason
func (l *LiveSup) Terminated() (bool, error) {
	select {
	case <-l.termed:
		l.mu.Lock()
		defer l.mu.Unlock()
		return true, l.termR
	default:
		return false, nil
	}
}

func idle(node *hk.HNode, pid gen.PID) bool {
	if hk.LiveRunners(pid) > 0 {
		return false
	}
	info, err := node.ProcessInfo(pid)
	if err != nil {
		return true // gone
	}
	q := info.MailboxQueues
	if q.Main+q.System+q.Urgent+q.Log > 0 {
		return false
	}
	return info.State == gen.ProcessStateSleep
}

// WaitQuiescent waits until the supervisor and every child ever created are idle or gone
// and no new child appeared meanwhile. false = watchdog (inconclusive).
func (l *LiveSup) WaitQuiescent(d time.Duration) bool {
	var empty gen.PID
	check := func() (bool, int) {
		recs := l.Recs()
		if idle(l.Node, l.PID) == false {
			return false, len(recs)
		}
		if _, err := l.Node.ProcessInfo(l.PID); err != nil {
			// supervisor gone: its Terminate callback must have completed
			if t, _ := l.Terminated(); t == false {
				return false, len(recs)
			}
		}
		for _, c := range recs {
			if c.Inst.Quiet() == false {
				return false, len(recs)
			}
			if c.Inst.PID == empty {
				if c.Inst.Callbacks.Load() == 0 {
					return false, len(recs) // factory called, Init not yet entered
				}
				continue
			}
			if idle(l.Node, c.Inst.PID) == false {
				return false, len(recs)
			}
			if c.Inst.TermCount.Load() == 0 && l.alive(c.Inst.PID) == false {
				return false, len(recs) // removed from the process table, Terminate callback still to come
			}
		}
		return true, len(recs)
	}
	return hk.WaitUntil(d, func() bool {
		ok1, n1 := check()
		if ok1 == false {
			return false
		}
		// the supervisor must be idle before and after looking at the children
		ok2, n2 := check()
		return ok2 && n1 == n2
	})
}

// SupIdle reports that the supervisor process is asleep with an empty mailbox (or gone)
func (l *LiveSup) SupIdle() bool { return idle(l.Node, l.PID) }

// Stop kills the supervisor and its children (cleanup)
func (l *LiveSup) Stop() {
	l.Node.Kill(l.PID)
	for _, c := range l.LiveOf(-1) {
		l.Node.Kill(c.Inst.PID)
	}
}

// Snapshot is what the oracles look at after quiescence
type Snapshot struct {
	SupAlive   bool
	TermReason error
	Children   []act.SupervisorChild
	ChildErr   error
	Up         []int // running instances per spec
	Starts     []int // instances ever created per spec
	Problems   []string
	ProblemSig string
}

func (l *LiveSup) Snapshot() Snapshot {
	var s Snapshot
	var empty gen.PID
	s.Up = make([]int, len(l.Names))
	s.Starts = make([]int, len(l.Names))
	livePids := map[gen.PID]*ChildRec{}
	for _, c := range l.Recs() {
		s.Starts[c.SpecI]++
	}
	for _, c := range l.LiveOf(-1) {
		s.Up[c.SpecI]++
		livePids[c.Inst.PID] = c
	}
	s.SupAlive = l.alive(l.PID)
	if t, r := l.Terminated(); t {
		s.TermReason = r
		s.SupAlive = false
	}
	if s.SupAlive == false {
		return s
	}
	s.Children, s.ChildErr = l.Children()
	if s.ChildErr != nil {
		return s
	}
	listed := map[gen.PID]bool{}
	for _, c := range s.Children {
		if c.PID == empty {
			continue
		}
		listed[c.PID] = true
		if l.alive(c.PID) == false {
			s.Problems = append(s.Problems, fmt.Sprintf("Children() lists %s with pid %s which has terminated (termination went unnoticed)", c.Spec, c.PID))
			s.ProblemSig = "dead-child-listed"
		}
	}
	var pids []gen.PID
	for p := range livePids {
		pids = append(pids, p)
	}
	sort.Slice(pids, func(i, j int) bool { return pids[i].ID < pids[j].ID })
	for _, p := range pids {
		if listed[p] == false {
			s.Problems = append(s.Problems, fmt.Sprintf("instance %s of %s is running but Children() does not list it", p, l.Names[livePids[p].SpecI]))
			if s.ProblemSig == "" {
				s.ProblemSig = "running-child-not-listed"
			}
		}
	}
	return s
}

// ---------------------------------------------------------------------------
// the reference model run on its own (it produces the starts and the deliveries itself)

// ModelDriver runs the reference model closed-loop for the live layer
type ModelDriver struct {
	M      *Model
	Starts []int
}

func NewModelDriver(cfg Cfg) *ModelDriver {
	d := &ModelDriver{M: NewModel(cfg), Starts: make([]int, cfg.N)}
	d.immediate()
	return d
}

// immediate performs the starts the model wants now (the start phase is synchronous)
func (d *ModelDriver) immediate() {
	m := d.M
	if m.Phase != PNormal {
		return
	}
	for k := range m.Specs {
		for m.Specs[k].Up < m.Specs[k].Want {
			m.Started(k)
			d.Starts[k]++
		}
	}
}

// Die: an instance of spec i terminated on its own; the supervisor processes it before
// any child it asks to exit can answer
func (d *ModelDriver) Die(i int, reason error) {
	d.M.Term(i, reason, false)
	d.immediate()
}

// Foreign exit / handler error
func (d *ModelDriver) Foreign(reason error) { d.M.Foreign(reason) }

// Mgmt: management call with its observed result; disabled instances terminate later (Settle)
func (d *ModelDriver) Mgmt(op EvKind, i int, err error, flags []bool) {
	d.M.Mgmt(op, i, err, flags)
	d.immediate()
}

// Settle delivers every requested termination and performs the resulting starts
func (d *ModelDriver) Settle() {
	m := d.M
	for guard := 0; guard < 1000; guard++ {
		d.immediate()
		done := true
		switch m.Phase {
		case PWave:
			for k := len(m.Specs) - 1; k >= m.From; k-- {
				if m.Specs[k].Up > 0 {
					m.Term(k, Wrap(ErrCrash), false)
					done = false
					break
				}
			}
		case PShutdown:
			for k := len(m.Specs) - 1; k >= 0; k-- {
				if m.Specs[k].Up > 0 {
					m.Term(k, Wrap(ErrCrash), false)
					done = false
					break
				}
			}
		case PNormal:
			for k := range m.Specs {
				if m.Specs[k].Disabled && m.Specs[k].Up > 0 {
					m.Term(k, Wrap(gen.TerminateReasonShutdown), true)
					done = false
					break
				}
			}
		}
		if done {
			break
		}
	}
	d.immediate()
}

// MsgDie is the command that makes a live child terminate with reason
func MsgDie(reason error) any { return msgDie{Reason: reason} }
