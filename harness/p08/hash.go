package p08

import (
	"fmt"
	"reflect"
	"sort"
	"strings"

	"ergo.services/ergo/gen"
)

// State hashing for the explorer. The hidden state of the real state machine
// (mode, wait set, restart index, ...) is read by reflection; pids are renamed
// order-preservingly so that histories that differ only in the pid numbers
// meet in one state. Hashing is used for pruning only: a mistake here can lose
// coverage, never produce an alarm.

var pidType = reflect.TypeOf(gen.PID{})

type hasher struct {
	sb      strings.Builder
	rank    map[gen.PID]int
	dead    map[gen.PID]int      // ranks of pids the machine still refers to although they are gone
	unknown map[gen.PID]struct{} // collected in the first pass
}

var skipFields = map[string]bool{"restarts": true, "Factory": true, "Args": true, "Options": true}

func (h *hasher) walk(v reflect.Value) {
	switch v.Kind() {
	case reflect.Ptr:
		if v.IsNil() {
			h.sb.WriteString("nil")
			return
		}
		h.walk(v.Elem())
	case reflect.Interface:
		if v.IsNil() {
			h.sb.WriteString("nil")
			return
		}
		e := v.Elem()
		if e.Kind() == reflect.Ptr {
			if l, ok := labelOf(e.Pointer()); ok {
				h.sb.WriteString(l)
				return
			}
		}
		h.walk(e)
	case reflect.Struct:
		if v.Type() == pidType {
			id := v.Field(1).Uint()
			if id == 0 {
				h.sb.WriteString("p-")
				return
			}
			pid := gen.PID{Node: gen.Atom(v.Field(0).String()), ID: id, Creation: v.Field(2).Int()}
			if r, ok := h.rank[pid]; ok {
				fmt.Fprintf(&h.sb, "p%d", r)
			} else if r, ok := h.dead[pid]; ok {
				fmt.Fprintf(&h.sb, "d%d", r)
			} else {
				if h.unknown != nil {
					h.unknown[pid] = struct{}{}
				}
				fmt.Fprintf(&h.sb, "p?%d", id)
			}
			return
		}
		h.sb.WriteByte('{')
		t := v.Type()
		for i := 0; i < v.NumField(); i++ {
			if skipFields[t.Field(i).Name] {
				continue
			}
			h.walk(v.Field(i))
			h.sb.WriteByte(',')
		}
		h.sb.WriteByte('}')
	case reflect.Map:
		var items []string
		it := v.MapRange()
		for it.Next() {
			sub := &hasher{rank: h.rank, dead: h.dead, unknown: h.unknown}
			sub.walk(it.Key())
			sub.sb.WriteByte(':')
			sub.walk(it.Value())
			items = append(items, sub.sb.String())
		}
		sort.Strings(items)
		h.sb.WriteString("m[")
		for _, s := range items {
			h.sb.WriteString(s)
			h.sb.WriteByte(';')
		}
		h.sb.WriteByte(']')
	case reflect.Slice, reflect.Array:
		h.sb.WriteByte('[')
		for i := 0; i < v.Len(); i++ {
			h.walk(v.Index(i))
			h.sb.WriteByte(',')
		}
		h.sb.WriteByte(']')
	case reflect.Bool:
		if v.Bool() {
			h.sb.WriteByte('T')
		} else {
			h.sb.WriteByte('F')
		}
	case reflect.Int, reflect.Int8, reflect.Int16, reflect.Int32, reflect.Int64:
		fmt.Fprintf(&h.sb, "%d", v.Int())
	case reflect.Uint, reflect.Uint8, reflect.Uint16, reflect.Uint32, reflect.Uint64:
		fmt.Fprintf(&h.sb, "%d", v.Uint())
	case reflect.String:
		h.sb.WriteString(v.String())
	case reflect.Func, reflect.Chan, reflect.UnsafePointer:
		// skipped
	default:
		h.sb.WriteString("?")
	}
}

// machine returns the reflect.Value of the state machine struct inside VerifSup
func (s *Sim) machine() reflect.Value {
	v := reflect.ValueOf(s.Sup).Elem().Field(0) // interface supBehavior
	return v
}

// Restarts reads the restart timestamp list of the machine (C09)
func (s *Sim) Restarts() []int64 {
	v := s.machine()
	for v.Kind() == reflect.Interface || v.Kind() == reflect.Ptr {
		if v.IsNil() {
			return nil
		}
		v = v.Elem()
	}
	f := v.FieldByName("restarts")
	if f.IsValid() == false {
		return nil
	}
	r := make([]int64, f.Len())
	for i := range r {
		r[i] = f.Index(i).Int()
	}
	return r
}

// Key returns the canonical state of simulator + machine
func (s *Sim) Key() string {
	h := &hasher{rank: map[gen.PID]int{}}
	live := s.SortedLive()
	for i, p := range live {
		h.rank[p] = i
	}
	fmt.Fprintf(&h.sb, "D%v/%s/P%v/n%d;", s.Dead, Label(s.DeadReason), s.Panicked, len(s.Names))
	for _, pid := range live {
		p := s.byPID[pid]
		fmt.Fprintf(&h.sb, "p%d=%d,%v,%s;", h.rank[pid], p.SpecI, p.ExitReq, Label(p.ExitReason))
	}
	prefix := h.sb.String()
	h.unknown = map[gen.PID]struct{}{}
	h.walk(s.machine())
	if len(h.unknown) > 0 {
		var u []gen.PID
		for p := range h.unknown {
			u = append(u, p)
		}
		sort.Slice(u, func(i, j int) bool { return u[i].ID < u[j].ID })
		h.dead = map[gen.PID]int{}
		for i, p := range u {
			h.dead[p] = i
		}
		h.unknown = nil
		h.sb.Reset()
		h.sb.WriteString(prefix)
		h.walk(s.machine())
	}
	return h.sb.String()
}
