// C12 — remote delivery integrity: exactly once, to the addressee, unchanged.
//
// The parent process starts one child process per "world" (several at a time, env
// C12_WORLD selects the world in the child) and relays the children's JSON lines.
// A world = nodes A, B (and a decoy node C) in one OS process; A dials B directly
// (pool 1/2/3/5) or through the harness relay that re-cuts the byte stream.
// Instrumented processes on every node log every packet they receive (procs.go);
// senders are instrumented processes too and log the return value of every
// Send / SendImportant / Call / CallImportant / SendEvent.  The oracle (runBatch,
// events, importantFailures, redial) joins the global reception log with the ledger
// of what was sent (ledger.go).  Scenario lists: scenarios.go.
//
// Environment (experiments only): C12_PAR children at a time (8), C12_TIMEOUT overrides
// gen.DefaultRequestTimeout, C12_VERBOSE relays the children's stderr, C12_PROF cpu profile.
package main

import (
	"bytes"
	"errors"
	"fmt"
	"net"
	"os"
	"runtime"
	"runtime/pprof"
	"sort"
	"strings"
	"sync"
	"time"

	"ergo.services/ergo/gen"
	"ergo.services/ergo/net/edf"

	"verif/harness/actors"
	"verif/harness/hk"
	"verif/harness/relay"
)

const (
	nameTarget = gen.Atom("c12_named")
	nameDecoy  = gen.Atom("c12_decoy")
	nameCached = gen.Atom("c12_cached") // registered in the atom cache: addressed through the cached-name frame types
	evName     = gen.Atom("c12_event")
)

type proc struct {
	label string
	inst  *actors.Inst
	pid   gen.PID
	name  gen.Atom
	alias gen.Alias
}

type side struct {
	tag    string
	n      *hk.HNode
	rPID   *proc
	rName  *proc
	rAlias *proc
	rCName *proc
	decoys []*proc
	prod   *proc
	token  gen.Ref
	subs   []*proc // subscribed to the peer's event (filled by subscribe)
	subLoc *proc   // subscribed to the event of its own node
	all    []*proc
}

type world struct {
	id     string
	class  string // direct / pool / relay
	A, B   *side
	C      *side
	relay  *relay.Relay
	pool   int
	chunk  string
	maxMsg int // MaxMessageSize of both nodes (0 = unlimited)
	slow   bool
	broken string // set once the connection was found dead
	connMu sync.Mutex
	conns  []net.Conn // every link that joined a pool, in join order (both ends live in this process)
}

func (w *world) spawn(s *side, label string, opts gen.ProcessOptions, name gen.Atom, args ...any) (*proc, error) {
	f, inst := actors.NewProbe(w.id+"/"+s.tag+"/"+label, hooks())
	var pid gen.PID
	var err error
	if name != "" {
		pid, err = s.n.SpawnRegister(name, f, opts, args...)
	} else {
		pid, err = s.n.Spawn(f, opts, args...)
	}
	if err != nil {
		return nil, err
	}
	p := &proc{label: inst.Label, inst: inst, pid: pid, name: name}
	s.all = append(s.all, p)
	return p, nil
}

func (w *world) mkAlias(s *side, p *proc) error {
	out := make(chan aliasResult, 1)
	s.n.Send(p.pid, cmdAlias{Out: out})
	select {
	case r := <-out:
		p.alias = r.Alias
		return r.Err
	case <-time.After(5 * time.Second):
		return errors.New("create alias: no answer")
	}
}

func (w *world) populate(s *side, full bool) error {
	var err error
	if s.rPID, err = w.spawn(s, "rpid", gen.ProcessOptions{}, ""); err != nil {
		return err
	}
	if s.rName, err = w.spawn(s, "rname", gen.ProcessOptions{}, nameTarget); err != nil {
		return err
	}
	if s.rCName, err = w.spawn(s, "rcname", gen.ProcessOptions{}, nameCached); err != nil {
		return err
	}
	if s.rAlias, err = w.spawn(s, "ralias", gen.ProcessOptions{}, ""); err != nil {
		return err
	}
	if err = w.mkAlias(s, s.rAlias); err != nil {
		return err
	}
	d1, err := w.spawn(s, "decoy1", gen.ProcessOptions{}, "")
	if err != nil {
		return err
	}
	d2, err := w.spawn(s, "decoy2", gen.ProcessOptions{}, nameDecoy)
	if err != nil {
		return err
	}
	if err = w.mkAlias(s, d2); err != nil {
		return err
	}
	s.decoys = []*proc{d1, d2}
	if full == false {
		return nil
	}
	if s.prod, err = w.spawn(s, "producer", gen.ProcessOptions{}, ""); err != nil {
		return err
	}
	out := make(chan regEventResult, 1)
	s.n.Send(s.prod.pid, cmdRegEvent{Name: evName, Out: out})
	select {
	case r := <-out:
		if r.Err != nil {
			return r.Err
		}
		s.token = r.Token
	case <-time.After(5 * time.Second):
		return errors.New("register event: no answer")
	}
	return nil
}

// subscribe makes two processes on s subscribe (link, monitor) to the event of peer,
// one more process subscribes to the event of the same name on its own node (decoy subscriber)
func (w *world) subscribe(s, peer *side) error {
	for k, link := range []bool{true, false} {
		p, err := w.spawn(s, fmt.Sprintf("sub%d", k), gen.ProcessOptions{}, "")
		if err != nil {
			return err
		}
		// no retry here: a subscription whose answer timed out may exist on the peer only; the whole world is set up again instead
		out := make(chan error, 1)
		s.n.Send(p.pid, cmdSubscribe{Event: gen.Event{Name: evName, Node: peer.n.Name()}, Link: link, Out: out})
		select {
		case err := <-out:
			if err != nil {
				return fmt.Errorf("subscribe: %w", err)
			}
		case <-time.After(30 * time.Second):
			return errors.New("subscribe: no answer")
		}
		s.subs = append(s.subs, p)
	}
	p, err := w.spawn(s, "sublocal", gen.ProcessOptions{}, "")
	if err != nil {
		return err
	}
	out := make(chan error, 1)
	s.n.Send(p.pid, cmdSubscribe{Event: gen.Event{Name: evName, Node: s.n.Name()}, Link: false, Out: out})
	select {
	case err := <-out:
		if err != nil {
			return fmt.Errorf("subscribe local: %w", err)
		}
	case <-time.After(10 * time.Second):
		return errors.New("subscribe local: no answer")
	}
	s.decoys = append(s.decoys, p)
	s.subLoc = p
	return nil
}

type worldCfg struct {
	id     string
	pool   int
	chunk  string // "" = direct
	delay  time.Duration
	maxMsg int
	decoyC bool
}

var regPort uint16

func chunker(kind string, seed int64) (func(string, int) int, bool) {
	switch kind {
	case "1", "7", "8", "9", "4095", "4096", "4097":
		var n int
		fmt.Sscan(kind, &n)
		return func(dir string, avail int) int { return n }, n < 16
	case "cycle":
		return relay.FixedChunks(1, 7, 8, 9, 4095, 4096, 4097, 2, 33, 49, 65), false
	case "prng":
		rng := hk.Rng("c12", "relay", fmt.Sprint(seed))
		return func(dir string, avail int) int {
			// called under the relay's mutex
			switch rng.Intn(4) {
			case 0:
				return 1 + rng.Intn(16)
			case 1:
				return 1 + rng.Intn(128)
			case 2:
				return 1 + rng.Intn(5000)
			}
			return avail // coalesced
		}, false
	}
	return nil, false
}

func startWorld(cfg worldCfg) (*world, error) {
	w := &world{id: cfg.id, pool: cfg.pool, chunk: cfg.chunk, maxMsg: cfg.maxMsg}
	switch {
	case cfg.chunk != "":
		w.class = "relay"
	case cfg.pool > 1:
		w.class = "pool"
	default:
		w.class = "direct"
	}
	tweak := func(o *gen.NodeOptions) {
		o.Network.MaxMessageSize = cfg.maxMsg
	}
	mk := func(tag string) (*side, error) {
		n, err := hk.StartNode(hk.NodeCfg{Name: hk.UniqueName("c12" + strings.ToLower(tag)), Network: true, RegPort: regPort, PoolSize: cfg.pool, Tweak: tweak})
		if err != nil {
			return nil, fmt.Errorf("start node %s: %w", tag, err)
		}
		return &side{tag: tag, n: n}, nil
	}
	var err error
	if w.A, err = mk("A"); err != nil {
		return w, err
	}
	if w.B, err = mk("B"); err != nil {
		return w, err
	}
	joins0 := hk.Hits("conn.join")
	hk.Observe("conn.join", nil, func(_ string, subject any) {
		if c, ok := subject.(net.Conn); ok {
			w.connMu.Lock()
			w.conns = append(w.conns, c)
			w.connMu.Unlock()
		}
	})
	if cfg.chunk != "" {
		ch, slow := chunker(cfg.chunk, hk.Seed())
		w.slow = slow
		rc := relay.Config{Target: fmt.Sprintf("127.0.0.1:%d", w.B.n.Port), Chunk: ch, Seed: hk.Seed()}
		if cfg.delay > 0 {
			d := cfg.delay
			rc.Delay = func(string) time.Duration { return d }
		}
		w.relay, err = relay.Start(rc)
		if err != nil {
			return w, err
		}
		_, err = hk.ConnectVia(w.A.n, w.B.n, "127.0.0.1", w.relay.Port)
	} else {
		_, err = hk.Connect(w.A.n, w.B.n)
	}
	if err != nil {
		return w, fmt.Errorf("connect A->B: %w", err)
	}
	// every pool link joins on both sides
	if hk.WaitUntil(30*time.Second, func() bool { return hk.Hits("conn.join")-joins0 >= int64(2*cfg.pool) }) == false {
		return w, fmt.Errorf("pool links did not join (%d of %d)", hk.Hits("conn.join")-joins0, 2*cfg.pool)
	}
	if cfg.decoyC {
		if w.C, err = mk("C"); err != nil {
			return w, err
		}
		j := hk.Hits("conn.join")
		if _, err = hk.Connect(w.A.n, w.C.n); err != nil {
			return w, fmt.Errorf("connect A->C: %w", err)
		}
		if _, err = hk.Connect(w.B.n, w.C.n); err != nil {
			return w, fmt.Errorf("connect B->C: %w", err)
		}
		hk.WaitUntil(10*time.Second, func() bool { return hk.Hits("conn.join")-j >= int64(4*cfg.pool) })
		if err = w.populate(w.C, true); err != nil {
			return w, err
		}
	}
	if err = w.populate(w.A, true); err != nil {
		return w, err
	}
	if err = w.populate(w.B, true); err != nil {
		return w, err
	}
	if err = w.subscribe(w.A, w.B); err != nil {
		return w, err
	}
	if err = w.subscribe(w.B, w.A); err != nil {
		return w, err
	}
	if w.C != nil {
		// C listens to both events as well: it must only ever see what A and B publish, and every packet once
		if err = w.subscribe(w.C, w.B); err != nil {
			return w, err
		}
	}
	return w, nil
}

func (w *world) stop() {
	for _, s := range []*side{w.A, w.B, w.C} {
		if s != nil && s.n != nil {
			s.n.StopForce()
		}
	}
	if w.relay != nil {
		w.relay.Close()
	}
}

func (w *world) sides() []*side {
	if w.C != nil {
		return []*side{w.A, w.B, w.C}
	}
	return []*side{w.A, w.B}
}

type linkStat struct {
	ok                    bool
	msgsOut, msgsIn       uint64
	bytesOut, bytesIn     uint64
	chunksUp, chunksDown  int64
	rBytesUp, rBytesDown  int64
	errLinesA, errLinesB  int64
	peerMsgsIn, peerBytes uint64
}

func (w *world) stat(src, dst *side) linkStat {
	var s linkStat
	rn, err := src.n.Network().Node(dst.n.Name())
	if err != nil {
		return s
	}
	rp, err := dst.n.Network().Node(src.n.Name())
	if err != nil {
		return s
	}
	s.ok = true
	i := rn.Info()
	j := rp.Info()
	s.msgsOut, s.bytesOut, s.msgsIn, s.bytesIn = i.MessagesOut, i.BytesOut, i.MessagesIn, i.BytesIn
	s.peerMsgsIn, s.peerBytes = j.MessagesIn, j.BytesIn
	if w.relay != nil {
		s.chunksUp, s.chunksDown = w.relay.ChunksUp.Load(), w.relay.ChunksDown.Load()
		s.rBytesUp, s.rBytesDown = w.relay.BytesUp.Load(), w.relay.BytesDown.Load()
	}
	return s
}

// linkIdle: every frame one side wrote was cut out of the stream by the other side
func (w *world) linkIdle(a, b *side) (bool, bool) {
	if a.n.Network() == nil || b.n.Network() == nil {
		return false, false
	}
	ra, err := a.n.Network().Node(b.n.Name())
	if err != nil {
		return false, false
	}
	rb, err := b.n.Network().Node(a.n.Name())
	if err != nil {
		return false, false
	}
	i, j := ra.Info(), rb.Info()
	return i.MessagesOut == j.MessagesIn && i.BytesOut == j.BytesIn && j.MessagesOut == i.MessagesIn && j.BytesOut == i.BytesIn, true
}

func procsIdle(s *side) bool {
	for _, p := range s.all {
		if p.inst.InCallback() {
			return false
		}
		if hk.LiveRunners(p.pid) > 0 {
			return false
		}
		info, err := s.n.ProcessInfo(p.pid)
		if err != nil {
			continue
		}
		if q := info.MailboxQueues; q.Main+q.System+q.Urgent+q.Log > 0 {
			return false
		}
		if info.State != gen.ProcessStateSleep {
			return false
		}
	}
	return true
}

// quiesce waits until the links are drained and every instrumented process sleeps with an empty mailbox.
// Returns "" or the reason it gave up.
func (w *world) quiesce(d time.Duration) string {
	last := ""
	ok := hk.WaitUntil(d, func() bool {
		idle, alive := w.linkIdle(w.A, w.B)
		if alive == false {
			last = "connection A-B is gone"
			return false
		}
		if idle == false {
			last = "frames written by one side were not (yet) received by the other"
			return false
		}
		if w.C != nil {
			for _, s := range []*side{w.A, w.B} {
				if idle, alive := w.linkIdle(s, w.C); alive && idle == false {
					last = "link to C not drained"
					return false
				}
			}
		}
		for _, s := range w.sides() {
			if procsIdle(s) == false {
				last = "a process is still busy"
				return false
			}
		}
		if decodersRunning() {
			last = "a receive-queue worker is still decoding"
			return false
		}
		last = ""
		return true
	})
	if ok {
		// the counters are incremented before a frame is queued for decoding: give the decoders a moment;
		// whatever still arrives later is judged by the stray check of the next case / the end of the world
		n0 := rxlog.n.Load()
		for i := 0; i < 50; i++ {
			time.Sleep(settle)
			if n := rxlog.n.Load(); n == n0 {
				break
			} else {
				n0 = n
			}
		}
		return ""
	}
	return last
}

func errLines(s *side) []string {
	var r []string
	for _, l := range s.n.Cap.Lines() {
		r = append(r, l.Text)
	}
	return r
}

// protoErrPatterns: framework log lines that mean a frame of an honest peer was rejected, mangled or lost
var protoErrPatterns = []string{"malformed", "unable to decode", "unknown/unsupported message type", "incorrect proto", "unable to decompress",
	"atom cache", "cache is nil", "too long message", "unable to send event", "panic", "extra bytes", "incorrect response", "unable to join", "unable to compress"}

// errCount returns the number of suspicious log lines so far
func (w *world) errCount() int64 { return int64(len(w.newErrLines(0))) }

func (w *world) newErrLines(from int64) []string {
	var all []string
	for _, s := range w.sides() {
		for _, l := range errLines(s) {
			for _, pat := range protoErrPatterns {
				if strings.Contains(l, pat) {
					all = append(all, s.tag+": "+l)
					break
				}
			}
		}
	}
	if int(from) < len(all) {
		return all[from:]
	}
	return nil
}

// ---------------------------------------------------------------------------

type verdict struct {
	viol  []string
	sig   string
	incon string
}

func (v *verdict) fail(sig, format string, args ...any) {
	if v.sig == "" {
		v.sig = sig
	}
	if len(v.viol) < 12 {
		v.viol = append(v.viol, "["+sig+"] "+fmt.Sprintf(format, args...))
	}
}

type flags struct {
	segmented bool // relay wrote more chunks than frames in the direction of the payloads
	headerCut bool // average chunk shorter than the 8-byte frame header
	grew      bool // a delivered payload exceeded the initial receive buffer
	compr     bool // bytes on the wire < payload bytes
	acked     bool // an important transfer was decided by the remote acknowledgement
	refused   bool // a transfer was refused with ErrTooLarge
	spread    bool // frames went over more than one pooled link / receive queue
	errAck    bool // an important transfer returned the remote reason
}

func (f flags) String() string {
	var s []string
	add := func(b bool, n string) {
		if b {
			s = append(s, n)
		}
	}
	add(f.headerCut, "hdrcut")
	add(f.segmented, "seg")
	add(f.grew, "grew")
	add(f.compr, "z")
	add(f.acked, "ack")
	add(f.errAck, "nack")
	add(f.refused, "toolarge")
	add(f.spread, "spread")
	return strings.Join(s, "+")
}

func (f flags) any() bool { return f.String() != "" }

func emit(id, scenario, key string, f flags, events int64, v *verdict, detail any) {
	c := hk.Case{ID: id, Scenario: scenario, Key: key + "/" + f.String(), Nontrivial: f.any(), Events: events, Detail: detail}
	switch {
	case len(v.viol) > 0:
		c.Verdict = hk.Violated
		c.Sig = v.sig
		c.What = strings.Join(v.viol, "; ")
	case v.incon != "":
		c.Verdict = hk.Inconclusive
		c.What = v.incon
	default:
		c.Verdict = hk.Held
	}
	hk.Emit(c)
	switch c.Verdict {
	case hk.Held:
		nHeld++
	case hk.Violated:
		nViol++
	default:
		nIncon++
	}
}

var nHeld, nViol, nIncon int

var settle = 2 * time.Millisecond

// ---------------------------------------------------------------------------
// generic transfer case

type compSpec struct {
	c       gen.Compression
	setters bool
}

func (c compSpec) String() string {
	if c.c.Enable == false {
		return "off"
	}
	return fmt.Sprintf("%s/l%d/t%d/set=%v", c.c.Type, c.c.Level, c.c.Threshold, c.setters)
}

type xfer struct {
	mode    string // pid name alias
	kind    int
	size    int
	reply   int
	class   int
	timeout int
	grp     int  // index into batch.groups (compression setting of the sender)
	own     bool // dedicated sender process (runs concurrently with everything else of the batch)
}

type batch struct {
	id       string
	scenario string
	keyExtra string
	src, dst *side
	xs       []xfer
	comp     compSpec
	groups   []compSpec // several compression settings in one batch (xfer.grp selects)
	noOrder  bool       // sender switches KeepNetworkOrder off
	senders  int        // >1: the transfers are dealt round-robin to several concurrent senders
	stress   map[string]float64
	maxSleep time.Duration
	// seqImp: acknowledged transfers stay in the shared sender's sequence; otherwise each gets a sender of its own
	// so that all of them wait at the same time (a known defect makes many of them run into the 5 s request timeout)
	seqImp bool
}

var ghost = &proc{label: "(nobody)"}

func (w *world) address(dst *side, mode string) (any, *proc) {
	switch mode {
	case "nopid":
		return gen.PID{Node: dst.n.Name(), ID: 900000 + idSeq.Load()%1000, Creation: dst.n.Creation()}, ghost
	case "noname":
		return gen.ProcessID{Name: "c12_nobody", Node: dst.n.Name()}, ghost
	case "noalias":
		return gen.Alias{Node: dst.n.Name(), ID: [3]uint64{77, 900000 + idSeq.Load()%1000, 3}, Creation: dst.n.Creation()}, ghost
	case "pid":
		return dst.rPID.pid, dst.rPID
	case "name":
		return gen.ProcessID{Name: nameTarget, Node: dst.n.Name()}, dst.rName
	case "cname":
		return gen.ProcessID{Name: nameCached, Node: dst.n.Name()}, dst.rCName
	default:
		return dst.rAlias.alias, dst.rAlias
	}
}

func isTooLarge(err error) bool { return err == gen.ErrTooLarge }

// must the frame be within the limit / beyond the limit for sure?
func (w *world) sizeVerdict(x xfer, comp compSpec) int {
	if w.maxMsg == 0 {
		return 1
	}
	const overhead = 320 // generous bound: header (<=65) + name + type descriptor + label + length fields
	if comp.c.Enable == false {
		if x.size > w.maxMsg {
			return 0
		}
		if x.size+overhead <= w.maxMsg {
			return 1
		}
		return -1
	}
	// compression on: lzw may expand incompressible data by half, deflate by a few bytes
	if x.size+x.size/2+overhead+64 <= w.maxMsg {
		return 1
	}
	if x.class == classRandom && x.size > w.maxMsg {
		return 0 // incompressible: the compressed frame is longer than the payload
	}
	return -1
}

func (w *world) runBatch(b batch) {
	if hk.Want(b.id) == false {
		return
	}
	v := &verdict{}
	var f flags
	if w.broken != "" {
		v.incon = "world unusable: " + w.broken
		emit(b.id, b.scenario, b.id, f, 0, v, nil)
		return
	}
	strays := w.checkStrays(rxlog.drain(), v)
	err0 := w.errCount()
	st0 := w.stat(b.src, b.dst)

	nsend := b.senders
	if nsend < 1 {
		nsend = 1
	}
	groups := b.groups
	if len(groups) == 0 {
		groups = []compSpec{b.comp}
	}
	anyComp := false
	for _, g := range groups {
		if g.c.Enable {
			anyComp = true
		}
	}
	type snd struct {
		p     *proc
		comp  compSpec
		items []item
		out   chan []outcome
	}
	var snds []*snd
	retire := func() {
		for _, s := range snds {
			b.src.n.Send(s.p.pid, cmdStop{})
			for i, q := range b.src.all {
				if q == s.p {
					b.src.all = append(b.src.all[:i], b.src.all[i+1:]...)
					break
				}
			}
		}
	}
	mkSender := func(g int) *snd {
		opts := gen.ProcessOptions{}
		if groups[g].setters == false {
			opts.Compression = groups[g].c
		}
		p, err := w.spawn(b.src, fmt.Sprintf("%s/sender%d", b.id, len(snds)), opts, "")
		if err != nil {
			return nil
		}
		if b.noOrder {
			ch := make(chan struct{})
			b.src.n.Send(p.pid, cmdOrder{Keep: false, Out: ch})
			<-ch
		}
		sn := &snd{p: p, comp: groups[g], out: make(chan []outcome, 1)}
		snds = append(snds, sn)
		return sn
	}
	shared := map[[2]int]*snd{}
	senderFor := func(k int, x xfer) *snd {
		if x.own || (b.seqImp == false && (x.kind == kSendImp || x.kind == kCallImp)) {
			return mkSender(x.grp)
		}
		key := [2]int{x.grp, k % nsend}
		if sn := shared[key]; sn != nil {
			return sn
		}
		sn := mkSender(x.grp)
		shared[key] = sn
		return sn
	}
	defer retire()

	exp := map[uint64]*expect{}
	var order []uint64
	for k, x := range b.xs {
		s := senderFor(k, x)
		if s == nil {
			v.incon = "spawn sender failed"
			emit(b.id, b.scenario, b.id, f, 0, v, nil)
			return
		}
		to, tp := w.address(b.dst, x.mode)
		id := newID()
		data := genData(id, x.size, x.class)
		e := &expect{ID: id, Kind: x.kind, Mode: x.mode, From: s.p.pid, Len: len(data), Hash: hashOf(data),
			ToLabel: tp.label, Size: x.size, Deliver: w.sizeVerdict(x, s.comp)}
		if tp == ghost {
			e.Ghost = true
		} else {
			e.Targets = []*actors.Inst{tp.inst}
		}
		if w.maxMsg > 0 && x.reply > w.maxMsg {
			e.ReplyTooLarge = true
		}
		if x.kind == kCall || x.kind == kCallImp {
			e.CB = "call"
		} else {
			e.CB = "msg"
		}
		exp[id] = e
		order = append(order, id)
		s.items = append(s.items, item{To: to, Kind: x.kind, Timeout: x.timeout,
			P: Pkt{ID: id, Reply: uint32(x.reply), Class: uint8(x.class), To: tp.label, Data: data}})
	}
	if b.stress != nil {
		hk.Stress(b.id, b.stress, b.maxSleep)
	}
	for _, s := range snds {
		cmd := cmdBatch{Items: s.items, Out: s.out}
		if s.comp.setters {
			c := s.comp.c
			cmd.Setters = &c
		}
		b.src.n.Send(s.p.pid, cmd)
	}
	outs := map[uint64]outcome{}
	deadline := time.After(90*time.Second + time.Duration(len(b.xs))*50*time.Millisecond)
	for _, s := range snds {
		select {
		case os := <-s.out:
			for _, o := range os {
				outs[o.ID] = o
			}
		case <-deadline:
			v.incon = "watchdog: a sender did not finish its batch"
		}
	}
	if v.incon != "" {
		hk.StressOff()
		for id := range exp {
			remember(id, b.id, 1, 0) // whatever of this batch still arrives is late, not a phantom
		}
		emit(b.id, b.scenario, b.id, f, int64(len(outs)), v, nil)
		w.broken = "a sender is stuck"
		return
	}

	// which ids must show up given what the senders were told?
	want := map[uint64]int{}
	for id, e := range exp {
		o := outs[id]
		switch {
		case e.Deliver == 0 || e.Ghost:
		case isTooLarge(o.Err):
		case e.Kind == kSend && o.Err != nil:
		default:
			if o.Err == nil {
				want[id] = 1
			}
		}
	}
	arrived := hk.WaitUntil(20*time.Second, func() bool { return rxlog.countIDs(want) })
	hk.StressOff()
	q := w.quiesce(20 * time.Second)
	st1 := w.stat(b.src, b.dst)
	got := rxlog.drain()

	// ---- oracle
	count := map[uint64]int{}
	var delivered int
	var deliveredBytes int64
	lat := map[uint64]time.Duration{} // send start -> handler, per delivered id
	var maxLat time.Duration
	half := time.Duration(gen.DefaultRequestTimeout) * time.Second / 2
	for i := range got {
		r := &got[i]
		e := exp[r.ID]
		if e == nil {
			w.checkStrays(got[i:i+1], v)
			continue
		}
		count[r.ID]++
		if o, ok := outs[r.ID]; ok {
			d := r.At.Sub(o.Start)
			lat[r.ID] = d
			if d > maxLat {
				maxLat = d
			}
		}
		w.checkRx(r, e, v)
		if r.Len > 4096 {
			f.grew = true
		}
		delivered++
		deliveredBytes += int64(r.Len)
	}
	lost, skipped := 0, 0
	// a timeout is only held against the framework when the system was demonstrably responsive:
	// the message itself reached its handler within half the request timeout (ghosts: every delivered message of the batch did)
	// ... and the way back was responsive too: every acknowledged transfer / call of the batch that succeeded did so within half the timeout
	var maxRTT time.Duration
	for _, o := range outs {
		if o.Err == nil && exp[o.ID] != nil && exp[o.ID].Kind != kSend && o.Dur > maxRTT {
			maxRTT = o.Dur
		}
	}
	slow := func(id uint64) bool {
		if maxRTT >= half {
			return true
		}
		if d, ok := lat[id]; ok {
			return d >= half
		}
		return delivered == 0 || maxLat >= half
	}
	noteSlow := func(e *expect, o outcome) {
		if v.incon == "" {
			v.incon = fmt.Sprintf("slow system: %s timed out after %v but delivery latencies reached %v and round trips %v (>= half the request timeout)", e, o.Dur, maxLat, maxRTT)
		}
	}
	for _, id := range order {
		e := exp[id]
		o, have := outs[id]
		n := count[id]
		remember(id, b.id, want[id], n)
		if have == false {
			v.fail("harness", "no outcome for %s", e)
			continue
		}
		if o.HashAfter != e.Hash {
			v.fail("sender-payload-mutated", "%s: the sender's own payload slice changed during the call", e)
		}
		if o.Err == errSkipped {
			skipped++
			if n > 0 {
				v.fail("phantom-message", "%s was never sent (sender gave up before) but was received", e)
			}
			continue
		}
		if n > 1 {
			v.fail("duplicate-delivery:"+kindName(e.Kind)+"-"+e.Mode, "%s was received %d times", e, n)
		}
		if e.Ghost && e.Deliver != 0 {
			if n > 0 {
				continue // misdelivery already reported by checkRx
			}
			switch e.Kind {
			case kSend:
				if o.Err != nil && isTooLarge(o.Err) == false {
					v.fail("send-error:"+e.Mode, "%s: Send returned %v", e, o.Err)
				}
			default:
				f.acked = true
				switch {
				case isTooLarge(o.Err) && e.Deliver == -1:
				case o.Err == nil:
					v.fail("important-ok-but-not-delivered:"+e.Mode, "%s: important transfer to a process that does not exist reported success after %v", e, o.Dur)
				case o.Err == gen.ErrTimeout && slow(id):
					noteSlow(e, o)
				case o.Err == gen.ErrTimeout:
					v.fail("important-ack-ref-after-buffer-release", "%s: important transfer to a process that does not exist timed out after %v instead of returning the remote reason (acknowledgement lost or miscorrelated)", e, o.Dur)
				case o.Err != gen.ErrProcessUnknown:
					v.fail("important-wrong-reason:"+e.Mode, "%s: important transfer to a process that does not exist returned %v, want %v", e, o.Err, gen.ErrProcessUnknown)
				default:
					f.errAck = true
				}
			}
			continue
		}
		if isTooLarge(o.Err) {
			f.refused = true
			if e.Deliver == 1 {
				v.fail("toolarge-refused-within-limit:"+kindName(e.Kind)+"-"+e.Mode, "%s: sender got ErrTooLarge although payload+overhead is within the peer's MaxMessageSize %d", e, w.maxMsg)
			}
			if n > 0 {
				v.fail("toolarge-but-delivered:"+kindName(e.Kind)+"-"+e.Mode, "%s: sender got ErrTooLarge but the message was received", e)
			}
			continue
		}
		if e.Deliver == 0 {
			// beyond the limit for sure and not refused with ErrTooLarge
			v.fail("toolarge-not-refused:"+kindName(e.Kind)+"-"+e.Mode, "%s: payload alone exceeds the peer's MaxMessageSize %d but the sender got %v (received %d times)", e, w.maxMsg, o.Err, n)
			continue
		}
		switch e.Kind {
		case kSend:
			if o.Err != nil {
				v.fail("send-error:"+e.Mode, "%s: Send returned %v", e, o.Err)
			} else if n == 0 {
				lost++
				w.lostVerdict(v, q, arrived, "message-lost:send-"+e.Mode, e)
			}
		case kSendImp:
			f.acked = true
			switch {
			case o.Err == nil && n == 0:
				lost++
				w.lostVerdict(v, q, arrived, "important-ok-but-not-delivered:"+e.Mode, e)
			case o.Err == gen.ErrTimeout && n == 1 && slow(id):
				noteSlow(e, o)
			case o.Err == gen.ErrTimeout && n == 1:
				v.fail("important-ack-ref-after-buffer-release", "%s: SendImportant returned timeout after %v although the message was placed in the mailbox and handled %v after the send began (acknowledgement lost or miscorrelated)", e, o.Dur, lat[id].Round(time.Microsecond))
			case o.Err != nil && n > 0:
				v.fail("important-error-but-delivered:"+e.Mode, "%s: SendImportant returned %v although the message was received", e, o.Err)
			case o.Err != nil:
				v.fail("important-error:"+e.Mode, "%s: SendImportant to a live process with room returned %v (not received)", e, o.Err)
			}
		case kCall, kCallImp:
			if e.Kind == kCallImp {
				f.acked = true
			}
			if e.ReplyTooLarge {
				switch {
				case o.Err == nil:
					v.fail("toolarge-not-refused:reply-"+e.Mode, "%s: a reply of %d bytes came through although the caller's node limits messages to %d", e, b.xs[indexOf(order, id)].reply, w.maxMsg)
				case o.Err != gen.ErrTimeout:
					v.fail("call-error:"+kindName(e.Kind)+"-"+e.Mode, "%s: call returned %v", e, o.Err)
				case n == 0:
					lost++
					w.lostVerdict(v, q, false, "request-lost:"+kindName(e.Kind)+"-"+e.Mode, e)
				default:
					f.refused = true
				}
				continue
			}
			if o.Err != nil {
				if n > 0 && o.Err == gen.ErrTimeout && (slow(id) || lat[id] >= half/2 || b.xs[indexOf(order, id)].reply > 4096) {
					noteSlow(e, o)
				} else if n > 0 && o.Err == gen.ErrTimeout {
					if q == "" {
						v.fail("reply-lost:"+e.Mode, "%s: request was handled but the call timed out after %v with all links drained", e, o.Dur)
					} else {
						v.incon = "call timed out, no quiescence: " + q
					}
				} else if n == 0 && o.Err == gen.ErrTimeout {
					lost++
					w.lostVerdict(v, q, false, "request-lost:"+kindName(e.Kind)+"-"+e.Mode, e)
				} else {
					v.fail("call-error:"+kindName(e.Kind)+"-"+e.Mode, "%s: call returned %v (received %d times)", e, o.Err, n)
				}
				continue
			}
			rep, ok := o.Reply.(Rep)
			x := b.xs[indexOf(order, id)]
			switch {
			case ok == false:
				v.fail("reply-corrupted:"+e.Mode, "%s: reply has type %T", e, o.Reply)
			case rep.ID != id:
				v.fail("reply-misrouted:"+e.Mode, "%s: got the reply to request %d", e, rep.ID)
			case len(rep.Data) != x.reply || hashOf(rep.Data) != hashOf(genData(id^replyMask, x.reply, x.class)):
				v.fail("reply-corrupted:"+e.Mode, "%s: reply payload differs (len %d, want %d)", e, len(rep.Data), x.reply)
			}
			if x.reply > 4096 {
				f.grew = true
			}
			if n == 0 {
				v.fail("reply-without-request:"+e.Mode, "%s: caller got a reply but the callee never logged the request", e)
			}
		}
	}
	// monotonic cut-off at the size limit
	if w.maxMsg > 0 && anyComp == false {
		w.checkCutoff(b, order, exp, outs, v)
	}
	if n := w.errCount() - err0; n > 0 {
		lines := w.newErrLines(err0)
		if len(lines) > 6 {
			lines = lines[:6]
		}
		v.fail("framework-error-log", "%d error/panic lines were logged by the nodes while only well-formed traffic of live peers was exchanged: %v", n, lines)
	}
	if q != "" && len(v.viol) == 0 && v.incon == "" && lost == 0 {
		// everything expected arrived, but the world did not become quiet: duplicates could still be under way
		v.incon = "watchdog: no quiescence: " + q
	}
	if _, alive := w.linkIdle(w.A, w.B); alive == false {
		w.broken = "connection A-B lost in " + b.id
		v.fail("connection-dropped", "the connection between A and B disappeared during the case; node logs: %v", w.newErrLines(err0))
	}

	// ---- measured non-triviality
	if st0.ok && st1.ok {
		msgs := int64(st1.msgsOut - st0.msgsOut)
		bytes := int64(st1.bytesOut - st0.bytesOut)
		if anyComp && deliveredBytes > 0 && bytes < deliveredBytes {
			f.compr = true
		}
		if w.relay != nil && msgs > 0 {
			chunks, rb := st1.chunksUp-st0.chunksUp, st1.rBytesUp-st0.rBytesUp
			if b.src == w.B {
				chunks, rb = st1.chunksDown-st0.chunksDown, st1.rBytesDown-st0.rBytesDown
			}
			if chunks > msgs {
				f.segmented = true
			}
			if rb > 0 && chunks*8 > rb {
				f.headerCut = true
			}
		}
		if w.pool > 1 && msgs > 1 && (b.noOrder || len(snds) > 1) {
			f.spread = true
		}
	}
	key := fmt.Sprintf("%s/%s/%s/%s/%s", b.scenario, w.class+w.chunk, dirOf(w, b.src), b.keyExtra, compClass(b.comp))
	detail := map[string]any{"world": w.id, "dir": dirOf(w, b.src), "comp": b.comp.String(), "transfers": len(b.xs), "received": delivered,
		"senders": len(snds), "max_latency": maxLat.String(), "max_round_trip": maxRTT.String(), "skipped_after_timeouts": skipped, "strays_before": strays, "wire_bytes": int64(st1.bytesOut - st0.bytesOut), "wire_frames": int64(st1.msgsOut - st0.msgsOut)}
	if len(v.viol) > 0 {
		detail["xfers"] = describe(b.xs, 40)
	}
	emit(b.id, b.scenario, key, f, int64(len(got)+len(outs)), v, detail)
	sampleOnce(b.scenario, map[string]any{"id": b.id, "world": w.id, "scenario": b.scenario, "dir": dirOf(w, b.src), "comp": b.comp.String(), "xfers": describe(b.xs, 8), "flags": f.String()})
}

var sampled = map[string]bool{}

func sampleOnce(k string, v any) {
	if sampled[k] {
		return
	}
	sampled[k] = true
	hk.Sample(v)
}

func describe(xs []xfer, max int) []string {
	var r []string
	for i, x := range xs {
		if i >= max {
			r = append(r, fmt.Sprintf("... %d more", len(xs)-max))
			break
		}
		r = append(r, fmt.Sprintf("%s/%s/size=%d/reply=%d/class=%d", kindName(x.kind), x.mode, x.size, x.reply, x.class))
	}
	return r
}

func compClass(c compSpec) string {
	if c.c.Enable == false {
		return "z-off"
	}
	return fmt.Sprintf("z-%s-l%d", c.c.Type, c.c.Level)
}

func dirOf(w *world, src *side) string {
	if src == w.A {
		return "A>B"
	}
	return "B>A"
}

func indexOf(order []uint64, id uint64) int {
	for i, x := range order {
		if x == id {
			return i
		}
	}
	return -1
}

// lostVerdict decides what a missing message means: with every link drained (all frames written were cut
// out of the stream by the receiving node) and every process asleep with an empty mailbox the message is lost;
// otherwise the watchdog merely expired.
func (w *world) lostVerdict(v *verdict, q string, arrived bool, sig string, e *expect) {
	if _, alive := w.linkIdle(w.A, w.B); alive == false {
		v.fail(sig, "%s: never received, the connection was dropped", e)
		return
	}
	if q == "" && w.decodersIdle() && rxlog.has(e.ID) == false {
		v.fail(sig, "%s: never received although every frame written was received by the peer node, no receive-queue worker is running and all processes are idle", e)
		return
	}
	if v.incon == "" {
		v.incon = "watchdog: message missing and no quiescence: " + q
	}
}

// decodersRunning: some goroutine of this OS process is inside the receive-queue worker of a connection
// (frames are counted as received before they are decoded and routed)
var stackBuf = make([]byte, 4<<20)

func decodersRunning() bool {
	for {
		n := runtime.Stack(stackBuf, true)
		if n < len(stackBuf) {
			return bytes.Contains(stackBuf[:n], []byte("handleRecvQueue"))
		}
		stackBuf = make([]byte, 2*len(stackBuf))
	}
}

// decodersIdle: the links are drained and no receive-queue worker exists, seen twice with no reception in between
func (w *world) decodersIdle() bool {
	n0 := rxlog.n.Load()
	if decodersRunning() {
		return false
	}
	time.Sleep(50 * time.Millisecond)
	idle, alive := w.linkIdle(w.A, w.B)
	return decodersRunning() == false && rxlog.n.Load() == n0 && idle && alive
}

func (w *world) instName(i *actors.Inst) string { return i.Label }

func (w *world) checkRx(r *rx, e *expect, v *verdict) {
	sfx := ":" + kindName(e.Kind) + "-" + e.Mode
	okTarget := false
	for _, t := range e.Targets {
		if t == r.Inst {
			okTarget = true
		}
	}
	if okTarget == false {
		v.fail("misdelivered"+sfx, "%s was received by %s", e, r.Inst.Label)
	}
	if r.CB != e.CB {
		v.fail("wrong-callback"+sfx, "%s arrived as %q, sent as %q", e, r.CB, e.CB)
	}
	if e.Kind != kEvent && r.From != e.From {
		v.fail("wrong-sender-pid"+sfx, "%s: receiver saw from=%s, true sender %s", e, r.From, e.From)
	}
	if e.Kind == kEvent && r.Event != e.Event {
		v.fail("wrong-event"+sfx, "%s: receiver saw event %v, published as %v", e, r.Event, e.Event)
	}
	if r.Len != e.Len || r.Hash != e.Hash {
		v.fail("payload-corrupted"+sfx, "%s: received %d bytes hash %x, sent %d bytes hash %x", e, r.Len, r.Hash, e.Len, e.Hash)
	} else if hashOf(r.data) != e.Hash {
		v.fail("payload-changed-after-delivery"+sfx, "%s: the delivered payload was equal in the handler but changed afterwards", e)
	}
	if r.To != e.ToLabel {
		v.fail("payload-corrupted"+sfx, "%s: label field %q, sent %q", e, r.To, e.ToLabel)
	}
}

// checkStrays judges receptions that do not belong to the running case
func (w *world) checkStrays(rs []rx, v *verdict) int {
	n := 0
	for i := range rs {
		r := &rs[i]
		n++
		if r.Other != "" {
			v.fail("phantom-message", "%s received a %s %s that nobody sent", r.Inst.Label, r.CB, r.Other)
			continue
		}
		st := lookup(r.ID)
		switch {
		case st == nil:
			v.fail("phantom-message", "%s received packet id %d that was never sent (len %d)", r.Inst.Label, r.ID, r.Len)
		case st.delivered >= st.expected && st.expected > 0:
			v.fail("duplicate-delivery:late", "%s received packet id %d of finished case %s again", r.Inst.Label, r.ID, st.caseID)
		case st.expected == 0:
			v.fail("refused-but-delivered:late", "%s received packet id %d of case %s whose sender was told it was not sent", r.Inst.Label, r.ID, st.caseID)
		default:
			st.delivered++ // late arrival of a message that case gave up on (inconclusive there)
		}
	}
	return n
}

func (w *world) checkCutoff(b batch, order []uint64, exp map[uint64]*expect, outs map[uint64]outcome, v *verdict) {
	type key struct {
		mode string
		kind int
	}
	maxOK := map[key]int{}
	minRefused := map[key]int{}
	for _, id := range order {
		e := exp[id]
		o := outs[id]
		k := key{e.Mode, e.Kind}
		if isTooLarge(o.Err) {
			if m, ok := minRefused[k]; ok == false || e.Size < m {
				minRefused[k] = e.Size
			}
		} else if o.Err == nil {
			if e.Size > maxOK[k] {
				maxOK[k] = e.Size
			}
		}
	}
	for k, m := range minRefused {
		if maxOK[k] > m {
			v.fail("toolarge-not-monotonic:"+kindName(k.kind)+"-"+k.mode, "payload of %d bytes was refused as too large while %d bytes were accepted (limit %d)", m, maxOK[k], w.maxMsg)
		}
	}
}

// ---------------------------------------------------------------------------
// size lists

func rangeSizes(lo, hi, step, off int) []int {
	var r []int
	for s := lo + off%step; s <= hi; s += step {
		r = append(r, s)
	}
	return r
}

func mkXfers(mode string, kind int, sizes []int, class int, replyOf func(int) int) []xfer {
	var xs []xfer
	for _, s := range sizes {
		x := xfer{mode: mode, kind: kind, size: s, class: class}
		if kind == kCall || kind == kCallImp {
			x.reply = replyOf(s)
		}
		xs = append(xs, x)
	}
	return xs
}

var modes = []string{"pid", "name", "alias"}

// modes4 adds the name that lives in the atom cache (frame types MessageNameCache / RequestNameCache)
var modes4 = []string{"pid", "name", "alias", "cname"}

func main() {
	hk.InstallHook()
	if err := edf.RegisterTypeOf(Pkt{}); err != nil {
		fmt.Fprintln(os.Stderr, "register Pkt:", err)
		os.Exit(3)
	}
	if err := edf.RegisterTypeOf(Rep{}); err != nil {
		fmt.Fprintln(os.Stderr, "register Rep:", err)
		os.Exit(3)
	}
	// two cached atoms: a confusion of cache ids would deliver to the decoy
	for _, a := range []gen.Atom{nameDecoy, nameCached} {
		if err := edf.RegisterAtom(a); err != nil {
			fmt.Fprintln(os.Stderr, "register atom:", err)
			os.Exit(3)
		}
	}
	regPort = hk.FreePort()
	// SendImportant / CallImportant wait gen.DefaultRequestTimeout seconds (5); experiments may shorten it
	if v := os.Getenv("C12_TIMEOUT"); v != "" {
		fmt.Sscan(v, &gen.DefaultRequestTimeout)
	}
	if pf := os.Getenv("C12_PROF"); pf != "" {
		if fh, err := os.Create(pf); err == nil {
			pprof.StartCPUProfile(fh)
			defer pprof.StopCPUProfile()
		}
	}
	child := os.Getenv("C12_WORLD") != ""
	if child == false {
		emitHeader()
	}
	rc := runAll()
	if child {
		h, _ := hk.PointStats()
		for k, n := range h {
			if strings.HasPrefix(k, "recv.") || strings.HasPrefix(k, "send.") || k == "conn.join" {
				hk.Stat("hook_hits_"+k, n)
			}
		}
		hk.Stat("packets_received", rxlog.n.Load())
	}
	os.Stdout.Sync()
	pprof.StopCPUProfile()
	os.Exit(rc)
}

func emitHeader() {
	hk.Rule("case = world (direct pool 1 with decoy node C | pool 2 with a link closed and re-dialled | pool 3/5 | relay with chunking 1,7,8,9,4095,4096,4097,cycle,prng, with and without pauses | MaxMessageSize 10000 (4096, 70000)) x direction x addressing (pid, name, atom-cached name, alias; unknown pid/name/alias; terminated; full mailbox) x kind (send, important send, call, important call, event to link/monitor subscribers) x size list (byte by byte around 2/4/8/16 KiB and around the size limit, up to 1 MiB, 5 MiB thorough; seeded log-uniform mixes) x compression (off | gzip/zlib/lzw x level x threshold, via process options or setters) x concurrency (1 sender, several senders, hundreds of one-shot acknowledged senders, seeded delays at receive-queue / mailbox yield points). Every packet carries a unique id; the oracle joins the global reception log of all instrumented processes of all nodes with the senders' ledgers. Non-trivial iff measured: relay wrote more chunks than frames (seg) / average chunk < 8-byte header (hdrcut), a delivered payload exceeded the 4096-byte initial receive buffer (grew), wire bytes < payload bytes (z), an important transfer was decided by the remote acknowledgement (ack) or the remote reason (nack), a transfer was refused as too large (toolarge), frames spread over pooled links (spread). distinct = scenario x world class x direction x addressing/kind/size class x compression class x measured flags")
	hk.Assume("a timeout reported by SendImportant/CallImportant (gen.DefaultRequestTimeout, 5 s) is held against the framework only when the message itself reached its handler within half that time (a quarter, and a reply of at most 4 KiB, for requests); plain calls use a 30 s timeout")
	hk.Assume("the three nodes share one OS process (one lib.Buffer pool, one scheduler); TCP is loopback")
	hk.Assume("relay chunking is what the relay wrote; the kernel may coalesce adjacent chunks before the receiving node reads them (an inter-chunk pause is used for tiny chunks)")
	hk.Assume("a message counts as lost only when every frame written by a node was cut out of the byte stream by its peer (connection counters equal in both directions) and every instrumented process sleeps with an empty mailbox")
}

var _ = sort.Ints
