package main

import (
	"encoding/binary"
	"fmt"
	"hash/fnv"
	"sync"
	"sync/atomic"
	"time"

	"ergo.services/ergo/gen"

	"verif/harness/actors"
)

// Pkt is the payload type of every message, request and event of this check.
// It is registered in edf before the nodes start.
type Pkt struct {
	ID    uint64
	Reply uint32 // size of the reply payload the callee must produce (requests only)
	Class uint8  // data class of the reply
	To    string // label of the addressed process (redundant copy, lets the oracle detect header/payload mix-ups)
	Data  []byte
}

// Rep is the reply to a request
type Rep struct {
	ID   uint64
	Data []byte
}

const replyMask = 0x5a5a5a5a00000000

func splitmix(x uint64) uint64 {
	x += 0x9E3779B97F4A7C15
	x = (x ^ (x >> 30)) * 0xBF58476D1CE4E5B9
	x = (x ^ (x >> 27)) * 0x94D049BB133111EB
	return x ^ (x >> 31)
}

// data classes
const (
	classRandom = 0 // incompressible
	classText   = 1 // compressible, position dependent
	classZero   = 2 // maximal compression
)

// genData is a pure function of (id, n, class): the receiver side of the oracle
// never needs the sender's memory.
func genData(id uint64, n int, class int) []byte {
	b := make([]byte, n)
	switch class {
	case classRandom:
		x := splitmix(id)
		i := 0
		for ; i+8 <= n; i += 8 {
			x ^= x << 13
			x ^= x >> 7
			x ^= x << 17
			binary.LittleEndian.PutUint64(b[i:], x)
		}
		for ; i < n; i++ {
			x = splitmix(x)
			b[i] = byte(x)
		}
	case classText:
		var pat [32]byte
		binary.LittleEndian.PutUint64(pat[0:], splitmix(id))
		binary.LittleEndian.PutUint64(pat[8:], splitmix(id+1))
		copy(pat[16:], "ergo-c12-payload")
		for i := 0; i < n; i++ {
			b[i] = pat[i&31] ^ byte(i>>11) // changes every 2 KiB: shifted or swapped blocks change the hash
		}
	case classZero:
		if n >= 8 {
			binary.LittleEndian.PutUint64(b, id)
			binary.LittleEndian.PutUint64(b[n-8:], ^id)
		}
	}
	return b
}

func hashOf(b []byte) uint64 {
	h := fnv.New64a()
	h.Write(b)
	return h.Sum64()
}

// rx is one reception observed by an instrumented process
type rx struct {
	ID    uint64
	Inst  *actors.Inst
	CB    string // msg call event
	From  gen.PID
	Len   int
	Hash  uint64
	To    string
	Event gen.Event
	At    time.Time // when the handler saw it
	data  []byte    // kept to re-hash at decision time (payload must not change after delivery)
	Other string    // set when the message was not a well-formed Pkt
}

type rxLog struct {
	mu   sync.Mutex
	list []rx
	n    atomic.Int64
}

var rxlog rxLog

func (l *rxLog) add(r rx) {
	l.mu.Lock()
	l.list = append(l.list, r)
	l.mu.Unlock()
	l.n.Add(1)
}

// drain returns and forgets everything received so far
func (l *rxLog) drain() []rx {
	l.mu.Lock()
	r := l.list
	l.list = nil
	l.mu.Unlock()
	return r
}

// snapshot returns a copy of what was received so far
func (l *rxLog) countIDs(want map[uint64]int) bool {
	l.mu.Lock()
	defer l.mu.Unlock()
	got := map[uint64]int{}
	for i := range l.list {
		got[l.list[i].ID]++
	}
	for id, n := range want {
		if got[id] < n {
			return false
		}
	}
	return true
}

func (l *rxLog) has(id uint64) bool {
	l.mu.Lock()
	defer l.mu.Unlock()
	for i := range l.list {
		if l.list[i].ID == id {
			return true
		}
	}
	return false
}

// history of ids over the whole run: how often an id was delivered in its own case
type idState struct {
	delivered int
	expected  int
	caseID    string
}

var (
	histMu sync.Mutex
	hist   = map[uint64]*idState{}
	idSeq  atomic.Uint64
)

func newID() uint64 { return idSeq.Add(1) }

func remember(id uint64, caseID string, expected, delivered int) {
	histMu.Lock()
	hist[id] = &idState{delivered: delivered, expected: expected, caseID: caseID}
	histMu.Unlock()
}

func lookup(id uint64) *idState {
	histMu.Lock()
	defer histMu.Unlock()
	return hist[id]
}

// expectation for one id of a case
type expect struct {
	ID      uint64
	Kind    int
	Mode    string
	Targets []*actors.Inst // processes that must receive it exactly once each
	From    gen.PID
	Len     int
	Hash    uint64
	ToLabel string
	CB      string    // msg call event
	Event   gen.Event // for events
	// Deliver: 1 must be delivered, 0 must not be delivered, -1 either (but consistent with the sender's return value)
	Deliver int
	// WantErr: for sends that must be refused: the expected error (nil = none)
	WantErr error
	Size    int
	// Ghost: addressed to a process that does not exist
	Ghost bool
	// ReplyTooLarge: the reply exceeds the limit of the caller's node
	ReplyTooLarge bool
}

func (e *expect) String() string {
	return fmt.Sprintf("id=%d kind=%s mode=%s size=%d to=%s", e.ID, kindName(e.Kind), e.Mode, e.Size, e.ToLabel)
}
