package main

import (
	"bytes"
	"fmt"
	"net"
	"os"
	"os/exec"
	"strings"
	"syscall"
	"time"

	"ergo.services/ergo/gen"

	"verif/harness/actors"
	"verif/harness/hk"
)

func withWorld(cfg worldCfg, fn func(w *world)) {
	// replay filter: skip worlds that cannot contain the wanted case
	if o := hk.Only(); o != "" && strings.HasPrefix(o, cfg.id+"/") == false {
		return
	}
	t0 := time.Now()
	var w *world
	var err error
	for attempt := 0; attempt < 3; attempt++ {
		w, err = startWorld(cfg)
		if err == nil {
			break
		}
		fmt.Fprintf(os.Stderr, "world %s: setup attempt %d failed: %v\n", cfg.id, attempt+1, err)
		if w != nil {
			w.stop()
			w = nil
		}
	}
	if err != nil {
		hk.Emit(hk.Case{ID: cfg.id + "/setup", Scenario: "setup", Verdict: hk.Inconclusive, What: "world setup failed: " + err.Error()})
		return
	}
	fn(w)
	w.finalCheck()
	w.stop()
	fmt.Fprintf(os.Stderr, "world %s done in %v\n", cfg.id, time.Since(t0).Round(time.Millisecond))
}

// finalCheck: after the last case of a world wait a little longer and judge whatever still arrives
func (w *world) finalCheck() {
	id := w.id + "/final"
	if hk.Want(id) == false && hk.Only() != "" {
		return
	}
	v := &verdict{}
	if w.broken == "" {
		if q := w.quiesce(10 * time.Second); q != "" {
			v.incon = "watchdog: no quiescence: " + q
		}
		time.Sleep(100 * time.Millisecond)
	}
	n := w.checkStrays(rxlog.drain(), v)
	var f flags
	emit(id, "final", id, f, int64(n)+1, v, map[string]any{"late_receptions": n})
}

func replySame(s int) int  { return s }
func replySmall(s int) int { return 16 }

// sweep: every kind x addressing with a list of sizes, compression off
func sweep(w *world, src, dst *side, tag string, sizes []int, kinds []int) {
	ms := modes
	if w.class == "direct" && (tag == "small" || tag == "4k") || hk.Thorough() {
		ms = modes4
	}
	for _, kind := range kinds {
		for _, mode := range ms {
			xs := mkXfers(mode, kind, sizes, classRandom, replySame)
			w.runBatch(batch{id: fmt.Sprintf("%s/sweep/%s/%s/%s/%s", w.id, dirOf(w, src), tag, kindName(kind), mode), scenario: "sweep",
				keyExtra: kindName(kind) + "-" + mode + "/" + tag, src: src, dst: dst, xs: xs, seqImp: true})
		}
	}
}

// mixed: one batch with all kinds and addressings interleaved (frames of different types share TCP segments)
func mixed(w *world, src, dst *side, tag string, sizes []int, senders int, noOrder bool, stress map[string]float64, maxSleep time.Duration) {
	rng := hk.Rng("c12", w.id, tag, dirOf(w, src))
	var xs []xfer
	for _, s := range sizes {
		k := allKinds[rng.Intn(len(allKinds))]
		x := xfer{mode: modes4[rng.Intn(4)], kind: k, size: s, class: rng.Intn(3)}
		if k == kCall || k == kCallImp {
			x.reply = []int{0, s, 5000}[rng.Intn(3)]
		}
		// acknowledged transfers wait for the peer: give each its own sender so that they overlap
		// (a known defect makes some of them run into the request timeout)
		if k == kSendImp || k == kCallImp {
			x.own = true
		}
		xs = append(xs, x)
	}
	w.runBatch(batch{id: fmt.Sprintf("%s/mixed/%s/%s", w.id, dirOf(w, src), tag), scenario: "mixed", keyExtra: tag, src: src, dst: dst, xs: xs,
		senders: senders, noOrder: noOrder, stress: stress, maxSleep: maxSleep})
}

func randomSizes(rng interface{ Intn(int) int }, n, max int) []int {
	var r []int
	for i := 0; i < n; i++ {
		// log-uniform
		bits := 1 + rng.Intn(18)
		s := rng.Intn(1 << bits)
		if s > max {
			s = max
		}
		r = append(r, s)
	}
	return r
}

var allKinds = []int{kSend, kSendImp, kCall, kCallImp}

func baseSizes(off int, dense bool) map[string][]int {
	step := 17
	if dense {
		step = 1
	}
	if hk.Thorough() && dense == false {
		step = 3
	}
	return map[string][]int{
		"small": {0, 1, 2, 7, 8, 9, 100, 255, 256, 1000},
		"2k":    rangeSizes(1950, 2080, step, off),
		"4k":    rangeSizes(4000, 4200, step, off),
		"8k":    rangeSizes(8100, 8300, step, off),
		"16k":   rangeSizes(16250, 16450, step*2+1, off),
	}
}

// ---------------------------------------------------------------------------
// compression

func compression(w *world, src, dst *side, big bool) {
	types := []gen.CompressionType{gen.CompressionTypeGZIP, gen.CompressionTypeZLIB, gen.CompressionTypeLZW}
	levels := []gen.CompressionLevel{gen.CompressionDefault, gen.CompressionBestSpeed, gen.CompressionBestSize}
	thresholds := []int{1, 1024, 4150, 8250, 70000}
	n := 0
	for _, ct := range types {
		// one case per compression type: every (level, threshold) is a sender group of its own; the groups
		// run concurrently, important transfers of large compressed frames get a dedicated sender each
		var groups []compSpec
		var xs []xfer
		for _, lv := range levels {
			if ct != gen.CompressionTypeGZIP && lv != gen.CompressionDefault && hk.Thorough() == false {
				continue // the level only reaches the gzip writer
			}
			for ti, th := range thresholds {
				if hk.Thorough() == false && (ti+n+int(hk.Seed()))%2 == 1 && th != 4150 {
					continue
				}
				n++
				// frames around the threshold: payload sizes th-130 .. th+40 bracket "frame length > threshold"
				sizes := []int{100, 1100, 4090, 8190, 20000}
				for _, d := range []int{-130, -60, -20, 0, 40} {
					if s := th + d; s > 0 && s < 200000 {
						sizes = append(sizes, s)
					}
				}
				if big && ti == 1 {
					// large payloads in one group per level only: the receive path copies the buffered rest of
					// the stream once per frame, megabytes in flight make everything slow
					sizes = append(sizes, 65536)
					if hk.Thorough() || lv == gen.CompressionBestSpeed {
						sizes = append(sizes, 300000)
					}
					if hk.Thorough() && lv == gen.CompressionDefault {
						sizes = append(sizes, 1<<20)
					}
				}
				g := len(groups)
				groups = append(groups, compSpec{c: gen.Compression{Enable: true, Type: ct, Level: lv, Threshold: th}, setters: th >= 1024 && n%2 == 0})
				for i, s := range sizes {
					k := allKinds[(i+n)%4]
					x := xfer{mode: modes4[(i+n)%4], kind: k, size: s, class: []int{classText, classRandom, classZero}[(i+n/2)%3], grp: g}
					if k == kCall || k == kCallImp {
						x.reply = s
					}
					if k == kSendImp || k == kCallImp {
						x.own = true
					}
					xs = append(xs, x)
				}
			}
		}
		w.runBatch(batch{id: fmt.Sprintf("%s/compress/%s/%s", w.id, dirOf(w, src), ct), scenario: "compress",
			keyExtra: string(ct), src: src, dst: dst, xs: xs, groups: groups, comp: groups[0]})
	}
}

// ---------------------------------------------------------------------------
// events: producer on p, subscribers on the other node(s)

func events(w *world, prod, sub *side, tag string, sizes []int, comp *gen.Compression) {
	id := fmt.Sprintf("%s/event/%s/%s", w.id, dirOf(w, prod), tag)
	if hk.Want(id) == false {
		return
	}
	v := &verdict{}
	var f flags
	if w.broken != "" {
		v.incon = "world unusable: " + w.broken
		emit(id, "event", id, f, 0, v, nil)
		return
	}
	strays := w.checkStrays(rxlog.drain(), v)
	err0 := w.errCount()
	st0 := w.stat(prod, sub)
	targets := []*actors.Inst{}
	for _, p := range sub.subs {
		targets = append(targets, p.inst)
	}
	if w.C != nil && prod == w.B {
		for _, p := range w.C.subs {
			targets = append(targets, p.inst)
		}
	}
	if prod.subLoc != nil {
		targets = append(targets, prod.subLoc.inst) // local subscriber of the producer's node
	}
	ev := gen.Event{Name: evName, Node: prod.n.Name()}
	exp := map[uint64]*expect{}
	var pkts []Pkt
	var order []uint64
	for i, s := range sizes {
		idn := newID()
		class := i % 3
		data := genData(idn, s, class)
		exp[idn] = &expect{ID: idn, Kind: kEvent, Mode: "event", Targets: targets, Len: len(data), Hash: hashOf(data), ToLabel: "subscribers", CB: "event", Event: ev, Size: s, Deliver: 1}
		pkts = append(pkts, Pkt{ID: idn, To: "subscribers", Data: data})
		order = append(order, idn)
	}
	// the producer's compression is set through a batch with no items
	if comp != nil {
		out := make(chan []outcome, 1)
		prod.n.Send(prod.prod.pid, cmdBatch{Setters: comp, Out: out})
		<-out
	}
	out := make(chan []outcome, 1)
	prod.n.Send(prod.prod.pid, cmdEvents{Name: evName, Token: prod.token, Pkts: pkts, Out: out})
	var outs []outcome
	select {
	case outs = <-out:
	case <-time.After(60 * time.Second):
		v.incon = "watchdog: producer did not finish"
		emit(id, "event", id, f, 0, v, nil)
		w.broken = "producer stuck"
		return
	}
	if comp != nil {
		off := gen.Compression{Enable: false, Type: comp.Type, Level: comp.Level, Threshold: comp.Threshold}
		o2 := make(chan []outcome, 1)
		prod.n.Send(prod.prod.pid, cmdBatch{Setters: &off, Out: o2})
		<-o2
	}
	want := map[uint64]int{}
	for _, o := range outs {
		if o.Err == nil {
			want[o.ID] = len(targets)
		}
	}
	arrived := hk.WaitUntil(20*time.Second, func() bool { return rxlog.countIDs(want) })
	q := w.quiesce(20 * time.Second)
	st1 := w.stat(prod, sub)
	got := rxlog.drain()
	type key struct {
		id   uint64
		inst *actors.Inst
	}
	count := map[key]int{}
	var bytes int64
	for i := range got {
		r := &got[i]
		e := exp[r.ID]
		if e == nil {
			w.checkStrays(got[i:i+1], v)
			continue
		}
		w.checkRx(r, e, v)
		count[key{r.ID, r.Inst}]++
		if r.Len > 4096 {
			f.grew = true
		}
		if r.Inst == targets[0] {
			bytes += int64(r.Len)
		}
	}
	for k, o := range outs {
		e := exp[o.ID]
		if o.Err != nil {
			v.fail("event-send-error", "%s: SendEvent returned %v", e, o.Err)
			remember(o.ID, id, 0, 0)
			continue
		}
		if o.HashAfter != e.Hash {
			v.fail("sender-payload-mutated", "%s: the producer's payload slice changed during SendEvent", e)
		}
		total := 0
		for _, t := range targets {
			n := count[key{o.ID, t}]
			total += n
			if n > 1 {
				v.fail("duplicate-delivery:event", "%s (#%d) was received %d times by %s", e, k, n, t.Label)
			}
			if n == 0 {
				w.lostVerdict(v, q, arrived, "message-lost:event", e)
			}
		}
		remember(o.ID, id, len(targets), total)
	}
	if n := w.errCount() - err0; n > 0 {
		lines := w.newErrLines(err0)
		if len(lines) > 6 {
			lines = lines[len(lines)-6:]
		}
		v.fail("framework-error-log", "%d error/panic lines were logged by the nodes while only well-formed traffic of live peers was exchanged: %v", n, lines)
	}
	if q != "" && len(v.viol) == 0 && v.incon == "" {
		v.incon = "watchdog: no quiescence: " + q
	}
	if st0.ok && st1.ok {
		msgs := int64(st1.msgsOut - st0.msgsOut)
		wire := int64(st1.bytesOut - st0.bytesOut)
		if comp != nil && bytes > 0 && wire < bytes {
			f.compr = true
		}
		if w.relay != nil && msgs > 0 {
			chunks, rb := st1.chunksUp-st0.chunksUp, st1.rBytesUp-st0.rBytesUp
			if prod == w.B {
				chunks, rb = st1.chunksDown-st0.chunksDown, st1.rBytesDown-st0.rBytesDown
			}
			if chunks > msgs {
				f.segmented = true
			}
			if rb > 0 && chunks*8 > rb {
				f.headerCut = true
			}
		}
	}
	cs := "z-off"
	if comp != nil {
		cs = fmt.Sprintf("z-%s-l%d", comp.Type, comp.Level)
	}
	key2 := fmt.Sprintf("event/%s/%s/%s/%s", w.class+w.chunk, dirOf(w, prod), tag, cs)
	emit(id, "event", key2, f, int64(len(got)+len(outs)), v, map[string]any{"world": w.id, "events": len(pkts), "subscribers": len(targets), "received": len(got), "strays_before": strays, "sizes": sizes})
	sampleOnce("event", map[string]any{"id": id, "world": w.id, "scenario": "event", "sizes": sizes, "subscribers": len(targets), "comp": cs})
}

// ---------------------------------------------------------------------------
// important transfers that must fail with the remote reason: terminated process, full mailbox

func importantFailures(w *world, src, dst *side) {
	id := fmt.Sprintf("%s/impfail/%s", w.id, dirOf(w, src))
	if hk.Want(id) == false {
		return
	}
	v := &verdict{}
	var f flags
	if w.broken != "" {
		v.incon = "world unusable: " + w.broken
		emit(id, "impfail", id, f, 0, v, nil)
		return
	}
	w.checkStrays(rxlog.drain(), v)
	err0 := w.errCount()

	// victim 1: terminated
	dead, err := w.spawn(dst, id+"/dead", gen.ProcessOptions{}, "")
	if err != nil {
		v.incon = "spawn: " + err.Error()
		emit(id, "impfail", id, f, 0, v, nil)
		return
	}
	dst.n.Send(dead.pid, cmdStop{})
	if hk.WaitUntil(10*time.Second, func() bool { _, e := dst.n.ProcessInfo(dead.pid); return e != nil }) == false {
		v.incon = "watchdog: killed process still present"
	}
	// victim 2: mailbox of one slot, parked in a handler, slot taken
	full, err := w.spawn(dst, id+"/full", gen.ProcessOptions{MailboxSize: 1}, "")
	if err != nil {
		v.incon = "spawn: " + err.Error()
		emit(id, "impfail", id, f, 0, v, nil)
		return
	}
	blk := cmdBlock{Entered: make(chan struct{}), Release: make(chan struct{})}
	dst.n.Send(full.pid, blk)
	select {
	case <-blk.Entered:
	case <-time.After(10 * time.Second):
		v.incon = "watchdog: victim did not enter its handler"
	}
	fillerID := newID()
	fdata := genData(fillerID, 10, classRandom)
	if err := dst.n.Send(full.pid, Pkt{ID: fillerID, To: full.label, Data: fdata}); err != nil {
		v.incon = "filler: " + err.Error()
	}
	if v.incon != "" {
		close(blk.Release)
		emit(id, "impfail", id, f, 0, v, nil)
		return
	}
	snd, err := w.spawn(src, id+"/sender", gen.ProcessOptions{}, "")
	if err != nil {
		close(blk.Release)
		v.incon = "spawn: " + err.Error()
		emit(id, "impfail", id, f, 0, v, nil)
		return
	}
	type want struct {
		e    *expect
		errs []error
		what string
	}
	var wants []want
	var items []item
	add := func(to any, kind int, what string, errs ...error) {
		idn := newID()
		data := genData(idn, 64, classRandom)
		e := &expect{ID: idn, Kind: kind, Mode: what, From: snd.pid, Len: 64, Hash: hashOf(data), ToLabel: what, Size: 64}
		wants = append(wants, want{e, errs, what})
		items = append(items, item{To: to, Kind: kind, P: Pkt{ID: idn, To: what, Data: data}})
	}
	ctl := func() {
		idn := newID()
		data := genData(idn, 64, classRandom)
		e := &expect{ID: idn, Kind: kSendImp, Mode: "control", From: snd.pid, Len: 64, Hash: hashOf(data), ToLabel: dst.rPID.label, Size: 64}
		wants = append(wants, want{e, nil, "control"})
		items = append(items, item{To: dst.rPID.pid, Kind: kSendImp, P: Pkt{ID: idn, To: dst.rPID.label, Data: data}})
	}
	ctl() // controls: a live addressee before and after, to know how responsive the system was
	for _, k := range []int{kSendImp, kCallImp} {
		add(dead.pid, k, "terminated", gen.ErrProcessUnknown, gen.ErrProcessTerminated)
		add(full.pid, k, "mailbox-full", gen.ErrProcessMailboxFull)
	}
	add(full.pid, kSend, "mailbox-full-plain") // dropped or (if it is handled after the release) delivered to the victim, never to anybody else
	add(dead.pid, kSend, "terminated-plain")
	add(full.pid, kCallImp, "mailbox-full", gen.ErrProcessMailboxFull) // also a fence: same sender, same addressee, handled after the plain sends
	ctl()
	out := make(chan []outcome, 1)
	src.n.Send(snd.pid, cmdBatch{Items: items, Out: out})
	var outs []outcome
	select {
	case outs = <-out:
	case <-time.After(90 * time.Second):
		v.incon = "watchdog: sender did not finish"
	}
	close(blk.Release)
	q := w.quiesce(20 * time.Second)
	got := rxlog.drain()
	seen := map[uint64]int{}
	at := map[uint64]time.Time{}
	for i := range got {
		at[got[i].ID] = got[i].At
		if got[i].Inst == full.inst && got[i].To == "mailbox-full-plain" {
			continue // tolerated: a plain send may be handled after the victim was released
		}
		seen[got[i].ID]++
		if got[i].ID == fillerID {
			if got[i].Inst != full.inst || got[i].Hash != hashOf(fdata) {
				v.fail("misdelivered:local", "local filler message arrived wrongly")
			}
		}
	}
	if v.incon == "" {
		responsive := true
		half := time.Duration(gen.DefaultRequestTimeout) * time.Second / 2
		for i, wnt := range wants {
			if wnt.what == "control" {
				o := outs[i]
				t, ok := at[wnt.e.ID]
				if ok == false || t.Sub(o.Start) >= half {
					responsive = false
				}
			}
		}
		for i, wnt := range wants {
			o := outs[i]
			n := seen[wnt.e.ID]
			if wnt.what == "control" {
				remember(wnt.e.ID, id, 1, n)
				switch {
				case n != 1 && q == "":
					v.fail("message-lost:control", "%s: control message received %d times", wnt.e, n)
				case o.Err == gen.ErrTimeout && n == 1 && responsive:
					v.fail("important-ack-ref-after-buffer-release", "%s: SendImportant timed out after %v although delivered", wnt.e, o.Dur)
				case o.Err != nil && o.Err != gen.ErrTimeout:
					v.fail("important-error-but-delivered:control", "%s: returned %v", wnt.e, o.Err)
				}
				continue
			}
			remember(wnt.e.ID, id, 0, n)
			if n > 0 {
				v.fail("delivered-without-room:"+wnt.what, "%s: received %d times by somebody although the addressee is %s", wnt.e, n, wnt.what)
			}
			if len(wnt.errs) == 0 {
				if o.Err != nil {
					v.fail("send-error:"+wnt.what, "%s: plain Send returned %v", wnt.e, o.Err)
				}
				continue
			}
			f.acked = true
			ok := false
			for _, e := range wnt.errs {
				if o.Err == e {
					ok = true
				}
			}
			switch {
			case ok:
				f.errAck = true
			case o.Err == nil:
				v.fail("important-ok-but-not-delivered:"+wnt.what, "%s: reported success", wnt.e)
			case o.Err == gen.ErrTimeout && responsive == false:
				if v.incon == "" {
					v.incon = "slow system: an important transfer timed out and the control messages took more than half the request timeout"
				}
			case o.Err == gen.ErrTimeout:
				v.fail("important-timeout-instead-of-reason:"+wnt.what, "%s: timed out after %v instead of returning %v", wnt.e, o.Dur, wnt.errs)
			default:
				v.fail("important-wrong-reason:"+wnt.what, "%s: returned %v, want one of %v", wnt.e, o.Err, wnt.errs)
			}
		}
		if seen[fillerID] != 1 && q == "" {
			v.fail("message-lost:local", "the filler message in the victim's mailbox was received %d times", seen[fillerID])
		}
	}
	remember(fillerID, id, 1, seen[fillerID])
	if n := w.errCount() - err0; n > 0 {
		v.fail("framework-error-log", "%d error/panic lines logged: %v", n, w.newErrLines(err0))
	}
	if q != "" && v.incon == "" && len(v.viol) == 0 {
		v.incon = "watchdog: no quiescence: " + q
	}
	emit(id, "impfail", fmt.Sprintf("impfail/%s/%s", w.class+w.chunk, dirOf(w, src)), f, int64(len(outs)+len(got)), v, map[string]any{"world": w.id})
	for _, p := range []*proc{full, snd} {
		for _, s := range []*side{src, dst} {
			for i, q := range s.all {
				if q == p {
					s.n.Send(p.pid, cmdStop{})
					s.all = append(s.all[:i], s.all[i+1:]...)
					break
				}
			}
		}
	}
	for i, q := range dst.all {
		if q == dead {
			dst.all = append(dst.all[:i], dst.all[i+1:]...)
			break
		}
	}
}

// ---------------------------------------------------------------------------
// many concurrent important senders over several receive queues (acknowledgement correlation)

func ackStress(w *world, src, dst *side, round int) {
	rng := hk.Rng("c12", "ack", w.id, fmt.Sprint(round))
	n := 150 + rng.Intn(250)
	var xs []xfer
	for i := 0; i < n; i++ {
		mode := modes4[rng.Intn(4)]
		if rng.Intn(5) == 0 {
			mode = []string{"nopid", "noname", "noalias"}[rng.Intn(3)]
		}
		kind := kSendImp
		if rng.Intn(6) == 0 {
			kind = kCallImp
		}
		size := rng.Intn(300)
		if rng.Intn(12) == 0 {
			size = 3000 + rng.Intn(6000)
		}
		// every acknowledged transfer has a sender of its own: all of them wait for their acknowledgement at the same time
		xs = append(xs, xfer{mode: mode, kind: kind, size: size, class: rng.Intn(3), reply: rng.Intn(64), own: true})
	}
	// some plain traffic from shared senders in between
	for i := 0; i < n/2; i++ {
		xs = append(xs, xfer{mode: modes[rng.Intn(3)], kind: kSend, size: rng.Intn(2000), class: rng.Intn(3)})
	}
	rng.Shuffle(len(xs), func(i, j int) { xs[i], xs[j] = xs[j], xs[i] })
	w.runBatch(batch{id: fmt.Sprintf("%s/ackstress/%s/%d", w.id, dirOf(w, src), round), scenario: "ackstress", keyExtra: fmt.Sprintf("n%d", n/100), src: src, dst: dst, xs: xs, senders: 4,
		stress:   map[string]float64{"mpsc.push.swap": 0.25, "mpsc.push.swapped": 0.25, "proc.run.wake": 0.25, "recv.push": 0.1, "recv.frame": 0.05, "send.pick": 0.05},
		maxSleep: time.Duration(50+rng.Intn(300)) * time.Microsecond})
}

// spread: pooled links, senders without network order, delays at the receive points
func spread(w *world, src, dst *side, round int) {
	rng := hk.Rng("c12", "spread", w.id, fmt.Sprint(round))
	senders := 4 + rng.Intn(8)
	n := senders * (20 + rng.Intn(30))
	sizes := randomSizes(rng, n, 40000)
	mixed(w, src, dst, fmt.Sprintf("spread%d", round), sizes, senders, round%2 == 0,
		map[string]float64{"recv.frame": 0.3, "recv.push": 0.2, "recv.pushed": 0.2, "recv.unlock": 0.3, "recv.recheck": 0.3, "recv.relock": 0.3, "send.pick": 0.2, "mpsc.push.swapped": 0.05},
		time.Duration(100+rng.Intn(500))*time.Microsecond)
}

// ---------------------------------------------------------------------------
// a pooled link is lost and dialled again: afterwards every sender must get through again

func redial(w *world) {
	id := w.id + "/redial"
	if hk.Want(id) == false {
		return
	}
	v := &verdict{}
	var f flags
	if w.broken != "" {
		v.incon = "world unusable: " + w.broken
		emit(id, "redial", id, f, 0, v, nil)
		return
	}
	w.checkStrays(rxlog.drain(), v)
	// the dialling side's end of the second link: remote port = B's acceptor
	var victim net.Conn
	w.connMu.Lock()
	k := 0
	for _, c := range w.conns {
		if ta, ok := c.RemoteAddr().(*net.TCPAddr); ok && ta.Port == int(w.B.n.Port) {
			if k == 1 {
				victim = c
			}
			k++
		}
	}
	w.connMu.Unlock()
	if victim == nil {
		v.incon = "second pool link of A not found"
		emit(id, "redial", id, f, 0, v, nil)
		return
	}
	joins := hk.Hits("conn.join")
	victim.Close()
	if hk.WaitUntil(20*time.Second, func() bool { return hk.Hits("conn.join") > joins }) == false {
		v.incon = "watchdog: no re-dialled link joined B's pool"
		emit(id, "redial", id, f, 0, v, nil)
		w.broken = "no redial"
		return
	}
	time.Sleep(100 * time.Millisecond) // let the dialling side resume serving the new link (not decisive)
	const senders = 8
	const per = 5
	type snd struct {
		p    *proc
		ids  []uint64
		out  chan []outcome
		outs []outcome
	}
	exp := map[uint64]*expect{}
	var snds []*snd
	for i := 0; i < senders; i++ {
		p, err := w.spawn(w.A, fmt.Sprintf("%s/sender%d", id, i), gen.ProcessOptions{}, "")
		if err != nil {
			v.incon = "spawn: " + err.Error()
			emit(id, "redial", id, f, 0, v, nil)
			return
		}
		sn := &snd{p: p, out: make(chan []outcome, 1)}
		var items []item
		for j := 0; j <= per; j++ {
			idn := newID()
			data := genData(idn, 100+j, classRandom)
			kind := kSend
			cb := "msg"
			if j == per {
				kind, cb = kCall, "call" // closes the sender's sequence: same link, same receive queue
			}
			exp[idn] = &expect{ID: idn, Kind: kind, Mode: "pid", Targets: []*actors.Inst{w.B.rPID.inst}, From: p.pid, Len: len(data), Hash: hashOf(data), ToLabel: w.B.rPID.label, CB: cb, Size: len(data), Deliver: 1}
			items = append(items, item{To: w.B.rPID.pid, Kind: kind, Timeout: 5, P: Pkt{ID: idn, Reply: 8, To: w.B.rPID.label, Data: data}})
			sn.ids = append(sn.ids, idn)
		}
		snds = append(snds, sn)
		w.A.n.Send(p.pid, cmdBatch{Items: items, Out: sn.out})
	}
	for _, sn := range snds {
		select {
		case sn.outs = <-sn.out:
		case <-time.After(60 * time.Second):
			v.incon = "watchdog: sender stuck"
		}
	}
	if v.incon != "" {
		emit(id, "redial", id, f, 0, v, nil)
		w.broken = "sender stuck"
		return
	}
	time.Sleep(200 * time.Millisecond)
	got := rxlog.drain()
	count := map[uint64]int{}
	at := map[uint64]time.Time{}
	for i := range got {
		r := &got[i]
		if e := exp[r.ID]; e != nil {
			w.checkRx(r, e, v)
			count[r.ID]++
			at[r.ID] = r.At
		} else {
			w.checkStrays(got[i:i+1], v)
		}
	}
	okSenders, deadSenders := 0, 0
	var deadPids []string
	var maxLat time.Duration
	for _, sn := range snds {
		n := 0
		for j, idn := range sn.ids {
			n += count[idn]
			if count[idn] > 1 {
				v.fail("duplicate-delivery:redial", "%s received %d times", exp[idn], count[idn])
			}
			if t, ok := at[idn]; ok {
				if d := t.Sub(sn.outs[j].Start); d > maxLat {
					maxLat = d
				}
			}
			remember(idn, id, 1, count[idn])
		}
		callErr := sn.outs[per].Err
		switch {
		case n == per+1 && callErr == nil:
			okSenders++
		case n == 0 && callErr == gen.ErrTimeout:
			deadSenders++
			deadPids = append(deadPids, fmt.Sprintf("%s (id%%255=%d)", sn.p.pid, sn.p.pid.ID%255))
		}
	}
	st := w.stat(w.A, w.B)
	detail := map[string]any{"senders": senders, "ok_senders": okSenders, "silent_senders": deadSenders, "A_frames_out": st.msgsOut, "B_frames_in": st.peerMsgsIn, "max_latency_of_delivered": maxLat.String()}
	switch {
	case okSenders == senders:
		f.spread = true
	case deadSenders > 0 && okSenders > 0 && okSenders+deadSenders == senders && maxLat < 2500*time.Millisecond:
		f.spread = true
		v.fail("message-lost-after-pool-link-redial", "after one of A's 2 pooled links was closed and dialled again (B's pool joined the new link), %d of %d senders get nothing through any more: Send returns nil, nothing is received, a call over the same link times out, while the other senders' traffic arrives within %v; A wrote %d frames, B received %d; silent senders: %v",
			deadSenders, senders, maxLat.Round(time.Millisecond), st.msgsOut, st.peerMsgsIn, deadPids)
	default:
		v.incon = fmt.Sprintf("unclear outcome after re-dial: %d senders fine, %d silent of %d (max latency %v)", okSenders, deadSenders, senders, maxLat)
	}
	if okSenders != senders {
		w.broken = "traffic lost after re-dial"
	}
	emit(id, "redial", "redial/pool2", f, int64(len(got))+senders*(per+1), v, detail)
}

// ---------------------------------------------------------------------------
// size limit

func sizeLimit(w *world, src, dst *side) {
	m := w.maxMsg
	dense := rangeSizes(m-330, m+40, 1, 0)
	sparse := rangeSizes(m-330, m+40, 11, int(hk.Seed()))
	beyond := []int{m + 1000, 2 * m, 3*m + 17}
	for _, kind := range allKinds {
		for _, mode := range modes {
			sizes := sparse
			if kind == kSend && mode == "pid" || hk.Thorough() {
				sizes = dense
			}
			sizes = append(append([]int{10, m / 2}, sizes...), beyond...)
			xs := mkXfers(mode, kind, sizes, classRandom, replySmall)
			w.runBatch(batch{id: fmt.Sprintf("%s/limit/%s/%s/%s", w.id, dirOf(w, src), kindName(kind), mode), scenario: "limit",
				keyExtra: kindName(kind) + "-" + mode, src: src, dst: dst, xs: xs, seqImp: true})
		}
	}
	// unknown addressees: the size check precedes everything else
	var xs []xfer
	for _, mode := range []string{"nopid", "noname", "noalias"} {
		for _, kind := range []int{kSend, kSendImp, kCallImp} {
			xs = append(xs, xfer{mode: mode, kind: kind, size: 2 * m, class: classRandom}, xfer{mode: mode, kind: kind, size: 50, class: classRandom})
		}
	}
	w.runBatch(batch{id: fmt.Sprintf("%s/limit/%s/ghosts", w.id, dirOf(w, src)), scenario: "limit", keyExtra: "ghosts", src: src, dst: dst, xs: xs, seqImp: true})
	// replies beyond the caller's limit are refused at the callee
	xs = nil
	for _, mode := range modes {
		xs = append(xs, xfer{mode: mode, kind: kCall, size: 100, reply: 2 * m, class: classRandom, timeout: 1})
		xs = append(xs, xfer{mode: mode, kind: kCall, size: 100, reply: m / 2, class: classRandom, timeout: 5})
	}
	w.runBatch(batch{id: fmt.Sprintf("%s/limit/%s/replies", w.id, dirOf(w, src)), scenario: "limit", keyExtra: "replies", src: src, dst: dst, xs: xs})
	// with compression: the wire frame counts
	for _, ct := range []gen.CompressionType{gen.CompressionTypeGZIP, gen.CompressionTypeLZW, gen.CompressionTypeZLIB} {
		xs = nil
		for i, mode := range modes {
			for _, kind := range allKinds {
				xs = append(xs,
					xfer{mode: mode, kind: kind, size: 2 * m, class: classRandom, reply: 8},        // incompressible: must be refused
					xfer{mode: mode, kind: kind, size: 3 * m, class: classText, reply: 8},          // either, but consistently
					xfer{mode: mode, kind: kind, size: m / 2, class: i % 3, reply: 8},              // must pass
					xfer{mode: mode, kind: kind, size: m - 100 + 50*i, class: classZero, reply: 8}) // uncompressed frame around the limit
			}
		}
		w.runBatch(batch{id: fmt.Sprintf("%s/limit/%s/z-%s", w.id, dirOf(w, src), ct), scenario: "limit", keyExtra: "z", src: src, dst: dst, xs: xs,
			comp: compSpec{c: gen.Compression{Enable: true, Type: ct, Threshold: 1024}}})
	}
	// events within the limit still flow
	events(w, dst, src, "limit", []int{10, m / 2, m - 400}, nil)
}

// ---------------------------------------------------------------------------

type job struct {
	cfg worldCfg
	fn  func(w *world)
}

// jobs is the list of worlds of this run: a function of seed and tier only
func jobs() []job {
	off := int(hk.Seed() % 17)
	thorough := hk.Thorough()
	var js []job
	add := func(cfg worldCfg, fn func(w *world)) { js = append(js, job{cfg, fn}) }

	// ------------------------------------------------------------------ direct, pool 1, decoy node C
	add(worldCfg{id: "direct1-sweep", pool: 1, decoyC: true}, func(w *world) {
		bs := baseSizes(off, true)
		for _, tag := range []string{"small", "2k", "4k", "8k"} {
			sweep(w, w.A, w.B, tag, bs[tag], allKinds)
		}
		sp := baseSizes(off, false)
		sweep(w, w.A, w.B, "16k", sp["16k"], allKinds)
		sweep(w, w.B, w.A, "small", bs["small"], allKinds)
		sweep(w, w.B, w.A, "4k", sp["4k"], allKinds)
		sweep(w, w.B, w.A, "8k", sp["8k"], []int{kSend, kCallImp})
		big := []int{65536, 1 << 20}
		if thorough {
			big = append(big, 5<<20)
		}
		sweep(w, w.A, w.B, "big", big, allKinds)
		sweep(w, w.B, w.A, "big", big, []int{kSend, kCall})
		importantFailures(w, w.A, w.B)
		importantFailures(w, w.B, w.A)
		w.runBatch(batch{id: w.id + "/ghosts/A>B", scenario: "ghosts", keyExtra: "ghosts", src: w.A, dst: w.B, xs: ghostXfers(), seqImp: true})
		w.runBatch(batch{id: w.id + "/ghosts/B>A", scenario: "ghosts", keyExtra: "ghosts", src: w.B, dst: w.A, xs: ghostXfers(), seqImp: true})
	})
	add(worldCfg{id: "direct1-events", pool: 1, decoyC: true}, func(w *world) {
		bs := baseSizes(off, true)
		sp := baseSizes(off, false)
		events(w, w.B, w.A, "small", bs["small"], nil)
		events(w, w.B, w.A, "4k", sp["4k"], nil)
		events(w, w.B, w.A, "8k", sp["8k"], nil)
		events(w, w.A, w.B, "mix", []int{0, 100, 4060, 8150, 65536, 1 << 20}, nil)
		events(w, w.B, w.A, "gzip", []int{100, 1100, 4060, 8150, 65536, 300000}, &gen.Compression{Enable: true, Type: gen.CompressionTypeGZIP, Threshold: 1024})
		events(w, w.A, w.B, "lzw", []int{100, 1100, 4060, 8150, 65536}, &gen.Compression{Enable: true, Type: gen.CompressionTypeLZW, Threshold: 2048})
		compression(w, w.A, w.B, true)
		compression(w, w.B, w.A, false)
	})
	add(worldCfg{id: "direct1-mixed", pool: 1}, func(w *world) {
		rng := hk.Rng("c12", "direct1", "random")
		for k := 0; k < hk.Pick(4, 24); k++ {
			mixed(w, w.A, w.B, fmt.Sprintf("rand%d", k), randomSizes(rng, 120, 200000), 1+k%3, false, nil, 0)
			mixed(w, w.B, w.A, fmt.Sprintf("rand%d", k), randomSizes(rng, 120, 200000), 1+k%2, false, nil, 0)
		}
	})
	// ------------------------------------------------------------------ relay worlds (pool 1)
	chunkings := []string{"1", "7", "8", "9", "4095", "4096", "4097", "cycle", "prng"}
	if thorough == false {
		// quick tier: three fixed chunkings plus two that rotate with the seed
		rot := []string{"7", "9", "4095", "4097", "cycle", "8"}
		chunkings = []string{"1", "4096", "prng", rot[int(hk.Seed())%len(rot)], rot[int(hk.Seed()+3)%len(rot)]}
	}
	for _, ch := range chunkings {
		add(worldCfg{id: "relay-" + ch, pool: 1, chunk: ch}, func(w *world) {
			sp := baseSizes(off, false)
			small := []int{0, 1, 7, 100, 1000}
			kinds := allKinds
			rng := hk.Rng("c12", w.id, "random")
			if w.slow {
				// tiny chunks: every header and every fixed field is cut; keep the volume low
				sz := append(append([]int{}, small...), 2040+off, 4050+off, 8150+off)
				if thorough {
					sz = append(sz, sp["4k"]...)
				}
				sweep(w, w.A, w.B, "tiny", sz, kinds)
				sweep(w, w.B, w.A, "tiny", sz, []int{kSend, kCallImp})
				events(w, w.B, w.A, "tiny", sz, nil)
				mixed(w, w.A, w.B, "rand", randomSizes(rng, hk.Pick(40, 300), 20000), 2, false, nil, 0)
				compression(w, w.A, w.B, false)
			} else {
				sz := append(append(append(append([]int{}, small...), sp["2k"]...), sp["4k"]...), sp["8k"]...)
				sweep(w, w.A, w.B, "bounds", sz, kinds)
				sweep(w, w.B, w.A, "bounds", sz, []int{kSend, kCall, kSendImp})
				sweep(w, w.A, w.B, "big", []int{65536, 1 << 20}, []int{kSend, kCall})
				events(w, w.B, w.A, "bounds", append(append([]int{}, small...), sp["4k"]...), nil)
				events(w, w.A, w.B, "big", []int{8150, 65536, 300000}, &gen.Compression{Enable: true, Type: gen.CompressionTypeZLIB, Threshold: 1024})
				for k := 0; k < hk.Pick(2, 8); k++ {
					mixed(w, w.A, w.B, fmt.Sprintf("rand%d", k), randomSizes(rng, 100, 100000), 1+k%3, false, nil, 0)
					mixed(w, w.B, w.A, fmt.Sprintf("rand%d", k), randomSizes(rng, 100, 100000), 1+k%3, false, nil, 0)
				}
				compression(w, w.A, w.B, true)
				if thorough {
					compression(w, w.B, w.A, true)
				}
			}
			importantFailures(w, w.A, w.B)
			w.runBatch(batch{id: w.id + "/ghosts/A>B", scenario: "ghosts", keyExtra: "ghosts", src: w.A, dst: w.B, xs: ghostXfers(), seqImp: true})
		})
	}
	// relay with pauses between chunks: the reader certainly sees the cuts
	add(worldCfg{id: "relay-cycle-paused", pool: 1, chunk: "cycle", delay: 30 * time.Microsecond}, func(w *world) {
		sz := []int{0, 1, 100, 1000, 4060 + off, 8150 + off}
		sweep(w, w.A, w.B, "paused", sz, allKinds)
		sweep(w, w.B, w.A, "paused", sz, []int{kSend, kCall})
		events(w, w.B, w.A, "paused", sz, nil)
	})
	// ------------------------------------------------------------------ pooled links
	for _, ps := range []int{3, 5} {
		add(worldCfg{id: fmt.Sprintf("pool%d-spread", ps), pool: ps}, func(w *world) {
			sp := baseSizes(off, false)
			sweep(w, w.A, w.B, "bounds", append(append([]int{0, 1, 100}, sp["4k"]...), sp["8k"]...), allKinds)
			sweep(w, w.B, w.A, "bounds", append([]int{0, 1, 100}, sp["4k"]...), []int{kSend, kCallImp})
			events(w, w.B, w.A, "bounds", append([]int{0, 100}, sp["4k"]...), nil)
			for k := 0; k < hk.Pick(3, 16); k++ {
				spread(w, w.A, w.B, k)
				spread(w, w.B, w.A, k)
			}
		})
		add(worldCfg{id: fmt.Sprintf("pool%d-ack", ps), pool: ps}, func(w *world) {
			for k := 0; k < hk.Pick(4, 24); k++ {
				ackStress(w, w.A, w.B, k)
				if k%2 == 1 {
					ackStress(w, w.B, w.A, k)
				}
			}
			importantFailures(w, w.A, w.B)
		})
	}
	add(worldCfg{id: "pool2-redial", pool: 2}, func(w *world) {
		mixed(w, w.A, w.B, "before", []int{10, 100, 1000, 5000, 10, 100, 1000, 5000, 10, 100, 1000, 5000}, 4, false, nil, 0)
		redial(w)
	})
	// ------------------------------------------------------------------ size limit
	limits := []int{10000}
	if thorough {
		limits = append(limits, 4096, 70000)
	}
	for _, m := range limits {
		add(worldCfg{id: fmt.Sprintf("limit%d-ab", m), pool: 1, maxMsg: m}, func(w *world) { sizeLimit(w, w.A, w.B) })
		add(worldCfg{id: fmt.Sprintf("limit%d-ba", m), pool: 1, maxMsg: m}, func(w *world) { sizeLimit(w, w.B, w.A) })
	}
	add(worldCfg{id: "limit10000-relay", pool: 1, maxMsg: 10000, chunk: "prng"}, func(w *world) { sizeLimit(w, w.A, w.B) })
	return js
}

// runAll: the parent process starts one child process per world (several at a time) and relays their output;
// a child (C12_WORLD set) runs exactly that world.
func runAll() int {
	js := jobs()
	if id := os.Getenv("C12_WORLD"); id != "" {
		for _, j := range js {
			if j.cfg.id == id {
				withWorld(j.cfg, j.fn)
				return 0
			}
		}
		fmt.Fprintln(os.Stderr, "unknown world", id)
		return 3
	}
	bin := os.Getenv("VERIF_BIN")
	if bin == "" {
		bin = os.Args[0]
	}
	par := hk.Pick(8, 8)
	if v := os.Getenv("C12_PAR"); v != "" {
		fmt.Sscan(v, &par)
	}
	type result struct {
		id     string
		out    []byte
		errTxt []byte
		err    error
		dur    time.Duration
	}
	sem := make(chan struct{}, par)
	res := make(chan result, len(js))
	n := 0
	for _, j := range js {
		if o := hk.Only(); o != "" && strings.HasPrefix(o, j.cfg.id+"/") == false {
			continue
		}
		n++
		go func(id string) {
			sem <- struct{}{}
			defer func() { <-sem }()
			t0 := time.Now()
			cmd := exec.Command(bin)
			cmd.Env = append(os.Environ(), "C12_WORLD="+id)
			var so, se bytes.Buffer
			cmd.Stdout = &so
			cmd.Stderr = &se
			err := cmd.Start()
			if err == nil {
				// watchdog per world: a hung child must not take the whole check down
				limit := time.Duration(hk.Pick(6, 35)) * time.Minute
				tm := time.AfterFunc(limit, func() { cmd.Process.Signal(syscall.SIGQUIT) })
				err = cmd.Wait()
				if tm.Stop() == false && err != nil {
					err = fmt.Errorf("world watchdog (%v) expired: %w", limit, err)
				}
			}
			res <- result{id, so.Bytes(), se.Bytes(), err, time.Since(t0)}
		}(j.cfg.id)
	}
	rc := 0
	for i := 0; i < n; i++ {
		r := <-res
		os.Stdout.Write(r.out)
		if len(r.out) > 0 && r.out[len(r.out)-1] != '\n' {
			os.Stdout.Write([]byte("\n"))
		}
		fmt.Fprintf(os.Stderr, "---- world %s: %v, exit %v\n", r.id, r.dur.Round(time.Millisecond), r.err)
		if r.err != nil && strings.Contains(r.err.Error(), "world watchdog") {
			hk.Emit(hk.Case{ID: r.id + "/child", Scenario: "setup", Verdict: hk.Inconclusive, What: "child process of this world was stopped: " + r.err.Error()})
			if len(r.errTxt) > 20000 {
				r.errTxt = r.errTxt[:20000]
			}
			fmt.Fprintf(os.Stderr, "---- goroutines of the hung world %s:\n%s\n", r.id, strings.ReplaceAll(string(r.errTxt), "\npanic:", "\n(panic):"))
		} else if r.err != nil {
			// a child died: the framework (or the monitor) crashed; keep its stderr for the driver's crash analysis
			os.Stderr.Write(r.errTxt)
			hk.Emit(hk.Case{ID: r.id + "/child", Scenario: "setup", Verdict: hk.Inconclusive, What: "child process of this world died: " + r.err.Error()})
			rc = 2
		} else if os.Getenv("C12_VERBOSE") != "" {
			os.Stderr.Write(r.errTxt)
		}
	}
	return rc
}

func ghostXfers() []xfer {
	var xs []xfer
	for _, mode := range []string{"nopid", "noname", "noalias"} {
		for _, kind := range []int{kSend, kSendImp, kCallImp} {
			for _, size := range []int{0, 100, 5000} {
				xs = append(xs, xfer{mode: mode, kind: kind, size: size, class: classRandom})
			}
		}
		// a live addressee in between: its acknowledgement must not be confused
		xs = append(xs, xfer{mode: "pid", kind: kSendImp, size: 10, class: classRandom})
	}
	return xs
}
