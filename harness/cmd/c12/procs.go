package main

import (
	"errors"
	"fmt"
	"time"

	"ergo.services/ergo/gen"

	"verif/harness/actors"
)

// plain calls wait this long: a reply that is merely slow on a loaded machine must not look lost
const plainCallTimeout = 15

// errSkipped marks the transfers a sender did not attempt after three timeouts in a row (circuit breaker:
// a broken link must not cost one timeout per remaining transfer)
var errSkipped = errors.New("skipped after repeated timeouts")

// kinds of a transfer
const (
	kSend = iota
	kSendImp
	kCall
	kCallImp
	kEvent
)

func kindName(k int) string {
	return [...]string{"send", "sendimp", "call", "callimp", "event"}[k]
}

// item is one transfer a sender has to make
type item struct {
	To      any // gen.PID, gen.ProcessID, gen.Alias
	Kind    int
	P       Pkt
	Timeout int // call timeout in seconds (0 = default)
}

// outcome of one item as seen by the sender
type outcome struct {
	ID        uint64
	Start     time.Time
	Err       error
	Reply     any
	Dur       time.Duration
	HashAfter uint64 // hash of the sender's own payload slice after the call returned
}

// cmdBatch (local message to a sender): make these transfers one after the other
type cmdBatch struct {
	Items []item
	// Setters: apply the compression through the process setters (otherwise the sender was spawned with it)
	Setters *gen.Compression
	Out     chan []outcome
}

// cmdEvents (local message to a producer): publish these packets
type cmdEvents struct {
	Name  gen.Atom
	Token gen.Ref
	Pkts  []Pkt
	Out   chan []outcome
}

type cmdRegEvent struct {
	Name gen.Atom
	Out  chan regEventResult
}
type regEventResult struct {
	Token gen.Ref
	Err   error
}

type cmdSubscribe struct {
	Event gen.Event
	Link  bool
	Out   chan error
}

// cmdBlock parks the handler
type cmdBlock struct {
	Entered chan struct{}
	Release chan struct{}
}

// cmdStop makes the process terminate normally
type cmdStop struct{}

type cmdOrder struct {
	Keep bool
	Out  chan struct{}
}

type cmdAlias struct{ Out chan aliasResult }
type aliasResult struct {
	Alias gen.Alias
	Err   error
}
type initSplit struct{}

func record(p *actors.Probe, cb string, from gen.PID, msg any, ev gen.Event) {
	switch m := msg.(type) {
	case Pkt:
		h := hashOf(m.Data)
		rxlog.add(rx{ID: m.ID, Inst: p.I, CB: cb, From: from, Len: len(m.Data), Hash: h, To: m.To, Event: ev, data: m.Data, At: time.Now()})
	default:
		rxlog.add(rx{ID: 0, Inst: p.I, CB: cb, From: from, Event: ev, Other: fmt.Sprintf("%T", msg), At: time.Now()})
	}
}

func hooks() *actors.Hooks {
	return &actors.Hooks{
		Init: func(p *actors.Probe, args ...any) error {
			for _, a := range args {
				switch x := a.(type) {
				case initSplit:
					_ = x
					p.SetSplitHandle(true)
				}
			}
			return nil
		},
		Msg: func(p *actors.Probe, from gen.PID, msg any) error {
			switch m := msg.(type) {
			case Pkt:
				record(p, "msg", from, m, gen.Event{})
			case cmdBatch:
				m.Out <- runBatch(p, m)
			case cmdEvents:
				outs := make([]outcome, 0, len(m.Pkts))
				for _, pk := range m.Pkts {
					t := time.Now()
					err := p.SendEvent(m.Name, m.Token, pk)
					outs = append(outs, outcome{ID: pk.ID, Start: t, Err: err, Dur: time.Since(t), HashAfter: hashOf(pk.Data)})
				}
				m.Out <- outs
			case cmdRegEvent:
				tok, err := p.RegisterEvent(m.Name, gen.EventOptions{})
				m.Out <- regEventResult{tok, err}
			case cmdSubscribe:
				var err error
				if m.Link {
					_, err = p.LinkEvent(m.Event)
				} else {
					_, err = p.MonitorEvent(m.Event)
				}
				m.Out <- err
			case cmdAlias:
				al, err := p.CreateAlias()
				m.Out <- aliasResult{al, err}
			case cmdBlock:
				close(m.Entered)
				<-m.Release
			case cmdStop:
				return gen.TerminateReasonNormal
			case cmdOrder:
				p.SetKeepNetworkOrder(m.Keep)
				close(m.Out)
			case gen.MessageDownEvent, gen.MessageExitEvent, gen.MessageDownNode, gen.MessageDownPID:
				// ignore
			default:
				record(p, "msg", from, msg, gen.Event{})
			}
			return nil
		},
		Call: func(p *actors.Probe, from gen.PID, ref gen.Ref, req any) (any, error) {
			switch m := req.(type) {
			case Pkt:
				rep := Rep{ID: m.ID, Data: genData(m.ID^replyMask, int(m.Reply), int(m.Class))}
				record(p, "call", from, m, gen.Event{}) // time stamp taken when the reply is ready
				return rep, nil
			}
			record(p, "call", from, req, gen.Event{})
			return "unexpected", nil
		},
		Event: func(p *actors.Probe, ev gen.MessageEvent) error {
			record(p, "event", gen.PID{}, ev.Message, ev.Event)
			return nil
		},
	}
}

func runBatch(p *actors.Probe, m cmdBatch) []outcome {
	if c := m.Setters; c != nil {
		p.SetCompression(c.Enable)
		if c.Type != "" {
			p.SetCompressionType(c.Type)
		}
		p.SetCompressionLevel(c.Level)
		if c.Threshold > 0 {
			p.SetCompressionThreshold(c.Threshold)
		}
	}
	outs := make([]outcome, 0, len(m.Items))
	timeouts := 0
	for _, it := range m.Items {
		if timeouts >= 3 {
			outs = append(outs, outcome{ID: it.P.ID, Start: time.Now(), Err: errSkipped, HashAfter: hashOf(it.P.Data)})
			continue
		}
		t := time.Now()
		o := outcome{ID: it.P.ID, Start: t}
		switch it.Kind {
		case kSend:
			o.Err = p.Send(it.To, it.P)
		case kSendImp:
			o.Err = p.SendImportant(it.To, it.P)
		case kCall:
			if it.Timeout > 0 {
				o.Reply, o.Err = p.CallWithTimeout(it.To, it.P, it.Timeout)
			} else {
				o.Reply, o.Err = p.CallWithTimeout(it.To, it.P, plainCallTimeout)
			}
		case kCallImp:
			o.Reply, o.Err = p.CallImportant(it.To, it.P)
		}
		o.Dur = time.Since(t)
		if o.Err == gen.ErrTimeout {
			timeouts++
		} else {
			timeouts = 0
		}
		o.HashAfter = hashOf(it.P.Data)
		outs = append(outs, o)
	}
	return outs
}
