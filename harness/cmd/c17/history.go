package main

import (
	"fmt"
	"math/rand"
	"sort"
	"strings"
	"time"

	"ergo.services/ergo/gen"

	"verif/harness/hk"
)

// ---------------------------------------------------------------------------
// sequential random histories against a reference model

type op struct {
	K        string `json:"k"` // load start permanent transient temporary stop force timeout unload death block release
	App      int    `json:"app"`
	Slot     int    `json:"slot,omitempty"`
	How      string `json:"how,omitempty"`
	Fail     int    `json:"fail"`               // slot whose Init fails (-1 none)
	FailApp  int    `json:"fail_app,omitempty"` // app the failing slot belongs to
	FailWait bool   `json:"fail_wait,omitempty"`
	Timeout  int64  `json:"timeout_ns,omitempty"`
}

func (o op) String() string {
	s := fmt.Sprintf("%s(a%d", o.K, o.App)
	if o.K == "death" {
		s += fmt.Sprintf(" slot%d %s", o.Slot, o.How)
	}
	if o.K == "block" || o.K == "release" {
		s += fmt.Sprintf(" slot%d", o.Slot)
		if o.How != "" {
			s += " then-" + o.How
		}
	}
	if o.Fail >= 0 {
		s += fmt.Sprintf(" fail=a%d/slot%d wait=%v", o.FailApp, o.Fail, o.FailWait)
	}
	if o.K == "timeout" {
		s += fmt.Sprintf(" %s", time.Duration(o.Timeout))
	}
	return s + ")"
}

type mApp struct {
	loaded  bool
	running bool
	// stopping: a stop has begun (request or mode rule) but members kept busy by the harness are
	// still alive; alive then holds exactly those members
	stopping   bool
	stopCause  string
	stopAccept []error
	blocked    map[int]bool // slot -> kept busy inside a handler
	// reasons of members that terminated on their own while the application was already stopping
	laterReasons []error
	mode         gen.ApplicationMode
	alive        map[int]bool // slot -> alive (current run)
	stopped      int          // number of completed runs
	att          int32        // attempt number of the current run
	// reasons of earlier stops (to recognise a stale reason)
	pastReasons []error
}

type expect struct {
	start       bool
	startMode   gen.ApplicationMode
	term        bool
	accept      []error
	cause       string // death-permanent death-transient last-member stop force
	newSlots    []int
	failedStart bool
	later       []error // reasons of deaths after the stop had begun
}

const (
	rOK = iota
	rRunning
	rOther
)

type hist struct {
	id                                  string
	apps                                []*App
	depIdx                              [][]int
	m                                   []*mApp
	ops                                 []op
	res                                 *result
	log                                 []string
	classes                             map[string]bool
	wedged                              bool // an application of this case is dead-locked: do not touch it any more
	unloadInStopping, stoppingCompleted int
	nextAtt                             []int32 // attempt number the members created by the current step will carry
	// measured
	deathStops, restarts, failedStarts int
}

func (h *hist) ex(m map[int]*expect, x int) *expect {
	e := m[x]
	if e == nil {
		e = &expect{}
		m[x] = e
	}
	return e
}

func seq(n int) []int {
	r := make([]int, n)
	for i := range r {
		r[i] = i
	}
	return r
}

func (h *hist) mStart(x int, mode gen.ApplicationMode, withDeps bool, o *op, exm map[int]*expect) int {
	a := h.m[x]
	if !a.loaded {
		return rOther
	}
	if withDeps {
		for _, d := range h.depIdx[x] {
			if r := h.mStart(d, h.apps[d].effMode(), true, o, exm); r == rOther {
				return rOther
			}
		}
	}
	if a.running {
		return rRunning
	}
	if a.stopping {
		// neither startable nor "already running": the call (and a dependent's start) fails
		return rOther
	}
	e := h.ex(exm, x)
	if o.Fail >= 0 && o.FailApp == x {
		e.newSlots = seq(o.Fail + 1)
		e.failedStart = true
		return rOther
	}
	a.running = true
	a.mode = mode
	a.att = h.nextAtt[x]
	a.blocked = map[int]bool{}
	a.alive = map[int]bool{}
	for s := 0; s < h.apps[x].N; s++ {
		a.alive[s] = true
	}
	e.start = true
	e.startMode = mode
	e.newSlots = seq(h.apps[x].N)
	return rOK
}

func (h *hist) snapshot() []*mApp {
	var r []*mApp
	for _, a := range h.m {
		c := *a
		c.alive = map[int]bool{}
		for k, v := range a.alive {
			c.alive[k] = v
		}
		c.pastReasons = append([]error(nil), a.pastReasons...)
		c.stopAccept = append([]error(nil), a.stopAccept...)
		c.laterReasons = append([]error(nil), a.laterReasons...)
		c.blocked = map[int]bool{}
		for k, v := range a.blocked {
			c.blocked[k] = v
		}
		r = append(r, &c)
	}
	return r
}

// mDeath: a member of a running application terminates with reason
func (h *hist) mDeath(x, slot int, reason error, exm map[int]*expect) {
	ma := h.m[x]
	delete(ma.alive, slot)
	delete(ma.blocked, slot)
	switch {
	case ma.mode == gen.ApplicationModePermanent:
		h.mBeginStop(x, exm, "death-permanent", reason)
	case ma.mode == gen.ApplicationModeTransient && isAbnormal(reason):
		h.mBeginStop(x, exm, "death-transient", reason)
	case len(ma.alive) == 0:
		h.mStop(x, h.ex(exm, x), "last-member", gen.TerminateReasonNormal, reason)
	}
}

// mBeginStop: a stop begins (request or mode rule). Members not kept busy terminate; if busy
// ones remain the application stays in state stopping, otherwise the stop completes.
func (h *hist) mBeginStop(x int, exm map[int]*expect, cause string, accept ...error) {
	a := h.m[x]
	for s := range a.alive {
		if !a.blocked[s] {
			delete(a.alive, s)
		}
	}
	if len(a.alive) == 0 {
		h.mStop(x, h.ex(exm, x), cause, accept...)
		return
	}
	a.running = false
	a.stopping = true
	a.stopCause = cause
	a.stopAccept = accept
	a.laterReasons = nil
}

func (h *hist) mStop(x int, e *expect, cause string, accept ...error) {
	a := h.m[x]
	a.stopping = false
	a.blocked = map[int]bool{}
	a.running = false
	a.alive = map[int]bool{}
	a.stopped++
	e.term = true
	e.accept = accept
	e.cause = cause
	e.later = a.laterReasons
	a.laterReasons = nil
}

// genOp picks the next operation from the model state (a function of seed and earlier ops only)
func (h *hist) genOp(rng *rand.Rand, step int) op {
	return h.genOpFor(rng, rng.Intn(len(h.apps)))
}

func (h *hist) genOpFor(rng *rand.Rand, x int) op {
	a := h.m[x]
	o := op{App: x, Fail: -1}
	startKinds := []string{"start", "start", "start", "permanent", "transient", "temporary"}
	stopKinds := []string{"stop", "stop", "force", "timeout", "timeout", "timeout"}
	pickStop := func() {
		o.K = stopKinds[rng.Intn(len(stopKinds))]
		if o.K == "timeout" {
			o.Timeout = []int64{1, int64(50 * time.Microsecond), int64(2 * time.Second), int64(3 * time.Second)}[rng.Intn(4)]
		}
	}
	p := rng.Intn(100)
	switch {
	case !a.loaded:
		switch {
		case p < 80:
			o.K = "load"
		case p < 88:
			o.K = startKinds[rng.Intn(len(startKinds))]
		case p < 94:
			pickStop()
		default:
			o.K = "unload"
		}
	case !a.running:
		switch {
		case p < 72:
			o.K = startKinds[rng.Intn(len(startKinds))]
			if rng.Intn(100) < 18 {
				o.FailApp = x
				if len(h.depIdx[x]) > 0 && rng.Intn(2) == 0 {
					o.FailApp = h.depIdx[x][rng.Intn(len(h.depIdx[x]))]
				}
				o.Fail = rng.Intn(h.apps[o.FailApp].N)
				o.FailWait = rng.Intn(3) > 0
			}
		case p < 82:
			o.K = "unload"
		case p < 92:
			pickStop()
		default:
			o.K = "load"
		}
	default:
		switch {
		case p < 58:
			o.K = "death"
			var al []int
			for s, v := range a.alive {
				if v {
					al = append(al, s)
				}
			}
			sort.Ints(al)
			o.Slot = al[rng.Intn(len(al))]
			o.How = hows[rng.Intn(len(hows))]
		case p < 86:
			pickStop()
		case p < 92:
			o.K = startKinds[rng.Intn(len(startKinds))]
		case p < 97:
			o.K = "unload"
		default:
			o.K = "load"
		}
	}
	return o
}

// genOpB: like genOp, but it keeps members busy inside a handler so that stops stay in
// progress over several steps, and it prefers the operations that are interesting then
func (h *hist) genOpB(rng *rand.Rand, step int) op {
	x := rng.Intn(len(h.apps))
	// prefer an application that is stopping or has busy members
	for k, a := range h.m {
		if (a.stopping || len(a.blocked) > 0) && rng.Intn(3) > 0 {
			x = k
			break
		}
	}
	a := h.m[x]
	o := op{App: x, Fail: -1}
	startKinds := []string{"start", "permanent", "transient", "temporary"}
	var busy, free []int
	for s, v := range a.alive {
		if !v {
			continue
		}
		if a.blocked[s] {
			busy = append(busy, s)
		} else {
			free = append(free, s)
		}
	}
	sort.Ints(busy)
	sort.Ints(free)
	shortStop := func() {
		o.K = []string{"timeout", "timeout", "force"}[rng.Intn(3)]
		o.Timeout = int64(20 * time.Millisecond)
	}
	p := rng.Intn(100)
	switch {
	case a.stopping:
		switch {
		case p < 30:
			o.K, o.Slot = "release", busy[rng.Intn(len(busy))]
			o.How = []string{"", "", "custom", "kill", "panic", "normal"}[rng.Intn(6)]
		case p < 60:
			o.K = "unload"
		case p < 72:
			o.K = startKinds[rng.Intn(len(startKinds))]
		case p < 82:
			shortStop()
		case p < 90:
			o.K = "stop" // refused at once while stopping
		default:
			o.K = "load"
		}
		return o
	case a.running && len(busy) > 0:
		switch {
		case p < 35:
			shortStop()
		case p < 55 && len(free) > 0:
			o.K, o.Slot, o.How = "death", free[rng.Intn(len(free))], hows[rng.Intn(len(hows))]
		case p < 70:
			o.K, o.Slot = "release", busy[rng.Intn(len(busy))]
			o.How = []string{"", "", "", "custom", "kill", "panic", "normal"}[rng.Intn(7)]
		case p < 80 && len(free) > 0:
			o.K, o.Slot = "block", free[rng.Intn(len(free))]
		case p < 90:
			o.K = "unload"
		default:
			o.K = startKinds[rng.Intn(len(startKinds))]
		}
		return o
	case a.running && p < 50:
		o.K, o.Slot = "block", free[rng.Intn(len(free))]
		return o
	}
	return h.genOpFor(rng, x)
}

func (h *hist) currentMembers(x int) map[int]*member {
	a := h.apps[x]
	att := h.m[x].att
	r := map[int]*member{}
	for _, m := range a.Members() {
		if m.Attempt == att {
			r[m.Slot] = m
		}
	}
	return r
}

// step executes one op and compares with the model. Returns false if the history must be abandoned.
func (h *hist) step(i int, o op) bool {
	r := h.res
	x := o.App
	app := h.apps[x]
	ma := h.m[x]
	exm := map[int]*expect{}
	pre := fmt.Sprintf("step %d %s: ", i, o)

	ncb := make([]int, len(h.apps))
	nmem := make([]int, len(h.apps))
	for k, a := range h.apps {
		ncb[k] = len(a.CBs())
		nmem[k] = len(a.Members())
	}

	h.nextAtt = h.nextAtt[:0]
	for _, a := range h.apps {
		h.nextAtt = append(h.nextAtt, a.attempt.Load()+1) // the executor bumps the counters right before a start call
	}

	// --- model
	wantErr := 0 // 0 don't care, 1 nil, 2 non-nil
	var victim *member
	var wasAlive []*member
	skippedDeps := ""
	unloadWhileStopping := false
	var idle []int // dependencies (transitive) that are not running before a start call
	targetRunning := false
	var snap []*mApp
	var startMode gen.ApplicationMode
	switch o.K {
	case "load":
		if ma.loaded {
			wantErr = 2
		} else {
			wantErr = 1
			ma.loaded = true
			ma.running = false
		}
	case "start", "permanent", "transient", "temporary":
		mode := app.effMode()
		if o.K != "start" {
			mode = modeOf(o.K)
		}
		// applications the call has to look at before the target: its dependencies, transitively
		// (ApplicationStart of a dependency looks at the dependencies of that one even if it runs)
		if ma.loaded {
			seen := map[int]bool{}
			var walk func(k int)
			walk = func(k int) {
				for _, d := range h.depIdx[k] {
					if seen[d] {
						continue
					}
					seen[d] = true
					if !h.m[d].running {
						idle = append(idle, d)
						skippedDeps += " " + string(h.apps[d].Name)
					}
					if h.m[d].loaded {
						walk(d)
					}
				}
			}
			walk(x)
		}
		targetRunning = ma.running || ma.stopping
		snap = h.snapshot()
		startMode = mode
		// the property: every way of starting an application starts its dependencies first
		switch h.mStart(x, mode, true, &o, exm) {
		case rOK:
			wantErr = 1
		default:
			wantErr = 2
		}
	case "stop", "force", "timeout":
		if ma.running || ma.stopping {
			for s, m := range h.currentMembers(x) {
				if ma.alive[s] {
					wasAlive = append(wasAlive, m)
				}
			}
		}
		switch {
		case ma.running && o.K == "force":
			h.mBeginStop(x, exm, "force", gen.TerminateReasonKill)
		case ma.running:
			h.mBeginStop(x, exm, "stop", gen.TerminateReasonShutdown)
		case ma.stopping && o.K == "force":
			// a forced stop takes over a stop in progress: the busy members are killed as soon as they
			// leave their handler, the reason of the run becomes kill
			ma.stopCause, ma.stopAccept = "force", []error{gen.TerminateReasonKill}
		case ma.stopping:
			// refused (stopping in progress): a nil return is caught by the check at the return instant
		case !ma.loaded:
			wantErr = 2
		}
	case "unload":
		if ma.loaded && !ma.running && !ma.stopping {
			wantErr = 1
			ma.loaded = false
		} else {
			wantErr = 2
			unloadWhileStopping = ma.stopping
		}
	case "block":
		victim = h.currentMembers(x)[o.Slot]
		ma.blocked[o.Slot] = true
	case "release":
		victim = h.currentMembers(x)[o.Slot]
		delete(ma.blocked, o.Slot)
		r2 := reasonOfRelease(o.How)
		switch {
		case ma.stopping:
			// the member leaves its handler and terminates: with its own reason (o.How), else by the
			// exit signal waiting in its mailbox / the kill of a forced stop. A death while the
			// application is already stopping does not change the reason of the stop.
			if r2 != nil {
				ma.laterReasons = append(ma.laterReasons, r2)
			}
			delete(ma.alive, o.Slot)
			if len(ma.alive) == 0 {
				h.mStop(x, h.ex(exm, x), ma.stopCause, ma.stopAccept...)
			}
		case ma.running && r2 != nil:
			h.mDeath(x, o.Slot, r2, exm)
		}
	case "death":
		victim = h.currentMembers(x)[o.Slot]
		h.mDeath(x, o.Slot, reasonOfHow(o.How), exm)
	}

	// --- execute
	for k, a := range h.apps {
		if o.Fail >= 0 && o.FailApp == k {
			a.failSlot.Store(int32(o.Fail))
			a.failWait.Store(o.FailWait)
		}
	}
	if o.K == "start" || o.K == "permanent" || o.K == "transient" || o.K == "temporary" {
		// every app that may be started by this call gets a new attempt number
		for _, a := range h.apps {
			a.attempt.Add(1)
		}
	}
	var err error
	var pnc any
	var hung, witness string
	switch o.K {
	case "load":
		err, pnc = safe(func() error { _, e := node.ApplicationLoad(app); return e })
	case "start", "permanent", "transient", "temporary":
		err, pnc, hung, witness = guarded(func() error { return startBy(o.K, app.Name) })
	case "stop", "force", "timeout":
		err, pnc, hung, witness = guarded(func() error { return stopBy(o.K, app.Name, time.Duration(o.Timeout)) })
		if hung == "" && pnc == nil && err == nil && len(wasAlive) > 0 {
			// success reported: that point must have been reached at this instant
			st := appState(app.Name)
			var still []string
			for _, m := range wasAlive {
				if alive(m.I.PID) {
					still = append(still, m.I.PID.String())
				}
			}
			if st != "loaded" || len(still) > 0 {
				r.v("stop-reported-success-before-stopped", "%sApplication%s returned nil while state=%s and members %v were still registered", pre, o.K, st, still)
			}
			if app.count("terminate") == ncb[x] {
				hk.Stat("stop_returned_before_terminate_callback_began", 1)
			}
		}
	case "unload":
		err, pnc = safe(func() error { return node.ApplicationUnload(app.Name) })
		if unloadWhileStopping {
			h.unloadInStopping++
			if err == nil && pnc == nil {
				var still []string
				for _, m := range app.Members() {
					if alive(m.I.PID) {
						still = append(still, m.I.PID.String())
					}
				}
				r.v("unload-succeeded-while-stopping", "%sApplicationUnload returned nil although the stop of the application is still in progress (members %v are registered, the Terminate callback has not run): the stop can never be finalized", pre, still)
				return false
			}
		}
	case "block", "release":
		if victim == nil {
			if len(r.viols) == 0 {
				r.incon = pre + "member not found"
			}
			return false
		}
		if o.K == "release" {
			app.releaseMemberWith(victim.I.PID, o.How)
		} else if !app.blockMember(victim.I.PID) {
			if len(r.viols) == 0 {
				r.incon = pre + "watchdog: member did not enter the blocking handler"
			}
			h.wedged = true
			return false
		}
	case "death":
		if victim == nil {
			if len(r.viols) == 0 {
				r.incon = pre + "victim not found"
			}
			return false
		}
		_, pnc = killMember(victim.I.PID, o.How)
	}
	for _, a := range h.apps {
		a.failSlot.Store(-1)
	}
	h.log = append(h.log, fmt.Sprintf("%d %s -> err=%v panic=%v %s", i, o, err, pnc, hung))
	if hung == "deadlock" {
		h.wedged = true
		sig := "stopforce-self-deadlock-range-kill"
		if o.K != "force" {
			sig = "failed-start-rollback-self-deadlock-range-kill"
			if o.Fail < 0 {
				sig = "self-deadlock-in-" + o.K
			}
		}
		r.v(sig, "%sthe call never returns: its goroutine holds the read lock of the application's member map (lib.Map.Range) and waits for the write lock of the same map (application.terminate -> LoadAndDelete) in the same stack: %s", pre, witness)
		return false
	}
	if hung != "" {
		h.wedged = true
		if len(r.viols) == 0 {
			r.incon = pre + "watchdog: the call did not return within 15s"
		}
		return false
	}
	if pnc != nil {
		sig := "api-panic-" + o.K
		if strings.Contains(fmt.Sprint(pnc), "close of closed channel") {
			sig = "panic-close-of-closed-stopped-channel"
		}
		r.v(sig, "%sthe call panicked in the caller's goroutine: %v", pre, pnc)
		return false
	}
	if !quiesce(h.apps...) {
		// the steps judged so far were judged at quiescence and stand; this one is not judged
		if len(r.viols) == 0 {
			r.incon = pre + "watchdog: no quiescence"
		}
		h.wedged = true
		return false
	}

	// --- compare
	ok := true
	untouched := len(idle) > 0
	for _, d := range idle {
		if len(h.apps[d].Members()) > nmem[d] {
			untouched = false
		}
	}
	if untouched && targetRunning {
		// the call fails anyway (already running); whether it looked at the dependencies first
		// is not part of the property: follow what happened
		h.m = snap
		ma = h.m[x]
		exm = map[int]*expect{}
		wantErr = 2
	} else if untouched && o.K != "start" && (err == nil || len(app.Members()) > nmem[x]) {
		{
			// the call started the application without looking at its dependencies: report it
			// under its own signature and let the model follow what happened
			h.m = snap
			ma = h.m[x]
			exm = map[int]*expect{}
			wantErr = 2
			if h.mStart(x, startMode, false, &o, exm) == rOK {
				wantErr = 1
			}
			r.v("start-mode-variant-skips-dependencies", "%sApplicationStart%s started %s although its dependencies%s are not running (ApplicationStart starts them first)", pre, strings.Title(o.K), app.Name, skippedDeps)
		}
	}
	switch {
	case wantErr == 1 && err != nil:
		r.v(o.K+"-failed-unexpectedly", "%sreturned %v, the model expects success", pre, err)
		ok = false
	case wantErr == 2 && err == nil:
		r.v(o.K+"-succeeded-unexpectedly", "%sreturned nil, the model expects an error", pre)
		ok = false
	}
	for k, a := range h.apps {
		e := exm[k]
		if e == nil {
			e = &expect{}
		}
		mk := h.m[k]
		cbs := a.CBs()[ncb[k]:]
		var starts, terms []cbEv
		for _, c := range cbs {
			switch c.Kind {
			case "start":
				starts = append(starts, c)
			case "terminate":
				terms = append(terms, c)
			}
		}
		// Start callback
		wantStarts := 0
		if e.start {
			wantStarts = 1
		}
		if len(starts) != wantStarts {
			r.v(fmt.Sprintf("start-callback-%d-times-expected-%d", len(starts), wantStarts), "%sapp %s: Start callback ran %d times, expected %d (callbacks %v)", pre, a.Name, len(starts), wantStarts, cbs)
			ok = false
		} else if e.start && starts[0].Mode != e.startMode {
			r.v("start-callback-wrong-mode", "%sapp %s: Start(%s), expected %s", pre, a.Name, starts[0].Mode, e.startMode)
		}
		// Terminate callback
		wantTerms := 0
		if e.term {
			wantTerms = 1
		}
		switch {
		case len(terms) != wantTerms && e.failedStart:
			r.v("terminate-callback-on-failed-start", "%sapp %s: the start failed (member slot %d Init error) yet the Terminate callback ran %d times (%v)", pre, a.Name, o.Fail, len(terms), terms)
		case len(terms) != wantTerms:
			r.v(fmt.Sprintf("terminate-callback-%d-times-expected-%d", len(terms), wantTerms), "%sapp %s (mode %s): Terminate callback ran %d times, expected %d (callbacks %v)", pre, a.Name, mk.mode, len(terms), wantTerms, cbs)
			ok = false
		case e.term:
			got := terms[0].reason
			acc := false
			for _, w := range e.accept {
				if got == w {
					acc = true
				}
			}
			if !acc {
				stale := false
				for _, p := range mk.pastReasons {
					if p == got {
						stale = true
					}
				}
				sig := "terminate-reason-wrong-" + e.cause
				overwritten := false
				for _, l := range e.later {
					if l == got {
						overwritten = true
					}
				}
				switch {
				case overwritten && strings.HasPrefix(e.cause, "death"):
					sig = "terminate-reason-overwritten-by-later-death"
				case e.cause == "force":
					sig = "stopforce-terminate-reason-not-kill"
				case stale && got != gen.TerminateReasonNormal:
					sig = "terminate-reason-stale-from-previous-run"
				}
				r.v(sig, "%sapp %s (mode %s, cause %s): Terminate(%v), accepted %v; reasons of earlier runs %v", pre, a.Name, mk.mode, e.cause, got, e.accept, mk.pastReasons)
			}
			if terms[0].Alive > 0 {
				hk.Stat("terminate_callback_began_with_members_registered", 1)
			}
		}
		if len(terms) > 0 {
			mk.pastReasons = append(mk.pastReasons, terms[len(terms)-1].reason)
		}
		switch e.cause { // the reason a stop request records for the run (possibly too late for that run)
		case "stop":
			mk.pastReasons = append(mk.pastReasons, gen.TerminateReasonShutdown)
		case "force":
			mk.pastReasons = append(mk.pastReasons, gen.TerminateReasonKill)
		}
		if e.term && len(terms) == 1 && o.K == "release" {
			h.stoppingCompleted++
		}
		if e.term && len(terms) == 1 {
			h.classes[fmt.Sprintf("%s/%s", mk.mode, e.cause)] = true
			if strings.HasPrefix(e.cause, "death") || e.cause == "last-member" {
				h.deathStops++
			}
		}
		if e.start && len(starts) == 1 && mk.stopped > 0 {
			h.restarts++
		}
		if e.failedStart {
			h.failedStarts++
		}
		// members created by this step, in order of their Init
		newm := a.Members()[nmem[k]:]
		sort.SliceStable(newm, func(i, j int) bool {
			ei, ej := newm[i].I.Events(), newm[j].I.Events()
			if len(ei) == 0 || len(ej) == 0 {
				return len(ei) > len(ej)
			}
			return ei[0].L < ej[0].L
		})
		var gotSlots []int
		for _, m := range newm {
			gotSlots = append(gotSlots, m.Slot)
		}
		if fmt.Sprint(gotSlots) != fmt.Sprint(e.newSlots) {
			r.v("member-start-order", "%sapp %s: members were created for slots %v, expected %v", pre, a.Name, gotSlots, e.newSlots)
			ok = false
		}
		// dependencies first
		if e.start && len(newm) > 0 && len(newm[0].I.Events()) > 0 {
			first := newm[0].I.Events()[0].L
			for _, d := range h.depIdx[k] {
				if o.K != "start" {
					break
				}
				dc := h.apps[d].CBs()
				last := int64(-1)
				for _, c := range dc {
					if c.Kind == "start" {
						last = c.T
					}
				}
				if !h.m[d].running || last < 0 || last > first {
					r.v("dependency-not-started-first", "%sapp %s: first member started at tick %d, dependency %s: model running=%v, last Start callback tick %d", pre, a.Name, first, h.apps[d].Name, h.m[d].running, last)
				}
			}
		}
		// liveness of members
		att := mk.att
		for _, m := range a.Members() {
			al := alive(m.I.PID)
			cur := (mk.running || mk.stopping) && m.Attempt == att
			wantAlive := cur && mk.alive[m.Slot]
			switch {
			case al && !wantAlive:
				sig := "member-left-running"
				switch {
				case e.failedStart:
					sig = "failed-start-member-left-running"
				case e.term:
					sig = "stopped-app-member-left-running"
				}
				r.v(sig, "%sapp %s (model: running=%v mode=%s): member slot %d (%s, run %d) is still registered at quiescence", pre, a.Name, mk.running, mk.mode, m.Slot, m.I.PID, m.Attempt)
				ok = false
			case !al && wantAlive:
				r.v("member-terminated-unexpectedly", "%sapp %s (mode %s): member slot %d (%s) is gone although the app must keep running with it", pre, a.Name, mk.mode, m.Slot, m.I.PID)
				ok = false
			}
		}
		// state
		wantState := "unknown"
		if mk.loaded {
			wantState = "loaded"
		}
		if mk.running {
			wantState = "running"
		}
		if mk.stopping {
			wantState = "stopping"
		}
		if st := appState(a.Name); st != wantState {
			r.v("state-"+st+"-expected-"+wantState, "%sapp %s (mode %s): ApplicationInfo state %s at quiescence, expected %s; registered members %v", pre, a.Name, mk.mode, st, wantState, a.aliveSlots())
			ok = false
		}
	}
	return ok
}

func runHistory(n int, blocking bool) {
	id := fmt.Sprintf("H/%d", n)
	if blocking {
		id = fmt.Sprintf("HB/%d", n)
	}
	if !want(id) {
		return
	}
	rng := hk.Rng("c17", id)
	h := &hist{id: id, res: &result{}, classes: map[string]bool{}}
	nApps := []int{1, 1, 1, 2, 2, 3, 4}[rng.Intn(7)]
	modes := []gen.ApplicationMode{gen.ApplicationModeTemporary, gen.ApplicationModeTransient, gen.ApplicationModePermanent, 0}
	base := uname("h")
	type desc struct {
		Name string
		N    int
		Mode string
		Deps []int
	}
	var descs []desc
	for k := 0; k < nApps; k++ {
		var deps []int
		var depNames []gen.Atom
		for j := 0; j < k; j++ {
			if rng.Intn(100) < 45 {
				deps = append(deps, j)
				depNames = append(depNames, h.apps[j].Name)
			}
		}
		mode := modes[rng.Intn(len(modes))]
		a := newApp(fmt.Sprintf("%s_a%d", base, k), 1+rng.Intn(4), mode, depNames...)
		if mode == 0 {
			// spec.Mode 0 is documented (node.ApplicationLoad) to default to Temporary
			a.SpecMode = 0
		}
		h.apps = append(h.apps, a)
		h.depIdx = append(h.depIdx, deps)
		h.m = append(h.m, &mApp{})
		descs = append(descs, desc{string(a.Name), a.N, mode.String(), deps})
	}
	steps := 8 + rng.Intn(16)
	completed := true
	for i := 0; i < steps; i++ {
		var o op
		if blocking {
			o = h.genOpB(rng, i)
		} else {
			o = h.genOp(rng, i)
		}
		h.ops = append(h.ops, o)
		if !h.step(i, o) {
			completed = false
			break
		}
	}
	var events int64
	for _, a := range h.apps {
		events += a.events()
	}
	for _, a := range h.apps {
		a.releaseAll()
	}
	if !h.wedged {
		cleanup(h.apps...)
	}
	nontrivial := h.deathStops >= 1 && h.restarts >= 1
	key := fmt.Sprintf("H/apps=%d/%s/failedstart=%v", nApps, strings.Join(sortedKeys(h.classes), ","), h.failedStarts > 0)
	scenario := "history"
	if blocking {
		// non-trivial: an unload was attempted while the application was stopping and that stop
		// was observed to complete afterwards
		scenario = "history-stopping"
		nontrivial = h.unloadInStopping >= 1 && h.stoppingCompleted >= 1
		key = fmt.Sprintf("HB/apps=%d/%s/unload-in-stopping=%d", nApps, strings.Join(sortedKeys(h.classes), ","), h.unloadInStopping)
		hk.Stat("history_unload_attempts_while_stopping", int64(h.unloadInStopping))
		hk.Stat("history_delayed_stops_completed", int64(h.stoppingCompleted))
	}
	hk.Stat("history_steps", int64(len(h.ops)))
	hk.Stat("history_stops_by_member_death", int64(h.deathStops))
	hk.Stat("history_restarts_after_stop", int64(h.restarts))
	hk.Stat("history_failed_starts", int64(h.failedStarts))
	detail := map[string]any{"apps": descs, "ops": h.ops, "log": h.log, "completed": completed}
	if n < 3 {
		hk.Sample(map[string]any{"case": id, "apps": descs, "log": h.log})
	}
	finish(id, scenario, key, nontrivial, events, h.res, detail)
}
