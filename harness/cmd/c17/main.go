// C17 — application lifecycle and start modes.
//
// Monitors: an instrumented gen.ApplicationBehavior (Load/Start/Terminate
// recorded with the logical clock, the arguments and the number of members
// still registered at the node at that instant), member processes created by
// actors.NewProbeMulti factories (start order = order of their Init ticks;
// they die on command), ApplicationInfo and the node's process table.
//
// Oracles:
//   - sequential random histories are compared step by step (at quiescence)
//     with a reference model of the lifecycle (history.go),
//   - directed concurrent schedules (gates at app.start.spawned, app.term.swap,
//     proc.unreg.deleted) are judged by the invariants the statement gives for
//     the end state (directed.go).
package main

import (
	"errors"
	"fmt"
	"os"
	"runtime"
	"sort"
	"strconv"
	"strings"
	"sync"
	"sync/atomic"
	"time"

	"ergo.services/ergo/gen"

	"verif/harness/actors"
	"verif/harness/hk"
)

var node *hk.HNode

var (
	errInit    = errors.New("c17-init-fails")
	errCustom  = errors.New("c17-custom-reason")
	errCustom2 = errors.New("c17-custom-exit-reason")
)

// die makes a member return Reason from its message handler
type die struct{ Reason error }

// block keeps a member busy inside its message handler until Release is closed
type block struct {
	Entered chan struct{}
	Release chan struct{}
	Exit    chan error // optional: what the handler returns once released (errPanicNow = panic)
}

var errPanicNow = errors.New("c17-panic-after-release")

// ---------------------------------------------------------------------------
// instrumented application

type cbEv struct {
	T      int64               `json:"t"`
	Kind   string              `json:"kind"` // load start terminate
	Mode   gen.ApplicationMode `json:"mode,omitempty"`
	Reason string              `json:"reason,omitempty"`
	reason error
	Alive  int `json:"alive"` // members of this app registered at the node when the callback began
}

func (e cbEv) String() string {
	switch e.Kind {
	case "start":
		return fmt.Sprintf("{%d Start(%s) alive=%d}", e.T, e.Mode, e.Alive)
	case "terminate":
		return fmt.Sprintf("{%d Terminate(%s) alive=%d}", e.T, e.Reason, e.Alive)
	}
	return fmt.Sprintf("{%d %s}", e.T, e.Kind)
}

type member struct {
	Slot    int
	I       *actors.Inst
	Attempt int32
}

// App is an instrumented gen.ApplicationBehavior plus the factories of its members
type App struct {
	Name     gen.Atom
	N        int
	Deps     []gen.Atom
	SpecMode gen.ApplicationMode

	failSlot atomic.Int32 // slot whose Init returns an error (-1 none)
	failWait atomic.Bool  // failing Init first waits until the earlier members sleep (=> synchronous Kill)
	selfDie  atomic.Int32 // slot that sends itself a die{normal} from Init (-1 none)
	attempt  atomic.Int32
	inCB     atomic.Int32

	mu      sync.Mutex
	cbs     []cbEv
	members []*member

	// members the harness keeps busy inside a handler (pid -> *block); quiescence does not wait for them
	blocked sync.Map
}

// blockMember parks the member inside its message handler; false = watchdog
func (a *App) blockMember(pid gen.PID) bool {
	b := &block{Entered: make(chan struct{}), Release: make(chan struct{}), Exit: make(chan error, 1)}
	a.blocked.Store(pid, b)
	if err := node.Send(pid, *b); err != nil {
		a.blocked.Delete(pid)
		return false
	}
	select {
	case <-b.Entered:
		return true
	case <-time.After(10 * time.Second):
		close(b.Release)
		a.blocked.Delete(pid)
		return false
	}
}

func (a *App) releaseMember(pid gen.PID) { a.releaseMemberWith(pid, "") }

// releaseMemberWith lets the busy member leave its handler; how: "" (returns nil), normal,
// custom (returns that reason), panic (panics), kill (node.Kill while it is still busy)
func (a *App) releaseMemberWith(pid gen.PID, how string) {
	v, ok := a.blocked.LoadAndDelete(pid)
	if !ok {
		return
	}
	b := v.(*block)
	switch how {
	case "normal":
		b.Exit <- gen.TerminateReasonNormal
	case "custom":
		b.Exit <- errCustom2
	case "panic":
		b.Exit <- errPanicNow
	case "kill":
		safe(func() error { return node.Kill(pid) })
	}
	close(b.Release)
}

func reasonOfRelease(how string) error {
	switch how {
	case "normal":
		return gen.TerminateReasonNormal
	case "custom":
		return errCustom2
	case "panic":
		return gen.TerminateReasonPanic
	case "kill":
		return gen.TerminateReasonKill
	}
	return nil
}

func (a *App) releaseAll() {
	a.blocked.Range(func(k, v any) bool {
		a.blocked.Delete(k)
		close(v.(*block).Release)
		return true
	})
}

func newApp(name string, n int, mode gen.ApplicationMode, deps ...gen.Atom) *App {
	a := &App{Name: gen.Atom(name), N: n, SpecMode: mode, Deps: deps}
	a.failSlot.Store(-1)
	a.selfDie.Store(-1)
	return a
}

// effMode: spec mode 0 defaults to Temporary (node.ApplicationLoad)
func (a *App) effMode() gen.ApplicationMode {
	if a.SpecMode == 0 {
		return gen.ApplicationModeTemporary
	}
	return a.SpecMode
}

func alive(pid gen.PID) bool {
	if pid == (gen.PID{}) {
		return false
	}
	_, err := node.ProcessState(pid)
	return err == nil
}

func (a *App) Members() []*member {
	a.mu.Lock()
	defer a.mu.Unlock()
	return append([]*member(nil), a.members...)
}

func (a *App) CBs() []cbEv {
	a.mu.Lock()
	defer a.mu.Unlock()
	return append([]cbEv(nil), a.cbs...)
}

func (a *App) count(kind string) int {
	n := 0
	for _, e := range a.CBs() {
		if e.Kind == kind {
			n++
		}
	}
	return n
}

func (a *App) aliveCount() int {
	n := 0
	for _, m := range a.Members() {
		if alive(m.I.PID) {
			n++
		}
	}
	return n
}

func (a *App) aliveSlots() []string {
	var r []string
	for _, m := range a.Members() {
		if alive(m.I.PID) {
			r = append(r, fmt.Sprintf("run%d/slot%d=%s", m.Attempt, m.Slot, m.I.PID))
		}
	}
	return r
}

func (a *App) slotOf(pid gen.PID) (int, int32) {
	for _, m := range a.Members() {
		if m.I.PID == pid {
			return m.Slot, m.Attempt
		}
	}
	return -1, -1
}

func (a *App) rec(e cbEv) {
	e.Alive = a.aliveCount()
	e.T = hk.Tick()
	a.mu.Lock()
	a.cbs = append(a.cbs, e)
	a.mu.Unlock()
}

func (a *App) Load(n gen.Node, args ...any) (gen.ApplicationSpec, error) {
	a.inCB.Add(1)
	appCallbacks.Add(1)
	defer appCallbacks.Add(1)
	defer a.inCB.Add(-1)
	a.rec(cbEv{Kind: "load"})
	spec := gen.ApplicationSpec{
		Name:    a.Name,
		Mode:    a.SpecMode,
		Depends: gen.ApplicationDepends{Applications: append([]gen.Atom(nil), a.Deps...)},
	}
	for s := 0; s < a.N; s++ {
		spec.Group = append(spec.Group, gen.ApplicationMemberSpec{Factory: a.factory(s)})
	}
	return spec, nil
}

func (a *App) Start(mode gen.ApplicationMode) {
	a.inCB.Add(1)
	appCallbacks.Add(1)
	defer appCallbacks.Add(1)
	defer a.inCB.Add(-1)
	a.rec(cbEv{Kind: "start", Mode: mode})
}

func (a *App) Terminate(reason error) {
	a.inCB.Add(1)
	appCallbacks.Add(1)
	defer appCallbacks.Add(1)
	defer a.inCB.Add(-1)
	r := "<nil>"
	if reason != nil {
		r = reason.Error()
	}
	a.rec(cbEv{Kind: "terminate", Reason: r, reason: reason})
}

func sleeping(pid gen.PID) bool {
	if hk.LiveRunners(pid) > 0 {
		return false
	}
	info, err := node.ProcessInfo(pid)
	if err != nil {
		return true // gone
	}
	q := info.MailboxQueues
	return q.Main+q.System+q.Urgent+q.Log == 0 && info.State == gen.ProcessStateSleep
}

func (a *App) factory(slot int) gen.ProcessFactory {
	hooks := &actors.Hooks{
		Init: func(p *actors.Probe, args ...any) error {
			if int(a.failSlot.Load()) == slot {
				if a.failWait.Load() {
					att := a.attempt.Load()
					hk.WaitUntil(2*time.Second, func() bool {
						for _, m := range a.Members() {
							if m.Attempt == att && m.Slot < slot && !sleeping(m.I.PID) {
								return false
							}
						}
						return true
					})
				}
				return errInit
			}
			if int(a.selfDie.Load()) == slot {
				p.Send(p.PID(), die{gen.TerminateReasonNormal})
			}
			return nil
		},
		Msg: func(p *actors.Probe, from gen.PID, msg any) error {
			switch m := msg.(type) {
			case die:
				return m.Reason
			case block:
				close(m.Entered)
				<-m.Release
				select {
				case e := <-m.Exit:
					if e == errPanicNow {
						panic("c17 requested panic after release")
					}
					return e
				default:
				}
			case string:
				if m == "panic" {
					panic("c17 requested panic")
				}
			}
			return nil
		},
	}
	return actors.NewProbeMulti(fmt.Sprintf("%s/m%d", a.Name, slot), hooks, func(i *actors.Inst) {
		a.mu.Lock()
		a.members = append(a.members, &member{Slot: slot, I: i, Attempt: a.attempt.Load()})
		a.mu.Unlock()
	})
}

// events observed by the monitors for this app (app callbacks + member callbacks)
func (a *App) events() int64 {
	n := int64(len(a.CBs()))
	for _, m := range a.Members() {
		n += m.I.Callbacks.Load()
	}
	return n
}

// ---------------------------------------------------------------------------
// helpers

// safe runs f and converts a panic of the framework (propagating into the API
// caller) into a value
func safe(f func() error) (err error, pnc any) {
	defer func() {
		if r := recover(); r != nil {
			pnc = r
		}
	}()
	return f(), nil
}

// guarded runs an API call in its own goroutine. If the call does not return it looks for a
// stable structural witness of a self-deadlock: one goroutine that is inside
// lib.Map.Range of node.(*application) (read lock held) and, deeper in the same stack, waits
// for the write lock of lib.Map (LoadAndDelete in application.terminate). Such a goroutine
// can never proceed. hung = "" | "deadlock" | "watchdog"
func guarded(f func() error) (err error, pnc any, hung string, witness string) {
	type res struct {
		err error
		pnc any
	}
	ch := make(chan res, 1)
	gid := make(chan string, 1)
	go func() {
		b := make([]byte, 64)
		b = b[:runtime.Stack(b, false)]
		hdr := string(b)
		if i := strings.Index(hdr, " ["); i > 0 {
			hdr = hdr[:i]
		}
		gid <- hdr + " " // "goroutine 123 "
		e, p := safe(f)
		ch <- res{e, p}
	}()
	me := <-gid
	deadline := time.Now().Add(15 * time.Second)
	wait := 20 * time.Millisecond
	seen := 0
	for {
		select {
		case r := <-ch:
			return r.err, r.pnc, "", ""
		case <-time.After(wait):
		}
		if w := selfDeadlockStack(me); w != "" {
			seen++
			if seen >= 3 {
				return nil, nil, "deadlock", w
			}
			wait = 100 * time.Millisecond
			continue
		}
		seen = 0
		if wait < 200*time.Millisecond {
			wait *= 2
		}
		if time.Now().After(deadline) {
			return nil, nil, "watchdog", ""
		}
	}
}

// selfDeadlockStack returns the stack of a goroutine that waits for the write lock of a
// lib.Map while it is inside Range (read lock) of a lib.Map on behalf of node.(*application)
func selfDeadlockStack(me string) string {
	buf := make([]byte, 4<<20)
	n := runtime.Stack(buf, true)
	for _, g := range strings.Split(string(buf[:n]), "\n\n") {
		if !strings.HasPrefix(g, me) || !strings.Contains(g, "sync.(*RWMutex).Lock") {
			continue
		}
		il := strings.Index(g, "lib.(*Map[...]).LoadAndDelete")
		ir := strings.Index(g, "lib.(*Map[...]).Range")
		it := strings.Index(g, "node.(*application).terminate")
		if il >= 0 && ir > il && it > il && it < ir {
			var keep []string
			for _, l := range strings.Split(g, "\n") {
				if strings.HasPrefix(l, "goroutine ") || strings.Contains(l, "ergo.services/ergo/") && !strings.HasPrefix(l, "\t") {
					if i := strings.Index(l, "("); i > 0 && !strings.HasPrefix(l, "goroutine ") {
						l = l[:strings.LastIndex(l, "(")]
					}
					keep = append(keep, l)
				}
			}
			return strings.Join(keep, " <- ")
		}
	}
	return ""
}

// activityPoints: every step of a process towards running, sleeping or terminating, every
// mailbox push and every step of an application start/stop passes one of these yield points
var activityPoints = []string{
	"proc.run.wake", "proc.run.enter", "proc.run.exit", "proc.run.tosleep", "proc.run.recheck", "proc.run.reacquire",
	"proc.run.term.err", "proc.run.term.kill", "proc.run.term.panic", "proc.kill.zombie", "proc.kill.term",
	"proc.unreg.deleted", "proc.unreg.name", "mpsc.push.swap", "mpsc.push.swapped", "app.start.spawned", "app.term.swap",
}

var appCallbacks atomic.Int64 // application callbacks begun or finished (all apps)

// activity is a stamp that changes whenever anything moves in the node under test
func activity() int64 {
	n := appCallbacks.Load()
	for _, p := range activityPoints {
		n += hk.Hits(p)
	}
	return n
}

// quiesce waits for a consistent quiescent snapshot: one scan over all members during which
// nothing moved (a scan alone is not atomic: a member checked early can be woken by a
// member checked late, e.g. by the shutdown exit a dying member of a permanent application
// sends to the others)
// goid returns the id of the calling goroutine
func goid() string {
	b := make([]byte, 48)
	b = b[:runtime.Stack(b, false)]
	s := strings.TrimPrefix(string(b), "goroutine ")
	if i := strings.IndexByte(s, ' '); i > 0 {
		return s[:i]
	}
	return s
}

func quiesce(apps ...*App) bool {
	return hk.WaitUntil(20*time.Second, func() bool {
		before := activity()
		for _, a := range apps {
			if a.inCB.Load() > 0 {
				return false
			}
			for _, m := range a.Members() {
				if _, parked := a.blocked.Load(m.I.PID); parked {
					continue // kept inside a handler by the harness
				}
				if m.I.InCallback() {
					return false
				}
				if m.I.PID == (gen.PID{}) {
					continue
				}
				if !sleeping(m.I.PID) {
					return false
				}
			}
		}
		return activity() == before
	})
}

func appState(name gen.Atom) string {
	info, err := node.ApplicationInfo(name)
	if err != nil {
		return "unknown"
	}
	switch info.State {
	case gen.ApplicationStateLoaded:
		return "loaded"
	case gen.ApplicationStateRunning:
		return "running"
	case gen.ApplicationStateStopping:
		return "stopping"
	}
	return fmt.Sprintf("state(%d)", int(info.State))
}

// cleanup kills whatever is left and unloads the apps (best effort, unique names keep cases independent)
func cleanup(apps ...*App) {
	for _, a := range apps {
		a.releaseAll()
	}
	for k := 0; k < 2; k++ {
		for _, a := range apps {
			for _, m := range a.Members() {
				if alive(m.I.PID) {
					pid := m.I.PID
					safe(func() error { return node.Kill(pid) })
				}
			}
		}
		quiesce(apps...)
	}
	for i := len(apps) - 1; i >= 0; i-- {
		a := apps[i]
		safe(func() error { return node.ApplicationStopForce(a.Name) })
		safe(func() error { return node.ApplicationUnload(a.Name) })
	}
}

type viol struct {
	Sig  string
	What string
}

type result struct {
	viols []viol
	incon string
}

func (r *result) v(sig, format string, args ...any) {
	r.viols = append(r.viols, viol{sig, fmt.Sprintf(format, args...)})
}

// want implements the replay filter; ids of additional signature lines of one
// case carry a "+sig" suffix
func want(id string) bool {
	o := hk.Only()
	if i := strings.Index(o, "+"); i >= 0 {
		o = o[:i]
	}
	return o == "" || o == id
}

// finish emits the case; if the case violates the property in several ways one
// line per signature is printed (id+"+"+sig) so that no defect masks another
func finish(id, scenario, key string, nontrivial bool, events int64, r *result, detail any) {
	c := hk.Case{ID: id, Scenario: scenario, Key: key, Nontrivial: nontrivial, Events: events, Detail: detail}
	switch {
	case r.incon != "":
		// a watchdog or a gate deadline expired somewhere in this case: nothing observed after
		// that point may be judged (histories record this only if nothing was decided before)
		c.Verdict = hk.Inconclusive
		c.What = r.incon
		hk.Emit(c)
		return
	case len(r.viols) > 0:
		bySig := map[string][]string{}
		var order []string
		for _, v := range r.viols {
			if _, ok := bySig[v.Sig]; !ok {
				order = append(order, v.Sig)
			}
			bySig[v.Sig] = append(bySig[v.Sig], v.What)
		}
		for k, sig := range order {
			cc := c
			if k > 0 {
				cc.ID = id + "+" + sig
				cc.Events = 0
			}
			cc.Verdict = hk.Violated
			cc.Sig = sig
			w := bySig[sig]
			if len(w) > 3 {
				w = append(w[:3], fmt.Sprintf("... %d more", len(w)-3))
			}
			cc.What = strings.Join(w, " || ")
			// the driver keeps replay files for the first 50 violations only: print the first case of
			// every signature at once and the further cases of a signature at the end of the run
			if seenSig[sig] {
				deferred = append(deferred, cc)
			} else {
				seenSig[sig] = true
				hk.Emit(cc)
			}
		}
		return
	case r.incon != "":
		c.Verdict = hk.Inconclusive
		c.What = r.incon
	default:
		c.Verdict = hk.Held
	}
	hk.Emit(c)
}

var seenSig = map[string]bool{}
var deferred []hk.Case

func isAbnormal(r error) bool {
	return r != gen.TerminateReasonNormal && r != gen.TerminateReasonShutdown
}

func modeOf(s string) gen.ApplicationMode {
	switch s {
	case "permanent":
		return gen.ApplicationModePermanent
	case "transient":
		return gen.ApplicationModeTransient
	}
	return gen.ApplicationModeTemporary
}

var caseSeq atomic.Int64

// uname returns an application name unique in this process
func uname(prefix string) string {
	return fmt.Sprintf("%s_%d", prefix, caseSeq.Add(1))
}

// killMember terminates a member process in the requested way and returns the reason the
// framework is expected to attribute to it
func killMember(pid gen.PID, how string) (error, any) {
	var reason error
	_, pnc := safe(func() error {
		switch how {
		case "normal":
			reason = gen.TerminateReasonNormal
			return node.Send(pid, die{reason})
		case "shutdown":
			reason = gen.TerminateReasonShutdown
			return node.Send(pid, die{reason})
		case "custom":
			reason = errCustom
			return node.Send(pid, die{reason})
		case "panic":
			reason = gen.TerminateReasonPanic
			return node.Send(pid, "panic")
		case "kill":
			reason = gen.TerminateReasonKill
			return node.Kill(pid)
		case "exit-shutdown":
			reason = gen.TerminateReasonShutdown
			return node.SendExit(pid, reason)
		case "exit-custom":
			reason = errCustom2
			return node.SendExit(pid, reason)
		}
		panic("unknown how " + how)
	})
	return reason, pnc
}

var hows = []string{"normal", "shutdown", "custom", "panic", "kill", "exit-shutdown", "exit-custom"}

func reasonOfHow(how string) error {
	switch how {
	case "normal":
		return gen.TerminateReasonNormal
	case "shutdown", "exit-shutdown":
		return gen.TerminateReasonShutdown
	case "custom":
		return errCustom
	case "panic":
		return gen.TerminateReasonPanic
	case "kill":
		return gen.TerminateReasonKill
	case "exit-custom":
		return errCustom2
	}
	return nil
}

func startBy(kind string, name gen.Atom) error {
	switch kind {
	case "start":
		return node.ApplicationStart(name, gen.ApplicationOptions{})
	case "permanent":
		return node.ApplicationStartPermanent(name, gen.ApplicationOptions{})
	case "transient":
		return node.ApplicationStartTransient(name, gen.ApplicationOptions{})
	case "temporary":
		return node.ApplicationStartTemporary(name, gen.ApplicationOptions{})
	}
	panic("unknown start kind " + kind)
}

func stopBy(kind string, name gen.Atom, timeout time.Duration) error {
	switch kind {
	case "stop":
		return node.ApplicationStop(name)
	case "force":
		return node.ApplicationStopForce(name)
	case "timeout":
		return node.ApplicationStopWithTimeout(name, timeout)
	}
	panic("unknown stop kind " + kind)
}

func sortedKeys(m map[string]bool) []string {
	var r []string
	for k := range m {
		r = append(r, k)
	}
	sort.Strings(r)
	return r
}

func main() {
	hk.InstallHook()
	hk.Rule("histories: seeded random sequential histories over {Load, Start, StartPermanent/Transient/Temporary (optionally with a member whose Init fails), Stop, StopForce, StopWithTimeout, Unload, member death x {normal, shutdown, custom error, panic, Kill, exit signal}} for 1-4 applications (dependency DAG) of 1-4 members, every step compared with a reference model at quiescence; non-trivial iff the history contains >=1 observed stop caused by a member death and >=1 successful restart after a stop; distinct = set of (mode, stop cause) classes observed x number of apps x failed-start seen. histories-stopping (HB): the same plus block/release of members inside a handler so that the application stays in state stopping over several steps; non-trivial iff an Unload was attempted while stopping and the delayed stop was observed to complete. directed: gate-controlled concurrent schedules (member death before/after group.Store while the starter is parked at app.start.spawned, two members dying together, a terminator delayed (gate at app.term.swap / slow logger) across a restart, Stop racing a crash, Stop during Start, Start from two goroutines, dependency start in progress, immediate restart loops, Unload while stopping / racing a stop); non-trivial iff the gate fired / the contested interleaving was observed; distinct = parameters x observed class")
	hk.Assume("a member counts as terminated once it is no longer in the node's process table (ProcessState returns an error); its own Terminate callback may still follow")
	hk.Assume("accepted Terminate reasons: Permanent/Transient-abnormal stop = reason of the causing member; stop by last member (Temporary, or Transient after normal exits) = normal or the reason of that member; ApplicationStop/StopWithTimeout = shutdown; ApplicationStopForce = kill")
	hk.Assume("the hook gates only delay a goroutine of the framework at a yield point; every gated schedule is a schedule the Go scheduler may produce on its own")
	var err error
	node, err = hk.StartNode(hk.NodeCfg{Name: "c17"})
	if err != nil {
		fmt.Fprintln(os.Stderr, "start node:", err)
		os.Exit(3)
	}

	n := hk.Pick(500, 6000)
	if v, _ := strconv.Atoi(os.Getenv("C17_DEV_RESTART")); v > 0 {
		// development aid: only the restart loops, v of them (used to hammer this family under load)
		for k := 0; k < v; k++ {
			runRestartLoop(k)
		}
		n = 0
	} else {
		runAllDirected()
	}
	for k := 0; k < n; k++ {
		runHistory(k, false)
	}
	// histories with members kept busy in a handler: the application stays in state stopping
	// for several steps (unload / start / stop / force while stopping)
	if os.Getenv("C17_DEV_RESTART") == "" {
		for k := 0; k < hk.Pick(250, 3000); k++ {
			runHistory(k, true)
		}
	}

	for _, c := range deferred {
		hk.Emit(c)
	}
	h, d := hk.PointStats()
	hk.Note("hook_hits", map[string]int64{"app.start.spawned": h["app.start.spawned"], "app.term.swap": h["app.term.swap"], "proc.unreg.deleted": h["proc.unreg.deleted"]})
	_ = d
	if l := node.Cap.PanicLines(); len(l) > 0 {
		if len(l) > 10 {
			l = l[:10]
		}
		hk.Note("framework_panic_log_lines_sample", l)
	}
	os.Stdout.Sync()
	os.Exit(0)
}
