package main

import (
	"errors"
	"fmt"
	"runtime"
	"strings"
	"sync"
	"sync/atomic"
	"time"

	"ergo.services/ergo/gen"

	"verif/harness/hk"
)

// ---------------------------------------------------------------------------
// directed concurrent schedules

type dcase struct {
	id       string
	scenario string
	apps     []*App
	r        *result
	fired    bool
	class    string
	wedged   bool
	detail   map[string]any
	mu       sync.Mutex // d.call may run in helper goroutines (some of which never return on a dead-locked application)
	closed   bool
	voided   bool
}

func newD(id, scenario string) *dcase {
	return &dcase{id: id, scenario: scenario, r: &result{}, detail: map[string]any{}}
}

func (d *dcase) app(n int, mode gen.ApplicationMode, deps ...gen.Atom) *App {
	a := newApp(uname("d")+fmt.Sprintf("_a%d", len(d.apps)), n, mode, deps...)
	d.apps = append(d.apps, a)
	return a
}

// void: the intended schedule was not produced (a gate ran into its deadline): whatever was
// observed is not judged
func (d *dcase) void(reason string) {
	d.voided = true
	d.incon("%s", reason)
}

// settle waits for a consistent quiescent snapshot; without one nothing may be judged
func (d *dcase) settle(apps ...*App) bool {
	if len(apps) == 0 {
		apps = d.apps
	}
	if quiesce(apps...) {
		return true
	}
	d.incon("watchdog: no quiescence")
	return false
}

func (d *dcase) incon(format string, args ...any) {
	if d.r.incon == "" {
		d.r.incon = fmt.Sprintf(format, args...)
	}
}

// call runs an API call under the dead-lock guard; ok=false means the case cannot continue
func (d *dcase) call(what string, f func() error) (error, bool) {
	err, pnc, hung, witness := guarded(f)
	d.mu.Lock()
	defer d.mu.Unlock()
	if d.closed {
		return nil, false
	}
	switch {
	case hung == "deadlock":
		d.wedged = true
		sig := "self-deadlock-in-" + what
		if strings.Contains(witness, "ApplicationStopForce") {
			sig = "stopforce-self-deadlock-range-kill"
		} else if strings.Contains(witness, "application).start") {
			sig = "failed-start-rollback-self-deadlock-range-kill"
		}
		d.r.v(sig, "%s never returns: its goroutine holds the read lock of the application's member map (lib.Map.Range) and waits for the write lock of the same map (application.terminate -> LoadAndDelete): %s", what, witness)
		return nil, false
	case hung != "":
		d.wedged = true
		if d.r.incon == "" {
			d.r.incon = fmt.Sprintf("watchdog: %s did not return within 15s", what)
		}
		return nil, false
	case pnc != nil:
		sig := "api-panic-" + what
		if strings.Contains(fmt.Sprint(pnc), "close of closed channel") {
			sig = "panic-close-of-closed-stopped-channel"
		}
		d.r.v(sig, "%s panicked in the caller's goroutine: %v", what, pnc)
		return nil, false
	}
	return err, true
}

func (d *dcase) finish() {
	d.mu.Lock()
	d.closed = true
	wedged := d.wedged
	d.mu.Unlock()
	var events int64
	for _, a := range d.apps {
		events += a.events()
		var cbs []string
		for _, c := range a.CBs() {
			cbs = append(cbs, c.String())
		}
		d.detail["callbacks_"+string(a.Name)] = cbs
	}
	if !wedged {
		cleanup(d.apps...)
	}
	key := d.id
	if d.class != "" {
		key += "/" + d.class
	}
	d.detail["fired"] = d.fired
	if d.voided {
		d.r.viols = nil
	}
	finish(d.id, d.scenario, key, d.fired, events, d.r, d.detail)
}

// loadStart loads the app and starts it in the given way; must succeed
func (d *dcase) loadStart(a *App, kind string) bool {
	if _, err := node.ApplicationLoad(a); err != nil {
		d.incon("load: %v", err)
		return false
	}
	return d.start(a, kind)
}

func (d *dcase) start(a *App, kind string) bool {
	a.attempt.Add(1)
	err, ok := d.call("Application start ("+kind+")", func() error { return startBy(kind, a.Name) })
	if !ok {
		return false
	}
	if err != nil {
		d.incon("start: %v", err)
		return false
	}
	return true
}

func (a *App) cur() map[int]*member {
	att := a.attempt.Load()
	r := map[int]*member{}
	for _, m := range a.Members() {
		if m.Attempt == att {
			r[m.Slot] = m
		}
	}
	return r
}

func (a *App) countSince(kind string, from int) int {
	n := 0
	for _, e := range a.CBs()[from:] {
		if e.Kind == kind {
			n++
		}
	}
	return n
}

// priorRun performs one complete run (start, ApplicationStop) so that the application
// object carries the leftovers of an earlier run (closed stopped channel, mode, reason)
func (d *dcase) priorRun(a *App, kind string) bool {
	if !d.start(a, kind) {
		return false
	}
	err, ok := d.call("ApplicationStop", func() error { return node.ApplicationStop(a.Name) })
	if !ok {
		return false
	}
	if err != nil || !quiesce(a) || appState(a.Name) != "loaded" {
		d.incon("prior run did not stop cleanly: %v state=%s", err, appState(a.Name))
		return false
	}
	return true
}

// --- member death while the starter is parked between spawn and group.Store ------------

// runEarly: the starter is parked at app.start.spawned of slot parkSlot; the members in
// victims (slots <= parkSlot) terminate; the starter is released.
func runEarly(n, parkSlot int, victims []int, startKind string, specMode gen.ApplicationMode, how string, prior bool) {
	id := fmt.Sprintf("D/early/n%d/park%d/victims%v/%s/spec-%s/%s/prior=%v", n, parkSlot, victims, startKind, specMode, how, prior)
	if !want(id) {
		return
	}
	d := newD(id, "early-death")
	defer d.finish()
	a := d.app(n, specMode)
	if _, err := node.ApplicationLoad(a); err != nil {
		d.incon("load: %v", err)
		return
	}
	if prior && !d.priorRun(a, "start") {
		return
	}
	cb0 := len(a.CBs())
	att := a.attempt.Add(1)
	g := hk.Park("app.start.spawned", func(s any) bool {
		pid, ok := s.(gen.PID)
		if !ok {
			return false
		}
		slot, at := a.slotOf(pid)
		return slot == parkSlot && at == att
	}, false)
	type sres struct {
		err  error
		pnc  any
		hung string
	}
	done := make(chan sres, 1)
	go func() {
		err, pnc, hung, _ := guarded(func() error { return startBy(startKind, a.Name) })
		done <- sres{err, pnc, hung}
	}()
	if !g.WaitArrived(5 * time.Second) {
		g.Release()
		d.incon("gate: app.start.spawned for slot %d never reached", parkSlot)
		<-done
		return
	}
	d.fired = true
	before := false
	abnormal := false
	for _, v := range victims {
		if v == parkSlot {
			before = true
		}
		m := a.cur()[v]
		if m == nil {
			d.incon("victim slot %d has no member", v)
			break
		}
		hk.WaitUntil(2*time.Second, func() bool { return sleeping(m.I.PID) })
		reason, pnc := killMember(m.I.PID, how)
		if isAbnormal(reason) {
			abnormal = true
		}
		if pnc != nil {
			d.r.v("api-panic-kill", "terminating member slot %d (%s) panicked: %v", v, how, pnc)
		}
		pid := m.I.PID
		if !hk.WaitUntil(5*time.Second, func() bool { return !alive(pid) && hk.LiveRunners(pid) == 0 }) {
			d.incon("watchdog: victim %s did not terminate", pid)
		}
	}
	midTerm := a.countSince("terminate", cb0)
	midState := appState(a.Name)
	g.Release()
	var sr sres
	select {
	case sr = <-done:
	case <-time.After(20 * time.Second):
		d.incon("watchdog: start did not return")
		d.wedged = true
		return
	}
	if g.TimedOut() {
		d.void("gate: released by deadline")
	}
	if sr.hung != "" {
		d.wedged = true
		d.incon("start hung: %s", sr.hung)
		return
	}
	if sr.pnc != nil {
		sig := "api-panic-start"
		if strings.Contains(fmt.Sprint(sr.pnc), "close of closed channel") {
			sig = "panic-close-of-closed-stopped-channel"
		}
		d.r.v(sig, "start panicked: %v", sr.pnc)
		return
	}
	if !quiesce(a) {
		d.incon("watchdog: no quiescence")
		return
	}
	mode := specMode
	if specMode == 0 {
		mode = gen.ApplicationModeTemporary
	}
	if startKind != "start" {
		mode = modeOf(startKind)
	}
	mustStop := mode == gen.ApplicationModePermanent || (mode == gen.ApplicationModeTransient && abnormal) || len(victims) == n
	// one signature per root cause; the observed class is part of the text
	fam := "member-death-during-start-misjudged"
	if before {
		fam = "member-death-before-group-store-missed"
	}
	st := appState(a.Name)
	starts := a.countSince("start", cb0)
	terms := a.countSince("terminate", cb0)
	vict := map[int]bool{}
	for _, v := range victims {
		vict[v] = true
	}
	var aliveNow, survivorsDead []int
	for s, m := range a.cur() {
		if alive(m.I.PID) {
			aliveNow = append(aliveNow, s)
		} else if !vict[s] {
			survivorsDead = append(survivorsDead, s)
		}
	}
	ctx := fmt.Sprintf("%d members, mode %s (previous mode of the application object %s), starter parked after spawning slot %d, slots %v terminated with %q meanwhile; start returned %v; at quiescence state=%s alive slots=%v Start callbacks=%d Terminate callbacks=%d (Terminate callbacks before the start returned: %d, state then %s)",
		n, mode, map[bool]string{false: specMode.String(), true: "temporary (set by ApplicationStop)"}[prior], parkSlot, victims, how, sr.err, st, aliveNow, starts, terms, midTerm, midState)
	d.detail["context"] = ctx
	d.class = fmt.Sprintf("state=%s/alive=%d/terms=%d", st, len(aliveNow), terms)
	if mustStop {
		switch {
		case st != "loaded" && len(aliveNow) == 0:
			d.r.v(fam, "[app-never-stops] the application must stop (mode rule / last member) but stays %s with no member left: %s", st, ctx)
		case st != "loaded":
			d.r.v(fam, "[app-not-stopped] the application must stop but stays %s with members %v: %s", st, aliveNow, ctx)
		case len(aliveNow) > 0:
			d.r.v(fam, "[stopped-with-members-running] state is loaded but members %v are still running: %s", aliveNow, ctx)
		}
		if terms > 1 || (starts >= 1 && terms != 1 && st == "loaded") {
			d.r.v(fam, "[terminate-callback-count] Start callback ran %d times, Terminate callback %d times: %s", starts, terms, ctx)
		}
	} else {
		switch {
		case st == "loaded" && len(aliveNow) > 0:
			d.r.v(fam, "[stopped-with-members-running] the application must keep running (mode %s, members remain) but state is loaded while members %v run: %s", mode, aliveNow, ctx)
		case st != "running":
			d.r.v(fam, "[state-%s] the application must keep running (mode %s, members remain): %s", st, mode, ctx)
		case len(survivorsDead) > 0:
			d.r.v(fam, "[survivors-terminated] members %v were terminated although the application must keep running: %s", survivorsDead, ctx)
		}
		if terms != 0 && st != "loaded" {
			d.r.v(fam, "[terminate-callback-count] Terminate callback ran %d times although the application keeps running: %s", terms, ctx)
		}
	}
	if len(d.r.viols) > 0 && st != "loaded" {
		// witness: can the application still be stopped at all?
		err, ok := d.call("ApplicationStopWithTimeout", func() error { return node.ApplicationStopWithTimeout(a.Name, 300*time.Millisecond) })
		if ok && quiesce(a) {
			d.detail["followup_stop"] = fmt.Sprintf("ApplicationStopWithTimeout(300ms) -> %v, state afterwards %s, alive %v", err, appState(a.Name), a.aliveSlots())
		}
		return
	}
	if len(d.r.viols) == 0 && mustStop {
		// "so it can be started again"
		a.attempt.Add(1)
		err, ok := d.call("restart", func() error { return startBy("start", a.Name) })
		if ok && d.settle(a) {
			if err != nil || appState(a.Name) != "running" || len(a.aliveSlots()) != n {
				d.r.v(fam, "[restart-fails] restart after the stop: err=%v state=%s alive=%v: %s", err, appState(a.Name), a.aliveSlots(), ctx)
			}
		}
	}
}

// runSelfDie: no gate at all. A member sends itself a message from Init and terminates
// normally when it handles it (spawn runs the process right away), racing with group.Store.
func runSelfDie(k int, widen bool) {
	id := fmt.Sprintf("D/selfdie/widen=%v/%d", widen, k)
	if !want(id) {
		return
	}
	d := newD(id, "early-death-natural")
	defer d.finish()
	a := d.app(1, gen.ApplicationModeTemporary)
	a.selfDie.Store(0)
	if widen {
		// a plain delay of the starter between spawn and group.Store (what preemption does)
		hk.Stress(id, map[string]float64{"app.start.spawned": 1.0}, 300*time.Microsecond)
		defer hk.StressOff()
	}
	var storedAfterDeath atomic.Bool
	cancel := hk.Observe("app.start.spawned", nil, func(_ string, s any) {
		if pid, ok := s.(gen.PID); ok {
			if slot, _ := a.slotOf(pid); slot == 0 && !alive(pid) {
				storedAfterDeath.Store(true)
			}
		}
	})
	defer cancel()
	if _, err := node.ApplicationLoad(a); err != nil {
		d.incon("load: %v", err)
		return
	}
	a.attempt.Add(1)
	err, ok := d.call("ApplicationStart", func() error { return node.ApplicationStart(a.Name, gen.ApplicationOptions{}) })
	hk.StressOff()
	if !ok {
		return
	}
	if !quiesce(a) {
		d.incon("watchdog: no quiescence")
		return
	}
	d.fired = true
	st := appState(a.Name)
	d.class = fmt.Sprintf("dead-at-store=%v/state=%s", storedAfterDeath.Load(), st)
	ctx := fmt.Sprintf("single member that exits normally right after Init; start returned %v; member already gone when the starter reached group.Store: %v; at quiescence state=%s alive=%v callbacks=%v", err, storedAfterDeath.Load(), st, a.aliveSlots(), a.CBs())
	d.detail["context"] = ctx
	if len(a.aliveSlots()) == 0 && st != "loaded" {
		d.r.v("member-death-before-group-store-missed", "the last member terminated but the application stays %s for ever: %s", st, ctx)
	}
	if n := a.count("terminate"); n > 1 {
		d.r.v("member-death-before-group-store-missed", "Terminate callback ran %d times: %s", n, ctx)
	}
}

// --- two members dying together ---------------------------------------------------------

func runTwoDie(k, n int, mode gen.ApplicationMode, nv int, how string) {
	id := fmt.Sprintf("D/twodie/n%d/%s/victims%d/%s/%d", n, mode, nv, how, k)
	if !want(id) {
		return
	}
	d := newD(id, "two-die-together")
	defer d.finish()
	a := d.app(n, mode)
	if !d.loadStart(a, "start") || !quiesce(a) {
		return
	}
	var swaps atomic.Int32
	cancel := hk.Observe("app.term.swap", hk.Eq(a.Name), func(string, any) { swaps.Add(1) })
	defer cancel()
	vp := map[gen.PID]bool{}
	cur := a.cur()
	for s := 0; s < nv; s++ {
		vp[cur[s].I.PID] = true
	}
	g := hk.Park("proc.unreg.deleted", func(s any) bool { pid, ok := s.(gen.PID); return ok && vp[pid] }, true)
	var wg sync.WaitGroup
	for pid := range vp {
		wg.Add(1)
		go func(pid gen.PID) { defer wg.Done(); killMember(pid, how) }(pid)
	}
	arrived := hk.WaitUntil(5*time.Second, func() bool { return g.ArrivedCount() >= nv })
	g.Release()
	wg.Wait()
	if !arrived || g.TimedOut() {
		d.incon("gate: not all victims reached proc.unreg.deleted")
		return
	}
	if !quiesce(a) {
		d.incon("watchdog: no quiescence")
		return
	}
	d.fired = true
	reason := reasonOfHow(how)
	mustStop := mode == gen.ApplicationModePermanent || (mode == gen.ApplicationModeTransient && isAbnormal(reason)) || nv == n
	st := appState(a.Name)
	terms := a.count("terminate")
	d.class = fmt.Sprintf("swap-arrivals=%d", swaps.Load())
	ctx := fmt.Sprintf("%d members, mode %s, %d members terminated together with %q; arrivals at the state swap: %d; at quiescence state=%s alive=%v callbacks=%v", n, mode, nv, how, swaps.Load(), st, a.aliveSlots(), a.CBs())
	d.detail["context"] = ctx
	if mustStop {
		if st != "loaded" || len(a.aliveSlots()) > 0 {
			d.r.v("two-die-together-not-stopped", "the application must be stopped: %s", ctx)
		}
		if terms != 1 {
			d.r.v(fmt.Sprintf("two-die-together-terminate-callback-%d-times", terms), "Terminate callback must run exactly once: %s", ctx)
		} else {
			got := a.CBs()[len(a.CBs())-1].reason
			if got != reason && !(got == gen.TerminateReasonNormal && nv == n && !(mode == gen.ApplicationModePermanent || (mode == gen.ApplicationModeTransient && isAbnormal(reason)))) {
				sig := "two-die-together-terminate-reason"
				if got == gen.TerminateReasonNormal {
					// the terminator that triggers the stop records the reason only after it has switched
					// the state; another terminator can complete the stop before that
					sig = "terminate-reason-not-set-before-stop-completes"
				}
				d.r.v(sig, "Terminate(%v), expected %v: %s", got, reason, ctx)
			}
		}
		if len(d.r.viols) == 0 {
			a.attempt.Add(1)
			err, ok := d.call("restart", func() error { return startBy("start", a.Name) })
			if ok && d.settle(a) {
				if err != nil || appState(a.Name) != "running" || len(a.aliveSlots()) != n {
					d.r.v("two-die-together-restart-fails", "restart: err=%v state=%s alive=%v: %s", err, appState(a.Name), a.aliveSlots(), ctx)
				}
			}
		}
	} else {
		if st != "running" || len(a.aliveSlots()) != n-nv || terms != 0 {
			d.r.v("two-die-together-stopped-unexpectedly", "the application must keep running with %d members: %s", n-nv, ctx)
		}
	}
}

// runStaleTerminator: both members of a Temporary application die together; the first
// terminator that arrives at the final state swap is parked, the second completes the
// stop; the application is started again; then the parked terminator continues.
func runStaleTerminator(k int) {
	id := fmt.Sprintf("D/stale-terminator/%d", k)
	if !want(id) {
		return
	}
	d := newD(id, "stale-terminator")
	defer d.finish()
	a := d.app(2, gen.ApplicationModeTemporary)
	if !d.loadStart(a, "start") || !quiesce(a) {
		return
	}
	var swaps atomic.Int32
	cancel := hk.Observe("app.term.swap", hk.Eq(a.Name), func(string, any) { swaps.Add(1) })
	defer cancel()
	cur := a.cur()
	vp := map[gen.PID]bool{cur[0].I.PID: true, cur[1].I.PID: true}
	gs := hk.Park("app.term.swap", hk.Eq(a.Name), false) // parks only the first arrival
	g := hk.Park("proc.unreg.deleted", func(s any) bool { pid, ok := s.(gen.PID); return ok && vp[pid] }, true)
	var returned atomic.Int32
	var wg sync.WaitGroup
	for pid := range vp {
		wg.Add(1)
		go func(pid gen.PID) {
			defer wg.Done()
			safe(func() error { return node.Kill(pid) })
			returned.Add(1)
		}(pid)
	}
	arrived := hk.WaitUntil(5*time.Second, func() bool { return g.ArrivedCount() >= 2 })
	g.Release()
	if !arrived {
		gs.Release()
		wg.Wait()
		d.incon("gate: victims did not reach proc.unreg.deleted")
		return
	}
	// one killer returns (it either left early because a member remained, or it passed the swap
	// as second arrival); the other one is parked at the swap
	if !hk.WaitUntil(5*time.Second, func() bool { return returned.Load() >= 1 && gs.ArrivedCount() >= 1 }) {
		gs.Release()
		wg.Wait()
		d.incon("gate: no terminator parked at app.term.swap")
		return
	}
	contested := swaps.Load() >= 2
	d.class = fmt.Sprintf("contested=%v", contested)
	if !contested {
		gs.Release()
		wg.Wait()
		if !d.settle(a) {
			return
		}
		if st := appState(a.Name); st != "loaded" || a.count("terminate") != 1 {
			d.r.v("two-die-together-not-stopped", "state=%s callbacks=%v", st, a.CBs())
		}
		return
	}
	d.fired = true
	st1, t1 := appState(a.Name), a.count("terminate")
	a.attempt.Add(1)
	err, ok := d.call("restart", func() error { return startBy("start", a.Name) })
	if !ok {
		gs.Release()
		wg.Wait()
		return
	}
	// (the parked terminator's killer goroutine is a harness goroutine: the members can settle)
	settled := quiesce(a)
	st2, alive2 := appState(a.Name), len(a.aliveSlots())
	gs.Release()
	wg.Wait()
	if !settled {
		d.incon("watchdog: no quiescence after the restart")
		return
	}
	if gs.TimedOut() {
		d.void("gate: released by deadline")
	}
	if !quiesce(a) {
		d.incon("watchdog: no quiescence")
		return
	}
	st3, t3 := appState(a.Name), a.count("terminate")
	ctx := fmt.Sprintf("both members killed together, both terminators saw an empty group; after the first one finished: state=%s Terminate callbacks=%d; restart -> %v, state=%s, members alive=%d; after the delayed terminator continued: state=%s, members alive=%v, Terminate callbacks=%d; callbacks %v", st1, t1, err, st2, alive2, st3, a.aliveSlots(), t3, a.CBs())
	d.detail["context"] = ctx
	if st1 != "loaded" || t1 != 1 {
		d.r.v("two-die-together-not-stopped", "%s", ctx)
		return
	}
	if err != nil || st2 != "running" || alive2 != 2 {
		d.r.v("restart-after-stop-fails", "%s", ctx)
		return
	}
	if st3 != "running" || t3 != 1 || len(a.aliveSlots()) != 2 {
		d.r.v("stale-terminator-stops-restarted-app", "a terminator of the previous run, delayed before the final state swap, stopped the restarted application (state, callback, stop channel) although all its members run: %s", ctx)
	}
}

// --- Stop racing a member crash -------------------------------------------------------------

func runStopVsCrash(n int, mode gen.ApplicationMode, stopKind, how, park string) {
	id := fmt.Sprintf("D/stop-vs-crash/n%d/%s/%s/%s/park=%s", n, mode, stopKind, how, park)
	if !want(id) {
		return
	}
	d := newD(id, "stop-vs-crash")
	defer d.finish()
	a := d.app(n, mode)
	if !d.loadStart(a, "start") || !quiesce(a) {
		return
	}
	cur := a.cur()
	victim := cur[0].I.PID
	var g *hk.Gate
	switch park {
	case "unreg":
		g = hk.Park("proc.unreg.deleted", hk.Eq(victim), false)
	case "swap":
		g = hk.Park("app.term.swap", hk.Eq(a.Name), false)
	}
	var wg sync.WaitGroup
	wg.Add(1)
	go func() { defer wg.Done(); killMember(victim, how) }()
	if g != nil {
		if !g.WaitArrived(5 * time.Second) {
			g.Release()
			wg.Wait()
			d.incon("gate: %s never reached", park)
			return
		}
		d.fired = true
	}
	type sres struct {
		err     error
		ok      bool
		state   string
		stillUp []string
	}
	done := make(chan sres, 1)
	go func() {
		err, ok := d.call("Application stop ("+stopKind+")", func() error { return stopBy(stopKind, a.Name, 3*time.Second) })
		sr := sres{err: err, ok: ok}
		if ok && err == nil {
			sr.state = appState(a.Name)
			for s, m := range cur {
				if alive(m.I.PID) {
					sr.stillUp = append(sr.stillUp, fmt.Sprintf("slot%d", s))
				}
			}
		}
		done <- sr
	}()
	var sr sres
	got := false
	if g != nil {
		// let the stop request run into the parked termination (only shapes the interleaving)
		select {
		case sr = <-done:
			got = true
		case <-time.After(30 * time.Millisecond):
		}
		g.Release()
	}
	if !got {
		select {
		case sr = <-done:
		case <-time.After(30 * time.Second):
			d.incon("watchdog: stop did not return")
			d.wedged = true
			return
		}
	}
	if !sr.ok {
		return
	}
	wg.Wait()
	if g != nil && g.TimedOut() {
		d.void("gate: released by deadline")
	}
	if g == nil {
		d.fired = true
	}
	if !quiesce(a) {
		d.incon("watchdog: no quiescence")
		return
	}
	st := appState(a.Name)
	terms := a.count("terminate")
	d.class = fmt.Sprintf("stop-returned-%v", sr.err)
	ctx := fmt.Sprintf("%d members, mode %s: member 0 terminates with %q (parked at %q) while Application%s is called; stop returned %v (state then %s, members then %v); at quiescence state=%s alive=%v callbacks=%v", n, mode, how, park, stopKind, sr.err, sr.state, sr.stillUp, st, a.aliveSlots(), a.CBs())
	d.detail["context"] = ctx
	if sr.err == nil && (sr.state != "loaded" || len(sr.stillUp) > 0) {
		d.r.v("stop-reported-success-before-stopped", "%s", ctx)
	}
	if st != "loaded" || len(a.aliveSlots()) > 0 {
		d.r.v("stop-vs-crash-not-stopped", "after a stop request and a member crash the application must be stopped: %s", ctx)
	}
	if terms != 1 {
		d.r.v(fmt.Sprintf("stop-vs-crash-terminate-callback-%d-times", terms), "%s", ctx)
	} else {
		got := a.CBs()[len(a.CBs())-1].reason
		stopReason := gen.TerminateReasonShutdown
		if stopKind == "force" {
			stopReason = gen.TerminateReasonKill
		}
		if got != stopReason && got != reasonOfHow(how) && got != gen.TerminateReasonNormal {
			d.r.v("stop-vs-crash-terminate-reason", "Terminate(%v) is neither the stop reason, nor the member's reason, nor normal: %s", got, ctx)
		}
	}
}

// --- Stop while the start is in progress ----------------------------------------------------

func runStopDuringStart(n, parkSlot int, stopKind string, prior bool) {
	id := fmt.Sprintf("D/stop-during-start/n%d/park%d/%s/prior=%v", n, parkSlot, stopKind, prior)
	if !want(id) {
		return
	}
	d := newD(id, "stop-during-start")
	defer d.finish()
	a := d.app(n, gen.ApplicationModeTemporary)
	if _, err := node.ApplicationLoad(a); err != nil {
		d.incon("load: %v", err)
		return
	}
	if prior && !d.priorRun(a, "start") {
		return
	}
	cb0 := len(a.CBs())
	att := a.attempt.Add(1)
	g := hk.Park("app.start.spawned", func(s any) bool {
		pid, ok := s.(gen.PID)
		if !ok {
			return false
		}
		slot, at := a.slotOf(pid)
		return slot == parkSlot && at == att
	}, false)
	g.SetMaxWait(6 * time.Second)
	type sres struct {
		err error
		ok  bool
	}
	done := make(chan sres, 1)
	go func() {
		err, ok := d.call("ApplicationStart", func() error { return startBy("start", a.Name) })
		done <- sres{err, ok}
	}()
	if !g.WaitArrived(5 * time.Second) {
		g.Release()
		<-done
		d.incon("gate: app.start.spawned never reached")
		return
	}
	d.fired = true
	type stopRes struct {
		err   error
		ok    bool
		state string
		up    []string
	}
	sdone := make(chan stopRes, 1)
	go func() {
		err, ok := d.call("Application stop ("+stopKind+")", func() error { return stopBy(stopKind, a.Name, 300*time.Millisecond) })
		r := stopRes{err: err, ok: ok}
		if ok && err == nil {
			r.state = appState(a.Name)
			r.up = a.aliveSlots()
		}
		sdone <- r
	}()
	// the stop request may return at once or (legitimately) wait for the start to finish;
	// the bounded wait only shapes the interleaving
	var sp stopRes
	gotStop := false
	select {
	case sp = <-sdone:
		gotStop = true
	case <-time.After(time.Second):
	}
	g.Release()
	if !gotStop {
		select {
		case sp = <-sdone:
		case <-time.After(30 * time.Second):
			d.incon("watchdog: stop did not return")
			d.wedged = true
			return
		}
	}
	stopErr, ok, stState, stUp := sp.err, sp.ok, sp.state, sp.up
	if !ok {
		return // dead-locked: the starter will block on the member map as well
	}
	sr := <-done
	if !sr.ok {
		return
	}
	if g.TimedOut() {
		d.void("gate: released by deadline")
	}
	if !quiesce(a) {
		d.incon("watchdog: no quiescence")
		return
	}
	st := appState(a.Name)
	up := a.aliveSlots()
	starts, terms := a.countSince("start", cb0), a.countSince("terminate", cb0)
	d.class = fmt.Sprintf("stop=%v/start=%v/state=%s/alive=%d/stop-waited-for-start=%v", stopErr, sr.err, st, len(up), !gotStop)
	ctx := fmt.Sprintf("%d members, earlier run=%v: the starter is parked after spawning slot %d, Application%s returns %v (state then %q, members then %v), the starter continues and returns %v; at quiescence state=%s alive=%v Start callbacks=%d Terminate callbacks=%d", n, prior, parkSlot, stopKind, stopErr, stState, stUp, sr.err, st, up, starts, terms)
	d.detail["context"] = ctx
	if stopErr == nil && (stState != "loaded" || len(stUp) > 0) {
		d.r.v("stop-during-start-reported-success-before-stopped", "%s", ctx)
	}
	switch {
	case st == "loaded" && len(up) > 0:
		d.r.v("stop-during-start-inconsistent", "[loaded-with-members-running] %s", ctx)
	case st == "stopping":
		d.r.v("stop-during-start-inconsistent", "[stuck-in-stopping] nothing is in progress any more, yet the state is stopping: %s", ctx)
	case st == "running" && (len(up) != n || sr.err != nil):
		d.r.v("stop-during-start-inconsistent", "[running-without-all-members] %s", ctx)
	case st == "running" && stopErr == nil:
		d.r.v("stop-reported-success-but-app-runs", "%s", ctx)
	}
	if terms > starts || terms > 1 || starts > 1 || (st == "loaded" && starts != terms) {
		d.r.v("stop-during-start-inconsistent", "[callback-count] Start callback ran %d times, Terminate callback %d times: %s", starts, terms, ctx)
	}
}

// --- Start from two goroutines ----------------------------------------------------------------

func runStartTwice(k, n int, kinds [2]string, prior bool) {
	id := fmt.Sprintf("D/start-twice/n%d/%s+%s/prior=%v/%d", n, kinds[0], kinds[1], prior, k)
	if !want(id) {
		return
	}
	d := newD(id, "start-two-goroutines")
	defer d.finish()
	a := d.app(n, gen.ApplicationModeTemporary)
	if _, err := node.ApplicationLoad(a); err != nil {
		d.incon("load: %v", err)
		return
	}
	if prior && !d.priorRun(a, "start") {
		return
	}
	cb0, m0 := len(a.CBs()), len(a.Members())
	a.attempt.Add(1)
	hk.Stress(id, map[string]float64{"app.start.spawned": 0.5, "proc.run.wake": 0.2}, 100*time.Microsecond)
	barrier := make(chan struct{})
	errs := make([]error, 2)
	oks := make([]bool, 2)
	var wg sync.WaitGroup
	for i := 0; i < 2; i++ {
		wg.Add(1)
		go func(i int) {
			defer wg.Done()
			<-barrier
			errs[i], oks[i] = d.call("ApplicationStart", func() error { return startBy(kinds[i], a.Name) })
		}(i)
	}
	close(barrier)
	wg.Wait()
	hk.StressOff()
	if !oks[0] || !oks[1] {
		return
	}
	if !quiesce(a) {
		d.incon("watchdog: no quiescence")
		return
	}
	d.fired = true
	nils := 0
	for _, e := range errs {
		if e == nil {
			nils++
		}
	}
	starts := a.countSince("start", cb0)
	created := len(a.Members()) - m0
	st := appState(a.Name)
	ctx := fmt.Sprintf("two goroutines start the application at once (%v): results %v; members created %d, alive %v, Start callbacks %d, state %s", kinds, errs, created, a.aliveSlots(), starts, st)
	d.detail["context"] = ctx
	d.class = fmt.Sprintf("results=%v", errs)
	if nils != 1 || starts != 1 || created != n || len(a.aliveSlots()) != n || st != "running" {
		d.r.v("concurrent-start-not-exactly-once", "%s", ctx)
	}
}

// runDepInProgress: A and B depend on D. A's start (which starts D first) is parked inside D's
// start; B is started meanwhile.
func runDepInProgress(nd int) {
	id := fmt.Sprintf("D/dependency-in-progress/nd%d", nd)
	if !want(id) {
		return
	}
	d := newD(id, "dependency-in-progress")
	defer d.finish()
	dep := d.app(nd, gen.ApplicationModeTemporary)
	a := d.app(1, gen.ApplicationModeTemporary, dep.Name)
	b := d.app(1, gen.ApplicationModeTemporary, dep.Name)
	for _, x := range d.apps {
		if _, err := node.ApplicationLoad(x); err != nil {
			d.incon("load: %v", err)
			return
		}
		x.attempt.Add(1)
	}
	g := hk.Park("app.start.spawned", func(s any) bool {
		pid, ok := s.(gen.PID)
		if !ok {
			return false
		}
		slot, _ := dep.slotOf(pid)
		return slot == 0
	}, false)
	g.SetMaxWait(6 * time.Second)
	type sres struct {
		err error
		ok  bool
	}
	done := make(chan sres, 1)
	go func() {
		err, ok := d.call("ApplicationStart(A)", func() error { return startBy("start", a.Name) })
		done <- sres{err, ok}
	}()
	if !g.WaitArrived(5 * time.Second) {
		g.Release()
		<-done
		d.incon("gate: never reached")
		return
	}
	d.fired = true
	type bRes struct {
		err                           error
		ok                            bool
		depStarts, depMembers, bStart int
	}
	bdone := make(chan bRes, 1)
	go func() {
		err, ok := d.call("ApplicationStart(B)", func() error { return startBy("start", b.Name) })
		bdone <- bRes{err, ok, dep.count("start"), len(dep.Members()), b.count("start")}
	}()
	var br bRes
	gotB := false
	select {
	case br = <-bdone:
		gotB = true
	case <-time.After(time.Second): // B may legitimately wait until D is started
	}
	g.Release()
	if !gotB {
		select {
		case br = <-bdone:
		case <-time.After(30 * time.Second):
			d.incon("watchdog: ApplicationStart(B) did not return")
			d.wedged = true
			return
		}
	}
	errB, ok, depStarts, depMembers, bStarts := br.err, br.ok, br.depStarts, br.depMembers, br.bStart
	sr := <-done
	if !ok || !sr.ok {
		return
	}
	if g.TimedOut() {
		d.void("gate: released by deadline")
	}
	if !d.settle() {
		return
	}
	ctx := fmt.Sprintf("dependency D (%d members) is being started on behalf of A (starter parked after spawning D's first member); ApplicationStart(B), B depends on D, returned %v: B's Start callback ran %d times while D's Start callback had run %d times and %d of %d members of D existed; afterwards A's start returned %v; states D=%s A=%s B=%s", nd, errB, bStarts, depStarts, depMembers, nd, sr.err, appState(dep.Name), appState(a.Name), appState(b.Name))
	d.detail["context"] = ctx
	d.class = fmt.Sprintf("B-returned-%v/B-waited=%v", errB, !gotB)
	if errB == nil && (depStarts == 0 || depMembers < nd) {
		d.r.v("dependency-start-in-progress-treated-as-started", "an application was started (members and Start callback) before its dependency finished starting: %s", ctx)
	}
	if sr.err != nil || appState(dep.Name) != "running" || appState(a.Name) != "running" || dep.count("start") != 1 || a.count("start") != 1 {
		d.r.v("dependency-start-failed", "%s", ctx)
	}
}

// --- immediate restart loops ---------------------------------------------------------------------

func runRestartLoop(k int) {
	id := fmt.Sprintf("D/restart-loop/%d", k)
	if !want(id) {
		return
	}
	rng := hk.Rng("c17", id)
	d := newD(id, "restart-loop")
	defer d.finish()
	n := 1 + rng.Intn(3)
	a := d.app(n, gen.ApplicationModeTemporary)
	if _, err := node.ApplicationLoad(a); err != nil {
		d.incon("load: %v", err)
		return
	}
	hk.Stress(id, map[string]float64{"app.start.spawned": 0.3, "app.term.swap": 0.5, "proc.unreg.deleted": 0.3, "proc.run.tosleep": 0.1, "proc.run.term.err": 0.3, "proc.kill.term": 0.3}, 200*time.Microsecond)
	defer hk.StressOff()

	// Which member does a terminator act for? The goroutine that runs application.terminate passes
	// proc.unreg.deleted (subject: its pid) before it can reach app.term.swap. A terminator that
	// arrives at the final state swap on behalf of a member of an EARLIER run while the current
	// run is running/stopping is about to stop an application it does not belong to.
	var gpid sync.Map // goroutine id -> pid
	cancelU := hk.Observe("proc.unreg.deleted", nil, func(_ string, s any) {
		if pid, ok := s.(gen.PID); ok {
			if slot, _ := a.slotOf(pid); slot >= 0 {
				gpid.Store(goid(), pid)
			}
		}
	})
	defer cancelU()
	var staleMu sync.Mutex
	var stale []string
	cancel := hk.Observe("app.term.swap", hk.Eq(a.Name), func(string, any) {
		v, ok := gpid.Load(goid())
		if !ok {
			return
		}
		pid := v.(gen.PID)
		_, att := a.slotOf(pid)
		cur := a.attempt.Load()
		st := appState(a.Name)
		if att < cur && (st == "running" || st == "stopping") {
			staleMu.Lock()
			stale = append(stale, fmt.Sprintf("tick %d: the terminator of member %s of run %d arrived at the final state swap while run %d was %s", hk.Now(), pid, att, cur, st))
			staleMu.Unlock()
		}
	})
	defer cancel()
	panics0 := len(node.Cap.PanicLines())

	rounds := 4 + rng.Intn(5)
	var trace []string
	okStarts := 0
	stops := 0
	for r := 0; r < rounds; r++ {
		kind := []string{"start", "permanent", "transient", "temporary"}[rng.Intn(4)]
		a.attempt.Add(1)
		err, ok := d.call("start", func() error { return startBy(kind, a.Name) })
		if !ok {
			return
		}
		trace = append(trace, fmt.Sprintf("%s->%v", kind, err))
		if err != nil {
			d.r.v("restart-after-stop-fails", "round %d: state was loaded, yet Application start (%s) returned %v; trace %v", r, kind, err, trace)
			return
		}
		okStarts++
		if r == rounds-1 {
			break
		}
		// bring it down without waiting for quiescence
		way := rng.Intn(3)
		switch way {
		case 0:
			err, ok = d.call("stop", func() error { return node.ApplicationStop(a.Name) })
			trace = append(trace, fmt.Sprintf("stop->%v", err))
		case 1:
			err, ok = d.call("stop-timeout", func() error { return node.ApplicationStopWithTimeout(a.Name, 3*time.Second) })
			trace = append(trace, fmt.Sprintf("stop3s->%v", err))
		default:
			// all members die (any mode stops then)
			how := hows[rng.Intn(len(hows))]
			for _, m := range a.cur() {
				killMember(m.I.PID, how)
			}
			trace = append(trace, "all-die-"+how)
		}
		if !ok {
			return
		}
		stops++
		if !hk.WaitUntil(10*time.Second, func() bool { return appState(a.Name) == "loaded" }) {
			// stable witness or watchdog: decide at quiescence
			if quiesce(a) && len(a.aliveSlots()) == 0 && appState(a.Name) != "loaded" {
				staleMu.Lock()
				w := append([]string(nil), stale...)
				staleMu.Unlock()
				if len(w) > 0 {
					d.r.v("stale-terminator-stops-restarted-app", "round %d: a terminator of an earlier run interfered (%v); no member is left but the state stays %s; trace %v; callbacks %v", r, w, appState(a.Name), trace, a.CBs())
				} else {
					d.r.v("restart-loop-app-never-stops", "round %d: no member is left but the state stays %s; trace %v; callbacks %v", r, appState(a.Name), trace, a.CBs())
				}
			} else {
				d.incon("watchdog: application did not reach loaded; trace %v", trace)
			}
			return
		}
	}
	hk.StressOff()
	if !d.settle(a) {
		return
	}
	cancel()
	cancelU()
	d.fired = true
	st := appState(a.Name)
	starts, terms := a.count("start"), a.count("terminate")
	cur := a.cur()
	curAlive := 0
	var curDeaths []string
	for s, m := range cur {
		if alive(m.I.PID) {
			curAlive++
			continue
		}
		for _, e := range m.I.Events() {
			if e.CB == "terminate" {
				curDeaths = append(curDeaths, fmt.Sprintf("slot%d: %v", s, e.Err))
			}
		}
	}
	var doubleClose, nilReason bool
	pl := node.Cap.PanicLines()
	if len(pl) > panics0 {
		for _, l := range pl[panics0:] {
			if strings.Contains(l, "close of closed channel") {
				doubleClose = true
			}
		}
	}
	for _, c := range a.CBs() {
		if c.Kind == "terminate" && c.reason == nil {
			nilReason = true
		}
	}
	staleMu.Lock()
	staleW := append([]string(nil), stale...)
	staleMu.Unlock()
	ctx := fmt.Sprintf("%d members, %d rounds of start / stop / immediate restart (%v): successful starts %d, stops %d; at quiescence state=%s, members of the last run alive %d/%d (terminated ones: %v), all alive %v, Start callbacks %d, Terminate callbacks %d; callbacks %v", n, rounds, trace, okStarts, stops, st, curAlive, n, curDeaths, a.aliveSlots(), starts, terms, a.CBs())
	d.detail["context"] = ctx
	d.detail["stale_terminator_arrivals"] = staleW
	d.class = fmt.Sprintf("n%d", n)
	bad := st != "running" || curAlive != n || len(a.aliveSlots()) != n || starts != okStarts || terms != stops
	if !bad && !nilReason {
		return
	}
	// The last run was never touched by the harness. Which mechanism brought it down / lost a callback?
	shutdownFromNowhere := false
	for _, x := range curDeaths {
		if strings.Contains(x, gen.TerminateReasonShutdown.Error()) {
			shutdownFromNowhere = true
		}
	}
	switch {
	case len(staleW) > 0:
		d.r.v("stale-terminator-stops-restarted-app", "a terminator of an earlier run (two terminators of that run had seen an empty group) reached the final state swap of a later run and reset its state (later the run's own last terminator finds state loaded: no Terminate callback, stop channel never closed, stop request times out; or the run is loaded with live members): %v; %s", staleW, ctx)
	case shutdownFromNowhere && terms > stops:
		d.r.v("stale-terminator-stops-restarted-app", "members of the last run, for which nothing was requested, received a shutdown exit signal (only application.terminate of a permanent/transient run sends these without a stop request, here on behalf of a member of an earlier run): %s", ctx)
	case doubleClose || nilReason:
		d.r.v("terminate-tail-overlaps-restart", "the terminator that finishes run N publishes state loaded before it has closed the stop channel and read the reason; the restart replaced both meanwhile (framework panic 'close of closed channel' logged: %v, Terminate(nil) seen: %v): %s", doubleClose, nilReason, ctx)
	default:
		if st != "running" || curAlive != n || len(a.aliveSlots()) != n {
			d.r.v("restart-loop-final-state", "%s", ctx)
		}
		if starts != okStarts || terms != stops {
			d.r.v("restart-loop-callback-count", "%s", ctx)
		}
	}
}

func runAllDirected() {
	perm, trans, temp := gen.ApplicationModePermanent, gen.ApplicationModeTransient, gen.ApplicationModeTemporary
	// member dies between spawn and group.Store
	for _, prior := range []bool{false, true} {
		runEarly(1, 0, []int{0}, "start", temp, "normal", prior)
		runEarly(1, 0, []int{0}, "start", temp, "kill", prior)
		runEarly(1, 0, []int{0}, "permanent", temp, "custom", prior)
		runEarly(2, 0, []int{0}, "start", perm, "normal", prior)
		runEarly(2, 1, []int{1}, "start", perm, "panic", prior)
		runEarly(2, 1, []int{1}, "transient", temp, "custom", prior)
		runEarly(2, 1, []int{1}, "start", temp, "normal", prior)
		runEarly(3, 2, []int{2}, "start", trans, "shutdown", prior)
		// member dies after group.Store while the start is still in progress
		runEarly(2, 1, []int{0}, "start", temp, "normal", prior)
		runEarly(2, 1, []int{0}, "start", perm, "normal", prior)
		runEarly(2, 1, []int{0}, "permanent", temp, "normal", prior)
		runEarly(2, 1, []int{0}, "transient", temp, "custom", prior)
		runEarly(2, 1, []int{0}, "transient", perm, "shutdown", prior)
		runEarly(3, 2, []int{0}, "start", temp, "kill", prior)
		runEarly(3, 2, []int{0, 1}, "start", temp, "exit-custom", prior)
		runEarly(3, 2, []int{0, 1, 2}, "start", temp, "normal", prior)
		runEarly(3, 1, []int{0}, "start", trans, "panic", prior)
	}
	for k := 0; k < hk.Pick(12, 100); k++ {
		runSelfDie(k, false)
		runSelfDie(k, true)
	}
	for k := 0; k < hk.Pick(6, 40); k++ {
		runTwoDie(k, 2, temp, 2, "kill")
		runTwoDie(k, 2, temp, 2, "normal")
		runTwoDie(k, 3, perm, 2, "custom")
		runTwoDie(k, 3, trans, 2, "shutdown")
		runTwoDie(k, 3, trans, 3, "panic")
		runTwoDie(k, 3, temp, 2, "exit-custom")
		runTwoDie(k, 4, perm, 4, "exit-shutdown")
	}
	for k := 0; k < hk.Pick(10, 200); k++ {
		runStaleTerminator(k)
	}
	for _, how := range []string{"custom", "normal", "panic", "kill"} {
		runSlowLogTerminator(how, false)
		runSlowLogTerminator(how, true)
	}
	for _, cause := range []string{"stop", "custom", "kill", "panic"} {
		runStopTailRestart(cause)
	}
	for _, v := range []string{"stop-timeout", "force", "death-permanent", "death-transient"} {
		runUnloadWhileStopping(v)
	}
	for _, m := range []gen.ApplicationMode{trans, perm} {
		for _, h1 := range []string{"custom", "panic", "kill"} {
			for _, h2 := range []string{"custom", "kill", "panic"} {
				if reasonOfHow(h1) != reasonOfRelease(h2) {
					runSecondDeathWhileStopping(m, h1, h2)
				}
			}
		}
	}
	for k := 0; k < hk.Pick(30, 300); k++ {
		runUnloadVsStop(k)
	}
	for _, mode := range []gen.ApplicationMode{temp, trans, perm} {
		for _, sk := range []string{"stop", "timeout", "force"} {
			for _, how := range []string{"normal", "custom", "kill", "panic"} {
				runStopVsCrash(1, mode, sk, how, "swap")
				runStopVsCrash(2, mode, sk, how, "unreg")
				runStopVsCrash(3, mode, sk, how, "none")
			}
		}
	}
	for _, prior := range []bool{false, true} {
		for _, sk := range []string{"timeout", "force"} {
			runStopDuringStart(2, 0, sk, prior)
			runStopDuringStart(2, 1, sk, prior)
			runStopDuringStart(3, 1, sk, prior)
		}
	}
	for k := 0; k < hk.Pick(10, 100); k++ {
		runStartTwice(k, 1+k%3, [2]string{"start", "start"}, k%2 == 1)
		runStartTwice(k, 1+k%3, [2]string{"permanent", "transient"}, k%2 == 0)
	}
	runDepInProgress(1)
	runDepInProgress(2)
	runDepInProgress(3)
	for k := 0; k < hk.Pick(40, 600); k++ {
		runRestartLoop(k)
	}
}

// --- a terminator delayed by a slow logger ---------------------------------------------------

// logGate is a gen.LoggerBehavior. Loggers are called synchronously by node.dolog, so a slow
// logger delays the goroutine that logs: here the first terminator of a Permanent
// application at its "will be stopped" line (between the removal of its member from the
// group and the final "is the group empty" test).
type logGate struct {
	mu      sync.Mutex
	app     gen.Atom
	prefix  string
	armed   bool
	arrived chan struct{}
	release chan struct{}
	timeout atomic.Bool
}

func (l *logGate) Terminate() {}

func (l *logGate) Log(m gen.MessageLog) {
	if len(m.Args) == 0 {
		return
	}
	l.mu.Lock()
	if !l.armed || !strings.HasPrefix(m.Format, l.prefix) || m.Args[0] != any(l.app) {
		l.mu.Unlock()
		return
	}
	l.armed = false
	arrived, release := l.arrived, l.release
	l.mu.Unlock()
	close(arrived)
	select {
	case <-release:
	case <-time.After(5 * time.Second):
		l.timeout.Store(true)
	}
}

const (
	logWillBeStopped = "application %s (%s) will be stopped"
	logStopped       = "application %s (%s) stopped with reason"
)

func (l *logGate) arm(app gen.Atom, prefix string) {
	l.mu.Lock()
	l.app, l.armed, l.prefix = app, true, prefix
	l.arrived, l.release = make(chan struct{}), make(chan struct{})
	l.timeout.Store(false)
	l.mu.Unlock()
}

var lgate = &logGate{}
var lgateOnce sync.Once

// runSlowLogTerminator: Permanent application with two members. Member 0 terminates (how0); its
// terminator is delayed in the logger. Member 1 is killed and completes the stop. Optionally
// the application is started again before the delayed terminator continues.
func runSlowLogTerminator(how0 string, restart bool) {
	id := fmt.Sprintf("D/slow-log-terminator/%s/restart=%v", how0, restart)
	if !want(id) {
		return
	}
	d := newD(id, "delayed-terminator")
	defer d.finish()
	var lerr error
	lgateOnce.Do(func() { lerr = node.LoggerAdd("c17gate", lgate, gen.LogLevelInfo) })
	if lerr != nil {
		d.incon("LoggerAdd: %v", lerr)
		return
	}
	a := d.app(2, gen.ApplicationModePermanent)
	if !d.loadStart(a, "start") || !quiesce(a) {
		return
	}
	node.Log().SetLevel(gen.LogLevelInfo)
	defer node.Log().SetLevel(gen.LogLevelError)
	lgate.arm(a.Name, logWillBeStopped)
	cur := a.cur()
	var wg sync.WaitGroup
	wg.Add(1)
	go func() { defer wg.Done(); killMember(cur[0].I.PID, how0) }()
	select {
	case <-lgate.arrived:
	case <-time.After(5 * time.Second):
		close(lgate.release)
		wg.Wait()
		d.incon("gate: the terminator never logged")
		return
	}
	d.fired = true
	// second member: killed synchronously, sees an empty group and completes the stop
	// (an implementation may serialize the terminators: then this kill waits for the delayed one
	// and the bounded wait below expires, which only means that the schedule is impossible)
	wg.Add(1)
	go func() {
		defer wg.Done()
		if _, pnc := killMember(cur[1].I.PID, "kill"); pnc != nil {
			d.mu.Lock()
			d.r.v("api-panic-kill", "%v", pnc)
			d.mu.Unlock()
		}
	}()
	hk.WaitUntil(time.Second, func() bool { return a.inCB.Load() == 0 && appState(a.Name) == "loaded" })
	st1, t1 := appState(a.Name), a.count("terminate")
	var r1 error
	if t1 > 0 {
		r1 = a.CBs()[len(a.CBs())-1].reason
	}
	var errR error
	st2, alive2 := "", 0
	if restart && st1 == "loaded" {
		a.attempt.Add(1)
		var ok bool
		errR, ok = d.call("restart", func() error { return startBy("start", a.Name) })
		if !ok {
			close(lgate.release)
			return
		}
		// (member 0 of the first run is still inside its delayed termination: wait for the new members only)
		hk.WaitUntil(5*time.Second, func() bool {
			for _, m := range a.cur() {
				if m.I.InCallback() || !sleeping(m.I.PID) {
					return false
				}
			}
			return true
		})
		st2, alive2 = appState(a.Name), len(a.aliveSlots())
	}
	close(lgate.release)
	wg.Wait()
	if lgate.timeout.Load() {
		d.void("gate: released by deadline")
		return
	}
	if !quiesce(a) {
		d.incon("watchdog: no quiescence")
		return
	}
	st3, t3 := appState(a.Name), a.count("terminate")
	ctx := fmt.Sprintf("permanent application, 2 members: member 0 terminates with %q and its terminator is delayed (slow logger) after it removed the member from the group; member 1 is killed: state=%s, Terminate callbacks=%d (reason %v); restart=%v -> %v, state=%q, alive=%d; after the delayed terminator continued: state=%s alive=%v Terminate callbacks=%d; callbacks %v", how0, st1, t1, r1, restart, errR, st2, alive2, st3, a.aliveSlots(), t3, a.CBs())
	d.detail["context"] = ctx
	d.class = fmt.Sprintf("first-stop-reason=%v", r1)
	if st1 == "loaded" && t1 == 1 && r1 != reasonOfHow(how0) && r1 != gen.TerminateReasonKill {
		d.r.v("terminate-reason-not-set-before-stop-completes", "Terminate(%v): neither the reason of the member whose termination stopped the application (%v) nor of the other one (kill): %s", r1, reasonOfHow(how0), ctx)
	}
	if !restart {
		if st3 != "loaded" || t3 != 1 || len(a.aliveSlots()) != 0 {
			d.r.v("two-die-together-not-stopped-once", "%s", ctx)
		}
		return
	}
	if st1 != "loaded" || errR != nil || st2 != "running" || alive2 != 2 {
		if st1 == "loaded" && errR != nil {
			d.r.v("restart-after-stop-fails", "%s", ctx)
		}
		// the stop did not complete while the first terminator was delayed: acceptable, nothing to test
		d.fired = false
		return
	}
	if st3 != "running" || t3 != 1 || len(a.aliveSlots()) != 2 {
		d.r.v("stale-terminator-stops-restarted-app", "a terminator of the previous run, delayed before its final check, brought down the restarted application although none of its members failed: %s", ctx)
	}
}

// runStopTailRestart: the terminator that completes the stop of run 1 is delayed (slow logger at
// its "stopped with reason" line, i.e. after it has published state loaded and released the
// stop waiters but before it calls the Terminate callback); the application is started again;
// the terminator continues.
func runStopTailRestart(cause string) {
	id := fmt.Sprintf("D/stop-tail-restart/%s", cause)
	if !want(id) {
		return
	}
	d := newD(id, "terminate-tail-vs-restart")
	defer d.finish()
	var lerr error
	lgateOnce.Do(func() { lerr = node.LoggerAdd("c17gate", lgate, gen.LogLevelInfo) })
	if lerr != nil {
		d.incon("LoggerAdd: %v", lerr)
		return
	}
	mode := gen.ApplicationModeTemporary
	if cause != "stop" {
		mode = gen.ApplicationModePermanent
	}
	a := d.app(1, mode)
	if !d.loadStart(a, "start") || !d.settle(a) {
		return
	}
	node.Log().SetLevel(gen.LogLevelInfo)
	defer node.Log().SetLevel(gen.LogLevelError)
	lgate.arm(a.Name, logStopped)
	release := lgate.release
	var relOnce sync.Once
	rel := func() { relOnce.Do(func() { close(release) }) }
	defer rel()
	want := gen.TerminateReasonShutdown
	var wg sync.WaitGroup
	wg.Add(1)
	go func() {
		defer wg.Done()
		if cause == "stop" {
			d.call("ApplicationStop", func() error { return node.ApplicationStop(a.Name) })
		} else {
			killMember(a.cur()[0].I.PID, cause)
		}
	}()
	if cause != "stop" {
		want = reasonOfHow(cause)
	}
	select {
	case <-lgate.arrived:
	case <-time.After(5 * time.Second):
		rel()
		wg.Wait()
		d.incon("gate: the terminator never logged")
		return
	}
	d.fired = true
	st1 := appState(a.Name)
	if st1 != "loaded" {
		// the implementation does not publish the state before the callback: nothing to race with
		rel()
		wg.Wait()
		d.fired = false
		d.settle(a)
		return
	}
	a.attempt.Add(1)
	errR, ok := d.call("restart", func() error { return startBy("start", a.Name) })
	if !ok {
		return
	}
	rel()
	wg.Wait()
	if lgate.timeout.Load() {
		d.void("gate: released by deadline")
		return
	}
	if !d.settle(a) {
		return
	}
	var terms []cbEv
	for _, c := range a.CBs() {
		if c.Kind == "terminate" {
			terms = append(terms, c)
		}
	}
	st := appState(a.Name)
	ctx := fmt.Sprintf("run 1 (%s, 1 member) ends by %q; its terminator has published state %s and is delayed before the Terminate callback; restart -> %v; the terminator continues; at quiescence state=%s alive=%v callbacks=%v", mode, cause, st1, errR, st, a.aliveSlots(), a.CBs())
	d.detail["context"] = ctx
	d.class = fmt.Sprintf("terms=%v", terms)
	if errR != nil {
		d.r.v("restart-after-stop-fails", "state was loaded, yet the start failed: %s", ctx)
		return
	}
	if len(terms) != 1 || terms[0].reason != want {
		d.r.v("terminate-tail-overlaps-restart", "the Terminate callback of run 1 must run once with %v; the terminator read the reason after the restart had reset it: %s", want, ctx)
	}
	if st != "running" || len(a.aliveSlots()) != 1 {
		d.r.v("terminate-tail-overlaps-restart", "the restarted application must run: %s", ctx)
	}
}

// --- Unload while the stop is in progress -------------------------------------------------------

// runUnloadWhileStopping: a member is kept busy inside a handler, a stop begins (request or mode
// rule) and cannot complete; ApplicationUnload must be refused; after the member is released the
// stop must be finalized (Terminate once, state loaded) and start / stop / unload must work again.
func runUnloadWhileStopping(variant string) {
	id := "D/unload-while-stopping/" + variant
	if !want(id) {
		return
	}
	d := newD(id, "unload-while-stopping")
	defer d.finish()
	mode, n := gen.ApplicationModeTemporary, 2
	switch variant {
	case "death-permanent":
		mode, n = gen.ApplicationModePermanent, 3
	case "death-transient":
		mode, n = gen.ApplicationModeTransient, 3
	}
	a := d.app(n, mode)
	defer a.releaseAll()
	if !d.loadStart(a, "start") || !d.settle(a) {
		return
	}
	cur := a.cur()
	busy := cur[n-1].I.PID
	if !a.blockMember(busy) {
		d.incon("watchdog: member did not enter the blocking handler")
		return
	}
	want := gen.TerminateReasonShutdown
	var stopErr error
	ok := true
	switch variant {
	case "stop-timeout":
		stopErr, ok = d.call("ApplicationStopWithTimeout", func() error { return node.ApplicationStopWithTimeout(a.Name, 50*time.Millisecond) })
	case "force":
		want = gen.TerminateReasonKill
		stopErr, ok = d.call("ApplicationStopForce", func() error { return node.ApplicationStopForce(a.Name) })
	case "death-permanent":
		want = errCustom
		killMember(cur[0].I.PID, "custom")
		stopErr = errors.New("n/a")
	case "death-transient":
		want = gen.TerminateReasonPanic
		killMember(cur[0].I.PID, "panic")
		stopErr = errors.New("n/a")
	}
	if !ok || !d.settle(a) {
		return
	}
	st0 := appState(a.Name)
	if stopErr == nil {
		d.r.v("stop-reported-success-before-stopped", "the stop request returned nil while member %s is busy in a handler (state %s)", busy, st0)
		return
	}
	if st0 != "stopping" || !alive(busy) {
		d.incon("the intended situation (state stopping with a busy member) was not reached: state=%s", st0)
		return
	}
	d.fired = true
	errU, ok := d.call("ApplicationUnload", func() error { return node.ApplicationUnload(a.Name) })
	if !ok {
		return
	}
	stU, aliveU := appState(a.Name), a.aliveSlots()
	a.releaseMember(busy)
	if !d.settle(a) {
		return
	}
	st1 := appState(a.Name)
	terms := a.count("terminate")
	var got error
	for _, c := range a.CBs() {
		if c.Kind == "terminate" {
			got = c.reason
		}
	}
	ctx := fmt.Sprintf("%d members, mode %s, %s: one member is busy in a handler, the stop begins (state %s); ApplicationUnload -> %v (state then %s, registered members then %v); the member is released; at quiescence state=%s alive=%v callbacks=%v", n, mode, variant, st0, errU, stU, aliveU, st1, a.aliveSlots(), a.CBs())
	d.detail["context"] = ctx
	d.class = fmt.Sprintf("unload=%v", errU)
	if errU == nil {
		d.r.v("unload-succeeded-while-stopping", "ApplicationUnload returned nil while the stop was still in progress and members were alive; the stop is never finalized (Terminate callbacks %d, state %s): %s", terms, st1, ctx)
		return
	}
	if st1 != "loaded" || len(a.aliveSlots()) != 0 || terms != 1 {
		d.r.v("unload-while-stopping-stop-not-finalized", "after the refused unload and the release of the member the stop must complete (Terminate once, state loaded): %s", ctx)
		return
	}
	if got != want {
		d.r.v("unload-while-stopping-terminate-reason", "Terminate(%v), expected %v: %s", got, want, ctx)
	}
	// it can be started, stopped and unloaded again
	a.attempt.Add(1)
	errS, ok := d.call("restart", func() error { return startBy("start", a.Name) })
	if !ok || !d.settle(a) {
		return
	}
	aliveS := len(a.aliveSlots())
	errP, ok := d.call("ApplicationStop", func() error { return node.ApplicationStop(a.Name) })
	if !ok || !d.settle(a) {
		return
	}
	errU2, _ := d.call("ApplicationUnload", func() error { return node.ApplicationUnload(a.Name) })
	if errS != nil || aliveS != n || errP != nil || errU2 != nil || a.count("terminate") != 2 || appState(a.Name) != "unknown" {
		d.r.v("unload-while-stopping-restart-fails", "afterwards: start -> %v (%d members), stop -> %v, unload -> %v, Terminate callbacks %d, state %s: %s", errS, aliveS, errP, errU2, a.count("terminate"), appState(a.Name), ctx)
	}
}

// runUnloadVsStop: ApplicationUnload is called over and over while a stop request is running
func runUnloadVsStop(k int) {
	id := fmt.Sprintf("D/unload-vs-stop/%d", k)
	if !want(id) {
		return
	}
	rng := hk.Rng("c17", id)
	d := newD(id, "unload-vs-stop")
	defer d.finish()
	n := 1 + rng.Intn(3)
	mode := []gen.ApplicationMode{gen.ApplicationModeTemporary, gen.ApplicationModeTransient, gen.ApplicationModePermanent}[rng.Intn(3)]
	byDeath := rng.Intn(2) == 0
	a := d.app(n, mode)
	if !d.loadStart(a, "start") || !d.settle(a) {
		return
	}
	hk.Stress(id, map[string]float64{"proc.unreg.deleted": 0.5, "app.term.swap": 0.5, "proc.run.term.err": 0.5, "proc.run.wake": 0.2}, 300*time.Microsecond)
	defer hk.StressOff()
	cur := a.cur()
	stopDone := make(chan struct{})
	go func() {
		defer close(stopDone)
		if byDeath {
			for _, m := range cur {
				killMember(m.I.PID, "custom")
			}
		} else {
			d.call("ApplicationStopWithTimeout", func() error { return node.ApplicationStopWithTimeout(a.Name, 3*time.Second) })
		}
	}()
	// unload attempts until one succeeds (it must, once the stop is complete) - bounded by a watchdog
	var errU error
	attempts, sawRefused := 0, false
	var aliveAtSuccess []string
	deadline := time.Now().Add(10 * time.Second)
	for {
		attempts++
		errU, _ = safe(func() error { return node.ApplicationUnload(a.Name) })
		if errU == nil {
			aliveAtSuccess = a.aliveSlots()
			break
		}
		sawRefused = true
		if time.Now().After(deadline) {
			break
		}
		runtime.Gosched()
	}
	select {
	case <-stopDone:
	case <-time.After(20 * time.Second):
		d.incon("watchdog: stop did not return")
		d.wedged = true
		return
	}
	hk.StressOff()
	if !d.settle(a) {
		return
	}
	if errU != nil {
		d.incon("watchdog: unload never succeeded within 10s (last error %v, state %s)", errU, appState(a.Name))
		return
	}
	d.fired = sawRefused
	terms := a.count("terminate")
	ctx := fmt.Sprintf("%d members, mode %s, stop by member deaths=%v; ApplicationUnload succeeded at attempt %d (members registered at that instant: %v); at quiescence alive=%v callbacks=%v", n, mode, byDeath, attempts, aliveAtSuccess, a.aliveSlots(), a.CBs())
	d.detail["context"] = ctx
	d.class = fmt.Sprintf("n%d/%s/death=%v", n, mode, byDeath)
	if len(aliveAtSuccess) > 0 {
		d.r.v("unload-succeeded-while-stopping", "ApplicationUnload returned nil while members of the application were still registered: %s", ctx)
	}
	if terms != 1 || len(a.aliveSlots()) != 0 {
		if len(aliveAtSuccess) > 0 || terms == 0 {
			d.r.v("unload-succeeded-while-stopping", "the unload cut the stop short: Terminate callback ran %d times: %s", terms, ctx)
		} else {
			d.r.v("unload-vs-stop-terminate-count", "Terminate callback ran %d times: %s", terms, ctx)
		}
	}
}

// --- a second abnormal death while the application is already stopping ------------------------

// runSecondDeathWhileStopping (sequential, quiescent between the two deaths): member 0 dies with
// R1 and thereby stops the application (mode rule); the last member is busy in a handler, so the
// application stays in state stopping; then that member terminates with a different abnormal
// reason R2. The Terminate callback must get the causing reason R1.
func runSecondDeathWhileStopping(mode gen.ApplicationMode, how1, how2 string) {
	id := fmt.Sprintf("D/second-death-while-stopping/%s/%s-then-%s", mode, how1, how2)
	if !want(id) {
		return
	}
	d := newD(id, "second-death-while-stopping")
	defer d.finish()
	n := 3
	a := d.app(n, mode)
	defer a.releaseAll()
	if !d.loadStart(a, "start") || !d.settle(a) {
		return
	}
	cur := a.cur()
	busy := cur[n-1].I.PID
	if !a.blockMember(busy) {
		d.incon("watchdog: member did not enter the blocking handler")
		return
	}
	r1, pnc := killMember(cur[0].I.PID, how1)
	if pnc != nil {
		d.r.v("api-panic-kill", "%v", pnc)
		return
	}
	if !d.settle(a) {
		return
	}
	st0, up0, t0 := appState(a.Name), a.aliveSlots(), a.count("terminate")
	if st0 != "stopping" || len(up0) != 1 || t0 != 0 {
		ctx := fmt.Sprintf("%s application, 3 members, member 2 busy in a handler, member 0 terminated with %v: at quiescence state=%s alive=%v Terminate callbacks=%d", mode, r1, st0, up0, t0)
		d.r.v("second-death-while-stopping-first-stop-wrong", "the application must be stopping with only the busy member left: %s", ctx)
		return
	}
	d.fired = true
	r2 := reasonOfRelease(how2)
	a.releaseMemberWith(busy, how2)
	if !d.settle(a) {
		return
	}
	st1 := appState(a.Name)
	var terms []cbEv
	for _, c := range a.CBs() {
		if c.Kind == "terminate" {
			terms = append(terms, c)
		}
	}
	ctx := fmt.Sprintf("%s application, 3 members: member 0 terminates with %v -> state stopping (member 1 shut down, member 2 busy in a handler); at quiescence member 2 terminates with %v; then state=%s alive=%v callbacks=%v", mode, r1, r2, st1, a.aliveSlots(), a.CBs())
	d.detail["context"] = ctx
	d.class = fmt.Sprintf("terms=%v", terms)
	if st1 != "loaded" || len(a.aliveSlots()) != 0 || len(terms) != 1 {
		d.r.v("second-death-while-stopping-not-finalized", "%s", ctx)
		return
	}
	if terms[0].reason != r1 {
		sig := "second-death-while-stopping-terminate-reason"
		if terms[0].reason == r2 {
			sig = "terminate-reason-overwritten-by-later-death"
		}
		d.r.v(sig, "Terminate(%v): the causing reason is %v (the member whose termination stopped the application): %s", terms[0].reason, r1, ctx)
	}
}
