package main

import (
	"fmt"
	"sync/atomic"
	"time"

	"ergo.services/ergo/gen"
	"ergo.services/ergo/lib"

	"verif/harness/actors"
	"verif/harness/hk"
)

// ---------------------------------------------------------------------------
// family D: directed lost-wake-up windows

type variant struct {
	name string
	kind string // message request event exit
	addr string // pid name alias
	prio gen.MessagePriority
	proc bool // sent by a sender actor (process API) instead of the node API
	n    int  // number of concurrent interfering sends
}

var dVariants = []variant{
	{"msg-pid", "message", "pid", gen.MessagePriorityNormal, false, 1},
	{"msg-pid-x2", "message", "pid", gen.MessagePriorityNormal, false, 2},
	{"msg-name", "message", "name", gen.MessagePriorityNormal, false, 1},
	{"msg-alias", "message", "alias", gen.MessagePriorityNormal, false, 1},
	{"msg-pid-high", "message", "pid", gen.MessagePriorityHigh, false, 1},
	{"msg-pid-max", "message", "pid", gen.MessagePriorityMax, false, 1},
	{"msg-pid-proc", "message", "pid", gen.MessagePriorityNormal, true, 1},
	{"msg-name-proc-high", "message", "name", gen.MessagePriorityHigh, true, 1},
	{"call-pid", "request", "pid", gen.MessagePriorityNormal, true, 1},
	{"call-name", "request", "name", gen.MessagePriorityNormal, true, 1},
	{"call-alias-max", "request", "alias", gen.MessagePriorityMax, true, 1},
	{"event", "event", "pid", gen.MessagePriorityNormal, false, 1},
	{"event-proc-high", "event", "pid", gen.MessagePriorityHigh, true, 1},
	{"exit-trapped", "exit", "pid", gen.MessagePriorityNormal, true, 1},
	{"log", "log", "pid", gen.MessagePriorityNormal, false, 1},
	{"log-proc", "log", "pid", gen.MessagePriorityNormal, true, 1},
	{"via-meta", "viameta", "pid", gen.MessagePriorityNormal, false, 1},
}

type dctx struct {
	c       *cctx
	r       *result
	rc      *recv
	to      any
	ev      gen.Atom
	token   gen.Ref
	wakes   atomic.Int64
	reacq   atomic.Int64
	nextS   uint32
	malias  gen.Alias // meta process of the receiver (variant via-meta)
	cmds    []*sendCmd
	senders []gen.PID
	sinsts  []*actors.Inst
}

func (d *dctx) addrOf(addr string) any {
	switch addr {
	case "name":
		return d.rc.name
	case "alias":
		return d.rc.alias
	}
	return d.rc.pid
}

// fire starts one send asynchronously
func (d *dctx) fire(v variant) *sendCmd {
	d.nextS++
	cmd := &sendCmd{Kind: v.kind, To: d.addrOf(v.addr), Prio: v.prio, S: d.nextS, N: 1, EvName: d.ev, EvToken: d.token, CallTimeout: 2, Done: make(chan struct{})}
	if v.kind == "exit" || v.kind == "event" {
		cmd.To = d.rc.pid
	}
	if v.kind == "viameta" {
		cmd.To = d.malias
	}
	d.cmds = append(d.cmds, cmd)
	if v.proc {
		pid, inst, err := spawnRole(d.c, "sender", fmt.Sprintf("%s/sender%d", d.c.id, d.nextS), "", gen.ProcessOptions{})
		if err != nil {
			d.r.incon = "spawn sender: " + err.Error()
			close(cmd.Done)
			return cmd
		}
		d.senders = append(d.senders, pid)
		d.sinsts = append(d.sinsts, inst)
		if err := node.Send(pid, cmd); err != nil {
			d.r.incon = "command sender: " + err.Error()
			close(cmd.Done)
		}
	} else {
		go runSends(nodeAPI{}, cmd)
	}
	return cmd
}

func isDone(cmd *sendCmd) bool {
	select {
	case <-cmd.Done:
		return true
	default:
		return false
	}
}

// pushed waits until the send has gone through the route: it returned, or (a
// Call, which returns only after the response) its wake-up attempt was seen
func (d *dctx) pushed(cmd *sendCmd, w0 int64, need int64) bool {
	return hk.WaitUntil(5*time.Second, func() bool {
		if isDone(cmd) {
			return true
		}
		return cmd.Kind == "request" && d.wakes.Load() >= w0+need
	})
}

func (d *dctx) primer() {
	d.nextS++
	id := mid{d.nextS, 0}
	err := node.Send(d.rc.pid, payload{ID: id})
	d.c.record([]sres{{id, err}})
}

func (d *dctx) runnerGone() bool {
	return hk.WaitUntil(5*time.Second, func() bool {
		s, err := node.ProcessState(d.rc.pid)
		return err == nil && s == gen.ProcessStateSleep && hk.LiveRunners(d.rc.pid) == 0
	})
}

type dcase struct {
	window string
	v      variant
	size   int64
	fb     string
	rep    int
}

func runDirected(dc dcase) {
	id := fmt.Sprintf("D/%s/%s/size=%d/fb=%s", dc.window, dc.v.name, dc.size, dc.fb)
	base := id
	if dc.rep > 0 {
		id += fmt.Sprintf("/rep=%d", dc.rep)
	}
	if !hk.Want(id) {
		return
	}
	c := newCtx(id)
	r := &result{}
	d := &dctx{c: c, r: r}
	var all []gen.PID
	var insts []*actors.Inst
	opts := gen.ProcessOptions{MailboxSize: dc.size}
	tag := "tag/" + id
	if dc.fb == "on" {
		fbName := uniq("fb")
		fbPid, fbInst, err := spawnRole(c, "fb", id+"/fb", fbName, gen.ProcessOptions{})
		if err != nil {
			r.incon = "spawn fallback: " + err.Error()
			finish(id, "directed", id, false, 0, r, nil)
			return
		}
		all = append(all, fbPid)
		insts = append(insts, fbInst)
		opts.Fallback = gen.ProcessFallback{Enable: true, Name: fbName, Tag: tag}
	}
	su := setup{Alias: true, Trap: true}
	if dc.v.kind == "event" {
		d.ev = uniq("ev")
		tok, err := node.RegisterEvent(d.ev, gen.EventOptions{})
		if err != nil {
			r.incon = "register event: " + err.Error()
			finish(id, "directed", id, false, 0, r, nil)
			return
		}
		d.token = tok
		su.Event = gen.Event{Name: d.ev, Node: node.Name()}
		defer node.UnregisterEvent(d.ev)
	}
	rc, err := spawnRecv(c, id, opts, su)
	if err != nil {
		r.incon = "spawn receiver: " + err.Error()
		finish(id, "directed", id, false, 0, r, nil)
		killAll(all...)
		return
	}
	d.rc = rc
	all = append(all, rc.pid)
	insts = append(insts, rc.inst)
	c.setTarget(rc.pid, tag)
	if dc.v.kind == "log" {
		if err := node.LoggerAddPID(rc.pid, string(rc.name)); err != nil {
			r.incon = "logger add: " + err.Error()
			finish(id, "directed", id, false, 0, r, nil)
			killAll(all...)
			return
		}
		defer node.LoggerDeletePID(rc.pid)
	}
	var metas []gen.Alias
	if dc.v.kind == "viameta" {
		m := actors.NewMeta(id+"/meta", metaHooksFor(c))
		ch := make(chan gen.Alias, 1)
		node.Send(rc.pid, spawnMeta{M: m, Done: ch})
		select {
		case a, ok := <-ch:
			if !ok {
				r.incon = "spawn meta failed"
			}
			d.malias = a
		case <-time.After(5 * time.Second):
			r.incon = "spawn meta timeout"
		}
		if r.incon != "" {
			finish(id, "directed", id, false, 0, r, nil)
			killAll(all...)
			return
		}
		<-m.Started
		defer close(m.Stop)
		metas = append(metas, d.malias)
		insts = append(insts, m.I)
		if q := quiesce(all, metas, insts, 10*time.Second); !q.ok {
			r.incon = "not idle after meta spawn"
			finish(id, "directed", id, false, 0, r, nil)
			killAll(all...)
			return
		}
	}
	cancel1 := hk.Observe("proc.run.wake", hk.Eq(rc.pid), func(string, any) { d.wakes.Add(1) })
	cancel2 := hk.Observe("proc.run.reacquire", hk.Eq(rc.pid), func(string, any) { d.reacq.Add(1) })
	defer cancel1()
	defer cancel2()

	inWindow := false
	var gatesUsed []*hk.Gate
	park := func(point string, match func(any) bool) *hk.Gate {
		g := hk.Park(point, match, false)
		gatesUsed = append(gatesUsed, g)
		return g
	}
	fireAll := func() ([]*sendCmd, bool) {
		w0 := d.wakes.Load()
		var cs []*sendCmd
		for k := 0; k < dc.v.n; k++ {
			cs = append(cs, d.fire(dc.v))
		}
		ok := true
		for _, cmd := range cs {
			if !d.pushed(cmd, w0, int64(len(cs))) {
				ok = false
			}
		}
		return cs, ok
	}
	q := queueFor(rc.mb, dc.v.kind, dc.v.prio)

	switch dc.window {
	case "tosleep", "recheck":
		// runner parked before (tosleep) / after (recheck) the CAS Running->Sleep while the send completes
		g := park("proc.run."+dc.window, hk.Eq(rc.pid))
		d.primer()
		if !g.WaitArrived(5 * time.Second) {
			r.incon = "gate: " + dc.window + " never reached"
		} else {
			_, ok := fireAll()
			inWindow = ok
		}
		g.Release()
	case "recheck-enter":
		// runner 1 parked at recheck (state Sleep); the sender wins the CAS, runner 2 parked before it starts;
		// runner 1 is released first: it sees the item, must not handle it beside runner 2
		g := park("proc.run.recheck", hk.Eq(rc.pid))
		d.primer()
		if !g.WaitArrived(5 * time.Second) {
			r.incon = "gate: recheck never reached"
			g.Release()
			break
		}
		g2 := park("proc.run.enter", hk.Eq(rc.pid))
		_, ok := fireAll()
		ok = g2.WaitArrived(5*time.Second) && ok
		g.Release()
		hk.WaitUntil(5*time.Second, func() bool { return hk.LiveRunners(rc.pid) <= 1 })
		inWindow = ok
		g2.Release()
	case "reacquire":
		g1 := park("proc.run.tosleep", hk.Eq(rc.pid))
		d.primer()
		if !g1.WaitArrived(5 * time.Second) {
			r.incon = "gate: tosleep never reached"
			g1.Release()
			break
		}
		_, ok1 := fireAll() // wake-up CAS loses: state is Running
		g := park("proc.run.reacquire", hk.Eq(rc.pid))
		g1.Release()
		if !g.WaitArrived(5 * time.Second) {
			// refused sends leave nothing to re-acquire: legal, but the window did not open
			g.Release()
			break
		}
		// state is Sleep and runner 1 has decided to re-acquire; the next send wins the CAS
		cs, _ := fireAll()
		ok2 := hk.WaitUntil(5*time.Second, func() bool {
			for _, cmd := range cs {
				if !isDone(cmd) {
					return false
				}
			}
			return true
		})
		inWindow = ok1 && ok2
		g.Release()
	case "swapped-sleep":
		// producer parked between head swap and link (item counted, not reachable) while the runner goes to sleep
		g1 := park("proc.run.tosleep", hk.Eq(rc.pid))
		d.primer()
		if !g1.WaitArrived(5 * time.Second) {
			r.incon = "gate: tosleep never reached"
			g1.Release()
			break
		}
		gs := park("mpsc.push.swapped", hk.Eq(any(q)))
		var cs []*sendCmd
		for k := 0; k < dc.v.n; k++ {
			cs = append(cs, d.fire(dc.v))
		}
		if !gs.WaitArrived(5 * time.Second) {
			// refused before the push (cannot happen with an empty mailbox) or never sent
			r.incon = "gate: push.swapped never reached"
			g1.Release()
			gs.Release()
			break
		}
		g1.Release()
		gone := d.runnerGone()
		inWindow = gone && !isDone(cs[0]) || gone && dc.v.n > 1
		gs.Release()
	case "swapped-overtaken":
		// producer 1 parked between swap and link; producer 2 pushes behind it and wakes the runner, which finds nothing
		gs := park("mpsc.push.swapped", hk.Eq(any(q)))
		first := d.fire(dc.v)
		if !gs.WaitArrived(5 * time.Second) {
			r.incon = "gate: push.swapped never reached"
			gs.Release()
			break
		}
		w0 := d.wakes.Load()
		var cs []*sendCmd
		over := dc.v
		if over.kind == "viameta" {
			over = dVariants[0] // the relaying meta process is serial and parked: the overtaking producer is a plain sender
		}
		for k := 0; k < dc.v.n; k++ {
			cs = append(cs, d.fire(over))
		}
		ok := true
		for _, cmd := range cs {
			if !d.pushed(cmd, w0, int64(len(cs))) {
				ok = false
			}
		}
		gone := d.runnerGone()
		inWindow = ok && gone && !isDone(first)
		gs.Release()
	}
	for _, g := range gatesUsed {
		g.Release()
		if g.TimedOut() && r.incon == "" {
			r.incon = "gate: released by deadline"
		}
	}
	// every send must return
	for _, cmd := range d.cmds {
		select {
		case <-cmd.Done:
			c.record(cmd.Out)
			if cmd.Harness != "" && r.incon == "" {
				r.incon = cmd.Harness
			}
		case <-time.After(25 * time.Second):
			if r.incon == "" {
				r.incon = "watchdog: a send did not return"
			}
		}
	}
	all = append(all, d.senders...)
	insts = append(insts, d.sinsts...)
	if r.incon == "" {
		applyQ(quiesce(all, metas, insts, 20*time.Second), r)
	}
	if r.incon != "" {
		finish(id, "directed", id, false, 0, r, map[string]any{"window": dc.window, "variant": dc.v.name, "size": dc.size, "fallback": dc.fb})
		killAll(all...)
		return
	}
	fbOn := dc.fb == "on" && dc.size > 0 && dc.v.kind == "message"
	m := omode{kind: dc.v.kind, alive: true, fbExpected: fbOn, fbPossible: fbOn, atMostOnce: (dc.v.kind == "event" || dc.v.kind == "log") && dc.size > 0 && !strictBroadcast}
	st := judge(c, m, r)
	key := base
	if st.refused > 0 || st.viaFB > 0 {
		key += "/refusal"
	}
	finish(id, "directed", key, inWindow, int64(st.sent+st.handled), r, map[string]any{
		"window": dc.window, "variant": dc.v.name, "size": dc.size, "fallback": dc.fb, "in_window": inWindow,
		"sent": st.sent, "accepted": st.accepted, "refused": st.refused, "handled": st.handled, "via_fallback": st.viaFB,
		"reacquire_hits": d.reacq.Load(), "wake_attempts": d.wakes.Load(), "errors": st.errs,
	})
	killAll(all...)
}

// ---------------------------------------------------------------------------
// directed cases on meta processes

type mcase struct {
	window string
	call   bool
	proc   bool
	size   int64 // 0 = practically unbounded (a unique large size identifies the queue)
	rep    int
}

func runMetaDirected(mc mcase) {
	vn := "msg-alias"
	if mc.call {
		vn = "call-alias"
	} else if mc.proc {
		vn = "msg-alias-proc"
	}
	id := fmt.Sprintf("D/meta/%s/%s/size=%d", mc.window, vn, mc.size)
	base := id
	if mc.rep > 0 {
		id += fmt.Sprintf("/rep=%d", mc.rep)
	}
	if !hk.Want(id) {
		return
	}
	c := newCtx(id)
	r := &result{}
	parent, pinst, err := spawnRole(c, "sender", id+"/parent", "", gen.ProcessOptions{})
	if err != nil {
		r.incon = "spawn parent: " + err.Error()
		finish(id, "directed-meta", id, false, 0, r, nil)
		return
	}
	all := []gen.PID{parent}
	insts := []*actors.Inst{pinst}
	size := mc.size
	if size == 0 {
		size = 1000003
	}
	m := actors.NewMeta(id, metaHooksFor(c))
	ch := make(chan gen.Alias, 1)
	node.Send(parent, spawnMeta{M: m, Opt: gen.MetaOptions{MailboxSize: size}, Done: ch})
	var alias gen.Alias
	select {
	case a, ok := <-ch:
		if !ok {
			r.incon = "spawn meta failed"
		}
		alias = a
	case <-time.After(5 * time.Second):
		r.incon = "spawn meta timeout"
	}
	if r.incon != "" {
		finish(id, "directed-meta", id, false, 0, r, nil)
		killAll(all...)
		return
	}
	<-m.Started
	hk.WaitUntil(5*time.Second, func() bool {
		info, err := node.MetaInfo(alias)
		return err == nil && info.State == gen.MetaStateSleep && hk.LiveRunners(alias) == 0
	})
	var wakes atomic.Int64
	cancel := hk.Observe("meta.wake", hk.Eq(alias), func(string, any) { wakes.Add(1) })
	defer cancel()

	d := &dctx{c: c, r: r}
	v := variant{name: vn, kind: "message", proc: mc.proc, n: 1}
	if mc.call {
		v.kind, v.proc = "request", true
	}
	fire := func() *sendCmd {
		d.nextS++
		cmd := &sendCmd{Kind: v.kind, To: alias, S: d.nextS, N: 1, CallTimeout: 2, Done: make(chan struct{})}
		d.cmds = append(d.cmds, cmd)
		if v.proc {
			pid, inst, err := spawnRole(c, "sender", fmt.Sprintf("%s/sender%d", id, d.nextS), "", gen.ProcessOptions{})
			if err != nil {
				r.incon = "spawn sender: " + err.Error()
				close(cmd.Done)
				return cmd
			}
			d.senders = append(d.senders, pid)
			d.sinsts = append(d.sinsts, inst)
			node.Send(pid, cmd)
		} else {
			go runSends(nodeAPI{}, cmd)
		}
		return cmd
	}
	pushed := func(cmd *sendCmd, w0 int64) bool {
		return hk.WaitUntil(5*time.Second, func() bool {
			return isDone(cmd) || (cmd.Kind == "request" && wakes.Load() > w0)
		})
	}
	primer := func() {
		d.nextS++
		pid := mid{d.nextS, 0}
		err := node.Send(alias, payload{ID: pid})
		c.record([]sres{{pid, err}})
	}
	handlerGone := func() bool {
		return hk.WaitUntil(5*time.Second, func() bool {
			info, err := node.MetaInfo(alias)
			return err == nil && info.State == gen.MetaStateSleep && hk.LiveRunners(alias) == 0
		})
	}
	qmatch := func(s any) bool {
		q, ok := s.(lib.QueueMPSC)
		return ok && q.Size() == size
	}
	inWindow := false
	var gatesUsed []*hk.Gate
	park := func(point string, match func(any) bool) *hk.Gate {
		g := hk.Park(point, match, false)
		gatesUsed = append(gatesUsed, g)
		return g
	}
	switch mc.window {
	case "tosleep", "recheck":
		g := park("meta."+mc.window, hk.Eq(alias))
		primer()
		if !g.WaitArrived(5 * time.Second) {
			r.incon = "gate: meta." + mc.window + " never reached"
		} else {
			w0 := wakes.Load()
			inWindow = pushed(fire(), w0)
		}
		g.Release()
	case "swapped-sleep":
		g1 := park("meta.tosleep", hk.Eq(alias))
		primer()
		if !g1.WaitArrived(5 * time.Second) {
			r.incon = "gate: meta.tosleep never reached"
			g1.Release()
			break
		}
		gs := park("mpsc.push.swapped", qmatch)
		cmd := fire()
		if !gs.WaitArrived(5 * time.Second) {
			r.incon = "gate: push.swapped never reached"
			g1.Release()
			gs.Release()
			break
		}
		g1.Release()
		inWindow = handlerGone() && !isDone(cmd)
		gs.Release()
	case "swapped-overtaken":
		gs := park("mpsc.push.swapped", qmatch)
		first := fire()
		if !gs.WaitArrived(5 * time.Second) {
			r.incon = "gate: push.swapped never reached"
			gs.Release()
			break
		}
		w0 := wakes.Load()
		ok := pushed(fire(), w0)
		inWindow = ok && handlerGone() && !isDone(first)
		gs.Release()
	}
	for _, g := range gatesUsed {
		g.Release()
		if g.TimedOut() && r.incon == "" {
			r.incon = "gate: released by deadline"
		}
	}
	for _, cmd := range d.cmds {
		select {
		case <-cmd.Done:
			c.record(cmd.Out)
		case <-time.After(15 * time.Second):
			if r.incon == "" {
				r.incon = "watchdog: a send did not return"
			}
		}
	}
	all = append(all, d.senders...)
	insts = append(insts, d.sinsts...)
	insts = append(insts, m.I)
	if r.incon == "" {
		applyQ(quiesce(all, []gen.Alias{alias}, insts, 20*time.Second), r)
	}
	if r.incon != "" {
		finish(id, "directed-meta", id, false, 0, r, nil)
		close(m.Stop)
		killAll(all...)
		return
	}
	kind := "metamsg"
	if mc.call {
		kind = "metacall"
	}
	st := judge(c, omode{kind: kind, alive: true}, r)
	key := base
	if st.refused > 0 {
		key += "/refusal"
	}
	finish(id, "directed-meta", key, inWindow, int64(st.sent+st.handled), r, map[string]any{
		"window": mc.window, "variant": vn, "size": mc.size, "in_window": inWindow,
		"sent": st.sent, "accepted": st.accepted, "refused": st.refused, "handled": st.handled, "errors": st.errs, "wake_attempts": wakes.Load(),
	})
	close(m.Stop)
	killAll(all...)
}

func runAllDirected() {
	// the schedules are fixed by the gates; the thorough tier repeats them (other goroutine timing around the gates)
	reps := hk.Pick(1, 4)
	windows := []string{"tosleep", "recheck", "recheck-enter", "reacquire", "swapped-sleep", "swapped-overtaken"}
	for rep := 0; rep < reps; rep++ {
		for _, w := range windows {
			for _, v := range dVariants {
				for _, sz := range []int64{0, 1, 2} {
					fbs := []string{"off"}
					if sz > 0 && v.kind == "message" && (v.name == "msg-pid" || v.name == "msg-name" || v.name == "msg-alias" || v.name == "msg-pid-x2") {
						fbs = []string{"off", "on"}
					}
					for _, fb := range fbs {
						runDirected(dcase{window: w, v: v, size: sz, fb: fb, rep: rep})
					}
				}
			}
		}
		for _, w := range []string{"tosleep", "recheck", "swapped-sleep", "swapped-overtaken"} {
			for _, sz := range []int64{0, 1} {
				runMetaDirected(mcase{window: w, size: sz, rep: rep})
				runMetaDirected(mcase{window: w, proc: true, size: sz, rep: rep})
				runMetaDirected(mcase{window: w, call: true, size: sz, rep: rep})
			}
		}
	}
}
