package main

import (
	"errors"
	"fmt"
	"sync"
	"time"

	"ergo.services/ergo/gen"

	"verif/harness/actors"
	"verif/harness/hk"
)

// ---------------------------------------------------------------------------
// family A: SendAfter, cancel fired at a PRNG offset around the deadline

var errCancelled = errors.New("cancelled (cancel() returned true)")

type timerRec struct {
	ID     mid
	Cancel gen.CancelFunc
	T0     time.Time
	Offset time.Duration // <0: never cancel
}

type afterCmd struct {
	To      any
	S       uint32
	N       int
	After   time.Duration
	Seed    int64
	Ch      chan timerRec
	Done    chan struct{}
	Errs    []error
	Spacing time.Duration
}

// runs inside the sender actor
func runAfter(p *actors.Probe, c *afterCmd) {
	defer close(c.Done)
	rng := hk.Rng("c02-after", fmt.Sprint(c.Seed))
	for i := 0; i < c.N; i++ {
		id := mid{c.S, uint32(i)}
		off := time.Duration(-1)
		if rng.Intn(5) != 0 {
			span := 2 * c.After
			if span == 0 {
				span = 60 * time.Microsecond
			}
			// half of the cancels aim at the deadline itself
			if rng.Intn(2) == 0 {
				off = c.After - 40*time.Microsecond + time.Duration(rng.Int63n(int64(80*time.Microsecond)))
				if off < 0 {
					off = 0
				}
			} else {
				off = time.Duration(rng.Int63n(int64(span) + 1))
			}
		}
		t0 := time.Now()
		cancel, err := p.SendAfter(c.To, payload{ID: id}, c.After)
		if err != nil {
			c.Errs = append(c.Errs, err)
			continue
		}
		c.Ch <- timerRec{ID: id, Cancel: cancel, T0: t0, Offset: off}
		if c.Spacing > 0 {
			spin(int(c.Spacing / time.Microsecond))
		}
	}
	close(c.Ch)
}

func runAfterCase(after time.Duration, addr string, rep int) {
	id := fmt.Sprintf("A/after=%s/%s/rep=%d", after, addr, rep)
	if !hk.Want(id) {
		return
	}
	c := newCtx(id)
	r := &result{}
	rc, err := spawnRecv(c, id, gen.ProcessOptions{}, setup{Alias: true})
	if err != nil {
		r.incon = "spawn receiver: " + err.Error()
		finish(id, "sendafter", id, false, 0, r, nil)
		return
	}
	spid, sinst, err := spawnRole(c, "sender", id+"/sender", "", gen.ProcessOptions{})
	if err != nil {
		r.incon = "spawn sender: " + err.Error()
		finish(id, "sendafter", id, false, 0, r, nil)
		killAll(rc.pid)
		return
	}
	all := []gen.PID{rc.pid, spid}
	insts := []*actors.Inst{rc.inst, sinst}
	var to any = rc.pid
	switch addr {
	case "name":
		to = rc.name
	case "alias":
		to = rc.alias
	}
	n := hk.Pick(60, 200)
	cmd := &afterCmd{To: to, S: 1, N: n, After: after, Seed: hk.Rng("c02", id).Int63(), Ch: make(chan timerRec, n), Done: make(chan struct{}), Spacing: 30 * time.Microsecond}
	hk.Stress(id, map[string]float64{"proc.run.tosleep": 0.1, "proc.run.recheck": 0.2, "mpsc.push.swapped": 0.05}, 100*time.Microsecond)
	defer hk.StressOff()
	node.Send(spid, cmd)

	var mu sync.Mutex
	var out []sres
	near, cancelled, fired := 0, 0, 0
	var wg sync.WaitGroup
	for w := 0; w < 6; w++ {
		wg.Add(1)
		go func() {
			defer wg.Done()
			for tr := range cmd.Ch {
				if tr.Offset < 0 {
					mu.Lock()
					out = append(out, sres{tr.ID, nil})
					fired++
					mu.Unlock()
					continue
				}
				for time.Since(tr.T0) < tr.Offset {
				}
				a := time.Now()
				ok := tr.Cancel()
				b := time.Now()
				tc := a.Add(b.Sub(a) / 2)
				d := tc.Sub(tr.T0.Add(after))
				if d < 0 {
					d = -d
				}
				mu.Lock()
				if d < 100*time.Microsecond {
					near++
				}
				if ok {
					cancelled++
					out = append(out, sres{tr.ID, errCancelled})
				} else {
					fired++
					out = append(out, sres{tr.ID, nil})
				}
				mu.Unlock()
			}
		}()
	}
	doneOK := true
	select {
	case <-cmd.Done:
	case <-time.After(30 * time.Second):
		doneOK = false
		r.incon = "watchdog: sender did not finish"
	}
	if !doneOK || len(cmd.Errs) > 0 {
		if len(cmd.Errs) > 0 {
			r.incon = fmt.Sprintf("SendAfter refused: %v", cmd.Errs[0])
		}
		hk.StressOff()
		finish(id, "sendafter", id, false, 0, r, nil)
		killAll(all...)
		return
	}
	wg.Wait()
	c.record(out)
	// uncancelled timers fire on their own goroutines: wait for the expected number of handled
	// messages (watchdog => inconclusive), then leave room for stray sends of cancelled timers
	alive := true
	if r.incon == "" {
		if !hk.WaitUntil(6*time.Second, func() bool { return c.handled.Load() >= int64(fired) }) {
			r.incon = fmt.Sprintf("watchdog: %d delayed sends were not cancelled, only %d handled (cannot tell a late timer from a lost one)", fired, c.handled.Load())
			alive = false
		}
	}
	time.Sleep(after + 3*time.Millisecond)
	hk.StressOff()
	if r.incon == "" {
		applyQ(quiesce(all, nil, insts, 20*time.Second), r)
	}
	st := judge(c, omode{kind: "sendafter", alive: alive}, r)
	switch r.sig {
	case "refused-but-handled/sendafter":
		r.sig = "sendafter-cancelled-but-sent"
	case "handled-twice/sendafter":
		r.sig = "sendafter-sent-twice"
	case "accepted-never-handled/sendafter":
		r.sig = "sendafter-not-cancelled-never-sent"
	}
	hk.Stat("sendafter_cancel_within_100us_of_deadline", int64(near))
	hk.Stat("sendafter_cancelled", int64(cancelled))
	hk.Stat("sendafter_fired", int64(fired))
	both := cancelled > 0 && fired > 0
	key := fmt.Sprintf("A/after=%s/%s/near=%v/both=%v", after, addr, near > 0, both)
	finish(id, "sendafter", key, near > 0 || both, int64(st.sent+st.handled), r, map[string]any{
		"timers": n, "cancel_true": cancelled, "cancel_false_or_never_cancelled": fired, "cancel_within_100us_of_deadline": near, "handled": st.handled,
	})
	killAll(all...)
}

func runAllAfter() {
	reps := hk.Pick(2, 10)
	for rep := 0; rep < reps; rep++ {
		for _, after := range []time.Duration{0, time.Millisecond, 2 * time.Millisecond} {
			for _, addr := range []string{"pid", "name", "alias"} {
				runAfterCase(after, addr, rep)
			}
		}
	}
}
