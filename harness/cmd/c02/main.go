// C02 — local delivery: exactly once, no lost wake-up, truthful send result,
// fallback delivery, delayed-send cancel semantics.
//
// Oracles: every send carries a unique id (sender, counter); per case the
// multiset of (id -> send result) is compared with the handled log of the
// receiver (and of the fallback process): result nil => handled exactly once
// (receiver kept alive), result error => never handled, refused with fallback
// configured => handled exactly once by the fallback as MessageFallback{PID,
// Tag, Message}.  A stable structural witness (state Sleep + non-empty mailbox +
// no live runner goroutine + every send returned) decides "lost wake-up"
// without any clock.
//
// Scenario families: D directed lost-wake-up windows (gates), I self-send
// during Init, B sequential capacity of bounded mailboxes, G configuration grid
// under seeded stress, T terminating receivers (at most once / refused => never),
// A SendAfter cancel-vs-fire, Q direct lib.QueueMPSC workload.
package main

import (
	"errors"
	"fmt"
	"os"
	"sort"
	"sync"
	"sync/atomic"
	"time"

	"ergo.services/ergo/gen"
	"ergo.services/ergo/lib"

	"verif/harness/actors"
	"verif/harness/hk"
)

// ---------------------------------------------------------------------------
// identities and payloads

// mid is the unique id of one send: sender number and per-sender counter
type mid struct{ S, K uint32 }

func (m mid) String() string { return fmt.Sprintf("%d.%d", m.S, m.K) }

// payload is what travels (as message, request, event message)
type payload struct {
	ID   mid
	Spin int  // microseconds of busy work in the handler
	Help bool // the receiver makes a Call to the helper process while handling (state WaitResponse)
}

// exitReason carries the id inside an exit signal
type exitReason struct{ ID mid }

func (e exitReason) Error() string { return "c02-exit-" + e.ID.String() }

func spin(us int) {
	if us <= 0 {
		return
	}
	t := time.Now()
	for time.Since(t) < time.Duration(us)*time.Microsecond {
	}
}

// block parks a handler until released
type block struct {
	Entered chan struct{}
	Release chan struct{}
}

// setup is sent to a receiver after spawn: things that need state Running
type setup struct {
	Alias bool
	Trap  bool
	Event gen.Event // subscribe if Name != ""
	Done  chan setupReply
}

type setupReply struct {
	Alias   gen.Alias
	Mailbox gen.ProcessMailbox
	Err     error
}

// relay asks a meta process to send PL to its parent process (the self-send path of process.SendPID, used
// while the parent may be asleep) and to report the result
type relay struct {
	PL  payload
	Res chan error
}

type spawnMeta struct {
	M    *actors.Meta
	Opt  gen.MetaOptions
	Done chan gen.Alias
}

// ---------------------------------------------------------------------------
// per-case context: send log and handled log

type sres struct {
	ID  mid
	Err error
}

type cctx struct {
	id string

	mu     sync.Mutex
	direct map[mid]int // handled by the addressed receiver
	viaFB  map[mid]int // handled by the fallback process, correctly wrapped
	bad    []string    // malformed / misplaced deliveries
	sent   map[mid]error
	dupSnd []mid

	handled atomic.Int64

	target gen.PID // expected MessageFallback.PID
	tag    string  // expected MessageFallback.Tag

	helper gen.PID // callee of the receiver's own calls (payload.Help)

	failAt int64 // receiver returns an error from the handler when handled reaches this (family T), 0 = never
}

func newCtx(id string) *cctx {
	return &cctx{id: id, direct: map[mid]int{}, viaFB: map[mid]int{}, sent: map[mid]error{}}
}

func (c *cctx) setTarget(pid gen.PID, tag string) {
	c.mu.Lock()
	c.target, c.tag = pid, tag
	c.mu.Unlock()
}

func (c *cctx) addBad(s string) {
	c.mu.Lock()
	if len(c.bad) < 8 {
		c.bad = append(c.bad, s)
	}
	c.mu.Unlock()
}

func (c *cctx) logDirect(id mid) int64 {
	c.mu.Lock()
	c.direct[id]++
	c.mu.Unlock()
	return c.handled.Add(1)
}

func (c *cctx) logFB(id mid) {
	c.mu.Lock()
	c.viaFB[id]++
	c.mu.Unlock()
	c.handled.Add(1)
}

func (c *cctx) record(rs []sres) {
	c.mu.Lock()
	for _, r := range rs {
		if _, dup := c.sent[r.ID]; dup {
			c.dupSnd = append(c.dupSnd, r.ID)
		}
		c.sent[r.ID] = r.Err
	}
	c.mu.Unlock()
}

// one handled thing arrived at a process of the given role
func (c *cctx) arrived(role string, msg any) (int64, bool) {
	switch m := msg.(type) {
	case payload:
		if role != "recv" {
			c.addBad(fmt.Sprintf("plain payload %s handled by the %s process", m.ID, role))
			return 0, true
		}
		n := c.logDirect(m.ID)
		spin(m.Spin)
		return n, true
	case gen.MessageExitPID:
		var er exitReason
		if errors.As(m.Reason, &er) {
			if role != "recv" {
				c.addBad(fmt.Sprintf("exit %s handled by the %s process", er.ID, role))
				return 0, true
			}
			return c.logDirect(er.ID), true
		}
		return 0, false
	case gen.MessageEvent:
		if p, ok := m.Message.(payload); ok {
			if role != "recv" {
				c.addBad(fmt.Sprintf("event %s handled by the %s process", p.ID, role))
				return 0, true
			}
			n := c.logDirect(p.ID)
			spin(p.Spin)
			return n, true
		}
		return 0, false
	case gen.MessageFallback:
		p, ok := m.Message.(payload)
		if !ok {
			c.addBad(fmt.Sprintf("fallback wrapper with foreign payload %#v", m.Message))
			return 0, true
		}
		c.mu.Lock()
		tpid, ttag := c.target, c.tag
		c.mu.Unlock()
		if role != "fb" {
			c.addBad(fmt.Sprintf("fallback wrapper for %s handled by the %s process", p.ID, role))
			return 0, true
		}
		if m.PID != tpid || m.Tag != ttag {
			c.addBad(fmt.Sprintf("fallback wrapper for %s has PID=%s Tag=%q, want PID=%s Tag=%q", p.ID, m.PID, m.Tag, tpid, ttag))
			return 0, true
		}
		c.logFB(p.ID)
		return 0, true
	}
	return 0, false
}

// hooks of a probe process acting in the given role (recv | fb | sender)
func hooksFor(c *cctx, role string) *actors.Hooks {
	return &actors.Hooks{
		Msg: func(p *actors.Probe, from gen.PID, msg any) error {
			if n, ok := c.arrived(role, msg); ok {
				if pl, isPl := msg.(payload); isPl && pl.Help && role == "recv" {
					p.Call(c.helper, "ping")
				}
				if c.failAt > 0 && n == c.failAt {
					return errors.New("c02: requested termination")
				}
				return nil
			}
			switch m := msg.(type) {
			case block:
				close(m.Entered)
				<-m.Release
			case setup:
				var r setupReply
				if m.Alias {
					r.Alias, r.Err = p.CreateAlias()
				}
				if m.Trap {
					p.SetTrapExit(true)
				}
				if m.Event.Name != "" {
					if _, err := p.MonitorEvent(m.Event); err != nil {
						r.Err = err
					}
				}
				r.Mailbox = p.Mailbox()
				m.Done <- r
			case spawnMeta:
				a, err := p.SpawnMeta(m.M, m.Opt)
				if err != nil {
					close(m.Done)
				} else {
					m.Done <- a
				}
			case *sendCmd:
				runSends(procAPI{p}, m)
			case *afterCmd:
				runAfter(p, m)
			}
			return nil
		},
		Call: func(p *actors.Probe, from gen.PID, ref gen.Ref, req any) (any, error) {
			if pl, ok := req.(payload); ok {
				if role != "recv" {
					c.addBad(fmt.Sprintf("request %s handled by the %s process", pl.ID, role))
					return "misplaced", nil
				}
				n := c.logDirect(pl.ID)
				spin(pl.Spin)
				if pl.Help {
					p.Call(c.helper, "ping")
				}
				if c.failAt > 0 && n == c.failAt {
					return pl.ID, errors.New("c02: requested termination")
				}
				return pl.ID, nil
			}
			return "ok", nil
		},
		Log: func(p *actors.Probe, m gen.MessageLog) error {
			if m.Format == logFormat && len(m.Args) == 2 && role == "recv" {
				s, ok1 := m.Args[0].(uint32)
				k, ok2 := m.Args[1].(uint32)
				if ok1 && ok2 {
					c.logDirect(mid{s, k})
				}
			}
			return nil
		},
		Event: func(p *actors.Probe, ev gen.MessageEvent) error {
			n, _ := c.arrived(role, ev)
			if pl, isPl := ev.Message.(payload); isPl && pl.Help && role == "recv" {
				p.Call(c.helper, "ping")
			}
			if c.failAt > 0 && n == c.failAt {
				return errors.New("c02: requested termination")
			}
			return nil
		},
	}
}

func metaHooksFor(c *cctx) *actors.MetaHooks {
	return &actors.MetaHooks{
		Msg: func(m *actors.Meta, from gen.PID, msg any) error {
			switch x := msg.(type) {
			case relay:
				x.Res <- m.Send(m.Parent(), x.PL)
			case payload:
				c.logDirect(x.ID)
				spin(x.Spin)
			case block:
				close(x.Entered)
				<-x.Release
			}
			return nil
		},
		Call: func(m *actors.Meta, from gen.PID, ref gen.Ref, req any) (any, error) {
			if pl, ok := req.(payload); ok {
				c.logDirect(pl.ID)
				spin(pl.Spin)
				return pl.ID, nil
			}
			return "ok", nil
		},
	}
}

// ---------------------------------------------------------------------------
// senders: the same loop runs in harness goroutines (node API) and inside
// sender actors (process API)

type sapi interface {
	send(to any, m any, prio gen.MessagePriority) error
	call(to any, m any, prio gen.MessagePriority, timeout int) (any, error)
	event(name gen.Atom, token gen.Ref, prio gen.MessagePriority, m any) error
	exit(to gen.PID, reason error) error
	log(id mid)
	isProc() bool
}

const logFormat = "c02-log %d %d"

type nodeAPI struct{}

func (nodeAPI) send(to any, m any, prio gen.MessagePriority) error {
	return node.SendWithPriority(to, m, prio)
}
func (nodeAPI) call(to any, m any, prio gen.MessagePriority, timeout int) (any, error) {
	return nil, gen.ErrUnsupported
}
func (nodeAPI) event(name gen.Atom, token gen.Ref, prio gen.MessagePriority, m any) error {
	return node.SendEvent(name, token, gen.MessageOptions{Priority: prio}, m)
}
func (nodeAPI) exit(to gen.PID, reason error) error { return node.SendExit(to, reason) }
func (nodeAPI) isProc() bool                        { return false }
func (nodeAPI) log(id mid)                          { node.Log().Error(logFormat, id.S, id.K) }

type procAPI struct{ p *actors.Probe }

func (a procAPI) send(to any, m any, prio gen.MessagePriority) error {
	return a.p.SendWithPriority(to, m, prio)
}
func (a procAPI) call(to any, m any, prio gen.MessagePriority, timeout int) (any, error) {
	prev := a.p.SendPriority()
	a.p.SetSendPriority(prio)
	v, err := a.p.CallWithTimeout(to, m, timeout)
	a.p.SetSendPriority(prev)
	return v, err
}
func (a procAPI) event(name gen.Atom, token gen.Ref, prio gen.MessagePriority, m any) error {
	prev := a.p.SendPriority()
	a.p.SetSendPriority(prio)
	err := a.p.SendEvent(name, token, m)
	a.p.SetSendPriority(prev)
	return err
}
func (a procAPI) exit(to gen.PID, reason error) error { return a.p.SendExit(to, reason) }
func (procAPI) isProc() bool                          { return true }
func (a procAPI) log(id mid)                          { a.p.Log().Error(logFormat, id.S, id.K) }

type sendCmd struct {
	Kind    string // message | request | event | exit
	To      any    // gen.PID | gen.Atom | gen.Alias
	Prio    gen.MessagePriority
	S       uint32 // sender number
	K0      uint32 // first counter
	N       int
	Pace    int64 // rng seed for pauses / spins (0 = no pauses)
	MaxSpin int
	// HelpEvery > 0: about one payload in HelpEvery asks the receiver to make a Call while handling it
	HelpEvery int
	EvName    gen.Atom
	EvToken   gen.Ref
	// CallTimeout in seconds (0 = framework default)
	CallTimeout int
	Out         []sres
	Harness     string // non-empty: the harness itself failed (case inconclusive)
	Done        chan struct{}
}

func runSends(api sapi, c *sendCmd) {
	defer close(c.Done)
	var x uint64 = uint64(c.Pace)
	next := func() uint64 {
		x += 0x9E3779B97F4A7C15
		z := x
		z = (z ^ (z >> 30)) * 0xBF58476D1CE4E5B9
		z = (z ^ (z >> 27)) * 0x94D049BB133111EB
		return z ^ (z >> 31)
	}
	c.Out = make([]sres, 0, c.N)
	timeouts := 0
	for i := 0; i < c.N; i++ {
		id := mid{c.S, c.K0 + uint32(i)}
		pl := payload{ID: id}
		if c.Pace != 0 && c.MaxSpin > 0 {
			pl.Spin = int(next() % uint64(c.MaxSpin+1))
		}
		if c.HelpEvery > 0 && next()%uint64(c.HelpEvery) == 0 {
			pl.Help = true
		}
		var err error
		switch c.Kind {
		case "message":
			err = api.send(c.To, pl, c.Prio)
		case "request":
			_, err = api.call(c.To, pl, c.Prio, c.CallTimeout)
		case "event":
			err = api.event(c.EvName, c.EvToken, c.Prio, pl)
		case "exit":
			err = api.exit(c.To.(gen.PID), exitReason{ID: id})
		case "log":
			api.log(id) // no result: the logger interface is fire-and-forget
		case "viameta":
			// c.To is the alias of a meta process of the receiver: the meta process does the send
			res := make(chan error, 1)
			if e := api.send(c.To, relay{PL: pl, Res: res}, gen.MessagePriorityNormal); e != nil {
				c.Harness = "relay to meta refused: " + e.Error()
				return
			}
			select {
			case err = <-res:
			case <-time.After(20 * time.Second):
				c.Harness = "meta process did not relay"
				return
			}
		}
		c.Out = append(c.Out, sres{id, err})
		if err == gen.ErrTimeout {
			// a lost request costs a whole timeout: three of them are enough evidence, stop early
			if timeouts++; timeouts >= 3 {
				break
			}
		}
		if c.Pace != 0 {
			switch r := next() % 16; {
			case r < 4:
				runtimeGosched()
			case r == 4:
				time.Sleep(time.Duration(next()%120) * time.Microsecond)
			}
		}
	}
}

// ---------------------------------------------------------------------------
// quiescence and the stable witness of a lost wake-up

type qres struct {
	ok      bool
	witness string // non-empty: stable structural witness of a lost wake-up
	meta    bool
	state   string
}

// quiesce waits until every listed process / meta process is asleep with an
// empty mailbox and no live runner goroutine.  Precondition: every send of the
// case has returned and no timer is pending.  If instead a process stays in
// state Sleep with a non-empty mailbox and no runner goroutine over several
// polls during which no runner goroutine was started anywhere and every other
// listed process was asleep or blocked in a Call (so none of them was in the
// middle of a send of its own), nobody is left who could ever look at that
// mailbox: that is the witness (decided from the structure, not from the time
// that passed).
func quiesce(pids []gen.PID, metas []gen.Alias, insts []*actors.Inst, d time.Duration) qres {
	deadline := time.Now().Add(d)
	streak := 0
	var e0 int64
	var last string
	for i := 0; ; i++ {
		idle := true
		active := false // some listed process is neither asleep nor blocked in a Call: it may still be sending
		wit := ""
		wmeta := false
		last = ""
		for _, p := range pids {
			lr := hk.LiveRunners(p)
			info, err := node.ProcessInfo(p)
			if err != nil {
				continue // gone
			}
			q := info.MailboxQueues
			n := q.Main + q.System + q.Urgent + q.Log
			busy := lr > 0 || info.State != gen.ProcessStateSleep
			if busy || n > 0 {
				idle = false
				last = fmt.Sprintf("%s state=%s runners=%d queues=%+v", p, info.State, lr, q)
			}
			if info.State != gen.ProcessStateSleep && info.State != gen.ProcessStateWaitResponse {
				// a process that is executing a callback may be in the middle of a send of its own
				active = true
			}
			if !busy && n > 0 && hk.LiveRunners(p) == 0 {
				wit = fmt.Sprintf("process %s: state=%s, mailbox main=%d system=%d urgent=%d log=%d, live runner goroutines=0, all sends returned", p, info.State, q.Main, q.System, q.Urgent, q.Log)
			}
		}
		for _, a := range metas {
			lr := hk.LiveRunners(a)
			info, err := node.MetaInfo(a)
			if err != nil {
				continue
			}
			n := info.MailboxQueues.Main + info.MailboxQueues.System
			busy := lr > 0 || info.State != gen.MetaStateSleep
			if busy || n > 0 {
				idle = false
				last = fmt.Sprintf("meta %s state=%s runners=%d queues=%+v", a, info.State, lr, info.MailboxQueues)
			}
			if info.State != gen.MetaStateSleep {
				active = true
			}
			if !busy && n > 0 && hk.LiveRunners(a) == 0 {
				wit = fmt.Sprintf("meta process %s: state=%s, mailbox main=%d system=%d, live handler goroutines=0, all sends returned", a, info.State, info.MailboxQueues.Main, info.MailboxQueues.System)
				wmeta = true
			}
		}
		for _, in := range insts {
			if in.InCallback() {
				idle = false
				last = "callback in progress: " + in.Label
			}
		}
		if idle {
			return qres{ok: true}
		}
		if wit != "" && !active {
			e := hk.Hits("proc.run.enter") + hk.Hits("meta.enter")
			if streak == 0 || e != e0 {
				streak, e0 = 1, e
			} else {
				streak++
			}
			if streak >= 6 {
				return qres{witness: wit, meta: wmeta}
			}
		} else {
			streak = 0
		}
		if time.Now().After(deadline) {
			return qres{state: last}
		}
		if i < 30 && streak == 0 {
			runtimeGosched()
		} else {
			time.Sleep(time.Millisecond)
		}
	}
}

// ---------------------------------------------------------------------------
// oracle

type result struct {
	viol  []string
	sig   string
	incon string
}

func (r *result) fail(sig, format string, a ...any) {
	if r.sig == "" {
		r.sig = sig
	}
	if len(r.viol) < 6 {
		r.viol = append(r.viol, fmt.Sprintf(format, a...))
	}
}

type omode struct {
	kind       string // for signatures
	alive      bool   // receiver stayed alive: accepted => handled exactly once
	fbExpected bool   // fallback configured with another, existing, unbounded process: refusal must not be reported
	fbPossible bool   // deliveries through the fallback may occur at all
	atMostOnce bool   // success result does not identify the subscriber (event to a bounded mailbox) : accepted => at most once
}

type ostats struct {
	sent, accepted, refused, handled, viaFB, unhandledAccepted int
	errs                                                       map[string]int
}

// callAccepted: a Call that timed out was accepted by the route (the request sits in / went through the mailbox)
func accepted(err error) bool {
	return err == nil || err == gen.ErrTimeout
}

func judge(c *cctx, m omode, r *result) ostats {
	c.mu.Lock()
	defer c.mu.Unlock()
	st := ostats{errs: map[string]int{}}
	for _, b := range c.bad {
		r.fail("fallback-wrapper-wrong", "%s", b)
	}
	for _, d := range c.dupSnd {
		r.incon = "harness: id " + d.String() + " used twice"
	}
	ids := make([]mid, 0, len(c.sent))
	for id := range c.sent {
		ids = append(ids, id)
	}
	sort.Slice(ids, func(i, j int) bool {
		if ids[i].S != ids[j].S {
			return ids[i].S < ids[j].S
		}
		return ids[i].K < ids[j].K
	})
	for _, id := range ids {
		err := c.sent[id]
		h, f := c.direct[id], c.viaFB[id]
		st.sent++
		st.handled += h + f
		st.viaFB += f
		if f > 0 && !m.fbPossible {
			r.fail("fallback-unexpected/"+m.kind, "id %s: delivered to the fallback process although no fallback delivery is possible in this configuration", id)
		}
		if accepted(err) {
			st.accepted++
			switch {
			case h+f == 1:
			case h+f == 0:
				st.unhandledAccepted++
				if m.alive && !m.atMostOnce {
					r.fail("accepted-never-handled/"+m.kind, "id %s: send returned %v, receiver alive and quiescent, but the message was never handled", id, err)
				}
			default:
				r.fail("handled-twice/"+m.kind, "id %s: send returned %v, handled %d times by the receiver and %d times by the fallback", id, err, h, f)
			}
		} else {
			st.refused++
			st.errs[err.Error()]++
			if h+f > 0 {
				r.fail("refused-but-handled/"+m.kind, "id %s: send returned error %q but the message was handled (receiver %d, fallback %d)", id, err, h, f)
			}
			if m.fbExpected && err == gen.ErrProcessMailboxFull {
				r.fail("fallback-not-delivered", "id %s: mailbox full reported although a fallback process is configured and alive", id)
			}
		}
	}
	for id, n := range c.direct {
		if _, ok := c.sent[id]; !ok {
			r.fail("phantom-message/"+m.kind, "id %s handled %d times but never sent", id, n)
		}
	}
	for id, n := range c.viaFB {
		if _, ok := c.sent[id]; !ok {
			r.fail("phantom-message/"+m.kind, "id %s handled %d times by the fallback but never sent", id, n)
		}
	}
	return st
}

// ---------------------------------------------------------------------------
// plumbing

var node *hk.HNode

// strictBroadcast (VERIF_C02_STRICT_EVENTS=1) also demands exactly-once for event publications and log messages
// to a subscriber / logger process with a bounded mailbox, where the framework drops silently although the
// publisher got nil.  Off by default: the publisher's result is not a per-subscriber result.
var strictBroadcast = os.Getenv("VERIF_C02_STRICT_EVENTS") == "1"
var nameSeq atomic.Int64

func uniq(prefix string) gen.Atom {
	return gen.Atom(fmt.Sprintf("%s_%d", prefix, nameSeq.Add(1)))
}

func finish(id, scenario, key string, nontrivial bool, events int64, r *result, detail any) {
	c := hk.Case{ID: id, Scenario: scenario, Key: key, Nontrivial: nontrivial, Events: events, Detail: detail}
	switch {
	case len(r.viol) > 0:
		c.Verdict = hk.Violated
		c.Sig = r.sig
		c.What = fmt.Sprint(r.viol)
	case r.incon != "":
		c.Verdict = hk.Inconclusive
		c.What = r.incon
		c.Nontrivial = false
	default:
		c.Verdict = hk.Held
	}
	hk.Emit(c)
}

// applyQ turns the outcome of quiesce into verdict parts
func applyQ(q qres, r *result) {
	switch {
	case q.ok:
	case q.witness != "":
		if q.meta {
			r.fail("lost-wakeup-meta", "lost wake-up: %s", q.witness)
		} else {
			r.fail("lost-wakeup-process", "lost wake-up: %s", q.witness)
		}
	default:
		if r.incon == "" {
			r.incon = "watchdog: no quiescence (" + q.state + ")"
		}
	}
}

type recv struct {
	pid   gen.PID
	name  gen.Atom
	alias gen.Alias
	inst  *actors.Inst
	mb    gen.ProcessMailbox
}

// spawnRecv spawns a registered receiver and runs its setup
func spawnRecv(c *cctx, label string, opts gen.ProcessOptions, su setup) (*recv, error) {
	f, inst := actors.NewProbe(label, hooksFor(c, "recv"))
	name := uniq("r")
	if opts.Fallback.Enable && opts.Fallback.Name == "@self" {
		opts.Fallback.Name = name
	}
	pid, err := node.SpawnRegister(name, f, opts)
	if err != nil {
		return nil, err
	}
	rc := &recv{pid: pid, name: name, inst: inst}
	su.Done = make(chan setupReply, 1)
	if err := node.Send(pid, su); err != nil {
		return nil, fmt.Errorf("setup send: %w", err)
	}
	select {
	case rep := <-su.Done:
		if rep.Err != nil {
			return nil, fmt.Errorf("setup: %w", rep.Err)
		}
		rc.alias = rep.Alias
		rc.mb = rep.Mailbox
	case <-time.After(10 * time.Second):
		return nil, errors.New("setup timeout")
	}
	if q := quiesce([]gen.PID{pid}, nil, []*actors.Inst{inst}, 10*time.Second); !q.ok {
		return nil, errors.New("receiver did not become idle after setup")
	}
	return rc, nil
}

func spawnRole(c *cctx, role, label string, name gen.Atom, opts gen.ProcessOptions) (gen.PID, *actors.Inst, error) {
	f, inst := actors.NewProbe(label, hooksFor(c, role))
	var pid gen.PID
	var err error
	if name != "" {
		pid, err = node.SpawnRegister(name, f, opts)
	} else {
		pid, err = node.Spawn(f, opts)
	}
	if err != nil {
		return pid, inst, err
	}
	hk.WaitUntil(5*time.Second, func() bool {
		s, e := node.ProcessState(pid)
		return e != nil || (s == gen.ProcessStateSleep && hk.LiveRunners(pid) == 0)
	})
	return pid, inst, nil
}

func killAll(pids ...gen.PID) {
	for _, p := range pids {
		node.Kill(p)
	}
	hk.WaitUntil(5*time.Second, func() bool {
		for _, p := range pids {
			if _, err := node.ProcessInfo(p); err == nil {
				return false
			}
		}
		return true
	})
}

func prioName(p gen.MessagePriority) string {
	switch p {
	case gen.MessagePriorityHigh:
		return "high"
	case gen.MessagePriorityMax:
		return "max"
	}
	return "normal"
}

func queueFor(mb gen.ProcessMailbox, kind string, p gen.MessagePriority) lib.QueueMPSC {
	if kind == "exit" {
		return mb.Urgent
	}
	if kind == "log" {
		return mb.Log
	}
	switch p {
	case gen.MessagePriorityHigh:
		return mb.System
	case gen.MessagePriorityMax:
		return mb.Urgent
	}
	return mb.Main
}

func main() {
	hk.InstallHook()
	hk.Rule("every send carries a unique id (sender,counter); per case the send log (id -> result) is compared as a multiset with the handled log of receiver and fallback. " +
		"D: one gate-directed lost-wake-up window (runner parked at run.tosleep / run.recheck / run.reacquire, producer parked at mpsc.push.swapped, both orders; same for meta) x send variant x mailbox size; non-trivial iff every gate fired and the interfering send completed inside the window. " +
		"I: self-send during Init (pid/name) x size x priority x fallback, decided before any other traffic; B: sequential fill of a bounded mailbox while the receiver is parked in a handler. " +
		"G: cells of size{0,1,2,5,64} x priority x addressing{pid,name,alias} x kind{message,request,event,exit,log,metamsg,metacall} x fallback{off,on,same} x senders{1,2,4,8,16} under seeded stress at proc.run.*/meta.*/mpsc.push.swapped (quick: seeded sample, thorough: all cells x repetitions); non-trivial iff hooks counted >=1 sleep transition raced by a send (re-acquire after the re-check or a second live runner goroutine) or >=1 refused send. " +
		"T: receivers terminated mid-stream (at most once, refused => never). A: SendAfter after{0,1,2ms} with cancel at a PRNG offset; non-trivial iff a cancel came within 100us of the deadline or both outcomes occurred. Q: direct lib.QueueMPSC/QueueLimitMPSC with P producers and one consumer; non-trivial iff a Pop observed the counted-but-unlinked state or a Push was refused. distinct = family x parameters x observed class")
	hk.Assume("receivers are act.Actor based probes (and actors.Meta); other behaviours share node/process.go run() and node/meta.go handle()")
	hk.Assume("a Call that returns ErrTimeout counts as accepted (the request was pushed)")
	hk.Assume("event publication reports one result for all subscribers: for a subscriber with a bounded mailbox only 'at most once' is asserted (silent drops are counted in counters.event_dropped_on_full_mailbox)")
	hk.Assume("log messages to a process logger have no send result: unbounded mailbox => handled exactly once, bounded => at most once (drops counted in counters.log_dropped_on_full_mailbox)")
	hk.Assume("a bounded mailbox may exceed its size under concurrent pushers; capacity is asserted only for one sequential sender with the receiver parked")
	var err error
	node, err = hk.StartNode(hk.NodeCfg{Name: "c02"})
	if err != nil {
		fmt.Fprintln(os.Stderr, "start node:", err)
		os.Exit(3)
	}
	t0 := time.Now()
	lap := func(name string) {
		hk.Note("wall_ms_"+name, time.Since(t0).Milliseconds())
		t0 = time.Now()
	}
	runAllDirected()
	lap("directed")
	runAllInit()
	lap("init")
	runAllCapacity()
	lap("capacity")
	runAllQueue()
	lap("queue")
	runAllAfter()
	lap("after")
	runAllTerm()
	lap("term")
	runAllGrid()
	lap("grid")

	h, d := hk.PointStats()
	hk.Note("hook_hits", h)
	hk.Note("hook_delays", d)
	if len(node.Cap.PanicLines()) > 0 {
		hk.Note("framework_panic_log_lines", node.Cap.PanicLines())
	}
	os.Stdout.Sync()
	os.Exit(0)
}
