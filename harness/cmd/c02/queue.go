package main

import (
	"fmt"
	"runtime"
	"sync"
	"sync/atomic"
	"time"

	"ergo.services/ergo/lib"

	"verif/harness/hk"
)

func runtimeGosched() { runtime.Gosched() }

// ---------------------------------------------------------------------------
// family Q: lib.NewQueueMPSC / lib.NewQueueLimitMPSC used directly:
// P producers, one consumer

func newQueue(limit int64) lib.QueueMPSC {
	if limit > 0 {
		return lib.NewQueueLimitMPSC(limit, false)
	}
	return lib.NewQueueMPSC()
}

func runQueueStress(limit int64, producers int, rep int) {
	id := fmt.Sprintf("Q/stress/limit=%d/p=%d/rep=%d", limit, producers, rep)
	if !hk.Want(id) {
		return
	}
	r := &result{}
	q := newQueue(limit)
	per := hk.Pick(4000, 20000) / producers
	hk.Stress(id, map[string]float64{"mpsc.push.swapped": 0.05, "mpsc.push.swap": 0.02}, 80*time.Microsecond)
	defer hk.StressOff()
	type pres struct {
		ok []bool
	}
	res := make([]pres, producers)
	var wg sync.WaitGroup
	var done atomic.Bool
	for p := 0; p < producers; p++ {
		wg.Add(1)
		go func(p int) {
			defer wg.Done()
			rng := hk.Rng("c02", id, fmt.Sprint(p))
			ok := make([]bool, per)
			for k := 0; k < per; k++ {
				ok[k] = q.Push(mid{uint32(p), uint32(k)})
				if rng.Intn(8) == 0 {
					runtime.Gosched()
				}
			}
			res[p].ok = ok
		}(p)
	}
	go func() { wg.Wait(); done.Store(true) }()
	popped := map[mid]int{}
	var unlinkedSeen, pops int64
	deadline := time.Now().Add(60 * time.Second)
	crng := hk.Rng("c02", id, "consumer")
	for {
		v, ok := q.Pop()
		if ok {
			pops++
			m, isMid := v.(mid)
			if !isMid {
				r.fail("mpsc-foreign-value", "Pop returned %#v", v)
			} else {
				popped[m]++
			}
			if crng.Intn(16) == 0 {
				runtime.Gosched()
			}
			continue
		}
		if q.Len() > 0 {
			unlinkedSeen++ // counted but not yet linked (or pushed since): the consumer must come back
		}
		if done.Load() {
			// every Push has returned: one more drain sees everything
			for {
				v, ok := q.Pop()
				if !ok {
					break
				}
				pops++
				if m, isMid := v.(mid); isMid {
					popped[m]++
				}
			}
			break
		}
		if time.Now().After(deadline) {
			r.incon = "watchdog: producers did not finish"
			break
		}
		runtime.Gosched()
	}
	hk.StressOff()
	pushedTrue, pushedFalse := 0, 0
	if r.incon == "" {
		for p := range res {
			for k, ok := range res[p].ok {
				m := mid{uint32(p), uint32(k)}
				n := popped[m]
				if ok {
					pushedTrue++
					if n == 0 {
						r.fail("mpsc-lost-item", "item %s: Push returned true, never popped (all producers returned, queue drained)", m)
					} else if n > 1 {
						r.fail("mpsc-duplicate-item", "item %s popped %d times", m, n)
					}
				} else {
					pushedFalse++
					if n > 0 {
						r.fail("mpsc-refused-item-popped", "item %s: Push returned false but it was popped %d times", m, n)
					}
				}
			}
		}
		if len(popped) > pushedTrue+pushedFalse {
			r.fail("mpsc-phantom-item", "%d distinct items popped, %d pushed", len(popped), pushedTrue+pushedFalse)
		}
		if l := q.Len(); l != 0 {
			r.fail("mpsc-len-nonzero-when-drained", "Len()=%d after all producers returned and Pop reports empty", l)
		}
		if it := q.Item(); it != nil {
			r.fail("mpsc-len-nonzero-when-drained", "Item()!=nil after the queue was drained")
		}
		if limit == 0 && pushedFalse > 0 {
			r.fail("mpsc-unbounded-refused", "unbounded queue refused %d pushes", pushedFalse)
		}
	}
	hk.Stat("queue_pushes", int64(pushedTrue+pushedFalse))
	hk.Stat("queue_refused", int64(pushedFalse))
	hk.Stat("queue_pop_saw_counted_but_unlinked", unlinkedSeen)
	key := fmt.Sprintf("Q/stress/limit=%d/p=%d/unlinked=%v/refused=%v", limit, producers, unlinkedSeen > 0, pushedFalse > 0)
	finish(id, "queue", key, unlinkedSeen > 0 || pushedFalse > 0, int64(pushedTrue+pushedFalse)+pops, r, map[string]any{
		"limit": limit, "producers": producers, "per_producer": per, "push_true": pushedTrue, "push_false": pushedFalse, "pops": pops, "pop_empty_while_len_positive": unlinkedSeen,
	})
}

// sequential capacity: a queue with limit L holds exactly L items
func runQueueCapacity(limit int64) {
	id := fmt.Sprintf("Q/capacity/limit=%d", limit)
	if !hk.Want(id) {
		return
	}
	r := &result{}
	q := newQueue(limit)
	var events int64
	for round := 0; round < 3; round++ {
		for k := int64(0); k < limit; k++ {
			events++
			if !q.Push(mid{uint32(round), uint32(k)}) {
				r.fail("mailbox-full-reported-below-capacity", "queue limit %d: sequential Push #%d refused while Len()=%d", limit, k+1, q.Len())
			}
		}
		for k := 0; k < 2; k++ {
			events++
			if q.Push(mid{99, uint32(k)}) {
				r.fail("bounded-mailbox-accepts-beyond-size", "queue limit %d: sequential Push accepted while Len()=%d", limit, q.Len()-1)
			}
		}
		if q.Len() != limit && len(r.viol) == 0 {
			r.fail("mpsc-len-wrong", "queue limit %d: Len()=%d after filling", limit, q.Len())
		}
		n := int64(0)
		for {
			v, ok := q.Pop()
			if !ok {
				break
			}
			events++
			if m, _ := v.(mid); m.S == 99 {
				r.fail("mpsc-refused-item-popped", "refused item popped")
			}
			n++
		}
		if n != limit && len(r.viol) == 0 {
			r.fail("mpsc-lost-item", "queue limit %d: %d items popped after %d accepted pushes", limit, n, limit)
		}
		if q.Len() != 0 {
			r.fail("mpsc-len-nonzero-when-drained", "Len()=%d after drain", q.Len())
		}
	}
	finish(id, "queue", id, true, events, r, map[string]any{"limit": limit})
}

// directed: producer A parked between head swap and link; producer B pushes behind it
func runQueueDirected(limit int64) {
	id := fmt.Sprintf("Q/directed/swapped/limit=%d", limit)
	if !hk.Want(id) {
		return
	}
	r := &result{}
	q := newQueue(limit)
	g := hk.Park("mpsc.push.swapped", hk.Eq(any(q)), false)
	aDone := make(chan bool, 1)
	go func() { aDone <- q.Push(mid{1, 1}) }()
	fired := g.WaitArrived(5 * time.Second)
	var okB bool
	var events int64
	if !fired {
		r.incon = "gate: push.swapped never reached"
	} else {
		okB = q.Push(mid{2, 1})
		events++
		if limit == 1 && okB {
			r.fail("bounded-mailbox-accepts-beyond-size", "queue limit 1 accepted a second item while the first was counted")
		}
		if limit != 1 && !okB {
			r.fail("mailbox-full-reported-below-capacity", "queue limit %d refused the second item", limit)
		}
		if v, ok := q.Pop(); ok {
			// nothing is reachable yet: A has not linked its item
			r.fail("mpsc-pop-unlinked", "Pop returned %v while the first producer had not linked its item", v)
		}
		events++
	}
	g.Release()
	if g.TimedOut() {
		r.incon = "gate: released by deadline"
	}
	var okA bool
	select {
	case okA = <-aDone:
	case <-time.After(5 * time.Second):
		r.incon = "watchdog: producer did not return"
	}
	if r.incon == "" {
		var got []mid
		for {
			v, ok := q.Pop()
			if !ok {
				break
			}
			events++
			got = append(got, v.(mid))
		}
		want := []mid{{1, 1}}
		if okB {
			want = append(want, mid{2, 1})
		}
		if !okA {
			r.fail("mailbox-full-reported-below-capacity", "first push into an empty queue refused")
		} else if fmt.Sprint(got) != fmt.Sprint(want) {
			r.fail("mpsc-lost-item", "popped %v, want %v", got, want)
		}
		if q.Len() != 0 {
			r.fail("mpsc-len-nonzero-when-drained", "Len()=%d after drain", q.Len())
		}
	}
	finish(id, "queue", id, fired, events+2, r, map[string]any{"limit": limit, "second_push": okB})
}

func runAllQueue() {
	for _, l := range []int64{1, 2, 5, 64} {
		runQueueCapacity(l)
	}
	for _, l := range []int64{0, 1, 2, 5} {
		runQueueDirected(l)
	}
	reps := hk.Pick(1, 4)
	for rep := 0; rep < reps; rep++ {
		for _, l := range []int64{0, 1, 2, 5, 64} {
			for _, p := range []int{1, 2, 4, 8, 16} {
				runQueueStress(l, p, rep)
			}
		}
	}
}
