package main

import (
	"fmt"
	"sync"
	"sync/atomic"
	"time"

	"ergo.services/ergo/gen"

	"verif/harness/actors"
	"verif/harness/hk"
)

var prios = []gen.MessagePriority{gen.MessagePriorityNormal, gen.MessagePriorityHigh, gen.MessagePriorityMax}

// ---------------------------------------------------------------------------
// family I: a process sends to itself (by pid / by name) during Init or from a
// handler; decided before any other traffic reaches the process

type icase struct {
	size int64
	prio gen.MessagePriority
	by   string // pid | name
	fb   string // off | on | same
	when string // init | handler
}

type selfGo struct{ Done chan struct{} }

func runInit(ic icase) {
	id := fmt.Sprintf("I/%s/by=%s/%s/size=%d/fb=%s", ic.when, ic.by, prioName(ic.prio), ic.size, ic.fb)
	if !hk.Want(id) {
		return
	}
	c := newCtx(id)
	r := &result{}
	n := 3
	if ic.size > 0 {
		n = int(ic.size) + 2
	}
	tag := "tag/" + id
	var out []sres
	selfSends := func(p *actors.Probe) {
		c.setTarget(p.PID(), tag)
		for k := 0; k < n; k++ {
			mid := mid{1, uint32(k)}
			var to any = p.PID()
			if ic.by == "name" {
				to = p.Name()
			}
			err := p.SendWithPriority(to, payload{ID: mid}, ic.prio)
			out = append(out, sres{mid, err})
		}
	}
	h := hooksFor(c, "recv")
	msg0 := h.Msg
	if ic.when == "init" {
		h.Init = func(p *actors.Probe, args ...any) error { selfSends(p); return nil }
	}
	h.Msg = func(p *actors.Probe, from gen.PID, msg any) error {
		if g, ok := msg.(selfGo); ok {
			selfSends(p)
			close(g.Done)
			return nil
		}
		return msg0(p, from, msg)
	}
	var all []gen.PID
	var insts []*actors.Inst
	name := uniq("self")
	opts := gen.ProcessOptions{MailboxSize: ic.size}
	switch ic.fb {
	case "on":
		fbName := uniq("fb")
		fbPid, fbInst, err := spawnRole(c, "fb", id+"/fb", fbName, gen.ProcessOptions{})
		if err != nil {
			r.incon = "spawn fallback: " + err.Error()
			finish(id, "self-send", id, false, 0, r, nil)
			return
		}
		all = append(all, fbPid)
		insts = append(insts, fbInst)
		opts.Fallback = gen.ProcessFallback{Enable: true, Name: fbName, Tag: tag}
	case "same":
		opts.Fallback = gen.ProcessFallback{Enable: true, Name: name, Tag: tag}
	}
	f, inst := actors.NewProbe(id, h)
	pid, err := node.SpawnRegister(name, f, opts)
	if err != nil {
		r.incon = "spawn: " + err.Error()
		finish(id, "self-send", id, false, 0, r, nil)
		killAll(all...)
		return
	}
	all = append(all, pid)
	insts = append(insts, inst)
	if ic.when == "handler" {
		g := selfGo{Done: make(chan struct{})}
		if err := node.Send(pid, g); err != nil {
			r.incon = "trigger: " + err.Error()
		} else {
			select {
			case <-g.Done:
			case <-time.After(10 * time.Second):
				r.incon = "watchdog: trigger not handled"
			}
		}
	}
	// Init (or the handler) has returned: all sends returned; nothing else will ever be sent
	if r.incon == "" {
		applyQ(quiesce(all, nil, insts, 20*time.Second), r)
	}
	if r.incon != "" {
		finish(id, "self-send", id, false, 0, r, nil)
		killAll(all...)
		return
	}
	c.record(out)
	fbOn := ic.fb == "on" && ic.size > 0
	st := judge(c, omode{kind: "self", alive: true, fbExpected: fbOn, fbPossible: fbOn}, r)
	if r.sig == "fallback-not-delivered" && ic.by == "pid" {
		r.sig = "self-send-pid-ignores-fallback"
	}
	if ic.size == 0 && st.refused > 0 {
		r.fail("spurious-error/self", "self-send to an unbounded mailbox refused: %v", st.errs)
	}
	key := id
	if st.refused > 0 || st.viaFB > 0 {
		key += "/refusal"
	}
	finish(id, "self-send", key, st.accepted > 0, int64(st.sent+st.handled), r, map[string]any{
		"sent": st.sent, "accepted": st.accepted, "refused": st.refused, "handled": st.handled, "via_fallback": st.viaFB, "errors": st.errs,
	})
	killAll(all...)
}

// other senders address a process (by its registered name, and by its pid) while its Init is still running;
// whatever was accepted must be handled after Init without any later traffic
func runInitOthers(size int64, prio gen.MessagePriority, fb string) {
	id := fmt.Sprintf("I/others-during-init/%s/size=%d/fb=%s", prioName(prio), size, fb)
	if !hk.Want(id) {
		return
	}
	c := newCtx(id)
	r := &result{}
	tag := "tag/" + id
	entered := make(chan gen.PID, 1)
	release := make(chan struct{})
	h := hooksFor(c, "recv")
	h.Init = func(p *actors.Probe, args ...any) error {
		c.setTarget(p.PID(), tag)
		entered <- p.PID()
		<-release
		return nil
	}
	var all []gen.PID
	var insts []*actors.Inst
	name := uniq("slowinit")
	opts := gen.ProcessOptions{MailboxSize: size}
	if fb == "on" {
		fbName := uniq("fb")
		fbPid, fbInst, err := spawnRole(c, "fb", id+"/fb", fbName, gen.ProcessOptions{})
		if err != nil {
			r.incon = "spawn fallback: " + err.Error()
			finish(id, "self-send", id, false, 0, r, nil)
			return
		}
		all = append(all, fbPid)
		insts = append(insts, fbInst)
		opts.Fallback = gen.ProcessFallback{Enable: true, Name: fbName, Tag: tag}
	}
	f, inst := actors.NewProbe(id, h)
	insts = append(insts, inst)
	type spawned struct {
		pid gen.PID
		err error
	}
	sp := make(chan spawned, 1)
	go func() {
		pid, err := node.SpawnRegister(name, f, opts)
		sp <- spawned{pid, err}
	}()
	var pid gen.PID
	select {
	case pid = <-entered:
	case s := <-sp:
		r.incon = fmt.Sprintf("spawn returned before Init was entered: %v", s.err)
	case <-time.After(10 * time.Second):
		r.incon = "watchdog: Init not entered"
	}
	var out []sres
	n := 3
	if size > 0 {
		n = int(size) + 2
	}
	if r.incon == "" {
		// two concurrent senders by name, one by pid (not registered yet: must be refused and never handled)
		var wg sync.WaitGroup
		var mu sync.Mutex
		for s := 1; s <= 2; s++ {
			wg.Add(1)
			go func(s int) {
				defer wg.Done()
				for k := 0; k < n; k++ {
					m := mid{uint32(s), uint32(k)}
					err := node.SendWithPriority(name, payload{ID: m}, prio)
					mu.Lock()
					out = append(out, sres{m, err})
					mu.Unlock()
				}
			}(s)
		}
		wg.Add(1)
		go func() {
			defer wg.Done()
			for k := 0; k < 2; k++ {
				m := mid{3, uint32(k)}
				err := node.SendWithPriority(pid, payload{ID: m}, prio)
				mu.Lock()
				out = append(out, sres{m, err})
				mu.Unlock()
			}
		}()
		wg.Wait()
	}
	close(release)
	select {
	case s := <-sp:
		if s.err != nil && r.incon == "" {
			r.incon = "spawn: " + s.err.Error()
		}
		if s.err == nil {
			all = append(all, s.pid)
		}
	case <-time.After(10 * time.Second):
		if r.incon == "" {
			r.incon = "watchdog: spawn did not return"
		}
	}
	if r.incon == "" {
		applyQ(quiesce(all, nil, insts, 20*time.Second), r)
	}
	if r.incon != "" {
		finish(id, "self-send", id, false, 0, r, nil)
		killAll(all...)
		return
	}
	c.record(out)
	fbOn := fb == "on" && size > 0
	st := judge(c, omode{kind: "during-init", alive: true, fbExpected: false, fbPossible: fbOn}, r)
	key := id
	if st.refused > 0 || st.viaFB > 0 {
		key += "/refusal"
	}
	finish(id, "self-send", key, st.accepted > 0 && st.refused > 0, int64(st.sent+st.handled), r, map[string]any{
		"sent": st.sent, "accepted": st.accepted, "refused": st.refused, "handled": st.handled, "via_fallback": st.viaFB, "errors": st.errs,
	})
	killAll(all...)
}

func runAllInit() {
	for _, sz := range []int64{0, 1, 2, 5} {
		for _, p := range prios {
			runInitOthers(sz, p, "off")
			if sz > 0 {
				runInitOthers(sz, p, "on")
			}
		}
	}
	for _, when := range []string{"init", "handler"} {
		for _, by := range []string{"pid", "name"} {
			for _, sz := range []int64{0, 1, 2, 5, 64} {
				for _, p := range prios {
					fbs := []string{"off"}
					if sz > 0 {
						fbs = []string{"off", "on", "same"}
					}
					for _, fb := range fbs {
						runInit(icase{size: sz, prio: p, by: by, fb: fb, when: when})
					}
				}
			}
		}
	}
}

// ---------------------------------------------------------------------------
// family B: one sequential sender fills a bounded mailbox while the receiver
// is parked in a handler: exactly `size` sends are accepted by the receiver,
// the following ones are refused (or go to the fallback)

func runCapacity(size int64, prio gen.MessagePriority, addr string, fb string) {
	id := fmt.Sprintf("B/size=%d/%s/%s/fb=%s", size, prioName(prio), addr, fb)
	if !hk.Want(id) {
		return
	}
	c := newCtx(id)
	r := &result{}
	var all []gen.PID
	var insts []*actors.Inst
	opts := gen.ProcessOptions{MailboxSize: size}
	tag := "tag/" + id
	if fb == "on" {
		fbName := uniq("fb")
		fbPid, fbInst, err := spawnRole(c, "fb", id+"/fb", fbName, gen.ProcessOptions{})
		if err != nil {
			r.incon = "spawn fallback: " + err.Error()
			finish(id, "capacity", id, false, 0, r, nil)
			return
		}
		all = append(all, fbPid)
		insts = append(insts, fbInst)
		opts.Fallback = gen.ProcessFallback{Enable: true, Name: fbName, Tag: tag}
	}
	if fb == "missing" {
		// fallback enabled but nobody is registered under its name: the overflow can be delivered nowhere,
		// so a send beyond the capacity must report an error (judge: accepted => handled exactly once)
		opts.Fallback = gen.ProcessFallback{Enable: true, Name: uniq("nofb"), Tag: tag}
	}
	rc, err := spawnRecv(c, id, opts, setup{Alias: true})
	if err != nil {
		r.incon = "spawn receiver: " + err.Error()
		finish(id, "capacity", id, false, 0, r, nil)
		killAll(all...)
		return
	}
	all = append(all, rc.pid)
	insts = append(insts, rc.inst)
	c.setTarget(rc.pid, tag)
	b := block{Entered: make(chan struct{}), Release: make(chan struct{})}
	node.Send(rc.pid, b)
	select {
	case <-b.Entered:
	case <-time.After(10 * time.Second):
		r.incon = "watchdog: handler never entered"
	}
	var to any = rc.pid
	switch addr {
	case "name":
		to = rc.name
	case "alias":
		to = rc.alias
	}
	extra := 3
	var out []sres
	if r.incon == "" {
		for k := 0; k < int(size)+extra; k++ {
			m := mid{1, uint32(k)}
			err := node.SendWithPriority(to, payload{ID: m}, prio)
			out = append(out, sres{m, err})
			if int64(k) < size && err != nil {
				r.fail("mailbox-full-reported-below-capacity", "sequential send #%d to a mailbox of size %d holding %d messages returned %q", k+1, size, k, err)
			}
			if int64(k) >= size && fb == "off" && err == nil {
				r.fail("bounded-mailbox-accepts-beyond-size", "sequential send #%d to a mailbox of size %d (receiver parked, nothing popped) was accepted", k+1, size)
			}
		}
	}
	close(b.Release)
	c.record(out)
	if r.incon == "" {
		applyQ(quiesce(all, nil, insts, 20*time.Second), r)
	}
	if r.incon != "" {
		finish(id, "capacity", id, false, 0, r, nil)
		killAll(all...)
		return
	}
	st := judge(c, omode{kind: "message", alive: true, fbExpected: fb == "on", fbPossible: fb == "on"}, r)
	if r.incon == "" && len(r.viol) == 0 {
		direct := st.handled - st.viaFB
		if int64(direct) != size {
			r.fail("bounded-mailbox-capacity", "mailbox of size %d accepted %d of %d sequential sends", size, direct, st.sent)
		}
		if fb == "on" && st.viaFB != extra {
			r.fail("fallback-not-delivered", "%d sends beyond the capacity, %d delivered to the fallback", extra, st.viaFB)
		}
	}
	finish(id, "capacity", id, st.sent > 0, int64(st.sent+st.handled), r, map[string]any{
		"size": size, "sent": st.sent, "accepted": st.accepted, "refused": st.refused, "handled_direct": st.handled - st.viaFB, "via_fallback": st.viaFB, "errors": st.errs,
	})
	killAll(all...)
}

func runAllCapacity() {
	for _, sz := range []int64{1, 2, 5, 64} {
		for _, p := range prios {
			for _, addr := range []string{"pid", "name", "alias"} {
				for _, fb := range []string{"off", "on", "missing"} {
					runCapacity(sz, p, addr, fb)
				}
			}
		}
	}
}

// ---------------------------------------------------------------------------
// family G: configuration grid under seeded stress

type cell struct {
	kind    string // message request event exit metamsg metacall
	addr    string // pid name alias (message, request) ; "-" otherwise
	prio    gen.MessagePriority
	size    int64
	fb      string // off on same
	senders int
	rep     int
}

func (cl cell) id() string {
	return fmt.Sprintf("G/%s/%s/%s/size=%d/fb=%s/s=%d/rep=%d", cl.kind, cl.addr, prioName(cl.prio), cl.size, cl.fb, cl.senders, cl.rep)
}

func allCells() []cell {
	var cs []cell
	sizes := []int64{0, 1, 2, 5, 64}
	snd := []int{1, 2, 4, 8, 16}
	for _, sz := range sizes {
		for _, s := range snd {
			for _, p := range prios {
				for _, addr := range []string{"pid", "name", "alias"} {
					for _, fb := range []string{"off", "on", "same"} {
						cs = append(cs, cell{kind: "message", addr: addr, prio: p, size: sz, fb: fb, senders: s})
					}
					for _, fb := range []string{"off", "on"} {
						cs = append(cs, cell{kind: "request", addr: addr, prio: p, size: sz, fb: fb, senders: s})
					}
				}
				cs = append(cs, cell{kind: "event", addr: "-", prio: p, size: sz, fb: "off", senders: s})
			}
			for _, fb := range []string{"off", "on"} {
				cs = append(cs, cell{kind: "exit", addr: "-", size: sz, fb: fb, senders: s})
			}
			cs = append(cs, cell{kind: "log", addr: "-", size: sz, fb: "off", senders: s})
			cs = append(cs, cell{kind: "viameta", addr: "-", size: sz, fb: "off", senders: s})
			cs = append(cs, cell{kind: "metamsg", addr: "alias", size: sz, fb: "off", senders: s})
			cs = append(cs, cell{kind: "metacall", addr: "alias", size: sz, fb: "off", senders: s})
		}
	}
	return cs
}

var stressProbs = map[string]float64{
	"proc.run.wake": 0.05, "proc.run.tosleep": 0.2, "proc.run.recheck": 0.3, "proc.run.reacquire": 0.3,
	"proc.run.enter": 0.05, "mpsc.push.swapped": 0.03, "mpsc.push.swap": 0.01,
	"meta.tosleep": 0.2, "meta.recheck": 0.3, "meta.reacquire": 0.3, "meta.wake": 0.05, "meta.enter": 0.05,
}

func runCell(cl cell, budget int) {
	id := cl.id()
	if !hk.Want(id) {
		return
	}
	rng := hk.Rng("c02", id)
	c := newCtx(id)
	r := &result{}
	var all []gen.PID
	var insts []*actors.Inst
	var metas []gen.Alias
	isMeta := cl.kind == "metamsg" || cl.kind == "metacall"
	tag := "tag/" + id
	fail := func(what string, err error) {
		r.incon = what + ": " + err.Error()
		finish(id, "grid", id, false, 0, r, nil)
		killAll(all...)
	}
	opts := gen.ProcessOptions{MailboxSize: cl.size}
	switch cl.fb {
	case "on":
		fbName := uniq("fb")
		fbPid, fbInst, err := spawnRole(c, "fb", id+"/fb", fbName, gen.ProcessOptions{})
		if err != nil {
			fail("spawn fallback", err)
			return
		}
		all = append(all, fbPid)
		insts = append(insts, fbInst)
		opts.Fallback = gen.ProcessFallback{Enable: true, Name: fbName, Tag: tag}
	case "same":
		opts.Fallback = gen.ProcessFallback{Enable: true, Name: "@self", Tag: tag}
	}
	var evName gen.Atom
	var token gen.Ref
	su := setup{Alias: true, Trap: true}
	if cl.kind == "event" {
		evName = uniq("ev")
		tok, err := node.RegisterEvent(evName, gen.EventOptions{})
		if err != nil {
			fail("register event", err)
			return
		}
		token = tok
		su.Event = gen.Event{Name: evName, Node: node.Name()}
		defer node.UnregisterEvent(evName)
	}
	if isMeta {
		opts = gen.ProcessOptions{}
	}
	rc, err := spawnRecv(c, id, opts, su)
	if err != nil {
		fail("spawn receiver", err)
		return
	}
	all = append(all, rc.pid)
	insts = append(insts, rc.inst)
	c.setTarget(rc.pid, tag)
	if cl.kind == "log" {
		if err := node.LoggerAddPID(rc.pid, string(rc.name)); err != nil {
			fail("logger add", err)
			return
		}
		defer node.LoggerDeletePID(rc.pid)
	}
	var to any = rc.pid
	switch cl.addr {
	case "name":
		to = rc.name
	case "alias":
		to = rc.alias
	}
	var subject any = rc.pid
	var m *actors.Meta
	if isMeta || cl.kind == "viameta" {
		m = actors.NewMeta(id, metaHooksFor(c))
		ch := make(chan gen.Alias, 1)
		mopt := gen.MetaOptions{MailboxSize: cl.size}
		if cl.kind == "viameta" {
			mopt = gen.MetaOptions{} // the relaying meta process is unbounded; the bounded mailbox is the parent's
		}
		node.Send(rc.pid, spawnMeta{M: m, Opt: mopt, Done: ch})
		select {
		case a, ok := <-ch:
			if !ok {
				fail("spawn meta", fmt.Errorf("refused"))
				return
			}
			to = a
			if isMeta {
				subject = a
			}
			metas = append(metas, a)
			insts = append(insts, m.I)
		case <-time.After(5 * time.Second):
			fail("spawn meta", fmt.Errorf("timeout"))
			return
		}
		<-m.Started
		defer close(m.Stop)
	}

	// hooks: count sleep transitions raced by a send
	var raced atomic.Int64
	pre := "proc.run."
	if isMeta {
		pre = "meta."
	}
	cancel1 := hk.Observe(pre+"reacquire", hk.Eq(subject), func(string, any) { raced.Add(1) })
	cancel2 := hk.Observe(pre+"enter", hk.Eq(subject), func(_ string, s any) {
		if hk.LiveRunners(s) > 1 {
			raced.Add(1)
		}
	})
	defer cancel1()
	defer cancel2()

	per := budget / cl.senders
	if per < 8 {
		per = 8
	}
	kind := cl.kind
	switch kind {
	case "metamsg":
		kind = "message"
	case "metacall":
		kind = "request"
	}
	maxSpin := []int{0, 3, 20}[rng.Intn(3)]
	maxSleep := time.Duration(30+rng.Intn(300)) * time.Microsecond
	helpEvery := 0
	if !isMeta && cl.kind != "log" && cl.kind != "exit" && rng.Intn(3) == 0 {
		// the receiver itself makes calls (state WaitResponse) while senders push and try to wake it
		hp, hinst, err := spawnRole(c, "helper", id+"/helper", "", gen.ProcessOptions{})
		if err != nil {
			fail("spawn helper", err)
			return
		}
		c.helper = hp
		all = append(all, hp)
		insts = append(insts, hinst)
		helpEvery = 4 + rng.Intn(12)
	}
	var cmds []*sendCmd
	var senderPids []gen.PID
	for s := 0; s < cl.senders; s++ {
		cmd := &sendCmd{Kind: kind, To: to, Prio: cl.prio, S: uint32(s + 1), N: per, Pace: rng.Int63() | 1, MaxSpin: maxSpin, CallTimeout: 2, HelpEvery: helpEvery,
			EvName: evName, EvToken: token, Done: make(chan struct{})}
		if kind == "exit" || kind == "event" {
			cmd.To = rc.pid
		}
		cmds = append(cmds, cmd)
	}
	// sender actors first (spawned before the stress starts)
	useProc := func(s int) bool { return kind == "request" || kind == "exit" || s%2 == 1 }
	procOf := map[int]gen.PID{}
	for s := range cmds {
		if useProc(s) {
			pid, inst, err := spawnRole(c, "sender", fmt.Sprintf("%s/sender%d", id, s), "", gen.ProcessOptions{})
			if err != nil {
				fail("spawn sender", err)
				return
			}
			procOf[s] = pid
			senderPids = append(senderPids, pid)
			all = append(all, pid)
			insts = append(insts, inst)
		}
	}
	hk.Stress(id, stressProbs, maxSleep)
	for s, cmd := range cmds {
		if pid, ok := procOf[s]; ok {
			if err := node.Send(pid, cmd); err != nil {
				r.incon = "command sender: " + err.Error()
				close(cmd.Done)
			}
		} else {
			go runSends(nodeAPI{}, cmd)
		}
	}
	for _, cmd := range cmds {
		select {
		case <-cmd.Done:
			c.record(cmd.Out)
			if cmd.Harness != "" && r.incon == "" {
				r.incon = cmd.Harness
			}
		case <-time.After(90 * time.Second):
			if r.incon == "" {
				r.incon = "watchdog: a sender did not finish"
			}
		}
	}
	if r.incon == "" {
		applyQ(quiesce(all, metas, insts, 30*time.Second), r)
	}
	hk.StressOff()

	if r.incon != "" && len(r.viol) == 0 {
		// the send log is incomplete: nothing can be compared
		finish(id, "grid", id, false, 0, r, nil)
		killAll(all...)
		return
	}
	fbOn := cl.fb == "on" && cl.size > 0 && cl.kind == "message"
	st := judge(c, omode{kind: cl.kind, alive: true, fbExpected: fbOn, fbPossible: fbOn, atMostOnce: (cl.kind == "event" || cl.kind == "log") && cl.size > 0 && !strictBroadcast}, r)
	if cl.size == 0 && st.refused > 0 {
		r.fail("spurious-error/"+cl.kind, "send to a live receiver with an unbounded mailbox refused: %v", st.errs)
	}
	if cl.kind == "event" && cl.size > 0 {
		hk.Stat("event_dropped_on_full_mailbox", int64(st.unhandledAccepted))
	}
	if cl.kind == "log" && cl.size > 0 {
		hk.Stat("log_dropped_on_full_mailbox", int64(st.unhandledAccepted))
	}
	hk.Stat("grid_sends", int64(st.sent))
	hk.Stat("grid_refused", int64(st.refused))
	hk.Stat("grid_via_fallback", int64(st.viaFB))
	hk.Stat("grid_raced_sleep_transitions", raced.Load())
	rc0 := raced.Load() > 0
	refused := st.refused > 0 || st.viaFB > 0
	key := fmt.Sprintf("G/%s/%s/%s/size=%d/fb=%s/s=%d/raced=%v/refused=%v", cl.kind, cl.addr, prioName(cl.prio), cl.size, cl.fb, cl.senders, rc0, refused)
	finish(id, "grid", key, rc0 || refused, int64(st.sent+st.handled), r, map[string]any{
		"cell": id, "per_sender": per, "receiver_calls_helper_every": helpEvery, "max_spin_us": maxSpin, "max_yield_sleep": maxSleep.String(),
		"sent": st.sent, "accepted": st.accepted, "refused": st.refused, "handled": st.handled, "via_fallback": st.viaFB,
		"raced_sleep_transitions": raced.Load(), "errors": st.errs, "unhandled_accepted": st.unhandledAccepted,
	})
	killAll(all...)
}

func runAllGrid() {
	cells := allCells()
	budget := hk.Pick(600, 2000)
	if hk.Thorough() {
		reps := 4
		for rep := 0; rep < reps; rep++ {
			for _, cl := range cells {
				cl.rep = rep
				runCell(cl, budget)
			}
		}
		return
	}
	// quick: every cell once, in a seeded order
	rng := hk.Rng("c02", "grid-order")
	rng.Shuffle(len(cells), func(i, j int) { cells[i], cells[j] = cells[j], cells[i] })
	for _, cl := range cells {
		runCell(cl, budget)
	}
}

// ---------------------------------------------------------------------------
// family T: receivers that terminate mid-stream: at most once, refused => never

type tcase struct {
	kind string
	addr string
	how  string // kill | error
	size int64
	rep  int
}

func runTerm(tc tcase) {
	id := fmt.Sprintf("T/%s/%s/%s/size=%d/rep=%d", tc.kind, tc.addr, tc.how, tc.size, tc.rep)
	if !hk.Want(id) {
		return
	}
	rng := hk.Rng("c02", id)
	c := newCtx(id)
	r := &result{}
	senders := 4
	per := 150
	threshold := int64(20 + rng.Intn(200))
	if tc.size > 0 {
		threshold = int64(5 + rng.Intn(25))
	}
	if tc.how == "error" {
		c.failAt = threshold
	}
	var all []gen.PID
	var insts []*actors.Inst
	su := setup{Alias: true, Trap: true}
	var evName gen.Atom
	var token gen.Ref
	if tc.kind == "event" {
		evName = uniq("ev")
		tok, err := node.RegisterEvent(evName, gen.EventOptions{})
		if err != nil {
			r.incon = "register event: " + err.Error()
			finish(id, "terminate", id, false, 0, r, nil)
			return
		}
		token = tok
		su.Event = gen.Event{Name: evName, Node: node.Name()}
		defer node.UnregisterEvent(evName)
	}
	rc, err := spawnRecv(c, id, gen.ProcessOptions{MailboxSize: tc.size}, su)
	if err != nil {
		r.incon = "spawn receiver: " + err.Error()
		finish(id, "terminate", id, false, 0, r, nil)
		return
	}
	all = append(all, rc.pid)
	insts = append(insts, rc.inst)
	var to any = rc.pid
	switch tc.addr {
	case "name":
		to = rc.name
	case "alias":
		to = rc.alias
	}
	var cmds []*sendCmd
	procOf := map[int]gen.PID{}
	for s := 0; s < senders; s++ {
		cmd := &sendCmd{Kind: tc.kind, To: to, S: uint32(s + 1), N: per, Pace: rng.Int63() | 1, MaxSpin: 5, CallTimeout: 1,
			EvName: evName, EvToken: token, Done: make(chan struct{})}
		if tc.kind == "exit" || tc.kind == "event" {
			cmd.To = rc.pid
		}
		cmds = append(cmds, cmd)
		if tc.kind == "request" || tc.kind == "exit" || s%2 == 1 {
			pid, inst, err := spawnRole(c, "sender", fmt.Sprintf("%s/sender%d", id, s), "", gen.ProcessOptions{})
			if err != nil {
				r.incon = "spawn sender: " + err.Error()
				finish(id, "terminate", id, false, 0, r, nil)
				killAll(all...)
				return
			}
			procOf[s] = pid
			all = append(all, pid)
			insts = append(insts, inst)
		}
	}
	hk.Stress(id, map[string]float64{
		"proc.run.wake": 0.5, "meta.wake": 0.5, // between a sender's push and its return
		"proc.run.tosleep": 0.2, "proc.run.recheck": 0.2, "proc.run.term.err": 0.5, "proc.run.term.kill": 0.5,
		"proc.kill.zombie": 0.5, "proc.kill.term": 0.5, "proc.unreg.deleted": 0.5, "proc.unreg.name": 0.5, "proc.unreg.alias": 0.5, "mpsc.push.swapped": 0.02,
	}, 200*time.Microsecond)
	for s, cmd := range cmds {
		if pid, ok := procOf[s]; ok {
			node.Send(pid, cmd)
		} else {
			go runSends(nodeAPI{}, cmd)
		}
	}
	if tc.how == "kill" {
		hk.WaitUntil(20*time.Second, func() bool {
			if c.handled.Load() >= threshold {
				return true
			}
			for _, cmd := range cmds {
				if !isDone(cmd) {
					return false
				}
			}
			return true
		})
		node.Kill(rc.pid)
	}
	for _, cmd := range cmds {
		select {
		case <-cmd.Done:
			c.record(cmd.Out)
		case <-time.After(90 * time.Second):
			if r.incon == "" {
				r.incon = "watchdog: a sender did not finish"
			}
		}
	}
	hk.StressOff()
	if r.incon == "" {
		q := quiesce(all, nil, insts, 30*time.Second)
		if !q.ok && q.witness == "" {
			r.incon = "watchdog: no quiescence (" + q.state + ")"
		}
		// a receiver that terminated may leave messages in its mailbox: no witness here
	}
	if r.incon != "" {
		finish(id, "terminate", id, false, 0, r, nil)
		killAll(all...)
		return
	}
	_, gone := node.ProcessInfo(rc.pid)
	st := judge(c, omode{kind: tc.kind, alive: false}, r)
	midStream := gone != nil && st.handled > 0 && (st.refused > 0 || st.unhandledAccepted > 0)
	key := fmt.Sprintf("T/%s/%s/%s/size=%d/mid=%v", tc.kind, tc.addr, tc.how, tc.size, midStream)
	finish(id, "terminate", key, midStream, int64(st.sent+st.handled), r, map[string]any{
		"sent": st.sent, "accepted": st.accepted, "refused": st.refused, "handled": st.handled, "accepted_not_handled": st.unhandledAccepted, "errors": st.errs, "terminated": gone != nil,
	})
	killAll(all...)
}

func runAllTerm() {
	reps := hk.Pick(4, 16)
	for rep := 0; rep < reps; rep++ {
		for _, how := range []string{"kill", "error"} {
			for _, sz := range []int64{0, 5} {
				for _, addr := range []string{"pid", "name", "alias"} {
					runTerm(tcase{kind: "message", addr: addr, how: how, size: sz, rep: rep})
				}
				runTerm(tcase{kind: "request", addr: "pid", how: how, size: sz, rep: rep})
				runTerm(tcase{kind: "event", addr: "-", how: how, size: sz, rep: rep})
				runTerm(tcase{kind: "exit", addr: "-", how: how, size: sz, rep: rep})
			}
		}
	}
}
