package main

import (
	"sync"

	"ergo.services/ergo/act"
	"ergo.services/ergo/gen"

	"verif/harness/actors"
)

type instSet struct {
	mu sync.Mutex
	l  []*actors.Inst
}

func (s *instSet) add(i *actors.Inst) {
	s.mu.Lock()
	s.l = append(s.l, i)
	s.mu.Unlock()
}

func (s *instSet) list() []*actors.Inst {
	if s == nil {
		return nil
	}
	s.mu.Lock()
	defer s.mu.Unlock()
	return append([]*actors.Inst(nil), s.l...)
}

// onMsg is the message behaviour shared by every instrumented process of this
// monitor (receivers of all kinds, sender processes, helpers, the spawner)
func onMsg(p gen.Process, msg any) error {
	switch m := msg.(type) {
	case tok:
		spin(m.Sp)
	case *blockCmd:
		if m.Self != nil {
			procExec(p, m.T, m.Self)
			close(m.Self.done)
		}
		close(m.Entered)
		<-m.Release
	case *setupCmd:
		var res setupRes
		if m.Name != "" {
			if err := p.RegisterName(m.Name); err != nil {
				res.Err = "register name: " + err.Error()
			}
		}
		a, err := p.CreateAlias()
		if err != nil {
			res.Err = "create alias: " + err.Error()
		}
		res.Alias = a
		res.MB = p.Mailbox()
		if m.Event.Name != "" {
			if _, err := p.MonitorEvent(m.Event); err != nil {
				res.Err = "monitor event: " + err.Error()
			}
		}
		for _, h := range m.Monitor {
			if err := p.MonitorPID(h); err != nil {
				res.Err = "monitor: " + err.Error()
			}
		}
		m.Done <- res
	case *scriptCmd:
		procExec(p, m.T, m.S)
		close(m.S.done)
	case dieCmd:
		return gen.TerminateReasonNormal
	case *spawnCmd:
		var r spawnRes
		if m.Name != "" {
			r.PID, r.Err = p.SpawnRegister(m.Name, m.F, m.Opts)
		} else {
			r.PID, r.Err = p.Spawn(m.F, m.Opts)
		}
		m.Done <- r
	case *spawnMetaCmd:
		var r spawnMetaRes
		r.Alias, r.Err = p.SpawnMeta(m.M, gen.MetaOptions{})
		m.Done <- r
	}
	return nil
}

func onCall(req any) (any, error) {
	if t, ok := req.(tok); ok {
		spin(t.Sp)
	}
	return "ok", nil
}

func probeHooks(trap, split bool) *actors.Hooks {
	return &actors.Hooks{
		Init: func(p *actors.Probe, args ...any) error {
			p.SetTrapExit(trap)
			p.SetSplitHandle(split)
			return nil
		},
		Msg:  func(p *actors.Probe, from gen.PID, msg any) error { return onMsg(p.Process, msg) },
		Call: func(p *actors.Probe, from gen.PID, ref gen.Ref, req any) (any, error) { return onCall(req) },
	}
}

// ---------------------------------------------------------------------------
// instrumented act.Supervisor

type supProbe struct {
	act.Supervisor
	I     *actors.Inst
	child gen.ProcessFactory
	cname gen.Atom
}

func (s *supProbe) Init(args ...any) (act.SupervisorSpec, error) {
	x := s.I.Enter("init")
	defer s.I.Exit(x)
	s.I.PID = s.PID()
	return act.SupervisorSpec{
		Type:     act.SupervisorTypeOneForOne,
		Children: []act.SupervisorChildSpec{{Name: s.cname, Factory: s.child}},
		Restart:  act.SupervisorRestart{Strategy: act.SupervisorStrategyTransient, Intensity: 5, Period: 5},
	}, nil
}

func (s *supProbe) HandleMessage(from gen.PID, message any) error {
	x := s.I.Enter("msg")
	defer s.I.Exit(x)
	s.I.Set(x, func(e *actors.Ev) { e.From = from; e.Msg = message })
	return onMsg(s.Process, message)
}

func (s *supProbe) HandleCall(from gen.PID, ref gen.Ref, request any) (any, error) {
	x := s.I.Enter("call")
	defer s.I.Exit(x)
	s.I.Set(x, func(e *actors.Ev) { e.From = from; e.Msg = request; e.Ref = ref })
	return onCall(request)
}

func (s *supProbe) HandleEvent(ev gen.MessageEvent) error {
	x := s.I.Enter("event")
	defer s.I.Exit(x)
	s.I.Set(x, func(e *actors.Ev) { e.Msg = ev })
	return nil
}

func (s *supProbe) HandleInspect(from gen.PID, item ...string) map[string]string {
	x := s.I.Enter("inspect")
	defer s.I.Exit(x)
	s.I.Set(x, func(e *actors.Ev) { e.From = from; e.Msg = item })
	return map[string]string{"sup": s.I.Label}
}

func (s *supProbe) Terminate(reason error) {
	x := s.I.Enter("terminate")
	defer s.I.Exit(x)
	s.I.Set(x, func(e *actors.Ev) { e.Err = reason })
}

// ---------------------------------------------------------------------------
// instrumented act.Pool

type poolProbe struct {
	act.Pool
	I      *actors.Inst
	worker gen.ProcessFactory
	size   int64
}

func (p *poolProbe) Init(args ...any) (act.PoolOptions, error) {
	x := p.I.Enter("init")
	defer p.I.Exit(x)
	p.I.PID = p.PID()
	return act.PoolOptions{PoolSize: p.size, WorkerFactory: p.worker}, nil
}

func (p *poolProbe) HandleMessage(from gen.PID, message any) error {
	x := p.I.Enter("msg")
	defer p.I.Exit(x)
	p.I.Set(x, func(e *actors.Ev) { e.From = from; e.Msg = message })
	return onMsg(p.Process, message)
}

func (p *poolProbe) HandleCall(from gen.PID, ref gen.Ref, request any) (any, error) {
	x := p.I.Enter("call")
	defer p.I.Exit(x)
	p.I.Set(x, func(e *actors.Ev) { e.From = from; e.Msg = request; e.Ref = ref })
	return onCall(request)
}

func (p *poolProbe) HandleEvent(ev gen.MessageEvent) error {
	x := p.I.Enter("event")
	defer p.I.Exit(x)
	p.I.Set(x, func(e *actors.Ev) { e.Msg = ev })
	return nil
}

func (p *poolProbe) HandleInspect(from gen.PID, item ...string) map[string]string {
	x := p.I.Enter("inspect")
	defer p.I.Exit(x)
	p.I.Set(x, func(e *actors.Ev) { e.From = from; e.Msg = item })
	return map[string]string{"pool": p.I.Label}
}

func (p *poolProbe) Terminate(reason error) {
	x := p.I.Enter("terminate")
	defer p.I.Exit(x)
	p.I.Set(x, func(e *actors.Ev) { e.Err = reason })
}

// ---------------------------------------------------------------------------
// instrumented meta process (records inspect items, which actors.Meta does not)

type metaProbe struct {
	gen.MetaProcess
	I       *actors.Inst
	Stop    chan struct{}
	Started chan struct{}
	once    sync.Once
}

func newMetaProbe(label string) *metaProbe {
	return &metaProbe{I: &actors.Inst{Label: label}, Stop: make(chan struct{}), Started: make(chan struct{})}
}

func (m *metaProbe) Init(p gen.MetaProcess) error {
	x := m.I.Enter("init")
	defer m.I.Exit(x)
	m.MetaProcess = p
	m.I.Alias = p.ID()
	return nil
}

func (m *metaProbe) Start() error {
	m.once.Do(func() { close(m.Started) })
	<-m.Stop
	return nil
}

func (m *metaProbe) HandleMessage(from gen.PID, message any) error {
	x := m.I.Enter("msg")
	defer m.I.Exit(x)
	m.I.Set(x, func(e *actors.Ev) { e.From = from; e.Msg = message })
	switch c := message.(type) {
	case tok:
		spin(c.Sp)
	case *blockCmd:
		close(c.Entered)
		<-c.Release
	}
	return nil
}

func (m *metaProbe) HandleCall(from gen.PID, ref gen.Ref, request any) (any, error) {
	x := m.I.Enter("call")
	defer m.I.Exit(x)
	m.I.Set(x, func(e *actors.Ev) { e.From = from; e.Msg = request; e.Ref = ref })
	return onCall(request)
}

func (m *metaProbe) HandleInspect(from gen.PID, item ...string) map[string]string {
	x := m.I.Enter("inspect")
	defer m.I.Exit(x)
	m.I.Set(x, func(e *actors.Ev) { e.From = from; e.Msg = item })
	return map[string]string{"meta": m.I.Label}
}

func (m *metaProbe) Terminate(reason error) {
	x := m.I.Enter("terminate")
	defer m.I.Exit(x)
	m.I.Set(x, func(e *actors.Ev) { e.Err = reason })
}
