package main

import (
	"fmt"
	"math/rand"
	"strconv"
	"sync/atomic"
	"time"

	"ergo.services/ergo/gen"

	"verif/harness/actors"
	"verif/harness/hk"
)

// priority classes in the order the dequeue loop must honour
const (
	clsU = iota // Urgent: Max priority, exit signals, inspect requests
	clsS        // System: High priority, down notifications
	clsM        // Main: Normal priority
	clsL        // Log
)

const clsLetters = "USML"
const logFmt = "c03tok %v"

// tok is the identity every harness message carries: sender index, class and the
// sequence number within (sender, class) in the sender's program order.
type tok struct {
	N  uint64 // case nonce
	S  int    // sender index within the case
	C  int    // class
	Q  int    // 1,2,3.. per (S,C) in send order
	K  string // send call exit inspect down log exitmeta
	A  string // addressing mode
	Sp int    // busy microseconds in the handler
}

func (t tok) String() string {
	if t.Q == 0 {
		return "<" + t.K + ">"
	}
	return fmt.Sprintf("%c:s%d#%d(%s/%s)", clsLetters[t.C], t.S, t.Q, t.K, t.A)
}

func (t tok) blockingKind() bool { return t.K == "call" || t.K == "plaincall" || t.K == "inspect" }

type tokErr struct{ T tok }

func (e tokErr) Error() string { return "c03-exit " + e.T.String() }

func (t tok) items() []string {
	return []string{"c03", strconv.FormatUint(t.N, 10), strconv.Itoa(t.S), strconv.Itoa(t.C), strconv.Itoa(t.Q)}
}

func tokFromItems(it []string) (tok, bool) {
	if len(it) != 5 || it[0] != "c03" {
		return tok{}, false
	}
	n, e0 := strconv.ParseUint(it[1], 10, 64)
	s, e1 := strconv.Atoi(it[2])
	c, e2 := strconv.Atoi(it[3])
	q, e3 := strconv.Atoi(it[4])
	if e0 != nil || e1 != nil || e2 != nil || e3 != nil {
		return tok{}, false
	}
	return tok{N: n, S: s, C: c, Q: q, K: "inspect", A: "pid"}, true
}

// op is one step of a sender script
type op struct {
	Kind string // send call event exit inspect log kill die exitmeta
	Prio gen.MessagePriority
	Addr int // 0 pid, 1 name (atom), 2 alias, 3 ProcessID
	H    int // helper index (kill, die)
	T    tok // token of the message (kill/die: the token of the helper's down message)
	// Plain: the sender uses plain Send/Call, i.e. asks for its configured SendPriority
	// (Prio then holds the priority configured at that point of the script)
	Plain bool
	Bad   int // failsend/failcall/failimportant: which unreachable target
}

// noToken: ops that deliver nothing to the receiver. They only exercise the sender's
// per-process send state (priority / important flag save-and-restore around a failing
// send, SetSendPriority) between its ordinary sends.
func (o op) noToken() bool {
	switch o.Kind {
	case "failsend", "failcall", "failimportant", "setprio":
		return true
	}
	return false
}

// badTarget is a destination every send to which fails immediately
type badTarget struct {
	Name string
	To   any
}

var bads []badTarget

var addrNames = []string{"pid", "name", "alias", "processid"}

func (o op) blocking() bool { return o.Kind == "call" || o.Kind == "inspect" }

// rec is what a sender knows about one of its sends: logical clock before the
// call and after it returned (0 = not returned / unknown)
type rec struct {
	T    tok
	T0   int64
	T1   int64
	Err  string
	Down bool // T1 must be taken from the helper's terminate callback
	H    int
}

type sender struct {
	Idx  int
	Kind string // go proc self helper
	Base gen.MessagePriority
	Ops  []op

	recs []rec
	odd  []string     // failing ops that did not fail
	cur  atomic.Int32 // index of the op in progress; len(Ops) when finished
	done chan struct{}
	pid  gen.PID
	inst *actors.Inst
}

type helper struct {
	pid  gen.PID
	inst *actors.Inst
	tok  tok
	used bool
}

// target is the receiver under observation
type target struct {
	kind    string // actor sup pool meta
	pid     gen.PID
	name    gen.Atom
	alias   gen.Alias
	mb      gen.ProcessMailbox
	main    *actors.Inst
	workers *instSet // pool workers
	child   *instSet // supervisor children
	helpers []*helper
	logger  string
	event   gen.Atom // event registered by the node; the receiver monitors it
	evToken gen.Ref
	nonce   uint64
	pids    []gen.PID // everything to kill at the end
}

func (t *target) addr(a int) any {
	if t.kind == "meta" {
		return t.alias
	}
	switch a {
	case 1:
		return t.name
	case 2:
		return t.alias
	case 3:
		return gen.ProcessID{Name: t.name, Node: node.Name()}
	}
	return t.pid
}

// control messages
type blockCmd struct {
	Entered chan struct{}
	Release chan struct{}
	Self    *sender
	T       *target
}

type setupCmd struct {
	Event   gen.Event
	Name    gen.Atom
	Monitor []gen.PID
	Done    chan setupRes
}

type setupRes struct {
	Alias gen.Alias
	MB    gen.ProcessMailbox
	Err   string
}

type scriptCmd struct {
	T   *target
	S   *sender
	Tok tok // K=="ctl": identity of this control message in the receiver's own queue
}

type dieCmd struct{}

type spawnCmd struct {
	F    gen.ProcessFactory
	Opts gen.ProcessOptions
	Name gen.Atom
	Done chan spawnRes
}

type spawnRes struct {
	PID gen.PID
	Err error
}

type spawnMetaCmd struct {
	M    gen.MetaBehavior
	Done chan spawnMetaRes
}

type spawnMetaRes struct {
	Alias gen.Alias
	Err   error
}

func spin(us int) {
	if us <= 0 {
		return
	}
	t := time.Now()
	for time.Since(t) < time.Duration(us)*time.Microsecond {
	}
}

func errStr(err error) string {
	if err == nil {
		return ""
	}
	return err.Error()
}

// goExec runs a script through the node API from a plain goroutine
func goExec(t *target, s *sender) {
	for i, o := range s.Ops {
		s.cur.Store(int32(i))
		r := rec{T: o.T}
		var err error
		r.T0 = hk.Tick()
		switch o.Kind {
		case "send":
			if o.Prio == gen.MessagePriorityNormal && o.T.Q%2 == 0 {
				err = node.Send(t.addr(o.Addr), o.T)
			} else {
				err = node.SendWithPriority(t.addr(o.Addr), o.T, o.Prio)
			}
		case "exit":
			err = node.SendExit(t.pid, tokErr{o.T})
		case "event":
			err = node.SendEvent(t.event, t.evToken, gen.MessageOptions{Priority: o.Prio}, o.T)
		case "log":
			node.Log().Info(logFmt, o.T)
		case "kill":
			r.Down, r.H = true, o.H
			err = node.Kill(t.helpers[o.H].pid)
		default:
			err = fmt.Errorf("unsupported op %q for a goroutine sender", o.Kind)
		}
		r.T1 = hk.Tick()
		if r.Down {
			r.T1 = 0
		}
		r.Err = errStr(err)
		s.recs = append(s.recs, r)
	}
	s.cur.Store(int32(len(s.Ops)))
}

// procExec runs a script through the process API; must be called from inside a
// callback of p
func procExec(p gen.Process, t *target, s *sender) {
	for i, o := range s.Ops {
		s.cur.Store(int32(i))
		r := rec{T: o.T}
		var err error
		r.T0 = hk.Tick()
		if o.noToken() {
			// no message for the receiver: must fail (or just change the configured priority)
			var e error
			bad := bads[o.Bad%len(bads)]
			switch o.Kind {
			case "failsend":
				e = p.SendWithPriority(bad.To, "c03-unreachable", o.Prio)
			case "failcall":
				_, e = p.CallWithPriority(bad.To, "c03-unreachable", o.Prio)
			case "failimportant":
				e = p.SendImportant(bad.To, "c03-unreachable")
			case "setprio":
				if e = p.SetSendPriority(o.Prio); e != nil {
					s.odd = append(s.odd, "SetSendPriority: "+e.Error())
				}
				continue
			}
			if e == nil {
				s.odd = append(s.odd, fmt.Sprintf("%s to %s did not fail", o.Kind, bad.Name))
			}
			continue
		}
		switch o.Kind {
		case "send":
			if o.Plain {
				err = p.Send(t.addr(o.Addr), o.T)
			} else {
				err = p.SendWithPriority(t.addr(o.Addr), o.T, o.Prio)
			}
		case "call":
			if o.Plain {
				_, err = p.Call(t.addr(o.Addr), o.T)
			} else {
				_, err = p.CallWithPriority(t.addr(o.Addr), o.T, o.Prio)
			}
		case "exit":
			err = p.SendExit(t.pid, tokErr{o.T})
		case "exitmeta":
			err = p.SendExitMeta(t.alias, tokErr{o.T})
		case "inspect":
			if t.kind == "meta" {
				_, err = p.InspectMeta(t.alias, o.T.items()...)
			} else {
				_, err = p.Inspect(t.pid, o.T.items()...)
			}
		case "log":
			p.Log().Info(logFmt, o.T)
		case "die":
			r.Down, r.H = true, o.H
			err = p.Send(t.helpers[o.H].pid, dieCmd{})
		default:
			err = fmt.Errorf("unsupported op %q for a process sender", o.Kind)
		}
		r.T1 = hk.Tick()
		if r.Down {
			r.T1 = 0
		}
		r.Err = errStr(err)
		s.recs = append(s.recs, r)
	}
	s.cur.Store(int32(len(s.Ops)))
}

// classOf maps an op to the class (queue) the property says it belongs to
func classOf(rk string, o op) int {
	if rk == "meta" {
		// meta processes have two queues: system (exit, inspect) and main (everything else)
		if o.Kind == "inspect" || o.Kind == "exitmeta" {
			return clsS
		}
		return clsM
	}
	switch o.Kind {
	case "exit", "inspect":
		return clsU
	case "kill", "die":
		return clsS
	case "log":
		return clsL
	}
	switch o.Prio {
	case gen.MessagePriorityMax:
		return clsU
	case gen.MessagePriorityHigh:
		return clsS
	}
	return clsM
}

// plan is the generated workload of one case
type plan struct {
	rk       string
	mode     string // batch flow
	senders  []*sender
	self     *sender
	helpers  int
	logger   bool
	split    bool
	mbox     int64
	stress   bool
	spinMax  int
	parkAt   string // batch: "handler" (receiver busy in a callback) or "enter" (idle receiver, runner parked before its first pick)
	exitMeta bool
}

func pickKind(rng *rand.Rand, rk, sk, mode string, logger bool) string {
	x := rng.Intn(100)
	if x < 62 {
		return "send"
	}
	var extra []string
	switch {
	case rk == "actor" && sk == "go":
		extra = []string{"exit", "event", "event"}
		if logger {
			extra = append(extra, "log", "log")
		}
	case rk == "actor" && sk == "proc":
		extra = []string{"exit", "send"}
		if logger {
			extra = append(extra, "log", "log")
		}
		if mode == "flow" {
			extra = append(extra, "call", "inspect")
		}
	case sk == "proc" && mode == "flow":
		extra = []string{"call", "inspect", "send"}
	case sk == "go" && rk != "meta":
		extra = []string{"event", "send"}
	default:
		extra = []string{"send"}
	}
	return extra[rng.Intn(len(extra))]
}

func genPlan(rng *rand.Rand, rk, mode string, nonce uint64) *plan {
	pl := &plan{rk: rk, mode: mode}
	pl.stress = rng.Intn(2) == 0
	if mode == "flow" {
		pl.stress = rng.Intn(4) != 0
		pl.spinMax = []int{0, 5, 20, 60}[rng.Intn(4)]
	}
	if rk == "actor" {
		pl.logger = rng.Intn(3) != 0
		pl.split = rng.Intn(2) == 0
		if rng.Intn(3) == 0 {
			pl.mbox = 1 << 14 // bounded queue implementation, never full in these workloads
		}
	}
	nGo := 1 + rng.Intn(4)
	nProc := 1 + rng.Intn(3)
	if rng.Intn(6) == 0 {
		nGo, nProc = 1+rng.Intn(2), 0
	}
	// meta batches that end with a graceful exit: no blocking requests (they would never be answered)
	pl.exitMeta = rk == "meta" && mode == "batch" && nProc > 0 && rng.Intn(5) == 0
	exitPlaced := false
	if rk != "meta" {
		pl.helpers = rng.Intn(4)
	}
	maxOps := 4 + rng.Intn(12)
	if mode == "flow" {
		maxOps = 30 + rng.Intn(120)
	}
	idx := 0
	mk := func(sk string) *sender {
		s := &sender{Idx: idx, Kind: sk, done: make(chan struct{})}
		idx++
		if sk == "proc" {
			s.Base = gen.MessagePriority(rng.Intn(3))
			if rng.Intn(2) == 0 {
				s.Base = gen.MessagePriorityNormal
			}
		}
		var q [4]int
		n := 2 + rng.Intn(maxOps)
		if sk == "self" {
			n = 1 + rng.Intn(5)
		}
		for i := 0; i < n; i++ {
			o := op{Kind: "send"}
			if sk != "self" {
				o.Kind = pickKind(rng, rk, sk, mode, pl.logger)
			}
			o.Prio = gen.MessagePriority(rng.Intn(3))
			o.Addr = rng.Intn(4)
			if sk == "proc" || sk == "self" {
				o.Plain = rng.Intn(2) == 0
				if len(bads) > 0 && rng.Intn(100) < 16 {
					// operations that deliver nothing but touch the sender's per-process send state
					ks := []string{"failsend", "failsend", "failsend", "failcall", "failimportant", "setprio"}
					if sk == "self" {
						ks = ks[:3]
					}
					o = op{Kind: ks[rng.Intn(len(ks))], Prio: gen.MessagePriority(rng.Intn(3)), Bad: rng.Intn(len(bads))}
					if o.Kind != "setprio" && rng.Intn(4) != 0 {
						o.Prio = gen.MessagePriority(1 + rng.Intn(2)) // a failing High/Max send is the interesting one
					}
				}
			}
			if sk == "self" && rng.Intn(2) == 0 {
				o.Addr = 0 // the self-send path of process.SendPID
			}
			if rk == "meta" {
				o.Addr = 2
			}
			s.Ops = append(s.Ops, o)
		}
		if sk == "proc" && mode == "batch" && !pl.exitMeta && rng.Intn(5) < 3 {
			// a blocking op may only be the last one while the receiver is parked
			o := op{Kind: []string{"call", "inspect"}[rng.Intn(2)], Prio: gen.MessagePriority(rng.Intn(3)), Addr: rng.Intn(4), Plain: rng.Intn(2) == 0}
			if rk == "meta" {
				o.Addr = 2
			}
			s.Ops = append(s.Ops, o)
		}
		if sk == "proc" && pl.exitMeta && !exitPlaced {
			// graceful exit of the meta process: must overtake every Main message
			exitPlaced = true
			o := op{Kind: "exitmeta", Addr: 2}
			k := rng.Intn(len(s.Ops) + 1)
			s.Ops = append(s.Ops[:k], append([]op{o}, s.Ops[k:]...)...)
		}
		base := s.Base // the sender's configured SendPriority as the script proceeds
		for i := range s.Ops {
			o := &s.Ops[i]
			if o.noToken() {
				o.T = tok{K: fmt.Sprintf("%s/prio=%d", o.Kind, o.Prio)}
				if o.Kind == "setprio" {
					base = o.Prio
				} else {
					o.T.K += "/" + bads[o.Bad%len(bads)].Name
				}
				continue
			}
			if o.Kind != "send" && o.Kind != "call" {
				o.Plain = false
			}
			if o.Plain {
				// the class the sender REQUESTED: plain Send/Call means its configured priority
				o.Prio = base
			}
			c := classOf(rk, *o)
			q[c]++
			o.T = tok{N: nonce, S: s.Idx, C: c, Q: q[c], K: o.Kind, A: addrNames[o.Addr]}
			if o.Plain {
				o.T.K = "plain" + o.Kind
			}
			if o.Kind == "exit" || o.Kind == "inspect" || o.Kind == "log" || o.Kind == "exitmeta" || o.Kind == "event" {
				o.T.A = "-"
			}
			if pl.spinMax > 0 {
				o.T.Sp = rng.Intn(pl.spinMax)
			}
		}
		return s
	}
	for i := 0; i < nGo; i++ {
		pl.senders = append(pl.senders, mk("go"))
	}
	for i := 0; i < nProc; i++ {
		pl.senders = append(pl.senders, mk("proc"))
	}
	if mode == "batch" {
		pl.parkAt = "handler"
		if rng.Intn(3) == 0 {
			pl.parkAt = "enter"
		}
	}
	if rk == "actor" && pl.parkAt != "enter" && rng.Intn(3) == 0 {
		pl.self = mk("self")
	}
	// helpers: each is its own "sender" of exactly one down notification; the op that
	// makes it die is inserted into a random script
	for h := 0; h < pl.helpers; h++ {
		s := pl.senders[rng.Intn(len(pl.senders))]
		o := op{Kind: "kill", H: h}
		if s.Kind == "proc" {
			o.Kind = "die"
		}
		o.T = tok{N: nonce, S: idx, C: clsS, Q: 1, K: "down", A: "-"}
		idx++
		n := len(s.Ops)
		if n > 0 && s.Ops[n-1].blocking() && mode == "batch" {
			n--
		}
		k := rng.Intn(n + 1)
		s.Ops = append(s.Ops[:k], append([]op{o}, s.Ops[k:]...)...)
	}
	return pl
}
