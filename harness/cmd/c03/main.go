// C03 — mailbox ordering: per-sender FIFO within a priority class whichever
// addressing mode was used, and strict priority classes at every pick
// (Urgent, then System, then Main, then Log).
//
// Oracles:
//
//	(1) per (sender, class) handled sequence numbers strictly increasing;
//	(2) parked-receiver batches: everything enqueued while the receiver sits in a
//	    callback must afterwards be handled as Urgent* System* Main* Log*;
//	(3) concurrent picks: the head of a higher class whose send had returned before
//	    the previous callback ended must not be passed over (logical clock);
//	(4) direct lib.QueueMPSC producers/consumer FIFO.
//
// Receivers: act.Actor (incl. logger, trap-exit, split handlers, bounded mailbox),
// act.Supervisor, act.Pool (+ its worker), meta processes.
package main

import (
	"fmt"
	"os"
	"sort"
	"strings"
	"sync/atomic"
	"time"

	"ergo.services/ergo/gen"

	"verif/harness/actors"
	"verif/harness/hk"
)

var (
	node    *hk.HNode
	spawner gen.PID
	nameSeq atomic.Int64
	sampled = map[string]int{}
	// watchdogs counts cases that ended by a watchdog; after a few of them the node is
	// considered wedged (e.g. messages get lost) and the remaining node cases are skipped
	watchdogs int
	skipped   int
)

func wedged() bool {
	if watchdogs < 6 {
		return false
	}
	skipped++
	return true
}

func finish(id, scenario, key string, nontrivial bool, events int64, r *result, detail any) {
	c := hk.Case{ID: id, Scenario: scenario, Key: key, Nontrivial: nontrivial, Events: events, Detail: detail}
	switch {
	case len(r.viol) > 0:
		c.Verdict = hk.Violated
		c.Sig = r.sig
		c.What = strings.Join(r.viol, " | ")
	case r.incon != "":
		c.Verdict = hk.Inconclusive
		c.What = r.incon
		c.Nontrivial = false
		if strings.HasPrefix(r.incon, "watchdog") {
			watchdogs++
		}
	default:
		c.Verdict = hk.Held
	}
	hk.Emit(c)
}

func waitIdle(pids []gen.PID, insts []*actors.Inst) bool {
	return hk.WaitUntil(20*time.Second, func() bool {
		for _, i := range insts {
			if i.InCallback() {
				return false
			}
		}
		for _, p := range pids {
			if hk.LiveRunners(p) > 0 {
				return false
			}
			info, err := node.ProcessInfo(p)
			if err != nil {
				continue // gone
			}
			if q := info.MailboxQueues; q.Main+q.System+q.Urgent+q.Log > 0 {
				return false
			}
			if info.State != gen.ProcessStateSleep {
				return false
			}
		}
		return true
	})
}

func recvT[T any](ch chan T, d time.Duration) (T, bool) {
	select {
	case v := <-ch:
		return v, true
	case <-time.After(d):
		var z T
		return z, false
	}
}

// sendCtl delivers a control message so that the receiver itself handles it
func sendCtl(t *target, msg any) error {
	switch t.kind {
	case "pool":
		return node.SendWithPriority(t.pid, msg, gen.MessagePriorityHigh) // Main would be forwarded to a worker
	case "meta":
		return node.Send(t.alias, msg)
	}
	return node.Send(t.pid, msg)
}

func newTarget(id string, pl *plan, nonce uint64) (*target, error) {
	t := &target{kind: pl.rk, nonce: nonce}
	for h := 0; h < pl.helpers; h++ {
		f, i := actors.NewProbe(fmt.Sprintf("%s/helper%d", id, h), probeHooks(false, false))
		pid, err := node.Spawn(f, gen.ProcessOptions{})
		if err != nil {
			return t, err
		}
		t.helpers = append(t.helpers, &helper{pid: pid, inst: i})
		t.pids = append(t.pids, pid)
	}
	var hp []gen.PID
	for _, h := range t.helpers {
		hp = append(hp, h.pid)
	}
	var err error
	switch pl.rk {
	case "actor":
		f, i := actors.NewProbe(id+"/recv", probeHooks(true, pl.split))
		t.main = i
		// spawned by the spawner process so that exit signals from the node core are trappable
		c := &spawnCmd{F: f, Opts: gen.ProcessOptions{MailboxSize: pl.mbox}, Done: make(chan spawnRes, 1)}
		node.Send(spawner, c)
		res, ok := recvT(c.Done, 20*time.Second)
		if !ok || res.Err != nil {
			return t, fmt.Errorf("spawn receiver: %v (answered=%v)", res.Err, ok)
		}
		t.pid = res.PID
	case "sup":
		t.main = &actors.Inst{Label: id + "/sup"}
		t.child = &instSet{}
		cname := gen.Atom(fmt.Sprintf("c03child%d", nameSeq.Add(1)))
		cf := actors.NewProbeMulti(id+"/supchild", probeHooks(false, false), t.child.add)
		t.pid, err = node.Spawn(func() gen.ProcessBehavior { return &supProbe{I: t.main, child: cf, cname: cname} }, gen.ProcessOptions{})
	case "pool":
		t.main = &actors.Inst{Label: id + "/pool"}
		t.workers = &instSet{}
		wf := actors.NewProbeMulti(id+"/worker", probeHooks(false, false), t.workers.add)
		t.pid, err = node.Spawn(func() gen.ProcessBehavior { return &poolProbe{I: t.main, worker: wf, size: 1} }, gen.ProcessOptions{})
	case "meta":
		f, _ := actors.NewProbe(id+"/metaparent", probeHooks(false, false))
		t.pid, err = node.Spawn(f, gen.ProcessOptions{})
		if err != nil {
			return t, err
		}
		t.pids = append(t.pids, t.pid)
		m := newMetaProbe(id + "/meta")
		t.main = m.I
		c := &spawnMetaCmd{M: m, Done: make(chan spawnMetaRes, 1)}
		node.Send(t.pid, c)
		res, ok := recvT(c.Done, 20*time.Second)
		if !ok || res.Err != nil {
			return t, fmt.Errorf("spawn meta: %v (answered=%v)", res.Err, ok)
		}
		t.alias = res.Alias
		if _, ok := recvT(m.Started, 5*time.Second); !ok {
			return t, fmt.Errorf("meta process did not start")
		}
		return t, nil
	}
	if err != nil {
		return t, err
	}
	t.pids = append(t.pids, t.pid)
	for _, w := range t.workers.list() {
		t.pids = append(t.pids, w.PID)
	}
	for _, w := range t.child.list() {
		t.pids = append(t.pids, w.PID)
	}
	t.event = gen.Atom(fmt.Sprintf("c03ev%d", nameSeq.Add(1)))
	if t.evToken, err = node.RegisterEvent(t.event, gen.EventOptions{}); err != nil {
		return t, fmt.Errorf("register event: %v", err)
	}
	sc := &setupCmd{Name: gen.Atom(fmt.Sprintf("c03r%d", nameSeq.Add(1))), Monitor: hp, Done: make(chan setupRes, 1),
		Event: gen.Event{Name: t.event, Node: node.Name()}}
	if err := sendCtl(t, sc); err != nil {
		return t, err
	}
	sr, ok := recvT(sc.Done, 20*time.Second)
	if !ok {
		return t, fmt.Errorf("watchdog: receiver did not answer the setup command")
	}
	if sr.Err != "" {
		return t, fmt.Errorf("%s", sr.Err)
	}
	t.name, t.alias, t.mb = sc.Name, sr.Alias, sr.MB
	if pl.logger {
		t.logger = string(sc.Name)
		if err := node.LoggerAddPID(t.pid, t.logger, gen.LogLevelInfo); err != nil {
			return t, fmt.Errorf("logger: %v", err)
		}
	}
	return t, nil
}

func (t *target) cleanup() {
	if t.logger != "" {
		node.LoggerDeletePID(t.pid)
	}
	if t.kind == "sup" {
		node.Kill(t.pid) // first, or it restarts its child
	}
	if t.event != "" {
		defer node.UnregisterEvent(t.event)
	}
	for _, p := range t.pids {
		node.Kill(p)
	}
	for _, w := range t.child.list() {
		node.Kill(w.PID)
	}
}

// all processes whose quiescence matters
func (t *target) idleSet(pl *plan) ([]gen.PID, []*actors.Inst) {
	var pids []gen.PID
	insts := []*actors.Inst{t.main}
	if t.kind != "meta" {
		pids = append(pids, t.pid)
	}
	for _, w := range t.workers.list() {
		pids = append(pids, w.PID)
		insts = append(insts, w)
	}
	for _, s := range pl.senders {
		if s.Kind == "proc" {
			pids = append(pids, s.pid)
			insts = append(insts, s.inst)
		}
	}
	return pids, insts
}

func spawnSenders(id string, pl *plan, t *target) error {
	for _, s := range pl.senders {
		for _, o := range s.Ops {
			if o.Kind == "kill" || o.Kind == "die" {
				t.helpers[o.H].tok = o.T
				t.helpers[o.H].used = true
			}
		}
		if s.Kind != "proc" {
			continue
		}
		f, i := actors.NewProbe(fmt.Sprintf("%s/sender%d", id, s.Idx), probeHooks(false, false))
		pid, err := node.Spawn(f, gen.ProcessOptions{SendPriority: s.Base})
		if err != nil {
			return err
		}
		s.pid, s.inst = pid, i
		t.pids = append(t.pids, pid)
	}
	return nil
}

func startSenders(pl *plan, t *target) {
	for _, s := range pl.senders {
		switch s.Kind {
		case "go":
			go func(s *sender) { goExec(t, s); close(s.done) }(s)
		case "proc":
			node.Send(s.pid, &scriptCmd{T: t, S: s})
		}
	}
}

// sendsReturned: every send of the plan has returned to its caller (a process
// blocked in the final Call/Inspect has pushed its request: it is in WaitResponse)
func sendsReturned(pl *plan, t *target) bool {
	for _, s := range pl.senders {
		n := int(s.cur.Load())
		if n == len(s.Ops) {
			continue
		}
		if s.Kind == "proc" && n == len(s.Ops)-1 && s.Ops[n].blocking() {
			if st, err := node.ProcessState(s.pid); err == nil && st == gen.ProcessStateWaitResponse {
				continue
			}
		}
		return false
	}
	for _, h := range t.helpers {
		if h.used && (h.inst.TermCount.Load() == 0 || h.inst.InCallback()) {
			return false
		}
	}
	return true
}

func stressOn(id string, rng interface{ Intn(int) int }) {
	hk.Stress(id, map[string]float64{
		"mpsc.push.swap": 0.08, "mpsc.push.swapped": 0.08,
		"proc.run.wake": 0.05, "proc.run.enter": 0.1, "proc.run.tosleep": 0.15, "proc.run.recheck": 0.2, "proc.run.reacquire": 0.2,
		"meta.wake": 0.05, "meta.enter": 0.1, "meta.tosleep": 0.15, "meta.recheck": 0.2, "meta.reacquire": 0.2,
	}, time.Duration(20+rng.Intn(300))*time.Microsecond)
}

// collect merges what the senders know: return stamps per token and the expected set
func collect(pl *plan, t *target) (rets map[tkey]int64, expected map[tkey]tok, sendErrs []string) {
	rets = map[tkey]int64{}
	expected = map[tkey]tok{}
	all := append([]*sender{}, pl.senders...)
	if pl.self != nil {
		all = append(all, pl.self)
	}
	for _, s := range all {
		sendErrs = append(sendErrs, s.odd...)
		for _, r := range s.recs {
			if r.Err != "" {
				// the case becomes inconclusive; a failed request may still have been delivered
				sendErrs = append(sendErrs, fmt.Sprintf("%v: %s", r.T, r.Err))
				if !r.T.blockingKind() {
					continue
				}
			}
			t1 := r.T1
			if r.Down {
				t1 = 0
				for _, e := range t.helpers[r.H].inst.Events() {
					if e.CB == "terminate" {
						t1 = e.L // the down notification was sent before the terminate callback began
					}
				}
			}
			rets[r.T.key()] = t1
			expected[r.T.key()] = r.T
		}
	}
	return
}

func describe(pl *plan) map[string]any {
	d := map[string]any{"receiver": pl.rk, "mode": pl.mode, "park": pl.parkAt, "stress": pl.stress, "logger": pl.logger, "split": pl.split, "mailbox_size": pl.mbox, "helpers": pl.helpers}
	var ss []string
	all := append([]*sender{}, pl.senders...)
	if pl.self != nil {
		all = append(all, pl.self)
	}
	for _, s := range all {
		var b strings.Builder
		fmt.Fprintf(&b, "s%d/%s/base=%d:", s.Idx, s.Kind, s.Base)
		for k, o := range s.Ops {
			if k > 40 {
				fmt.Fprintf(&b, " …(%d ops)", len(s.Ops))
				break
			}
			fmt.Fprintf(&b, " %v", o.T)
		}
		ss = append(ss, b.String())
	}
	d["senders"] = ss
	return d
}

func classesPresent(seq []hev) string {
	var p [4]bool
	for _, e := range seq {
		if e.IsTok {
			p[e.T.C] = true
		}
	}
	s := ""
	for c := 0; c < 4; c++ {
		if p[c] {
			s += string(clsLetters[c])
		}
	}
	return s
}

func tokCount(seq []hev) (n int64) {
	for _, e := range seq {
		if e.IsTok {
			n++
		}
	}
	return
}

var kindCount = map[string]int64{}

func countKinds(rk string, seq []hev) {
	for _, e := range seq {
		if e.IsTok {
			kindCount[fmt.Sprintf("%s/%c/%s", rk, clsLetters[e.T.C], kindAddr(e.T))]++
		}
	}
}

// checkComplete: the ordering oracles need the whole multiset to have been handled
func checkComplete(seq []hev, expected map[tkey]tok, terminated bool, r *result) {
	seen := map[tkey]int{}
	for _, e := range seq {
		if e.IsTok {
			seen[e.T.key()]++
		}
	}
	if terminated {
		return
	}
	var missing []string
	for k, t := range expected {
		if seen[k] == 0 {
			missing = append(missing, t.String())
		}
	}
	if len(missing) > 0 && r.incon == "" {
		sort.Strings(missing)
		if len(missing) > 8 {
			missing = missing[:8]
		}
		r.incon = fmt.Sprintf("sent but never handled (delivery is C02's business): %v", missing)
	}
}

func terminatedTarget(t *target) bool { return t.main.TermCount.Load() > 0 }

// waitHandled: for receivers whose mailbox cannot be inspected from outside (meta)
func waitHandled(t *target, expected int) bool {
	return hk.WaitUntil(20*time.Second, func() bool {
		if t.main.InCallback() {
			return false
		}
		if terminatedTarget(t) {
			return true
		}
		return int(tokCount(handled(t))) >= expected
	})
}

// ---------------------------------------------------------------------------
// scenario B: parked-receiver batches

func runBatch(rk string, n int) {
	id := fmt.Sprintf("B/%s/%d", rk, n)
	if !hk.Want(id) || wedged() {
		return
	}
	rng := hk.Rng("c03", id)
	nonce := hk.Hash64(id) ^ uint64(hk.Seed())
	pl := genPlan(rng, rk, "batch", nonce)
	r := &result{}
	t, err := newTarget(id, pl, nonce)
	defer t.cleanup()
	if err == nil {
		err = spawnSenders(id, pl, t)
	}
	if err != nil {
		r.incon = "setup: " + err.Error()
		finish(id, "batch-"+rk, id, false, 0, r, nil)
		return
	}
	if pl.stress {
		stressOn(id, rng)
		defer hk.StressOff()
	}
	var relT int64
	if pl.parkAt == "enter" {
		// idle receiver: its runner goroutine is parked after the wake-up, before the first pick
		point, subj := "proc.run.enter", any(t.pid)
		idleP, idleI := []gen.PID{t.pid}, []*actors.Inst{t.main}
		if rk == "meta" {
			point, subj = "meta.enter", any(t.alias)
			idleP = nil
		}
		if !waitIdle(idleP, idleI) || !hk.WaitUntil(10*time.Second, func() bool { return hk.LiveRunners(subj) == 0 }) {
			r.incon = "watchdog: receiver not idle before the batch"
		}
		g := hk.Park(point, hk.Eq(subj), false).SetMaxWait(30 * time.Second)
		startSenders(pl, t)
		if !hk.WaitUntil(20*time.Second, func() bool { return sendsReturned(pl, t) }) {
			r.incon = "watchdog: not all sends returned while the receiver's runner was parked"
		}
		if !g.WaitArrived(5*time.Second) && r.incon == "" {
			r.incon = "gate: runner never reached " + point
		}
		relT = hk.Tick()
		g.Release()
		if g.TimedOut() && r.incon == "" {
			r.incon = "gate: released by deadline"
		}
	} else {
		b := &blockCmd{Entered: make(chan struct{}), Release: make(chan struct{}), Self: pl.self, T: t}
		sendCtl(t, b)
		if _, ok := recvT(b.Entered, 10*time.Second); !ok {
			r.incon = "watchdog: receiver never entered the blocking handler"
			close(b.Release)
			finish(id, "batch-"+rk, id, false, 0, r, nil)
			return
		}
		startSenders(pl, t)
		if !hk.WaitUntil(20*time.Second, func() bool { return sendsReturned(pl, t) }) {
			r.incon = "watchdog: not all sends returned while the receiver was parked"
		}
		relT = hk.Tick()
		close(b.Release)
	}
	for _, s := range pl.senders {
		if _, ok := recvT(s.done, 20*time.Second); !ok && r.incon == "" {
			r.incon = fmt.Sprintf("watchdog: sender %d did not finish", s.Idx)
		}
	}
	_, expected, sendErrs := collect(pl, t)
	pids, insts := t.idleSet(pl)
	if rk == "meta" {
		if !waitHandled(t, len(expected)) && r.incon == "" {
			r.incon = "watchdog: meta process did not handle the batch"
		}
	}
	if !waitIdle(pids, insts) && r.incon == "" {
		r.incon = "watchdog: no quiescence"
	}
	hk.StressOff()
	if len(sendErrs) > 0 && r.incon == "" {
		r.incon = fmt.Sprintf("sends failed: %v", sendErrs)
	}
	seq := handled(t)
	var post []hev
	for _, e := range seq {
		if e.L > relT {
			post = append(post, e)
		}
	}
	for _, e := range seq {
		if e.IsTok && e.L <= relT && r.incon == "" {
			r.incon = fmt.Sprintf("harness: %v handled before the release", e.T)
		}
	}
	checkClassOrder(post, r)
	il := checkFIFO(seq, r)
	checkComplete(seq, expected, terminatedTarget(t), r)
	cls := classesPresent(post)
	nontrivial := len(cls) >= 3 || il
	key := fmt.Sprintf("B/%s/park=%s/classes=%s/interleaved=%v/stress=%v", rk, pl.parkAt, cls, il, pl.stress)
	d := describe(pl)
	d["handled_classes"] = classString(post)
	if len(r.viol) > 0 {
		var hs []string
		for _, e := range post {
			if e.IsTok {
				hs = append(hs, fmt.Sprintf("%v@%d", e.T, e.L))
			}
		}
		d["handled"] = hs
	}
	if sampled["B/"+rk] < 2 && r.incon == "" {
		sampled["B/"+rk]++
		hk.Sample(map[string]any{"case": id, "plan": d, "handled_after_release": classString(post)})
	}
	hk.Stat("batch_messages", tokCount(post))
	countKinds(rk, post)
	finish(id, "batch-"+rk, key, nontrivial, tokCount(seq), r, d)
}

// ---------------------------------------------------------------------------
// scenario F: concurrent senders while the receiver is running

func runFlow(rk string, n int) {
	id := fmt.Sprintf("F/%s/%d", rk, n)
	if !hk.Want(id) || wedged() {
		return
	}
	rng := hk.Rng("c03", id)
	nonce := hk.Hash64(id) ^ uint64(hk.Seed())
	pl := genPlan(rng, rk, "flow", nonce)
	r := &result{}
	t, err := newTarget(id, pl, nonce)
	defer t.cleanup()
	if err == nil {
		err = spawnSenders(id, pl, t)
	}
	if err != nil {
		r.incon = "setup: " + err.Error()
		finish(id, "flow-"+rk, id, false, 0, r, nil)
		return
	}
	if pl.stress {
		stressOn(id, rng)
		defer hk.StressOff()
	}
	startSenders(pl, t)
	if pl.self != nil {
		// travels through the receiver's Main queue: known to the oracles as a Main-class message without return stamp
		sendCtl(t, &scriptCmd{T: t, S: pl.self, Tok: tok{N: nonce, S: 1 << 20, C: clsM, Q: 1, K: "ctl", A: "pid"}})
	}
	all := append([]*sender{}, pl.senders...)
	if pl.self != nil {
		all = append(all, pl.self)
	}
	for _, s := range all {
		if _, ok := recvT(s.done, 30*time.Second); !ok && r.incon == "" {
			r.incon = fmt.Sprintf("watchdog: sender %d did not finish", s.Idx)
		}
	}
	if r.incon == "" && !hk.WaitUntil(20*time.Second, func() bool { return sendsReturned(pl, t) }) {
		r.incon = "watchdog: helpers did not terminate"
	}
	var rets map[tkey]int64
	var expected map[tkey]tok
	var sendErrs []string
	if r.incon == "" {
		rets, expected, sendErrs = collect(pl, t)
	}
	pids, insts := t.idleSet(pl)
	if rk == "meta" && r.incon == "" {
		if !waitHandled(t, len(expected)) {
			r.incon = "watchdog: meta process did not handle everything"
		}
	}
	if !waitIdle(pids, insts) && r.incon == "" {
		r.incon = "watchdog: no quiescence"
	}
	hk.StressOff()
	if len(sendErrs) > 0 && r.incon == "" {
		r.incon = fmt.Sprintf("sends failed: %v", sendErrs)
	}
	seq := handled(t)
	il := checkFIFO(seq, r)
	contested := 0
	if (rk == "actor" || rk == "sup") && rets != nil {
		contested = checkPicks(seq, rets, r)
	}
	if expected != nil {
		checkComplete(seq, expected, terminatedTarget(t), r)
	}
	hk.Stat("flow_messages", tokCount(seq))
	countKinds(rk, seq)
	hk.Stat("flow_contested_picks", int64(contested))
	key := fmt.Sprintf("F/%s/classes=%s/interleaved=%v/contested=%v/stress=%v", rk, classesPresent(seq), il, contested > 0, pl.stress)
	d := describe(pl)
	d["contested_picks"] = contested
	if len(r.viol) > 0 {
		var hs []string
		for _, e := range seq {
			if e.IsTok {
				hs = append(hs, fmt.Sprintf("%v@%d-%d", e.T, e.L, e.LX))
			}
		}
		if len(hs) > 400 {
			hs = hs[:400]
		}
		d["handled"] = hs
	}
	if sampled["F/"+rk] < 1 && r.incon == "" {
		sampled["F/"+rk]++
		hk.Sample(map[string]any{"case": id, "senders": len(pl.senders), "handled_classes_prefix": firstN(classString(seq), 120), "contested_picks": contested})
	}
	finish(id, "flow-"+rk, key, contested > 0 || il, tokCount(seq), r, d)
}

func firstN(s string, n int) string {
	if len(s) > n {
		return s[:n]
	}
	return s
}

// ---------------------------------------------------------------------------
// scenario H: a completed higher-class send hidden behind a push that is still in
// flight in the same queue (producer parked between the head swap and the link)

func runHidden(cls int) {
	id := fmt.Sprintf("H/%c-behind-inflight-push", clsLetters[cls])
	if !hk.Want(id) {
		return
	}
	prio := gen.MessagePriorityMax
	if cls == clsS {
		prio = gen.MessagePriorityHigh
	}
	nonce := hk.Hash64(id) ^ uint64(hk.Seed())
	pl := &plan{rk: "actor", mode: "hidden"}
	r := &result{}
	t, err := newTarget(id, pl, nonce)
	defer t.cleanup()
	if err != nil {
		r.incon = "setup: " + err.Error()
		finish(id, "hidden-push", id, false, 0, r, nil)
		return
	}
	waitIdle([]gen.PID{t.pid}, []*actors.Inst{t.main})
	q := t.mb.Urgent
	if cls == clsS {
		q = t.mb.System
	}
	tA := tok{N: nonce, S: 0, C: cls, Q: 1, K: "send", A: "pid"}
	tB := tok{N: nonce, S: 1, C: cls, Q: 1, K: "send", A: "pid"}
	tN := tok{N: nonce, S: 2, C: clsM, Q: 1, K: "send", A: "pid"}
	g := hk.Park("mpsc.push.swapped", hk.Eq(any(q)), false)
	aDone := make(chan struct{})
	go func() { node.SendWithPriority(t.pid, tA, prio); close(aDone) }()
	fired := g.WaitArrived(5 * time.Second)
	if !fired {
		r.incon = "gate: producer never reached mpsc.push.swapped"
	}
	node.SendWithPriority(t.pid, tB, prio)
	retB := hk.Tick()
	sendN := hk.Tick()
	node.Send(t.pid, tN)
	has := func(x tok) bool {
		for _, e := range handled(t) {
			if e.IsTok && e.T.key() == x.key() {
				return true
			}
		}
		return false
	}
	hk.WaitUntil(time.Second, func() bool { return has(tN) || has(tB) })
	g.Release()
	<-aDone
	if g.TimedOut() && r.incon == "" {
		r.incon = "gate: released by deadline"
	}
	if !waitIdle([]gen.PID{t.pid}, []*actors.Inst{t.main}) && r.incon == "" {
		r.incon = "watchdog: no quiescence"
	}
	seq := handled(t)
	var order []string
	posB, posN := -1, -1
	for i, e := range seq {
		if !e.IsTok {
			continue
		}
		order = append(order, e.T.String())
		if e.T.key() == tB.key() {
			posB = i
		}
		if e.T.key() == tN.key() {
			posN = i
		}
	}
	if posB < 0 || posN < 0 {
		if r.incon == "" {
			r.incon = "messages not handled"
		}
	} else if posN < posB {
		r.violate(fmt.Sprintf("completed-%c-send-passed-over-behind-inflight-push", clsLetters[cls]),
			fmt.Sprintf("send of %v (class %c) returned at lclock %d; the Normal message %v was sent after that (lclock %d) and handled first, because another producer's push into the same queue had swapped the head but not yet linked its node; handled order %v",
				tB, clsLetters[cls], retB, tN, sendN, order))
	}
	finish(id, "hidden-push", id, fired, tokCount(seq), r, map[string]any{"handled": order, "gate_fired": fired})
}

// setupBads creates the destinations every send to which fails at once: unknown
// pid, terminated pid, unknown name, unknown alias, and a process whose bounded
// mailbox is full in every queue (it is parked in a handler for the whole run).
func setupBads() {
	bads = append(bads,
		badTarget{"unknown-pid", gen.PID{Node: node.Name(), ID: 1 << 40, Creation: node.Creation()}},
		badTarget{"unknown-name", gen.Atom("c03-nobody")},
		badTarget{"unknown-processid", gen.ProcessID{Name: "c03-nobody", Node: node.Name()}},
		badTarget{"unknown-alias", gen.Alias{Node: node.Name(), ID: [3]uint64{1 << 40, 7, 7}, Creation: node.Creation()}},
	)
	if f, _ := actors.NewProbe("dead", probeHooks(false, false)); true {
		if pid, err := node.Spawn(f, gen.ProcessOptions{}); err == nil {
			node.Kill(pid)
			if hk.WaitUntil(5*time.Second, func() bool { _, e := node.ProcessInfo(pid); return e != nil }) {
				bads = append(bads, badTarget{"terminated-pid", pid})
			}
		}
	}
	f, _ := actors.NewProbe("sink", probeHooks(false, false))
	sink, err := node.Spawn(f, gen.ProcessOptions{MailboxSize: 1})
	if err != nil {
		return
	}
	b := &blockCmd{Entered: make(chan struct{}), Release: make(chan struct{})} // never released
	node.Send(sink, b)
	if _, ok := recvT(b.Entered, 5*time.Second); !ok {
		return
	}
	for _, pr := range []gen.MessagePriority{gen.MessagePriorityNormal, gen.MessagePriorityHigh, gen.MessagePriorityMax} {
		node.SendWithPriority(sink, "filler", pr)
	}
	full := true
	for _, pr := range []gen.MessagePriority{gen.MessagePriorityNormal, gen.MessagePriorityHigh, gen.MessagePriorityMax} {
		if node.SendWithPriority(sink, "filler", pr) != gen.ErrProcessMailboxFull {
			full = false
		}
	}
	if full {
		bads = append(bads, badTarget{"full-mailbox", sink})
	}
}

func main() {
	hk.InstallHook()
	hk.Rule("batch (B): receiver parked inside a callback (busy) or idle with its woken runner goroutine parked at proc.run.enter/meta.enter before the first pick, while K goroutine/process/self senders and dying monitored helpers enqueue a seeded multiset of Max/High/Normal messages, requests, events, trapped exit signals, inspect requests, down notifications and log messages over pid/name/alias/ProcessID addressing; released after every send returned; non-trivial iff >=3 classes were pending together or >=2 senders interleaved (a,b,a) within one class in the handled order. flow (F): same senders against a running receiver under seeded yields at mpsc.push.*/proc.run.*; non-trivial iff >=1 contested pick (a higher class taken while a lower-class message whose send had returned before the previous callback ended was pending) or senders interleaved. hidden (H): directed schedule, non-trivial iff the gate fired. mpsc (Q): P producers on lib.QueueMPSC/QueueLimitMPSC, non-trivial iff the consumer saw producers interleaved. distinct = scenario x receiver kind x classes observed x interleaving/contested x stress")
	hk.Assume("a 'sender' is one sequential caller (goroutine on the node API or one process); tokens carry (sender, class, seq) assigned in the sender's program order")
	hk.Assume("pool: Main-class traffic is observed at the single worker the pool forwards to (a worker can only handle a message after the pool picked and forwarded it); Urgent/System at the pool process itself")
	hk.Assume("oracle (3) only asserts the head of a higher class (first message of that class handled after the pick): later ones may legitimately be invisible behind an in-flight push")
	var err error
	node, err = hk.StartNode(hk.NodeCfg{Name: "c03", Tweak: func(o *gen.NodeOptions) { o.Log.Level = gen.LogLevelInfo }})
	if err != nil {
		fmt.Fprintln(os.Stderr, "start node:", err)
		os.Exit(3)
	}
	sf, _ := actors.NewProbe("spawner", probeHooks(false, false))
	spawner, err = node.Spawn(sf, gen.ProcessOptions{})
	if err != nil {
		fmt.Fprintln(os.Stderr, "spawn spawner:", err)
		os.Exit(3)
	}

	setupBads()
	hk.Note("unreachable_targets", func() (n []string) {
		for _, b := range bads {
			n = append(n, b.Name)
		}
		return
	}())
	runMPSCAll()
	runHidden(clsU)
	runHidden(clsS)
	// interleave the families so that an early abort still leaves every family sampled
	nBA, nBO, nFA, nFO := hk.Pick(2400, 40000), hk.Pick(400, 6000), hk.Pick(400, 6000), hk.Pick(100, 1500)
	for k := 0; k < nBA; k++ {
		runBatch("actor", k)
		if k*nBO/nBA != (k+1)*nBO/nBA {
			for _, rk := range []string{"sup", "pool", "meta"} {
				runBatch(rk, k*nBO/nBA)
			}
		}
		if k*nFA/nBA != (k+1)*nFA/nBA {
			runFlow("actor", k*nFA/nBA)
		}
		if k*nFO/nBA != (k+1)*nFO/nBA {
			for _, rk := range []string{"sup", "pool", "meta"} {
				runFlow(rk, k*nFO/nBA)
			}
		}
	}
	if skipped > 0 {
		hk.Emit(hk.Case{ID: "aborted", Scenario: "abort", Verdict: hk.Inconclusive, What: fmt.Sprintf("watchdog: %d cases ended by a watchdog, the remaining %d node cases were skipped", watchdogs, skipped)})
	}

	hk.Note("handled_by_receiver_class_kind_addressing", kindCount)
	h, d := hk.PointStats()
	hk.Note("hook_hits", h)
	hk.Note("hook_delays", d)
	if l := node.Cap.PanicLines(); len(l) > 0 {
		hk.Note("framework_panic_log_lines", l)
	}
	os.Stdout.Sync()
	os.Exit(0)
}
