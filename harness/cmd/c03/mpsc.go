package main

import (
	"fmt"
	"runtime"
	"sync"
	"sync/atomic"
	"time"

	"ergo.services/ergo/lib"

	"verif/harness/hk"
)

type qitem struct {
	P int
	I int
}

// runMPSC: P producers push (p, 0..per-1) in order; the single consumer pops
// concurrently and requires, per producer, strictly increasing indices without gaps.
func runMPSC(n int, total int) {
	id := fmt.Sprintf("Q/%d", n)
	if !hk.Want(id) {
		return
	}
	if mpscBroken >= 3 {
		skipped++
		return
	}
	rng := hk.Rng("c03", id)
	P := []int{1, 2, 3, 4, 8, 16}[rng.Intn(6)]
	if n == 0 {
		P = 8
	}
	per := total / P
	kind := rng.Intn(3)
	var q lib.QueueMPSC
	kindName := "unbounded"
	switch kind {
	case 0:
		q = lib.NewQueueMPSC()
	case 1:
		q = lib.NewQueueLimitMPSC(int64(total)+1, false)
		kindName = "limit-never-full"
	case 2:
		q = lib.NewQueueLimitMPSC(int64(8+rng.Intn(200)), false)
		kindName = "limit-small-retry"
	}
	stress := rng.Intn(3) != 0
	if stress {
		hk.Stress(id, map[string]float64{"mpsc.push.swap": 0.002, "mpsc.push.swapped": 0.002}, time.Duration(5+rng.Intn(50))*time.Microsecond)
		defer hk.StressOff()
	}
	r := &result{}
	var wg sync.WaitGroup
	var refused atomic.Int64
	var producersDone atomic.Bool
	start := make(chan struct{})
	for p := 0; p < P; p++ {
		wg.Add(1)
		go func(p int) {
			defer wg.Done()
			<-start
			for i := 0; i < per; i++ {
				for !q.Push(qitem{p, i}) {
					// bounded queue full: the producer keeps its own order by retrying the same item
					refused.Add(1)
					runtime.Gosched()
				}
			}
		}(p)
	}
	next := make([]int, P)
	popped, switches, empties := 0, 0, 0
	lastP := -1
	deadline := time.Now().Add(30 * time.Second)
	close(start)
	go func() { wg.Wait(); producersDone.Store(true) }()
	for popped < P*per {
		wasDone := producersDone.Load()
		v, ok := q.Pop()
		if !ok {
			if wasDone {
				// every Push had returned before this Pop began and it still found nothing:
				// stable witness of lost items, which is a delivery matter (C02), not an ordering one
				r.incon = fmt.Sprintf("items lost: all producers returned, the queue reports empty after %d of %d items (delivery is C02's business)", popped, P*per)
				mpscBroken++
				break
			}
			empties++
			if empties%1024 == 0 && time.Now().After(deadline) {
				r.incon = fmt.Sprintf("watchdog: consumer got %d of %d items", popped, P*per)
				mpscBroken++
				break
			}
			runtime.Gosched()
			continue
		}
		it := v.(qitem)
		if it.I != next[it.P] {
			what := "skipped ahead (a later item overtook an earlier one, or one was lost)"
			sig := "mpsc-fifo-broken/later-item-first"
			if it.I < next[it.P] {
				what = "went back (an earlier item came out after a later one, or twice)"
				sig = "mpsc-fifo-broken/earlier-item-late"
			}
			r.violate(sig+"/"+kindName, fmt.Sprintf("producer %d: expected its item %d next, popped item %d: %s (P=%d, %s)", it.P, next[it.P], it.I, what, P, kindName))
			break
		}
		next[it.P]++
		popped++
		if it.P != lastP {
			switches++
			lastP = it.P
		}
	}
	if len(r.viol) > 0 || r.incon != "" {
		// let the producers finish: drain without checking
		stop := time.Now().Add(5 * time.Second)
		doneCh := make(chan struct{})
		go func() { wg.Wait(); close(doneCh) }()
	drain:
		for time.Now().Before(stop) {
			select {
			case <-doneCh:
				break drain
			default:
				q.Pop()
				runtime.Gosched()
			}
		}
	} else {
		wg.Wait()
		if _, ok := q.Pop(); ok {
			r.violate("mpsc-extra-item/"+kindName, "an item came out after every pushed item had been popped")
		} else if q.Len() != 0 {
			r.violate("mpsc-len-nonzero-when-empty/"+kindName, fmt.Sprintf("Len()=%d on an empty queue", q.Len()))
		}
	}
	hk.StressOff()
	hk.Stat("mpsc_items", int64(popped))
	key := fmt.Sprintf("Q/P=%d/%s/stress=%v/interleaved=%v/refused=%v", P, kindName, stress, switches > P, refused.Load() > 0)
	finish(id, "mpsc-direct", key, P > 1 && switches > P, int64(popped), r,
		map[string]any{"producers": P, "per_producer": per, "queue": kindName, "stress": stress, "producer_switches_seen": switches, "empty_polls": empties, "refused_pushes": refused.Load()})
}

var mpscBroken int

func runMPSCAll() {
	cases := hk.Pick(24, 100)
	total := hk.Pick(400000, 1000000)
	for k := 0; k < cases; k++ {
		runMPSC(k, total)
	}
}
