package main

import (
	"errors"
	"fmt"
	"sort"
	"strings"

	"ergo.services/ergo/gen"

	"verif/harness/actors"
)

type result struct {
	viol  []string
	sig   string
	incon string
	notes []string
}

func (r *result) violate(sig, what string) {
	if r.sig == "" {
		r.sig = sig
	}
	if len(r.viol) < 6 {
		r.viol = append(r.viol, what)
	}
}

// hev is one handled event of the receiver, decoded
type hev struct {
	T     tok
	IsTok bool
	L, LX int64
	CB    string
	Where string // which process handled it (pool / worker)
}

type tkey struct{ S, C, Q int }

func (t tok) key() tkey { return tkey{t.S, t.C, t.Q} }

func decode(t *target, e actors.Ev) (tok, bool) {
	var k tok
	ok := false
	switch m := e.Msg.(type) {
	case tok:
		k, ok = m, true
	case *scriptCmd:
		// control message of the harness travelling through the receiver's own mailbox
		k, ok = m.Tok, m.Tok.K == "ctl"
	case gen.MessageExitPID:
		var te tokErr
		if errors.As(m.Reason, &te) {
			k, ok = te.T, true
		}
	case gen.MessageDownPID:
		for _, h := range t.helpers {
			if h.pid == m.PID {
				k, ok = h.tok, true
			}
		}
	case []string:
		k, ok = tokFromItems(m)
	case gen.MessageEvent:
		k, ok = m.Message.(tok)
	case gen.MessageLog:
		if m.Format == logFmt && len(m.Args) == 1 {
			k, ok = m.Args[0].(tok)
		}
	}
	if !ok && e.CB == "terminate" && e.Err != nil {
		var te tokErr
		if errors.As(e.Err, &te) {
			k, ok = te.T, true
		}
	}
	if ok && k.N != t.nonce {
		return tok{}, false
	}
	return k, ok
}

// handled returns the receiver's callbacks in handling order. For a pool the
// events of the pool process and of its workers are merged by the logical clock
// at callback entry (a worker can only handle a message after the pool forwarded it).
func handled(t *target) []hev {
	var out []hev
	add := func(i *actors.Inst, where string) {
		for _, e := range i.Events() {
			k, ok := decode(t, e)
			out = append(out, hev{T: k, IsTok: ok, L: e.L, LX: e.LX, CB: e.CB, Where: where})
		}
	}
	add(t.main, t.kind)
	ws := t.workers.list()
	for _, w := range ws {
		add(w, "worker")
	}
	if len(ws) > 0 {
		sort.SliceStable(out, func(a, b int) bool { return out[a].L < out[b].L })
	}
	return out
}

func classString(seq []hev) string {
	var b strings.Builder
	for _, e := range seq {
		if e.IsTok {
			b.WriteByte(clsLetters[e.T.C])
		}
	}
	return b.String()
}

// checkFIFO: oracle (1) — per (sender, class) the handled sequence numbers are strictly increasing
func checkFIFO(seq []hev, r *result) (interleaved bool) {
	last := map[[2]int]tok{}
	lastSender := map[int]int{}        // class -> sender of the previous message of this class
	switched := map[int]map[int]bool{} // class -> senders that were followed by another sender
	for _, e := range seq {
		if !e.IsTok {
			continue
		}
		k := [2]int{e.T.S, e.T.C}
		if p, ok := last[k]; ok {
			if e.T.Q == p.Q {
				r.incon = fmt.Sprintf("message %v handled twice (delivery count is C02's business)", e.T)
			} else if e.T.Q < p.Q {
				r.violate(fmt.Sprintf("fifo-broken/class=%c/late=%s", clsLetters[e.T.C], kindAddr(e.T)),
					fmt.Sprintf("sender %d, class %c: %v was sent before %v but handled after it", e.T.S, clsLetters[e.T.C], e.T, p))
			}
		}
		last[k] = e.T
		if ps, ok := lastSender[e.T.C]; ok && ps != e.T.S {
			if switched[e.T.C] == nil {
				switched[e.T.C] = map[int]bool{}
			}
			if switched[e.T.C][e.T.S] {
				interleaved = true // sender came back after another one: a,b,a
			}
			switched[e.T.C][ps] = true
		}
		lastSender[e.T.C] = e.T.S
	}
	return interleaved
}

func kindAddr(t tok) string {
	if t.A == "-" || t.A == "" {
		return t.K
	}
	return t.K + "@" + t.A
}

// checkClassOrder: oracle (2) — everything in seq was completely enqueued before the
// receiver started picking and nothing was sent afterwards, so the handled classes
// must read Urgent* System* Main* Log*
func checkClassOrder(seq []hev, r *result) {
	var prev *hev
	for i := range seq {
		e := &seq[i]
		if !e.IsTok {
			continue
		}
		if prev != nil && e.T.C < prev.T.C {
			r.violate(fmt.Sprintf("class-order/%c-handled-before-%c/late=%s", clsLetters[prev.T.C], clsLetters[e.T.C], kindAddr(e.T)),
				fmt.Sprintf("all messages were enqueued before the receiver was released, yet %v (class %c) was handled before %v (class %c); handled classes: %s",
					prev.T, clsLetters[prev.T.C], e.T, clsLetters[e.T.C], classString(seq)))
			return
		}
		prev = e
	}
}

// checkPicks: oracle (3). For every pick i (callback i of the receiver) let
// T = exit(callback i-1); the pick started after T. For every class c' higher
// than the class of the picked message, let x be the FIRST message of c' handled
// after i, i.e. the head of queue c' at the time of the pick if it was in there.
// If the send of x returned before T, x was completely linked into queue c' (its
// predecessor in that queue had been popped before, so the consumer's tail was the
// node pointing at x) and the dequeue loop had to find it before looking at the
// lower class. Later messages of c' are NOT asserted: they may sit behind a push
// that is still in flight.
// Returns the number of contested picks: picks that took a higher class while a
// lower-class message was certainly pending.
func checkPicks(seq []hev, rets map[tkey]int64, r *result) (contested int) {
	n := len(seq)
	next := make([][4]int, n+1) // next[i][c] = smallest j >= i with class c, or -1
	for c := 0; c < 4; c++ {
		next[n][c] = -1
	}
	// unknown[i] = smallest j >= i whose queue is not known to the monitor (barrier), or n
	unknown := make([]int, n+1)
	unknown[n] = n
	for i := n - 1; i >= 0; i-- {
		next[i] = next[i+1]
		unknown[i] = unknown[i+1]
		if seq[i].IsTok {
			next[i][seq[i].T.C] = i
		} else if seq[i].CB != "log" && seq[i].CB != "terminate" {
			unknown[i] = i
		}
	}
	for i := 1; i < n; i++ {
		e := seq[i]
		if !e.IsTok {
			continue
		}
		T := seq[i-1].LX
		if T == 0 {
			continue
		}
		for c := 0; c < e.T.C; c++ {
			j := next[i+1][c]
			if j < 0 || unknown[i+1] < j {
				continue // a message of unknown class was handled in between: it might have been the real head
			}
			x := seq[j].T
			if ret, ok := rets[x.key()]; ok && ret > 0 && ret < T {
				r.violate(fmt.Sprintf("pick-skipped-class/%c-picked-while-%c-pending/pending=%s", clsLetters[e.T.C], clsLetters[c], kindAddr(x)),
					fmt.Sprintf("%v (class %c) was picked after the previous callback ended at lclock %d although the send of %v (head of class %c) had returned at lclock %d; it was handled only at lclock %d",
						e.T, clsLetters[e.T.C], T, x, clsLetters[c], ret, seq[j].L))
				return contested
			}
		}
		for c := e.T.C + 1; c < 4; c++ {
			j := next[i+1][c]
			if j < 0 {
				continue
			}
			if ret, ok := rets[seq[j].T.key()]; ok && ret > 0 && ret < T {
				contested++
				break
			}
		}
	}
	return contested
}
