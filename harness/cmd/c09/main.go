// C09 — restart intensity limit.
//
// Layer A1: act.supCheckRestartIntensity (through act.VerifCheckRestartIntensity)
// against a sliding-window reference under a virtual clock (the recorded
// timestamps are aged between failures; `now` is taken from the element the
// function appended). Layer A2: the same through the three restart state
// machines with VerifSup.AgeRestarts. Layer B: live supervisors, Period = 1 s,
// expectations from measured times with a +-200 ms guard band.
package main

import (
	"errors"
	"fmt"
	"math/rand"
	"os"
	"strings"
	"sync"
	"time"

	"ergo.services/ergo/act"
	"ergo.services/ergo/gen"

	"verif/harness/actors"
	"verif/harness/hk"
	"verif/harness/p08"
)

// ---------------------------------------------------------------------------
// reference: sliding window over the restarts, in the clock domain of the code under test

type window struct {
	period int64 // ms
	limit  int
	times  []int64 // every counted restart, aged like the list under test, never pruned
}

func (w *window) age(ms int64) {
	for i := range w.times {
		w.times[i] -= ms
	}
}

// decide: would a failure at `now` require more than `limit` restarts within [now-period, now]?
func (w *window) decide(now int64) (giveUp bool, inWindow int, left int, equal int) {
	for _, t := range w.times {
		switch {
		case now-t <= w.period:
			inWindow++
			if now-t == w.period {
				equal++
			}
		default:
			left++
		}
	}
	return inWindow+1 > w.limit, inWindow, left, equal
}

// clockOf picks the clock value the code used: the last element of its list if it lies in
// the bracket measured around the call, otherwise every value of the bracket is a candidate
func clockOf(list []int64, t0, t1 int64) []int64 {
	if n := len(list); n > 0 && list[n-1] >= t0 && list[n-1] <= t1 {
		return []int64{list[n-1]}
	}
	var c []int64
	for t := t0; t <= t1; t++ {
		c = append(c, t)
	}
	return c
}

type pattern struct {
	name string
	gaps []int64 // gap (virtual ms) before each failure
}

func patterns(I, P int, rng *rand.Rand, nrand int) []pattern {
	pm := int64(P) * 1000
	rep := func(n int, g int64) []int64 {
		r := make([]int64, n)
		for i := range r {
			r[i] = g
		}
		return r
	}
	cat := func(a ...[]int64) []int64 {
		var r []int64
		for _, x := range a {
			r = append(r, x...)
		}
		return r
	}
	burstI := rep(I, 0)
	ps := []pattern{
		{"burst", rep(I+3, 0)},
		{"bursts-sep-period-2ms", cat(burstI, []int64{pm - 2}, rep(I+2, 0))},
		{"bursts-sep-period-1ms", cat(burstI, []int64{pm - 1}, rep(I+2, 0))},
		{"bursts-sep-period", cat(burstI, []int64{pm}, rep(I+2, 0))},
		{"bursts-sep-period+1ms", cat(burstI, []int64{pm + 1}, rep(I+2, 0))},
		{"bursts-sep-2periods", cat(burstI, []int64{2 * pm}, burstI, []int64{2 * pm}, rep(I+2, 0))},
		{"slow-drip", cat([]int64{0}, rep(3*I+3, pm/int64(I)+1), rep(I+2, 0))},
		{"tight-drip", cat([]int64{0}, rep(2*I+3, (pm-1)/int64(I+1)))},
		{"half-burst-then-drip", cat(rep((I+1)/2, 0), rep(2*I+2, pm/2+1), rep(I+2, 0))},
	}
	choices := []int64{0, 0, 1, pm / int64(I+1), pm / int64(I), pm/int64(I) + 1, pm / 2, pm - 1, pm, pm + 1, 2 * pm, pm / 3}
	for k := 0; k < nrand; k++ {
		n := 3*I + 6
		g := make([]int64, n)
		for i := 1; i < n; i++ {
			g[i] = choices[rng.Intn(len(choices))]
		}
		ps = append(ps, pattern{fmt.Sprintf("prng-%d", k), g})
	}
	return ps
}

func emit(id, scenario, key string, nontrivial bool, events int64, viol []string, sig, incon string, detail any) {
	c := hk.Case{ID: id, Scenario: scenario, Key: key, Nontrivial: nontrivial, Events: events, Detail: detail}
	switch {
	case len(viol) > 0:
		c.Verdict = hk.Violated
		c.Sig = sig
		c.What = strings.Join(viol, " | ")
	case incon != "":
		c.Verdict = hk.Inconclusive
		c.What = incon
	default:
		c.Verdict = hk.Held
	}
	hk.Emit(c)
}

// ---------------------------------------------------------------------------
// A1: the function

var equalHits, leftHits, benignCount int64

func runFn(I, P int, pt pattern) {
	id := fmt.Sprintf("A1/I=%d/P=%d/%s", I, P, pt.name)
	if !hk.Want(id) {
		return
	}
	w := &window{period: int64(P) * 1000, limit: I}
	var list []int64
	var viol []string
	sig, incon := "", ""
	var log []string
	left := false
	events := int64(0)
	for k, gap := range pt.gaps {
		for i := range list {
			list[i] -= gap
		}
		w.age(gap)
		t0 := time.Now().UnixMilli()
		out, exceeded := act.VerifCheckRestartIntensity(list, P, I)
		t1 := time.Now().UnixMilli()
		events++
		cands := clockOf(out, t0, t1)
		exp, in, lf, eq := w.decide(cands[0])
		agree := true
		for _, c := range cands[1:] {
			if e, _, _, _ := w.decide(c); e != exp {
				agree = false
			}
		}
		if len(cands) > 1 && len(out) > 0 && (out[len(out)-1] < t0 || out[len(out)-1] > t1) {
			viol = append(viol, fmt.Sprintf("failure %d: the last element of the returned list (%d) is not the current time [%d,%d]", k, out[len(out)-1], t0, t1))
			sig = "fn-does-not-record-now"
			break
		}
		if agree == false {
			incon = "clock bracket straddles the window boundary"
			break
		}
		log = append(log, fmt.Sprintf("#%d gap=%dms inWindow=%d left=%d exceeded=%v expected=%v", k, gap, in, lf, exceeded, exp))
		if lf > 0 {
			left = true
		}
		equalHits += int64(eq)
		if exceeded != exp {
			if exceeded {
				sig = "gives-up-early:function"
				viol = append(viol, fmt.Sprintf("failure %d reported 'exceeded' with only %d restart(s) in the last %d s (+ this one) and Intensity %d", k, in, P, I))
			} else {
				sig = "keeps-restarting-beyond-limit:function"
				viol = append(viol, fmt.Sprintf("failure %d not reported as exceeded although %d restarts lie within the last %d s (+ this one) and Intensity is %d", k, in, P, I))
			}
			break
		}
		w.times = append(w.times, cands[0])
		list = out
		if exp {
			break
		}
	}
	if left {
		leftHits++
	}
	key := fmt.Sprintf("A1/%s/left-window=%v", strings.SplitN(pt.name, "-", 2)[0]+classOf(pt.name), left)
	emit(id, "A1-function-virtual-clock", key, left, events, viol, sig, incon, map[string]any{"intensity": I, "period_s": P, "gaps_ms": pt.gaps, "log": log})
}

func classOf(name string) string {
	if strings.HasPrefix(name, "prng") {
		return ""
	}
	if i := strings.Index(name, "-"); i >= 0 {
		return name[i:]
	}
	return ""
}

// ---------------------------------------------------------------------------
// A2: through the state machines

func machineCfg(typ act.SupervisorType, ko bool, st act.SupervisorStrategy, n, I, P int) p08.Cfg {
	// DisableAutoShutdown keeps the supervisor alive through terminations that need no restart
	return p08.Cfg{Type: typ, Strategy: st, KeepOrder: ko, N: n, DAS: st != act.SupervisorStrategyPermanent, Intensity: uint16(I), Period: uint16(P)}
}

// benign lets a running child end in a way that needs no restart (Transient: normal/shutdown,
// Temporary: anything), checks that the supervisor neither gives up nor counts it, and starts
// the child again with StartChild. It returns a violation text / inconclusive reason.
func benign(sim *p08.Sim, rng *rand.Rand, class int, sofo bool, events *int64) (viol, incon string) {
	live := sim.Live(-1)
	if len(live) == 0 {
		return "", ""
	}
	victim := live[rng.Intn(len(live))]
	obs, _ := sim.Apply(p08.Ev{K: p08.EvDie, P: victim.Seq, R: class})
	*events += int64(obs.Calls)
	if obs.Panic != nil {
		return fmt.Sprintf("state machine panicked: %v", obs.Panic), ""
	}
	gaveUp := sim.Dead
	for _, r := range obs.StopReasons {
		if r == act.ErrSupervisorRestartsExceeded {
			gaveUp = true
		}
	}
	if gaveUp {
		return fmt.Sprintf("a child termination that needs no restart (%s) made the supervisor give up / terminate (%v)", p08.Label(p08.ReasonOf(class)), sim.DeadReason), ""
	}
	_, steps := drain(sim, rng)
	*events += steps
	spec := victim.SpecI
	if sofo {
		spec = 0
	}
	if len(sim.Live(victim.SpecI)) > 0 && sofo == false {
		return "", "" // restarted nevertheless: C08's business
	}
	o2, _ := sim.Apply(p08.Ev{K: p08.EvStart, S: spec})
	*events += int64(o2.Calls)
	if o2.MgmtErr != nil {
		return "", "StartChild after a normal exit failed: " + o2.MgmtErr.Error()
	}
	return "", ""
}

func drain(sim *p08.Sim, rng *rand.Rand) (gaveUpDuringDrain bool, steps int64) {
	for guard := 0; guard < 100; guard++ {
		pend := sim.Pending()
		if len(pend) == 0 || sim.Dead || sim.Panicked {
			return
		}
		p := pend[rng.Intn(len(pend))]
		obs, _ := sim.Apply(p08.Ev{K: p08.EvDeliver, P: p.Seq})
		steps++
		for _, r := range obs.StopReasons {
			if r == act.ErrSupervisorRestartsExceeded {
				gaveUpDuringDrain = true
			}
		}
	}
	return
}

func runMachine(typ act.SupervisorType, ko bool, n, I, P int, pt pattern) {
	runMachineS(typ, ko, act.SupervisorStrategyPermanent, n, I, P, pt)
}

// runMachineM: Permanent, management calls (DisableChild / EnableChild / StartChild / AddChild) interleaved
// with the failures; the sliding-window reference ignores them
func runMachineM(typ act.SupervisorType, ko bool, n, I, P int, pt pattern) {
	withMgmt = true
	runMachineS(typ, ko, act.SupervisorStrategyPermanent, n, I, P, pt)
	withMgmt = false
}

var withMgmt bool
var mgmtCount int64

// expectedLive: every enabled spec runs one instance (simple-one-for-one: the tracked instance count)
func expectedLive(sim *p08.Sim, sofo bool, sofoN int) int {
	if sofo {
		return sofoN
	}
	c, _ := sim.Children()
	n := 0
	for _, x := range c {
		if x.Disabled == false {
			n++
		}
	}
	return n
}

// manage performs management calls before failure k; returns a violation text if one of them ends the supervisor
func manage(sim *p08.Sim, rng *rand.Rand, k, I int, sofo bool, added *bool, events *int64) string {
	disabled := -1
	enabled := 0
	if sofo == false {
		c, _ := sim.Children()
		for i, x := range c {
			if x.Disabled {
				disabled = i
			} else {
				enabled++
			}
		}
	}
	var ops []p08.Ev
	last := len(sim.Names) - 1
	switch {
	case k == 0 && last >= 1:
		// directed part: a spec is disabled before the first failure ...
		ops = append(ops, p08.Ev{K: p08.EvDisable, S: last})
	case k == I && sofo == false && disabled >= 0:
		// ... and enabled again right before the failure that exceeds the limit in a burst
		ops = append(ops, p08.Ev{K: p08.EvEnable, S: disabled})
	case k == I && sofo && last >= 1:
		ops = append(ops, p08.Ev{K: p08.EvEnable, S: last})
	default:
		switch rng.Intn(6) {
		case 0:
			if sofo == false && disabled >= 0 {
				ops = append(ops, p08.Ev{K: p08.EvEnable, S: disabled})
			}
		case 1:
			if sofo == false && enabled >= 2 && disabled < 0 {
				ops = append(ops, p08.Ev{K: p08.EvDisable, S: rng.Intn(len(sim.Names))})
			} else if sofo && last >= 1 {
				ops = append(ops, p08.Ev{K: p08.EvDisable, S: last}, p08.Ev{K: p08.EvEnable, S: last})
			}
		case 2:
			if sofo == false {
				ops = append(ops, p08.Ev{K: p08.EvStart, S: rng.Intn(len(sim.Names))}) // running or disabled: an error, no effect
			}
		case 3:
			if *added == false {
				*added = true
				ops = append(ops, p08.Ev{K: p08.EvAdd})
			}
		}
	}
	for _, op := range ops {
		obs, ok := sim.Apply(op)
		if ok == false {
			continue
		}
		mgmtCount++
		*events += int64(obs.Calls)
		if obs.Panic != nil {
			return fmt.Sprintf("%s: state machine panicked: %v", op, obs.Panic)
		}
		_, steps := drain(sim, rng)
		*events += steps
		if sim.Dead {
			return fmt.Sprintf("%s ended the supervisor (%v)", op, sim.DeadReason)
		}
	}
	return ""
}

// runMachineS: with Transient / Temporary the failure pattern is mixed with terminations that need no restart
func runMachineS(typ act.SupervisorType, ko bool, st act.SupervisorStrategy, n, I, P int, pt pattern) {
	cfg := machineCfg(typ, ko, st, n, I, P)
	kos := ""
	if ko {
		kos = "-keeporder"
	}
	mixed := st != act.SupervisorStrategyPermanent
	if mixed {
		kos += "/" + p08.StrategyShort(st) + "-mixed"
	}
	mgmt := withMgmt
	if mgmt {
		kos += "/mgmt"
	}
	added := false
	id := fmt.Sprintf("A2/%s%s/n=%d/I=%d/P=%d/%s", p08.TypeShort(typ), kos, n, I, P, pt.name)
	if !hk.Want(id) {
		return
	}
	rng := hk.Rng("c09", id)
	fam := p08.TypeShort(typ)
	if typ == act.SupervisorTypeAllForOne || typ == act.SupervisorTypeRestForOne {
		fam = "ARFO"
	}
	if I == 0 {
		I = 5 // documented default (defaultRestartIntensity)
	}
	if P == 0 {
		P = 5 // defaultRestartPeriod
	}
	w := &window{period: int64(P) * 1000, limit: I}
	sim, _, err := p08.NewSim(cfg, true)
	var viol []string
	sig, incon := "", ""
	events := int64(0)
	left := false
	if err != nil {
		incon = "init: " + err.Error()
	}
	sofo := typ == act.SupervisorTypeSimpleOneForOne
	if sofo {
		for i := 0; i < n; i++ {
			sim.Apply(p08.Ev{K: p08.EvStart, S: 0})
		}
	}
	for k, gap := range pt.gaps {
		if incon != "" {
			break
		}
		sim.Sup.AgeRestarts(gap)
		w.age(gap)
		if mgmt {
			if vt := manage(sim, rng, k, I, sofo, &added, &events); vt != "" {
				viol = append(viol, fmt.Sprintf("before failure %d: %s", k, vt))
				sig = "management-call-ends-supervisor:" + fam
				break
			}
		}
		live := sim.Live(-1)
		if want := expectedLive(sim, sofo, n); len(live) != want || want == 0 {
			viol = append(viol, fmt.Sprintf("before failure %d %d children are running, %d enabled specs", k, len(live), want))
			sig = "not-restarted-below-limit:" + fam
			break
		}
		if mixed {
			// terminations that need no restart, at the same virtual time as the failure (inside the period)
			nb := rng.Intn(3)
			if k == 0 {
				nb = 1 + rng.Intn(2)
			}
			if st == act.SupervisorStrategyTemporary {
				nb++ // the "failure" itself needs no restart either: see below
			}
			stop := false
			for b := 0; b < nb && stop == false; b++ {
				class := rng.Intn(2) // normal / shutdown
				if st == act.SupervisorStrategyTemporary {
					class = rng.Intn(3) // Temporary: a crash needs no restart either
				}
				benignCount++
				vt, ic := benign(sim, rng, class, sofo, &events)
				if vt != "" {
					viol = append(viol, fmt.Sprintf("before failure %d: %s", k, vt))
					sig = "gives-up-early:" + fam
					stop = true
				}
				if ic != "" {
					incon = ic
					stop = true
				}
			}
			if stop {
				break
			}
			if st == act.SupervisorStrategyTemporary {
				continue // nothing is ever restarted: the supervisor must never give up
			}
			live = sim.Live(-1)
			if len(live) != n {
				incon = "children not restored after the benign exits"
				break
			}
		}
		victim := live[rng.Intn(len(live))]
		t0 := time.Now().UnixMilli()
		obs, _ := sim.Apply(p08.Ev{K: p08.EvDie, P: victim.Seq, R: p08.RCrash})
		t1 := time.Now().UnixMilli()
		events += int64(obs.Calls)
		if obs.Panic != nil {
			viol = append(viol, fmt.Sprintf("state machine panicked: %v", obs.Panic))
			sig = "machine-panic:" + fam
			break
		}
		cands := clockOf(sim.Restarts(), t0, t1)
		exp, in, lf, eq := w.decide(cands[0])
		agree := true
		for _, c := range cands[1:] {
			if e, _, _, _ := w.decide(c); e != exp {
				agree = false
			}
		}
		if agree == false {
			incon = "clock bracket straddles the window boundary"
			break
		}
		if lf > 0 {
			left = true
		}
		equalHits += int64(eq)
		gaveUp := sim.Dead && sim.DeadReason == act.ErrSupervisorRestartsExceeded
		for _, r := range obs.StopReasons {
			if r == act.ErrSupervisorRestartsExceeded {
				gaveUp = true
			}
		}
		if gaveUp != exp {
			if gaveUp {
				sig = "gives-up-early:" + fam
				viol = append(viol, fmt.Sprintf("failure %d made the supervisor give up with only %d restart(s) in the last %d s (+ this one), Intensity %d (terminations that needed no restart do not count)", k, in, P, I))
			} else {
				sig = "keeps-restarting-beyond-limit:" + fam
				viol = append(viol, fmt.Sprintf("failure %d did not make the supervisor give up although %d restarts lie within the last %d s (+ this one), Intensity %d", k, in, P, I))
			}
			break
		}
		w.times = append(w.times, cands[0])
		late, steps := drain(sim, rng)
		events += steps
		if exp {
			// give-up point: all children stopped, supervisor terminated with the documented reason
			if sim.Dead == false {
				sig = "give-up-incomplete:" + fam
				viol = append(viol, fmt.Sprintf("after giving up (failure %d) and after all children have stopped the supervisor is still alive", k))
			} else {
				if len(sim.Live(-1)) > 0 {
					sig = "give-up-leaves-children:" + fam
					viol = append(viol, fmt.Sprintf("supervisor terminated with %d children still running", len(sim.Live(-1))))
				}
				if sim.DeadReason != act.ErrSupervisorRestartsExceeded {
					sig = "give-up-reason-not-restarts-exceeded:" + fam
					viol = append(viol, fmt.Sprintf("the supervisor gave up at failure %d (children were sent ErrSupervisorRestartsExceeded) but terminated with reason %q instead of ErrSupervisorRestartsExceeded", k, fmt.Sprint(sim.DeadReason)))
				}
			}
			break
		}
		if late || sim.Dead {
			sig = "gives-up-early:" + fam
			viol = append(viol, fmt.Sprintf("the supervisor gave up / terminated (%v) while handling the terminations of failure %d, which is below the limit", sim.DeadReason, k))
			break
		}
	}
	if left {
		leftHits++
	}
	key := fmt.Sprintf("A2/%s%s/%s/left-window=%v", p08.TypeShort(typ), kos, strings.SplitN(pt.name, "-", 2)[0]+classOf(pt.name), left)
	detail := map[string]any{"config": cfg.ID(), "intensity": I, "period_s": P, "gaps_ms": pt.gaps}
	if len(viol) > 0 {
		detail["history"] = sim.Trace
	}
	scenario := "A2-machines-virtual-clock"
	nontrivial := left
	if mgmt {
		scenario = "A2-machines-with-management-calls"
		nontrivial = true // a DisableChild precedes the first failure, an EnableChild the (Intensity+1)-th
	}
	if mixed {
		scenario = "A2-machines-mixed-with-no-restart-terminations"
		nontrivial = true // every such sequence contains terminations that must not be counted (k == 0 forces one)
	}
	emit(id, scenario, key, nontrivial, events, viol, sig, incon, detail)
}

// ---------------------------------------------------------------------------
// B: live supervisors, Period = 1 s

const guardMs = 200

type liveFail struct{ lo, hi int64 } // the supervisor read its clock for this failure within [lo, hi]

func runLive(node *hk.HNode, driver gen.PID, name string, typ act.SupervisorType, n, I int, gapsMs []int) {
	runLiveS(node, driver, name, typ, act.SupervisorStrategyPermanent, n, I, 1, gapsMs)
}

// runLiveS: cfgI / cfgP are the configured values; 0 means "left unset": the documented default (5) applies to that field only
func runLiveS(node *hk.HNode, driver gen.PID, name string, typ act.SupervisorType, st act.SupervisorStrategy, n, cfgI, cfgP int, gapsMs []int) {
	I, P := cfgI, cfgP
	if I == 0 {
		I = 5
	}
	if P == 0 {
		P = 5
	}
	periodMs := int64(P) * 1000
	mixed := st != act.SupervisorStrategyPermanent
	id := fmt.Sprintf("B/%s/n=%d/I=%d/%s", p08.TypeShort(typ), n, I, name)
	if mixed {
		id = fmt.Sprintf("B/%s/%s-mixed/n=%d/I=%d/%s", p08.TypeShort(typ), p08.StrategyShort(st), n, I, name)
	}
	if cfgI == 0 || cfgP != 1 {
		id = fmt.Sprintf("B/%s/n=%d/cfgI=%d/cfgP=%d/%s", p08.TypeShort(typ), n, cfgI, cfgP, name)
	}
	if !hk.Want(id) {
		return
	}
	fam := p08.TypeShort(typ)
	if typ == act.SupervisorTypeAllForOne || typ == act.SupervisorTypeRestForOne {
		fam = "ARFO"
	}
	cfg := p08.Cfg{Type: typ, Strategy: st, N: n, DAS: mixed, Intensity: uint16(cfgI), Period: uint16(cfgP)}
	var viol []string
	sig, incon := "", ""
	left := false
	var log []string
	l, err := p08.StartLive(node, driver, cfg)
	if err != nil {
		emit(id, "B-live-real-time", id, false, 0, nil, "", "spawn supervisor: "+err.Error(), nil)
		return
	}
	defer l.Stop()
	sofo := typ == act.SupervisorTypeSimpleOneForOne
	if sofo {
		for i := 0; i < n; i++ {
			l.Mgmt(p08.EvStart, 0)
		}
	}
	if l.WaitQuiescent(20*time.Second) == false {
		incon = "watchdog: no quiescence after start"
	}
	var fails []liveFail
	rng := hk.Rng("c09", id)
	for k, gap := range gapsMs {
		if incon != "" {
			break
		}
		if gap > 0 {
			time.Sleep(time.Duration(gap) * time.Millisecond)
		}
		live := l.LiveOf(-1)
		if len(live) != n {
			viol = append(viol, fmt.Sprintf("before failure %d only %d of %d children are running", k, len(live), n))
			sig = "not-restarted-below-limit:" + fam
			break
		}
		if mixed {
			// terminations that need no restart, right before the failure (inside the period)
			nb := 1 + rng.Intn(2)
			for b := 0; b < nb && incon == "" && len(viol) == 0; b++ {
				var reason error = gen.TerminateReasonNormal
				switch {
				case st == act.SupervisorStrategyTemporary && rng.Intn(2) == 0:
					reason = p08.ErrCrash
				case rng.Intn(2) == 0:
					reason = gen.TerminateReasonShutdown
				}
				lv := l.LiveOf(-1)
				if len(lv) == 0 {
					break
				}
				v := lv[rng.Intn(len(lv))]
				if l.Kill(v, reason) == false || l.WaitQuiescent(20*time.Second) == false {
					incon = "watchdog: benign exit"
					break
				}
				if dead, r := l.Terminated(); dead {
					sig = "gives-up-early:" + fam
					viol = append(viol, fmt.Sprintf("before failure %d: a child termination that needs no restart (%v) ended the supervisor with %q", k, reason, fmt.Sprint(r)))
					break
				}
				spec := v.SpecI
				if sofo {
					spec = 0
				}
				if len(l.LiveOf(v.SpecI)) == 0 || sofo {
					if res, cerr := l.Mgmt(p08.EvStart, spec); cerr != nil || res != nil {
						incon = fmt.Sprintf("StartChild after a benign exit: %v %v", res, cerr)
						break
					}
					if l.WaitQuiescent(20*time.Second) == false {
						incon = "watchdog: no quiescence after StartChild"
					}
				}
				log = append(log, fmt.Sprintf("   benign exit of c%d (%v), started again", v.SpecI, reason))
			}
			if incon != "" || len(viol) > 0 {
				break
			}
			if st == act.SupervisorStrategyTemporary {
				continue // nothing is ever restarted: never give up
			}
			live = l.LiveOf(-1)
			if len(live) != n {
				incon = "children not restored after the benign exits"
				break
			}
		}
		victim := live[rng.Intn(len(live))]
		lo := time.Now().UnixMilli()
		if l.Kill(victim, p08.ErrCrash) == false {
			incon = "watchdog: child did not terminate"
			break
		}
		if l.WaitQuiescent(20*time.Second) == false {
			incon = "watchdog: no quiescence"
			break
		}
		hi := time.Now().UnixMilli()
		certainIn, certainOut := 0, 0
		for _, f := range fails {
			if hi-f.lo <= periodMs-guardMs {
				certainIn++
			} else if lo-f.hi >= periodMs+guardMs {
				certainOut++
			}
		}
		if certainOut > 0 {
			left = true
		}
		uncertain := len(fails) - certainIn - certainOut
		minCount, maxCount := 1+certainIn, 1+certainIn+uncertain
		dead, reason := l.Terminated()
		log = append(log, fmt.Sprintf("#%d after %dms: [%d,%d] certainly-in=%d certainly-out=%d uncertain=%d supervisor-terminated=%v", k, gap, lo, hi, certainIn, certainOut, uncertain, dead))
		fails = append(fails, liveFail{lo, hi})
		switch {
		case minCount > I:
			if dead == false {
				sig = "keeps-restarting-beyond-limit:" + fam
				viol = append(viol, fmt.Sprintf("failure %d: %d earlier restarts lie within the last %d s (measured, guard %d ms), Intensity %d (configured Intensity=%d Period=%d, 0 = default 5), but the supervisor is alive and restarted the child", k, certainIn, P, guardMs, I, cfgI, cfgP))
			} else {
				if base(reason) != act.ErrSupervisorRestartsExceeded {
					sig = "give-up-reason-not-restarts-exceeded:" + fam
					viol = append(viol, fmt.Sprintf("the supervisor gave up at failure %d but terminated with %q instead of ErrSupervisorRestartsExceeded", k, fmt.Sprint(reason)))
				}
				if x := len(l.LiveOf(-1)); x > 0 {
					sig = "give-up-leaves-children:" + fam
					viol = append(viol, fmt.Sprintf("supervisor gave up but %d children are still running", x))
				}
			}
		case dead && base(reason) == gen.ErrTaken:
			// not about the intensity: the replacement could not be registered because the name of
			// the instance that just died was still in the node's name table
			sig = "restart-fails-name-still-registered"
			viol = append(viol, fmt.Sprintf("failure %d: the supervisor terminated with %q: SpawnRegister of the replacement ran before the dead instance's name was released (node.unregisterProcess routes the exit before it deletes the name)", k, fmt.Sprint(reason)))
		case maxCount <= I:
			if dead {
				sig = "gives-up-early:" + fam
				viol = append(viol, fmt.Sprintf("failure %d: at most %d earlier restarts can lie within the last %d s (measured), Intensity %d (configured Intensity=%d Period=%d, 0 = default 5), but the supervisor terminated with %q", k, certainIn+uncertain, P, I, cfgI, cfgP, fmt.Sprint(reason)))
			}
		default:
			incon = fmt.Sprintf("decisive gap within +-%d ms of the period boundary at failure %d", guardMs, k)
		}
		if dead || len(viol) > 0 {
			break
		}
	}
	events := int64(0)
	for _, r := range l.Recs() {
		events += r.Inst.Callbacks.Load()
	}
	key := fmt.Sprintf("B/%s/%s/left-window=%v", p08.TypeShort(typ), name, left)
	scenario := "B-live-real-time"
	if mixed {
		key = fmt.Sprintf("B/%s/%s-mixed/%s/left-window=%v", p08.TypeShort(typ), p08.StrategyShort(st), name, left)
		scenario = "B-live-mixed-with-no-restart-terminations"
	}
	emit(id, scenario, key, left || mixed, events, viol, sig, incon, map[string]any{"config": cfg.ID(), "gaps_ms": gapsMs, "log": log})
}

func base(e error) error {
	for e != nil {
		u := errors.Unwrap(e)
		if u == nil {
			return e
		}
		e = u
	}
	return e
}

func main() {
	hk.InstallHook()
	hk.Rule("A1: Intensity 1..8 x Period 1..5 x failure patterns (burst; bursts separated by Period-2ms/-1ms/exactly Period/+1ms/2 Periods; slow drip; tight drip; half burst then drip; seeded PRNG gaps) on supCheckRestartIntensity under a virtual clock; A2: the same patterns through the one-for-one, all/rest-for-one (with and without KeepOrder) and simple-one-for-one state machines with 1..3 children, a random running child fails each time, requested exits are delivered in random order; with Permanent every failure needs a restart, with Transient and Temporary (DisableAutoShutdown, child started again with StartChild) each failure is preceded by 0..2 seeded terminations that need no restart (normal/shutdown exits; any exit of a Temporary child), which the sliding-window reference does not count (those cases are non-trivial by construction); with Permanent and 2..3 children also with management calls interleaved (DisableChild before the first failure, EnableChild before the (Intensity+1)-th, seeded StartChild/AddChild/Disable/Enable elsewhere), which the reference ignores; B: live supervisors, Period 1 s, Intensity 1..3, failures induced at real times, plus supervisors with exactly one of Intensity/Period left unset (default 5 for that field only: Intensity 2 and 3 with Period unset, Intensity unset with Period 1 s). One case per sequence; non-trivial iff at least one counted restart had left the window before the last failure of the sequence (measured: tells a sliding window from a counter); distinct = layer x machine x pattern class x left-window")
	hk.Assume("virtual clock: between failures every recorded timestamp is moved into the past (VerifSup.AgeRestarts / ageing the list passed to the function), which is equivalent to the wall clock advancing; the clock value of a failure is read from the element the code appended and cross-checked with a wall-clock bracket around the call")
	hk.Assume("layer B: the supervisor reads its clock between the moment the harness sends the kill command and the moment it sees quiescence again; gaps within 200 ms of the period boundary are inconclusive by rule")

	// ---- A1
	nrand := hk.Pick(4, 60)
	for I := 1; I <= 8; I++ {
		for P := 1; P <= 5; P++ {
			rng := hk.Rng("c09", "A1", fmt.Sprint(I, P))
			for _, pt := range patterns(I, P, rng, nrand) {
				runFn(I, P, pt)
			}
		}
	}
	// ---- A2
	type mt struct {
		typ act.SupervisorType
		ko  bool
	}
	mts := []mt{{act.SupervisorTypeOneForOne, false}, {act.SupervisorTypeAllForOne, false}, {act.SupervisorTypeAllForOne, true}, {act.SupervisorTypeRestForOne, false}, {act.SupervisorTypeRestForOne, true}, {act.SupervisorTypeSimpleOneForOne, false}}
	Is := []int{1, 2, 3, 5, 8}
	Ps := []int{1, 2, 5}
	if hk.Thorough() {
		Is = []int{1, 2, 3, 4, 5, 6, 7, 8}
		Ps = []int{1, 2, 3, 4, 5}
	}
	for _, m := range mts {
		for _, I := range Is {
			for _, P := range Ps {
				rng := hk.Rng("c09", "A2", fmt.Sprint(m.typ, m.ko, I, P))
				pts := patterns(I, P, rng, hk.Pick(2, 12))
				for pi, pt := range pts {
					for n := 1; n <= 3; n++ {
						if hk.Thorough() == false && (pi+n+I)%3 != 0 && !(n == 2 && pi < 2) {
							continue // quick tier: a third of the (pattern, children) grid, bursts with 2 children always
						}
						runMachine(m.typ, m.ko, n, I, P, pt)
					}
				}
			}
		}
	}
	// Transient / Temporary: failures mixed with terminations that need no restart (they must not be counted)
	for _, m := range mts {
		for _, st := range []act.SupervisorStrategy{act.SupervisorStrategyTransient, act.SupervisorStrategyTemporary} {
			for _, I := range Is {
				for _, P := range Ps {
					rng := hk.Rng("c09", "A2m", fmt.Sprint(m.typ, m.ko, st, I, P))
					pts := patterns(I, P, rng, hk.Pick(1, 6))
					for pi, pt := range pts {
						if st == act.SupervisorStrategyTemporary && pi > 1 && hk.Thorough() == false {
							continue // Temporary never restarts: burst and one separated burst are enough in quick
						}
						for n := 1; n <= 3; n++ {
							if hk.Thorough() == false && (pi+n+I+P)%3 != 0 && !(n == 2 && pi == 0) {
								continue
							}
							runMachineS(m.typ, m.ko, st, n, I, P, pt)
						}
					}
				}
			}
		}
	}
	hk.Stat("terminations_needing_no_restart_injected", benignCount)
	// Permanent with management calls between the failures (they must not touch the restart history)
	for _, m := range mts {
		for _, I := range Is {
			for _, P := range Ps {
				rng := hk.Rng("c09", "A2g", fmt.Sprint(m.typ, m.ko, I, P))
				pts := patterns(I, P, rng, hk.Pick(1, 6))
				for pi, pt := range pts {
					for n := 2; n <= 3; n++ {
						if hk.Thorough() == false && (pi+n+I+P)%3 != 0 && !(n == 2 && pi == 0) {
							continue
						}
						runMachineM(m.typ, m.ko, n, I, P, pt)
					}
				}
			}
		}
	}
	hk.Stat("management_calls_interleaved", mgmtCount)
	// Intensity / Period left zero: the defaults (5 restarts in 5 s) apply
	for _, m := range mts {
		for _, pt := range patterns(5, 5, hk.Rng("c09", "A2-default", fmt.Sprint(m.typ, m.ko)), 1) {
			pt.name = "defaults-" + pt.name
			runMachine(m.typ, m.ko, 2, 0, 0, pt)
		}
	}
	hk.Stat("timestamps_exactly_on_the_window_boundary", equalHits)
	hk.Stat("sequences_with_a_restart_that_left_the_window", leftHits)

	// ---- B
	if os.Getenv("C09_SKIP_LIVE") == "" {
		node, err := hk.StartNode(hk.NodeCfg{Name: hk.UniqueName("c09")})
		if err != nil {
			fmt.Fprintln(os.Stderr, "start node:", err)
			os.Exit(3)
		}
		df, _ := actors.NewProbe("driver", p08.DriverHooks())
		driver, err := node.Spawn(df, gen.ProcessOptions{})
		if err != nil {
			fmt.Fprintln(os.Stderr, "spawn driver:", err)
			os.Exit(3)
		}
		type lc struct {
			name string
			typ  act.SupervisorType
			n, I int
			gaps []int
			st   act.SupervisorStrategy
			P    int // configured period (0 in the literal = 1 s unless defP is set)
			defP bool
		}
		var cases []lc
		rep := func(n, g int) []int {
			r := make([]int, n)
			for i := range r {
				r[i] = g
			}
			return r
		}
		cat := func(a ...[]int) []int {
			var r []int
			for _, x := range a {
				r = append(r, x...)
			}
			return r
		}
		for I := 1; I <= 3; I++ {
			for _, t := range []struct {
				typ act.SupervisorType
				n   int
			}{{act.SupervisorTypeOneForOne, 1}, {act.SupervisorTypeOneForOne, 2}, {act.SupervisorTypeAllForOne, 2}, {act.SupervisorTypeRestForOne, 3}, {act.SupervisorTypeSimpleOneForOne, 2}} {
				cases = append(cases, lc{name: "burst", typ: t.typ, n: t.n, I: I, gaps: rep(I+2, 0), st: act.SupervisorStrategyPermanent})
				cases = append(cases, lc{name: "bursts-sep-1.4s", typ: t.typ, n: t.n, I: I, gaps: cat(rep(I, 0), []int{1400}, rep(I+2, 0)), st: act.SupervisorStrategyPermanent})
				if hk.Thorough() || t.n <= 2 {
					cases = append(cases, lc{name: "drip-1.3s-then-burst", typ: t.typ, n: t.n, I: I, gaps: cat([]int{0}, rep(2, 1300), rep(I+2, 0)), st: act.SupervisorStrategyPermanent})
				}
				if I >= 2 {
					cases = append(cases, lc{name: "drip-0.65s", typ: t.typ, n: t.n, I: I, gaps: cat([]int{0}, rep(4, 650), rep(I+2, 0)), st: act.SupervisorStrategyPermanent})
				}
			}
		}
		// Transient / Temporary: crashes mixed with terminations that need no restart
		for I := 1; I <= 3; I++ {
			for _, t := range []struct {
				typ act.SupervisorType
				n   int
			}{{act.SupervisorTypeOneForOne, 2}, {act.SupervisorTypeOneForOne, 1}, {act.SupervisorTypeAllForOne, 2}, {act.SupervisorTypeSimpleOneForOne, 2}} {
				cases = append(cases, lc{name: "burst", typ: t.typ, n: t.n, I: I, gaps: rep(I+2, 0), st: act.SupervisorStrategyTransient})
				if hk.Thorough() || t.n == 2 {
					cases = append(cases, lc{name: "bursts-sep-1.4s", typ: t.typ, n: t.n, I: I, gaps: cat(rep(I, 0), []int{1400}, rep(I+2, 0)), st: act.SupervisorStrategyTransient})
				}
				if I == 1 || hk.Thorough() {
					cases = append(cases, lc{name: "burst", typ: t.typ, n: t.n, I: I, gaps: rep(I+3, 0), st: act.SupervisorStrategyTemporary})
				}
			}
		}
		// exactly one of Intensity / Period left unset: the default applies to that field only
		for _, t := range []struct {
			typ act.SupervisorType
			n   int
		}{{act.SupervisorTypeOneForOne, 1}, {act.SupervisorTypeAllForOne, 2}, {act.SupervisorTypeSimpleOneForOne, 2}} {
			PP := act.SupervisorStrategyPermanent
			// Intensity 2 / 3, Period unset (5 s): the 3rd / 4th crash of a burst gives up
			cases = append(cases, lc{name: "period-unset-burst", typ: t.typ, n: t.n, I: 2, gaps: rep(4, 0), st: PP, defP: true})
			cases = append(cases, lc{name: "period-unset-burst", typ: t.typ, n: t.n, I: 3, gaps: rep(5, 0), st: PP, defP: true})
			// Intensity unset (5), Period 1 s: five crashes, 1.5 s pause, the next crash is restarted; the 6th of the second burst gives up
			cases = append(cases, lc{name: "intensity-unset-burst-pause-burst", typ: t.typ, n: t.n, I: 0, gaps: cat(rep(5, 0), []int{1500}, rep(6, 0)), st: PP, P: 1})
		}
		var wg sync.WaitGroup
		sem := make(chan struct{}, 24)
		for _, c := range cases {
			c := c
			wg.Add(1)
			sem <- struct{}{}
			go func() {
				defer wg.Done()
				defer func() { <-sem }()
				P := c.P
				if P == 0 && c.defP == false {
					P = 1
				}
				runLiveS(node, driver, c.name, c.typ, c.st, c.n, c.I, P, c.gaps)
			}()
		}
		wg.Wait()
		if node.Cap.Panics.Load() > 0 {
			hk.Note("framework_panic_log_lines", node.Cap.PanicLines())
		}
	}
	os.Stdout.Sync()
	os.Exit(0)
}
