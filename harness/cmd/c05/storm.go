package main

import (
	"fmt"
	"sync"
	"time"

	"ergo.services/ergo/gen"

	"verif/harness/actors"
	"verif/harness/hk"
)

// S: random cause storms on many processes with traffic, under seeded
// perturbation at the yield points.

var stormActs = []string{"kill", "kill2", "killpar", "pexit", "fexit", "fexit", "errmsg", "panicmsg"}

type stormTask struct {
	v   int
	act string // "" = traffic
	id  uint64
}

func runStorm(k int) {
	id := fmt.Sprintf("S/%d", k)
	if !hk.Want(id) || breakerOpen() {
		return
	}
	rng := hk.Rng("c05", id)
	r := &result{}
	n := gen.Node(node)
	nV := 40 + rng.Intn(161)
	pdie := rng.Intn(2) == 0
	nObs := 2 + rng.Intn(2)
	workers := []int{4, 8, 16}[rng.Intn(3)]
	maxSleep := time.Duration(50+rng.Intn(300)) * time.Microsecond

	parent, parentI, err := spawnAgent(n, id+"/parent")
	if err != nil {
		return
	}
	cleanup := []gen.PID{parent}
	defer func() {
		for _, p := range cleanup {
			n.Kill(p)
		}
	}()
	var obs []*obsRec
	for j := 0; j < nObs; j++ {
		o, err := newObserver(n, fmt.Sprintf("%s/obs%d", id, j))
		if err != nil {
			r.incon = "observer: " + err.Error()
			finish(id, "storm", id, false, 0, r, nil)
			return
		}
		obs = append(obs, o)
		cleanup = append(cleanup, o.pid)
	}
	var vs []*victim
	var targets []any
	kinds := []string{"actor", "actor", "actor", "trap", "trap", "raw", "actor!", "trap!", "raw!"}
	for j := 0; j < nV; j++ {
		v, err := spawnVictim(n, parent, kinds[rng.Intn(len(kinds))], fmt.Sprintf("%s/v%d", id, j))
		if err != nil {
			r.incon = "spawn victim: " + err.Error()
			finish(id, "storm", id, false, 0, r, nil)
			return
		}
		v.obs = obs
		vs = append(vs, v)
		targets = append(targets, v.pid)
		cleanup = append(cleanup, v.pid)
	}
	for _, o := range obs {
		if err := o.watch(n, targets...); err != nil {
			r.incon = "observer watch: " + err.Error()
			finish(id, "storm", id, false, 0, r, nil)
			return
		}
	}

	// plan
	var tasks []stormTask
	for j := range vs {
		nc := []int{0, 1, 1, 2, 2, 3}[rng.Intn(6)]
		for c := 0; c < nc; c++ {
			tasks = append(tasks, stormTask{v: j, act: stormActs[rng.Intn(len(stormActs))]})
		}
		for c := 0; c < 3; c++ {
			tasks = append(tasks, stormTask{v: j, id: uint64(j)<<8 | uint64(c)})
		}
	}
	rng.Shuffle(len(tasks), func(a, b int) { tasks[a], tasks[b] = tasks[b], tasks[a] })

	hk.Stress(id, map[string]float64{
		"proc.run.wake": 0.05, "proc.run.enter": 0.1, "proc.run.tosleep": 0.3, "proc.run.recheck": 0.3, "proc.run.reacquire": 0.3,
		"proc.run.term.kill": 0.5, "proc.run.term.err": 0.5, "proc.run.term.panic": 0.5, "proc.kill.zombie": 0.5, "proc.kill.term": 0.5,
		"proc.unreg.deleted": 0.3, "mpsc.push.swapped": 0.02,
	}, maxSleep)
	defer hk.StressOff()

	var wg sync.WaitGroup
	for w := 0; w < workers; w++ {
		wg.Add(1)
		go func(w int) {
			defer wg.Done()
			for t := w; t < len(tasks); t += workers {
				task := tasks[t]
				v := vs[task.v]
				if task.act == "" {
					switch task.id % 3 {
					case 0:
						n.Send(v.pid, work{ID: task.id, Spin: int(task.id % 20)})
					case 1:
						n.SendWithPriority(v.pid, work{ID: task.id}, gen.MessagePriorityHigh)
					default:
						n.SendWithPriority(v.pid, work{ID: task.id}, gen.MessagePriorityMax)
					}
					continue
				}
				issueAct(v, parentI, task.act)
			}
		}(w)
	}
	wg.Wait()
	if pdie {
		var dones []func(error)
		for _, v := range vs {
			dones = append(dones, v.begin("pdie"))
		}
		err := n.Send(parent, errPDied)
		if !hk.WaitUntil(10*time.Second, func() bool { return parentI.TermCount.Load() >= 1 }) && err == nil {
			err = errWatchdog
		}
		for _, d := range dones {
			d(err)
		}
	}
	ended := settleAll(vs, r)
	hk.StressOff()
	if !observersIdle(n, obs) && r.incon == "" {
		r.incon = "watchdog: observers not idle"
	}
	var events int64
	contested, survivors, terminated := 0, 0, 0
	reasons := map[string]int{}
	for j, v := range vs {
		exact := ""
		set := map[string]bool{}
		for _, x := range v.issues() {
			if x.Fatal {
				set[x.C] = true
			}
		}
		if len(set) == 1 {
			for c := range set {
				exact = c
			}
		}
		judge(v, ended[j], exact, true, r)
		if v.kind == "trap" && r.incon == "" {
			got := trappedExits(v, v.foreign, errFExit)
			if !ended[j] && got != v.fexitOK {
				r.fail("trapped-exit-not-delivered-as-message", "%s (%s): %d exit signals from a non-parent were accepted, HandleMessage received %d gen.MessageExitPID", v.label, v.pid, v.fexitOK, got)
			} else if got > v.fexitOK {
				r.fail("trapped-exit-duplicated", "%s (%s): %d exit signals sent, %d delivered as messages", v.label, v.pid, v.fexitOK, got)
			}
		}
		if ended[j] {
			terminated++
			for _, e := range v.inst.Events() {
				if e.CB == "terminate" {
					reasons[classify(e.Err)]++
					break
				}
			}
		} else {
			survivors++
		}
		if v.racing() >= 2 {
			contested++
		}
		events += v.inst.Callbacks.Load()
	}
	for _, o := range obs {
		events += o.inst.Callbacks.Load()
	}
	hk.Stat("storm_victims", int64(len(vs)))
	hk.Stat("storm_victims_with_racing_causes", int64(contested))
	hk.Stat("storm_survivors", int64(survivors))
	size := "small"
	if nV > 120 {
		size = "large"
	}
	key := fmt.Sprintf("S/%s/pdie=%v/obs=%d/contested=%v", size, pdie, nObs, contested > 0)
	detail := map[string]any{"victims": nV, "workers": workers, "parent_dies": pdie, "observers": nObs, "terminated": terminated, "survivors": survivors,
		"victims_with_2+_causes_before_first_swap": contested, "reasons": reasons}
	if len(r.viol) > 0 {
		// attach the history of the first offending victim
		for j, v := range vs {
			rr := &result{}
			judge(v, ended[j], "", true, rr)
			if len(rr.viol) > 0 {
				detail["witness_events"] = fmt.Sprint(v.inst.Events())
				detail["witness_issued"] = v.issues()
				break
			}
		}
	}
	finish(id, "storm", key, contested > 0, events, r, detail)
}

var _ = actors.NewProbe
