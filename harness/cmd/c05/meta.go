package main

import (
	"errors"
	"fmt"
	"strings"
	"sync"
	"time"

	"ergo.services/ergo/gen"

	"verif/harness/actors"
	"verif/harness/hk"
)

// directed cases for meta processes. Causes: handler returns an error, handler
// panics, Start() returns nil / an error, the parent terminates (handler error
// or Kill), SendExitMeta from a foreign process.

type mcase struct {
	pfx  string
	pos  string
	acts []string
	tp   bool // the Terminate callback panics on its first entry
}

func (c mcase) id() string {
	a := strings.Join(c.acts, "+")
	if a == "" {
		a = "none"
	}
	k := "meta"
	if c.tp {
		k = "meta!"
	}
	return fmt.Sprintf("%s/%s/%s/%s", c.pfx, k, c.pos, a)
}

func metaHooks() *actors.MetaHooks {
	return &actors.MetaHooks{
		Msg: func(m *actors.Meta, from gen.PID, msg any) error {
			switch x := msg.(type) {
			case work:
				spin(x.Spin)
			case block:
				close(x.Entered)
				<-x.Release
				return then(x.Then)
			case ping:
				close(x.Done)
			case error:
				return x
			case string:
				if x == "panic" {
					panic("c05 requested panic")
				}
			}
			return nil
		},
	}
}

type metaEnv struct {
	v        *victim
	parentI  *actors.Inst
	stopOnce sync.Once
}

func (e *metaEnv) stop(reason error) bool {
	did := false
	e.stopOnce.Do(func() {
		did = true
		e.v.meta.StopReason = reason
		close(e.v.meta.Stop)
	})
	return did
}

func (e *metaEnv) issue(act string) {
	v := e.v
	n := v.node
	switch act {
	case "m.err":
		done := v.begin("m.err")
		done(n.Send(v.alias, errHandler))
	case "m.panic":
		done := v.begin("m.panic")
		done(n.Send(v.alias, "panic"))
	case "m.stopnil", "m.stoperr":
		var reason error
		if act == "m.stoperr" {
			reason = errStart
		}
		select {
		case <-v.meta.Stop:
			return // Start() was already told to return: nothing is issued
		default:
		}
		done := v.begin(act)
		v.mustEnd.Store(true)
		e.stop(reason)
		// "issued" means Start() has really returned: wait until its goroutine reached the yield point
		// in front of its swap (watchdog only; the swap itself stays asynchronous, see mustEnd)
		hk.WaitUntil(5*time.Second, func() bool { _, ok := firstTermPointOf("meta.start.term", v.alias); return ok })
		done(nil)
	case "m.xmeta":
		done := v.begin("m.xmeta")
		ch := make(chan error, 1)
		err := n.Send(foreign, sendExitMeta{To: v.alias, Reason: errMetaExit, Done: ch})
		if err == nil {
			select {
			case err = <-ch:
			case <-time.After(10 * time.Second):
				err = errors.New("watchdog: agent did not answer")
			}
		}
		done(err)
	case "m.pdie", "m.pkill":
		done := v.begin(act)
		var err error
		if act == "m.pdie" {
			err = n.Send(v.parent, errPDied)
		} else {
			err = n.Kill(v.parent)
		}
		// the exit message is pushed to the meta process before the parent's terminate callback runs
		if !hk.WaitUntil(10*time.Second, func() bool { return e.parentI.TermCount.Load() >= 1 }) && err == nil {
			err = errWatchdog
		}
		done(err)
	default:
		panic("unknown meta action " + act)
	}
}

func spawnMetaVictim(n gen.Node, parent gen.PID, label string, tp bool) (*victim, error) {
	h := metaHooks()
	if tp {
		h.OnTerm = func(m *actors.Meta, reason error) { termPanic(m.I) }
	}
	m := actors.NewMeta(label, h)
	var alias gen.Alias
	done := make(chan spawnRes, 1)
	if err := n.Send(parent, spawnMeta{M: m, Done: done, A: &alias}); err != nil {
		return nil, err
	}
	select {
	case res := <-done:
		if res.Err != nil {
			return nil, res.Err
		}
	case <-time.After(10 * time.Second):
		return nil, errors.New("watchdog: parent did not spawn meta")
	}
	select {
	case <-m.Started:
	case <-time.After(10 * time.Second):
		return nil, errors.New("watchdog: meta Start() not entered")
	}
	v := &victim{node: n, kind: "meta", tpanic: tp, label: label, inst: m.I, alias: alias, meta: m, parent: parent}
	if !hk.WaitUntil(10*time.Second, v.idle) {
		return nil, errors.New("watchdog: spawned meta process did not become idle")
	}
	return v, nil
}

// doublePanic: a handler (or Start) panic followed by a panicking Terminate
func (c mcase) doublePanic() bool {
	if !c.tp {
		return false
	}
	if c.pos == "handler-panic" {
		return true
	}
	for _, a := range c.acts {
		if a == "m.panic" {
			return true
		}
	}
	return false
}

func runMeta(c mcase, scenario string) {
	id := c.id()
	if !hk.Want(id) || breakerOpen() {
		return
	}
	if c.doublePanic() && !inChild() {
		runChild(id, scenario)
		return
	}
	r := &result{}
	n := gen.Node(node)
	parent, parentI, err := spawnAgent(n, id+"/parent")
	if err != nil {
		return
	}
	cleanup := []gen.PID{parent}
	v, err := spawnMetaVictim(n, parent, id, c.tp)
	if err != nil {
		r.incon = "spawn meta: " + err.Error()
		finish(id, scenario, id, false, 0, r, nil)
		n.Kill(parent)
		return
	}
	env := &metaEnv{v: v, parentI: parentI}
	defer func() {
		env.stop(nil)
		for _, p := range cleanup {
			n.Kill(p)
		}
	}()
	for k := 0; k < 2; k++ {
		o, err := newObserver(n, fmt.Sprintf("%s/obs%d", id, k))
		if err == nil {
			err = o.watch(n, v.alias)
		}
		if err != nil {
			r.incon = "observer: " + err.Error()
			finish(id, scenario, id, false, 0, r, nil)
			return
		}
		cleanup = append(cleanup, o.pid)
		v.obs = append(v.obs, o)
	}
	fired := false
	gated := false // parked before a swap to Terminated while the other causes were issued
	exact := ""
	acts := func() {
		for _, a := range c.acts {
			env.issue(a)
		}
	}
	gateAt := func(point string, trigger func()) {
		g := hk.Park(point, hk.Eq(v.alias), false)
		trigger()
		if g.WaitArrived(5 * time.Second) {
			fired = true
			acts()
		} else {
			r.incon = "gate: " + point + " never reached"
		}
		g.Release()
		if g.TimedOut() {
			r.incon = "gate: released by deadline"
		}
	}
	pos := c.pos
	switch {
	case pos == "sleep":
		fired = true
		acts()
	case strings.HasPrefix(pos, "handler"):
		th := strings.TrimPrefix(strings.TrimPrefix(pos, "handler"), "-")
		b := block{Entered: make(chan struct{}), Release: make(chan struct{}), Then: th}
		var done func(error)
		if th == "err" {
			done = v.begin("m.err")
		} else if th == "panic" {
			done = v.begin("m.panic")
		}
		err := n.Send(v.alias, b)
		if done != nil {
			done(err)
		}
		select {
		case <-b.Entered:
			fired = true
			gated = true
			acts()
			probeEarlyTerminate(v, 100*time.Millisecond)
		case <-time.After(5 * time.Second):
			r.incon = "gate: meta handler never entered"
		}
		close(b.Release)
	case pos == "tosleep" || pos == "recheck":
		gateAt("meta."+pos, func() { n.Send(v.alias, work{ID: 1}) })
	case pos == "reacquire":
		g1 := hk.Park("meta.tosleep", hk.Eq(v.alias), false)
		n.Send(v.alias, work{ID: 1})
		if !g1.WaitArrived(5 * time.Second) {
			r.incon = "gate: meta.tosleep never reached"
			g1.Release()
			break
		}
		gateAt("meta.reacquire", func() {
			n.Send(v.alias, work{ID: 2})
			g1.Release()
		})
	case pos == "term":
		gated = true
		gateAt("meta.term", func() { done := v.begin("m.err"); done(n.Send(v.alias, errHandler)) })
	case pos == "term-exit":
		gated = true
		gateAt("meta.term", func() { env.issue("m.xmeta") })
	case pos == "start.term":
		gated = true
		gateAt("meta.start.term", func() { env.issue("m.stopnil") })
	case pos == "dead-stop" || pos == "dead-err":
		if pos == "dead-stop" {
			env.issue("m.stoperr")
			exact = "m.stoperr"
		} else {
			env.issue("m.err")
			exact = "m.err"
		}
		if settle(v, r) {
			fired = true
		} else if r.incon == "" {
			r.incon = "first cause did not terminate the meta process"
		}
		acts()
	default:
		panic("unknown meta position " + pos)
	}
	ended := settle(v, r)
	if !observersIdle(n, v.obs) && r.incon == "" {
		r.incon = "watchdog: observers not idle"
	}
	if exact == "" {
		set := map[string]bool{}
		for _, x := range v.issues() {
			set[x.C] = true
		}
		if len(set) == 1 {
			for k := range set {
				exact = k
			}
		}
	}
	judge(v, ended, exact, true, r)
	racing := v.racing()
	if gated && fired {
		racing = len(v.issues())
	}
	nontrivial := fired && racing >= 2 && !strings.HasPrefix(pos, "dead")
	finish(id, scenario, id, nontrivial, evCount(v), r, map[string]any{
		"events": fmt.Sprint(v.inst.Events()), "issued": v.issues(), "fired": fired, "ended": ended, "exact": exact,
		"causes_begun_before_first_swap": racing,
	})
}

var metaActs = []string{"m.err", "m.panic", "m.stopnil", "m.stoperr", "m.xmeta", "m.pdie", "m.pkill"}
var metaPairs = [][]string{
	{"m.err", "m.stopnil"}, {"m.stoperr", "m.err"}, {"m.xmeta", "m.stopnil"}, {"m.stoperr", "m.xmeta"}, {"m.pkill", "m.stoperr"}, {"m.stopnil", "m.pdie"},
	{"m.xmeta", "m.pkill"}, {"m.pdie", "m.xmeta"}, {"m.panic", "m.xmeta"},
}

func metaHasOwnCause(pos string) bool {
	switch pos {
	case "handler-err", "handler-panic", "term", "term-exit", "start.term":
		return true
	}
	return false
}

func directedMetaCases() []mcase {
	var cs []mcase
	for _, pos := range []string{"sleep", "handler", "handler-err", "handler-panic", "tosleep", "recheck", "reacquire", "term", "term-exit", "start.term", "dead-stop", "dead-err"} {
		if metaHasOwnCause(pos) {
			cs = append(cs, mcase{"D", pos, nil, false})
		}
		for _, a := range metaActs {
			cs = append(cs, mcase{"D", pos, []string{a}, false})
		}
		if pos == "sleep" {
			for _, a := range metaActs {
				for _, b := range metaActs {
					if a != b {
						cs = append(cs, mcase{"D", pos, []string{a, b}, false})
					}
				}
			}
			continue
		}
		for _, p := range metaPairs {
			cs = append(cs, mcase{"D", pos, p, false})
		}
	}
	return cs
}

// termPanicMetaCases: meta processes whose Terminate panics
func termPanicMetaCases() []mcase {
	var cs []mcase
	for _, pos := range []string{"sleep", "handler", "handler-err", "handler-panic", "tosleep", "reacquire", "term", "term-exit", "start.term"} {
		if metaHasOwnCause(pos) {
			cs = append(cs, mcase{"P", pos, nil, true})
		}
		for _, a := range metaActs {
			cs = append(cs, mcase{"P", pos, []string{a}, true})
		}
		for _, p := range [][]string{{"m.err", "m.stopnil"}, {"m.stoperr", "m.xmeta"}, {"m.pkill", "m.stoperr"}} {
			cs = append(cs, mcase{"P", pos, p, true})
		}
	}
	keep := map[string]bool{"P/meta!/sleep/m.panic": true, "P/meta!/handler-panic/none": true, "P/meta!/handler-panic/m.stopnil": true}
	var out []mcase
	for _, c := range cs {
		if c.doublePanic() && !keep[c.id()] {
			continue
		}
		out = append(out, c)
	}
	return out
}

func randomMetaCases(n int) []mcase {
	rng := hk.Rng("c05", "randmeta")
	ps := []string{"sleep", "handler", "handler-err", "tosleep", "recheck", "reacquire", "term", "term-exit", "start.term"}
	var cs []mcase
	for k := 0; k < n; k++ {
		m := 2 + rng.Intn(2)
		var acts []string
		for j := 0; j < m; j++ {
			acts = append(acts, metaActs[rng.Intn(len(metaActs))])
		}
		c := mcase{fmt.Sprintf("R%d", k), ps[rng.Intn(len(ps))], acts, rng.Intn(4) == 0}
		if c.doublePanic() {
			c.tp = false
		}
		cs = append(cs, c)
	}
	return cs
}
