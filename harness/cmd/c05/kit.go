package main

import (
	"errors"
	"fmt"
	"strings"
	"sync"
	"sync/atomic"
	"time"

	"ergo.services/ergo/gen"

	"verif/harness/actors"
	"verif/harness/hk"
)

// ---------------------------------------------------------------------------
// reasons used by the causes

var (
	errHandler  = errors.New("c05-handler-error")
	errInner    = errors.New("c05-inner")
	errWrapped  = fmt.Errorf("c05-wrap: %w", errInner)
	errPExit    = errors.New("c05-parent-exit")
	errFExit    = errors.New("c05-foreign-exit")
	errPDied    = errors.New("c05-parent-died")
	errTarget   = errors.New("c05-link-target-died")
	errStart    = errors.New("c05-start-returned")
	errMetaExit = errors.New("c05-meta-exit")
	// errWatchdog marks an issue whose delivery could not be confirmed in time (the cause then proves nothing)
	errWatchdog = errors.New("watchdog: delivery of the cause not confirmed")
)

// causeSpec: what the terminate callback and the observers must see if this
// cause is the one that terminated the process
type causeSpec struct {
	cb  func(error) bool
	obs error
}

func is(e error) func(error) bool { return func(x error) bool { return x != nil && errors.Is(x, e) } }
func eq(e error) func(error) bool { return func(x error) bool { return x == e } }

var causeTable = map[string]causeSpec{
	"err":      {eq(errHandler), errHandler},
	"errw":     {eq(errWrapped), errInner},
	"normal":   {eq(gen.TerminateReasonNormal), gen.TerminateReasonNormal},
	"panic":    {eq(gen.TerminateReasonPanic), gen.TerminateReasonPanic},
	"kill":     {eq(gen.TerminateReasonKill), gen.TerminateReasonKill},
	"pexit":    {is(errPExit), errPExit},
	"fexit":    {is(errFExit), errFExit},
	"pdie":     {is(errPDied), errPDied},
	"linkexit": {is(errTarget), errTarget},
	"stop":     {is(gen.TerminateReasonShutdown), gen.TerminateReasonShutdown},
	// meta processes get the bare reason
	"m.err":     {eq(errHandler), errHandler},
	"m.panic":   {eq(gen.TerminateReasonPanic), gen.TerminateReasonPanic},
	"m.stopnil": {eq(gen.TerminateReasonNormal), gen.TerminateReasonNormal},
	"m.stoperr": {eq(errStart), errStart},
	"m.xmeta":   {eq(errMetaExit), errMetaExit},
	"m.pdie":    {eq(errPDied), errPDied},
	"m.pkill":   {eq(gen.TerminateReasonKill), gen.TerminateReasonKill},
}

var errCustom = errors.New("c05-custom-exit")

// reasonByName: every class of reason an exit signal may carry
var reasonByName = map[string]error{
	"normal":   gen.TerminateReasonNormal,
	"shutdown": gen.TerminateReasonShutdown,
	"kill":     gen.TerminateReasonKill,
	"panic":    gen.TerminateReasonPanic,
	"custom":   errCustom,
	"wrapped":  errWrapped,
}

var reasonNames = []string{"normal", "shutdown", "kill", "panic", "custom", "wrapped"}

func init() {
	// exit signals with a named reason: "pexit=<reason>" (from the parent), "fexit=<reason>" (from a non-parent)
	for rn, r := range reasonByName {
		for _, src := range []string{"pexit", "fexit"} {
			causeTable[src+"="+rn] = causeSpec{is(r), r}
		}
	}
}

func unwrapOr(e error) error {
	if u := errors.Unwrap(e); u != nil {
		return u
	}
	return e
}

// causeOf maps an action name to the cause it raises
func causeOf(action string) string {
	switch action {
	case "kill2", "killpar":
		return "kill"
	case "errmsg":
		return "err"
	case "panicmsg":
		return "panic"
	}
	return action
}

func classify(e error) string {
	switch {
	case e == nil:
		return "nil"
	case e == gen.TerminateReasonKill:
		return "kill"
	case e == gen.TerminateReasonPanic:
		return "panic"
	case e == gen.TerminateReasonNormal:
		return "normal"
	case e == gen.TerminateReasonShutdown:
		return "shutdown"
	case e == errHandler || e == errWrapped || e == errInner:
		return "handler-error"
	case e == errStart:
		return "start-error"
	case errors.Is(e, errPExit):
		return "parent-exit"
	case errors.Is(e, errFExit):
		return "foreign-exit"
	case errors.Is(e, errPDied):
		return "parent-died"
	case errors.Is(e, errTarget):
		return "link-exit"
	case errors.Is(e, errMetaExit):
		return "meta-exit"
	case errors.Is(e, gen.TerminateReasonShutdown):
		return "shutdown-wrapped"
	case errors.Is(e, gen.TerminateReasonKill):
		return "kill-wrapped"
	}
	return "other"
}

// ---------------------------------------------------------------------------
// messages understood by the probes

type work struct {
	ID   uint64
	Spin int
}

type block struct {
	Entered chan struct{}
	Release chan struct{}
	Then    string // "", "err", "panic"
}

type ping struct{ Done chan struct{} }

type callOut struct {
	To      gen.PID
	Timeout int
	Then    string
	Done    chan error
}

type linkTo struct {
	Target gen.PID
	Done   chan error
}

type linkEvent struct {
	Ev   gen.Event
	Done chan error
}

type regEvent struct {
	Name gen.Atom
	Done chan gen.Ref
}

type sendEvent struct {
	Name  gen.Atom
	Token gen.Ref
	Msg   any
	Done  chan error
}

type watch struct {
	Targets []any
	Done    chan error
}

type spawnRes struct {
	PID gen.PID
	Err error
}

type spawnChild struct {
	F    gen.ProcessFactory
	Opts gen.ProcessOptions
	Args []any
	Done chan spawnRes
}

type spawnMeta struct {
	M    *actors.Meta
	Done chan spawnRes
	A    *gen.Alias
}

type sendExit struct {
	To     gen.PID
	Reason error
	Done   chan error
}

type sendExitMeta struct {
	To     gen.Alias
	Reason error
	Done   chan error
}

type inspectReq struct {
	To   gen.PID
	Item string
}

type callReq struct {
	To      gen.PID
	Msg     any
	Timeout int
}

func spin(us int) {
	if us <= 0 {
		return
	}
	t := time.Now()
	for time.Since(t) < time.Duration(us)*time.Microsecond {
	}
}

func then(t string) error {
	switch t {
	case "err":
		return errHandler
	case "panic":
		panic("c05 requested panic")
	}
	return nil
}

// victimHooks: behaviour of an act.Actor victim
// termPanic: the terminate callback panics, but only on its first entry, so that a wrong second
// invocation is recorded instead of crashing the monitor
func termPanic(i *actors.Inst) {
	if i.TermCount.Load() == 1 {
		panic("c05 requested panic in the terminate callback")
	}
}

func victimHooks(trap bool) *actors.Hooks { return victimHooksT(trap, false) }

func victimHooksT(trap, tpanic bool) *actors.Hooks {
	h := victimHooks0(trap)
	if tpanic {
		h.Terminate = func(p *actors.Probe, reason error) { termPanic(p.I) }
	}
	return h
}

func victimHooks0(trap bool) *actors.Hooks {
	return &actors.Hooks{
		Init: func(p *actors.Probe, args ...any) error {
			if trap {
				p.SetTrapExit(true)
			}
			if len(args) > 0 {
				if a, ok := args[0].(string); ok && a == "init-panic" {
					panic("c05 requested panic in Init")
				}
				if e, ok := args[0].(error); ok {
					return e
				}
			}
			return nil
		},
		Inspect: func(p *actors.Probe, from gen.PID, item ...string) map[string]string {
			if len(item) > 0 && item[0] == "panic" {
				panic("c05 requested panic in HandleInspect")
			}
			return map[string]string{"c05": "ok"}
		},
		Log: func(p *actors.Probe, m gen.MessageLog) error {
			if strings.Contains(m.Format, "c05-log-panic") {
				panic("c05 requested panic in HandleLog")
			}
			if strings.Contains(m.Format, "c05-log-err") {
				return errHandler
			}
			return nil
		},
		Msg: func(p *actors.Probe, from gen.PID, msg any) error {
			switch m := msg.(type) {
			case work:
				spin(m.Spin)
			case block:
				close(m.Entered)
				<-m.Release
				return then(m.Then)
			case ping:
				close(m.Done)
			case callOut:
				_, err := p.CallWithTimeout(m.To, work{ID: 1}, m.Timeout)
				m.Done <- err
				return then(m.Then)
			case linkTo:
				m.Done <- p.LinkPID(m.Target)
			case linkEvent:
				_, err := p.LinkEvent(m.Ev)
				m.Done <- err
			case error:
				return m
			case string:
				if m == "panic" {
					panic("c05 requested panic")
				}
			}
			return nil
		},
		Event: func(p *actors.Probe, ev gen.MessageEvent) error {
			switch m := ev.Message.(type) {
			case error:
				return m
			case string:
				if m == "panic" {
					panic("c05 requested panic")
				}
			}
			return nil
		},
		Call: func(p *actors.Probe, from gen.PID, ref gen.Ref, req any) (any, error) {
			switch m := req.(type) {
			case work:
				spin(m.Spin)
			case block:
				close(m.Entered)
				<-m.Release
				if err := then(m.Then); err != nil {
					return nil, err
				}
			case error:
				return nil, m
			case string:
				if m == "panic" {
					panic("c05 requested panic")
				}
			}
			return "ok", nil
		},
	}
}

// rawHooks: behaviour of a raw victim
func rawHooks() *actors.RawHooks {
	return &actors.RawHooks{
		Handle: func(r *actors.Raw, mm *gen.MailboxMessage) error {
			switch m := mm.Message.(type) {
			case work:
				spin(m.Spin)
			case block:
				close(m.Entered)
				<-m.Release
				return then(m.Then)
			case ping:
				close(m.Done)
			case error:
				return m
			case string:
				if m == "panic" {
					panic("c05 requested panic")
				}
			}
			return nil
		},
	}
}

// agentHooks: parent / foreign / callee helper processes
func agentHooks() *actors.Hooks {
	return &actors.Hooks{
		Msg: func(p *actors.Probe, from gen.PID, msg any) error {
			switch m := msg.(type) {
			case work:
				spin(m.Spin)
			case block:
				close(m.Entered)
				<-m.Release
			case spawnChild:
				pid, err := p.Spawn(m.F, m.Opts, m.Args...)
				m.Done <- spawnRes{pid, err}
			case spawnMeta:
				a, err := p.SpawnMeta(m.M, gen.MetaOptions{})
				*m.A = a
				m.Done <- spawnRes{Err: err}
			case sendExit:
				m.Done <- p.SendExit(m.To, m.Reason)
			case sendExitMeta:
				m.Done <- p.SendExitMeta(m.To, m.Reason)
			case callReq:
				p.CallWithTimeout(m.To, m.Msg, m.Timeout)
			case inspectReq:
				p.Inspect(m.To, m.Item)
			case ping:
				close(m.Done)
			case string:
				if m == "panic" {
					panic("c05 requested panic")
				}
			case regEvent:
				tok, err := p.RegisterEvent(m.Name, gen.EventOptions{})
				if err != nil {
					close(m.Done)
				} else {
					m.Done <- tok
				}
			case sendEvent:
				m.Done <- p.SendEvent(m.Name, m.Token, m.Msg)
			case error:
				return m
			}
			return nil
		},
		Call: func(p *actors.Probe, from gen.PID, ref gen.Ref, req any) (any, error) {
			switch m := req.(type) {
			case block:
				close(m.Entered)
				<-m.Release
			}
			return "ok", nil
		},
	}
}

// ---------------------------------------------------------------------------
// observers: trap-exit probes that Link and Monitor victims

type obsRec struct {
	mu    sync.Mutex
	exits map[any][]error
	downs map[any][]error
	inst  *actors.Inst
	pid   gen.PID
}

func (o *obsRec) seen(t any) (ex, dn []error) {
	o.mu.Lock()
	defer o.mu.Unlock()
	return append([]error(nil), o.exits[t]...), append([]error(nil), o.downs[t]...)
}

func newObserver(n gen.Node, label string) (*obsRec, error) {
	o := &obsRec{exits: map[any][]error{}, downs: map[any][]error{}}
	add := func(m map[any][]error, k any, r error) {
		o.mu.Lock()
		m[k] = append(m[k], r)
		o.mu.Unlock()
	}
	f, inst := actors.NewProbe(label, &actors.Hooks{
		Init: func(p *actors.Probe, args ...any) error { p.SetTrapExit(true); return nil },
		Msg: func(p *actors.Probe, from gen.PID, msg any) error {
			switch m := msg.(type) {
			case watch:
				var first error
				for _, t := range m.Targets {
					if err := p.Link(t); err != nil && first == nil {
						first = fmt.Errorf("link %v: %w", t, err)
					}
					if err := p.Monitor(t); err != nil && first == nil {
						first = fmt.Errorf("monitor %v: %w", t, err)
					}
				}
				m.Done <- first
			case gen.MessageExitPID:
				add(o.exits, m.PID, m.Reason)
			case gen.MessageDownPID:
				add(o.downs, m.PID, m.Reason)
			case gen.MessageExitAlias:
				add(o.exits, m.Alias, m.Reason)
			case gen.MessageDownAlias:
				add(o.downs, m.Alias, m.Reason)
			}
			return nil
		},
	})
	pid, err := n.Spawn(f, gen.ProcessOptions{})
	if err != nil {
		return nil, err
	}
	o.inst = inst
	o.pid = pid
	return o, nil
}

func (o *obsRec) watch(n gen.Node, targets ...any) error {
	done := make(chan error, 1)
	if err := n.Send(o.pid, watch{Targets: targets, Done: done}); err != nil {
		return err
	}
	select {
	case err := <-done:
		return err
	case <-time.After(10 * time.Second):
		return errors.New("watchdog: observer did not answer")
	}
}

// ---------------------------------------------------------------------------
// swap bookkeeping from the yield points: when did a subject's first
// termination attempt start / complete

var (
	firstTermPoint sync.Map // subject -> lclock of first arrival at a swap-to-Terminated site
	firstUnreg     sync.Map // pid -> lclock of first proc.unreg.deleted (swap done)
)

// firstTermPointOf: logical clock of the first arrival of subject at a given swap site
func firstTermPointOf(point string, subject any) (int64, bool) {
	x, ok := pointArrivals.Load(pointKey{point, subject})
	if !ok {
		return 0, false
	}
	return x.(int64), true
}

type pointKey struct {
	point   string
	subject any
}

var pointArrivals sync.Map

func installSwapObservers() {
	for _, pt := range []string{"proc.run.term.err", "proc.run.term.kill", "proc.run.term.panic", "proc.kill.term", "meta.term", "meta.start.term"} {
		hk.Observe(pt, nil, func(point string, s any) {
			t := hk.Tick()
			firstTermPoint.LoadOrStore(s, t)
			pointArrivals.LoadOrStore(pointKey{point, s}, t)
		})
	}
	hk.Observe("proc.unreg.deleted", nil, func(point string, s any) { firstUnreg.LoadOrStore(s, hk.Tick()) })
}

// ---------------------------------------------------------------------------
// victims

type issue struct {
	C     string // cause
	Began int64  // logical clock when issuing began
	Err   string // error returned by the issuing call
	Fatal bool
}

type victim struct {
	node   gen.Node
	kind   string // actor | trap | raw | meta
	label  string
	inst   *actors.Inst
	pid    gen.PID
	alias  gen.Alias
	meta   *actors.Meta
	parent gen.PID
	foreign gen.PID // a non-parent process of the same node that sends exit signals
	obs    []*obsRec

	mu     sync.Mutex
	issued []issue
	// fexitOK counts foreign exits whose SendExit returned nil
	fexitOK int
	// xFatal: whether the exit signal of an exit-table case ("x") terminates this victim
	xFatal bool
	// tpanic: the terminate callback panics on its first entry
	tpanic bool
	// mustEnd: a cause that takes effect asynchronously without passing the mailbox was issued
	// (the meta main loop was told to return): only termination is a settled state
	mustEnd atomic.Bool
}

func (v *victim) subject() any {
	if v.kind == "meta" {
		return v.alias
	}
	return v.pid
}

// fatalFor tells whether a cause terminates this kind of victim when it takes effect
func (v *victim) fatalFor(c string) bool {
	if c == "x" {
		return v.xFatal
	}
	if c == "linkexit" || strings.HasPrefix(c, "fexit") {
		return v.kind != "trap"
	}
	return true
}

// begin records that a cause is being issued; the returned func records the outcome
func (v *victim) begin(c string) func(error) {
	v.mu.Lock()
	v.issued = append(v.issued, issue{C: c, Began: hk.Tick(), Fatal: v.fatalFor(c)})
	idx := len(v.issued) - 1
	v.mu.Unlock()
	return func(err error) {
		v.mu.Lock()
		if err != nil {
			v.issued[idx].Err = err.Error()
		} else if c == "fexit" {
			v.fexitOK++
		}
		v.mu.Unlock()
	}
}

func (v *victim) issues() []issue {
	v.mu.Lock()
	defer v.mu.Unlock()
	return append([]issue(nil), v.issued...)
}

func (v *victim) fatalIssued() bool {
	for _, i := range v.issues() {
		if i.Fatal {
			return true
		}
	}
	return false
}

// gone: the process (meta) is no longer registered
func (v *victim) gone() bool {
	if v.kind == "meta" {
		info, err := v.node.MetaInfo(v.alias)
		return err != nil || info.State == gen.MetaStateTerminated
	}
	_, err := v.node.ProcessInfo(v.pid)
	return err != nil
}

func (v *victim) idle() bool {
	if v.mustEnd.Load() {
		return false
	}
	if v.inst.InCallback() || hk.LiveRunners(v.subject()) > 0 {
		return false
	}
	if v.kind == "meta" {
		info, err := v.node.MetaInfo(v.alias)
		if err != nil {
			return false
		}
		return info.State == gen.MetaStateSleep && info.MailboxQueues.Main+info.MailboxQueues.System == 0
	}
	info, err := v.node.ProcessInfo(v.pid)
	if err != nil {
		return false
	}
	q := info.MailboxQueues
	return info.State == gen.ProcessStateSleep && q.Main+q.System+q.Urgent+q.Log == 0
}

// contested: number of causes whose issuing began before the first swap to Terminated completed
func (v *victim) racing() int {
	var limit int64 = 1 << 62
	if v.kind == "meta" {
		if x, ok := firstTermPoint.Load(v.subject()); ok {
			limit = x.(int64)
		}
	} else if x, ok := firstUnreg.Load(v.pid); ok {
		limit = x.(int64)
	}
	n := 0
	for _, i := range v.issues() {
		if i.Fatal && i.Began < limit {
			n++
		}
	}
	return n
}

type result struct {
	viol  []string
	sig   string
	incon string
}

func (r *result) fail(sig, format string, a ...any) {
	if r.sig == "" {
		r.sig = sig
	}
	r.viol = append(r.viol, fmt.Sprintf(format, a...))
}

// watchdog budget: generous while the run looks healthy; once several watchdogs have expired (a broken
// tree makes every case wait) the remaining cases use a short one. Expiry never decides "violated"
// by itself, only together with a stable structural witness.
var watchdogExpiries atomic.Int64

func watchdog() time.Duration {
	if watchdogExpiries.Load() >= 6 {
		return 3 * time.Second
	}
	return 20 * time.Second
}

// stuckViolations counts cases decided "violated" from a watchdog expiry plus a structural witness.
// On a tree that is broken that way every further case would wait for its watchdog as well; after
// breakerLimit such verdicts the remaining cases are skipped (the verdict cannot change any more).
var stuckViolations atomic.Int64

const breakerLimit = 10

func breakerOpen() bool {
	if stuckViolations.Load() >= breakerLimit {
		hk.Stat("cases_skipped_after_repeated_stuck_termination", 1)
		return true
	}
	return false
}

func settledNow(v *victim) bool {
	if v.gone() {
		return v.inst.TermCount.Load() >= 1 && !v.inst.InCallback() && hk.LiveRunners(v.subject()) == 0
	}
	return v.idle()
}

// settle waits for the victim to be either terminated completely or alive and idle.
// Returns ended. Sets r.incon on watchdog expiry (or a structural violation).
func settle(v *victim, r *result) bool { return settleAll([]*victim{v}, r)[0] }

// settleAll: one watchdog for a group of victims
func settleAll(vs []*victim, r *result) []bool {
	ok := hk.WaitUntil(watchdog(), func() bool {
		for _, v := range vs {
			if !settledNow(v) {
				return false
			}
		}
		return true
	})
	if !ok {
		watchdogExpiries.Add(1)
	}
	ended := make([]bool, len(vs))
	stuck := false
	for k, v := range vs {
		if settledNow(v) {
			ended[k] = v.gone()
			continue
		}
		quiet := hk.LiveRunners(v.subject()) == 0 && !v.inst.InCallback()
		if v.gone() && quiet && v.inst.TermCount.Load() == 0 {
			// unregistered, nothing of it is running, every issuing call has returned: the callback was skipped
			r.fail("terminate-callback-missing", "%s (%s): process is unregistered, no runner goroutine is alive, yet the terminate callback never ran; causes %v", v.label, v.subject(), v.issues())
			ended[k] = true
			stuck = true
			continue
		}
		if !v.gone() && quiet && v.kind != "meta" {
			// every issuing call has returned and no goroutine of the process exists: nobody is left to finish the termination
			if st, err := v.node.ProcessState(v.pid); err == nil && (st == gen.ProcessStateZombee || st == gen.ProcessStateTerminated) {
				r.fail(fmt.Sprintf("stuck-in-state-%s-without-runner", st), "%s (%s): process is still registered in state %s, no runner goroutine is alive and every Kill has returned: its termination is never completed; causes %v", v.label, v.subject(), st, v.issues())
				stuck = true
				continue
			}
		}
		if r.incon == "" {
			r.incon = "watchdog: victim neither terminated nor idle"
		}
		ended[k] = v.gone()
	}
	if stuck {
		stuckViolations.Add(1)
	}
	return ended
}

func observersIdle(n gen.Node, obs []*obsRec) bool {
	return hk.WaitUntil(watchdog(), func() bool {
		for _, o := range obs {
			if o.inst.InCallback() || hk.LiveRunners(o.pid) > 0 {
				return false
			}
			info, err := n.ProcessInfo(o.pid)
			if err != nil {
				continue
			}
			q := info.MailboxQueues
			if info.State != gen.ProcessStateSleep || q.Main+q.System+q.Urgent+q.Log > 0 {
				return false
			}
		}
		return true
	})
}

// judge applies the C05 oracles to one victim at quiescence.
// exact != "" : this cause must be the one reflected (single cause, or it completed before any other was issued).
// startReturn: the meta main loop's return was among the causes (known defect classification).
func judge(v *victim, ended bool, exact string, checkObs bool, r *result) {
	i := v.inst
	evs := i.Events()
	tc := i.TermCount.Load()
	iss := v.issues()
	startReturn := false
	for _, x := range iss {
		if x.C == "m.stopnil" || x.C == "m.stoperr" {
			startReturn = true
		}
	}
	orderSig := func(s string) string {
		if v.kind == "meta" && startReturn {
			return "meta-start-return-beside-handler"
		}
		return s
	}
	if tc > 1 && v.kind == "meta" && v.tpanic {
		r.fail("meta-terminate-panic-runs-terminate-again", "%s (%s): the Terminate callback panicked and was invoked again: it ran %d times; causes %v", v.label, v.subject(), tc, iss)
	} else if tc == 2 && v.tpanic && killIssued(iss) && len(termReasons(evs)) == 2 && termReasons(evs)[0] != gen.TerminateReasonPanic && termReasons(evs)[1] == gen.TerminateReasonPanic {
		// Node.Kill found the process already Terminated and wrote Zombee over it for a moment; the runner's recover
		// handler (the terminate callback had panicked) swapped in exactly then, saw "not terminated" and tore down again
		r.fail("late-kill-reopens-terminated-state-terminate-again", "%s (%s): terminate callback ran with reason %q, panicked, and ran again with reason panic while a Kill was in flight; causes %v", v.label, v.subject(), fmt.Sprint(termReasons(evs)[0]), iss)
	} else if tc > 1 {
		r.fail("terminate-twice", "%s (%s): terminate callback ran %d times; causes %v", v.label, v.subject(), tc, iss)
	}
	if n := i.AfterTerm.Load(); n > 0 {
		r.fail(orderSig("callback-after-terminate"), "%s (%s): %d callbacks began after the terminate callback began", v.label, v.subject(), n)
	}
	// terminate begins after every other callback has ended
	var term *actors.Ev
	for k := range evs {
		if evs[k].CB == "terminate" {
			term = &evs[k]
			break
		}
	}
	if term != nil {
		for _, e := range evs {
			if e.CB == "terminate" || e.CB == "rawmsg" {
				continue
			}
			if e.L < term.L && (e.LX == 0 || e.LX > term.L) {
				r.fail(orderSig("terminate-beside-callback"), "%s (%s): terminate callback began (lclock %d) while callback %s (began %d, ended %d) was still executing", v.label, v.subject(), term.L, e.CB, e.L, e.LX)
				break
			}
		}
	}
	if !ended {
		if !v.idle() {
			return // not settled: reported by settle (stuck) or inconclusive
		}
		if tc > 0 {
			r.fail("terminate-callback-on-live-process", "%s (%s): terminate callback ran but the process is still registered and idle", v.label, v.subject())
		}
		if r.incon == "" {
			for _, x := range iss {
				if x.Fatal && x.Err == "" {
					r.fail("cause-lost-process-alive", "%s (%s): causes %v were issued and every issuing call returned; the process is idle (Sleep, empty mailbox, no runner) and still alive", v.label, v.subject(), iss)
					break
				}
			}
		}
		return
	}
	if tc == 0 || term == nil {
		return // reported by settle (missing) or inconclusive
	}
	// a process that ended without any fatal cause
	anyFatal := false
	for _, x := range iss {
		if x.Fatal {
			anyFatal = true
		}
	}
	if !anyFatal {
		if v.kind == "trap" && len(iss) > 0 {
			r.fail("trapped-exit-terminates", "%s (%s): trapping process terminated with reason %q although only exit signals from non-parents were sent: %v", v.label, v.subject(), fmt.Sprint(term.Err), iss)
		} else {
			r.fail("terminated-without-cause", "%s (%s): terminated with reason %q without any cause issued", v.label, v.subject(), fmt.Sprint(term.Err))
		}
		return
	}
	// reason table
	matched := ""
	if exact != "" {
		if causeTable[exact].cb(term.Err) {
			matched = exact
		} else {
			r.fail(fmt.Sprintf("reason-%s-for-cause-%s", classify(term.Err), exact), "%s (%s): cause %s, terminate callback got reason %q", v.label, v.subject(), exact, fmt.Sprint(term.Err))
		}
	} else {
		for _, x := range iss {
			if x.Fatal && causeTable[x.C].cb(term.Err) {
				matched = x.C
				break
			}
		}
		if matched == "" {
			r.fail(fmt.Sprintf("reason-%s-not-among-causes", classify(term.Err)), "%s (%s): terminate callback got reason %q, which is none of the issued causes %v", v.label, v.subject(), fmt.Sprint(term.Err), iss)
		}
	}
	if !checkObs {
		return
	}
	for k, o := range v.obs {
		ex, dn := o.seen(v.subject())
		if len(ex) != 1 {
			r.fail(fmt.Sprintf("observer-exit-count-%d", len(ex)), "%s (%s): linked observer %d received %d exit signals %v (want exactly 1)", v.label, v.subject(), k, len(ex), ex)
		}
		if len(dn) != 1 {
			r.fail(fmt.Sprintf("observer-down-count-%d", len(dn)), "%s (%s): monitoring observer %d received %d down messages %v (want exactly 1)", v.label, v.subject(), k, len(dn), dn)
		}
		for _, got := range append(ex, dn...) {
			// identical after unwrap to what the callback saw
			if got != term.Err && got != errors.Unwrap(term.Err) {
				r.fail(fmt.Sprintf("observer-reason-%s-callback-%s", classify(got), classify(term.Err)), "%s (%s): observer %d saw reason %q, terminate callback saw %q", v.label, v.subject(), k, fmt.Sprint(got), fmt.Sprint(term.Err))
			} else if matched != "" && got != causeTable[matched].obs {
				r.fail(fmt.Sprintf("observer-reason-%s-for-cause-%s", classify(got), matched), "%s (%s): observer %d saw reason %q for cause %s (want %q)", v.label, v.subject(), k, fmt.Sprint(got), matched, fmt.Sprint(causeTable[matched].obs))
			}
		}
	}
}

func killIssued(iss []issue) bool {
	for _, x := range iss {
		if x.C == "kill" {
			return true
		}
	}
	return false
}

func termReasons(evs []actors.Ev) []error {
	var r []error
	for _, e := range evs {
		if e.CB == "terminate" {
			r = append(r, e.Err)
		}
	}
	return r
}

// trappedExits counts exit signals delivered to a victim's HandleMessage as ordinary messages
func trappedExits(v *victim, from gen.PID, reason error) int {
	n := 0
	for _, e := range v.inst.Events() {
		if e.CB != "msg" {
			continue
		}
		if m, ok := e.Msg.(gen.MessageExitPID); ok && m.PID == from && m.Reason == reason {
			n++
		}
	}
	return n
}

func finish(id, scenario, key string, nontrivial bool, events int64, r *result, detail any) {
	c := hk.Case{ID: id, Scenario: scenario, Key: key, Nontrivial: nontrivial, Events: events, Detail: detail}
	switch {
	case len(r.viol) > 0:
		c.Verdict = hk.Violated
		c.Sig = r.sig
		c.What = fmt.Sprint(r.viol)
	case r.incon != "":
		c.Verdict = hk.Inconclusive
		c.What = r.incon
		c.Nontrivial = false
	default:
		c.Verdict = hk.Held
	}
	hk.Emit(c)
}

// ---------------------------------------------------------------------------
// spawning through a parent probe

func spawnAgent(n gen.Node, label string) (gen.PID, *actors.Inst, error) {
	f, i := actors.NewProbe(label, agentHooks())
	pid, err := n.Spawn(f, gen.ProcessOptions{})
	return pid, i, err
}

// factoryFor: kind is actor | trap | raw, with the suffix "!" when the terminate callback shall panic
func factoryFor(kind, label string) (gen.ProcessFactory, *actors.Inst) {
	tp := strings.HasSuffix(kind, "!")
	switch strings.TrimSuffix(kind, "!") {
	case "raw":
		if tp {
			return newPRaw(label)
		}
		return actors.NewRaw(label, rawHooks())
	case "trap":
		return actors.NewProbe(label, victimHooksT(true, tp))
	}
	return actors.NewProbe(label, victimHooksT(false, tp))
}

// pRaw: raw gen.ProcessBehavior whose terminate callback panics on its first entry
type pRaw struct {
	gen.Process
	I *actors.Inst
	h *actors.RawHooks
}

func newPRaw(label string) (gen.ProcessFactory, *actors.Inst) {
	i := &actors.Inst{Label: label}
	return func() gen.ProcessBehavior { return &pRaw{I: i, h: rawHooks()} }, i
}

func (r *pRaw) ProcessInit(p gen.Process, args ...any) error {
	x := r.I.Enter("init")
	defer r.I.Exit(x)
	r.Process = p
	r.I.PID = p.PID()
	return nil
}

func (r *pRaw) ProcessRun() error {
	x := r.I.Enter("run")
	defer r.I.Exit(x)
	mb := r.Mailbox()
	for {
		if r.State() != gen.ProcessStateRunning {
			return gen.TerminateReasonKill
		}
		v, ok := mb.Urgent.Pop()
		if !ok {
			v, ok = mb.System.Pop()
		}
		if !ok {
			v, ok = mb.Main.Pop()
		}
		if !ok {
			return nil
		}
		m := v.(*gen.MailboxMessage)
		if m.Type == gen.MailboxMessageTypeExit {
			if e, ok := m.Message.(gen.MessageExitPID); ok {
				return e.Reason
			}
		}
		if err := r.h.Handle(nil, m); err != nil {
			return err
		}
	}
}

func (r *pRaw) ProcessTerminate(reason error) {
	x := r.I.Enter("terminate")
	defer r.I.Exit(x)
	r.I.Set(x, func(e *actors.Ev) { e.Err = reason })
	termPanic(r.I)
}

func spawnVictim(n gen.Node, parent gen.PID, kind, label string) (*victim, error) {
	f, inst := factoryFor(kind, label)
	done := make(chan spawnRes, 1)
	if err := n.Send(parent, spawnChild{F: f, Opts: gen.ProcessOptions{LinkParent: true}, Done: done}); err != nil {
		return nil, err
	}
	select {
	case res := <-done:
		if res.Err != nil {
			return nil, res.Err
		}
		v := &victim{node: n, kind: strings.TrimSuffix(kind, "!"), tpanic: strings.HasSuffix(kind, "!"), label: label, inst: inst, pid: res.PID, parent: parent, foreign: foreign}
		// the spawn runs p.run() once: wait until that first runner is over (state back to Sleep)
		if !hk.WaitUntil(10*time.Second, v.idle) {
			return nil, errors.New("watchdog: spawned victim did not become idle")
		}
		return v, nil
	case <-time.After(10 * time.Second):
		return nil, errors.New("watchdog: parent did not spawn")
	}
}

func askExit(n gen.Node, agent gen.PID, to gen.PID, reason error) error {
	done := make(chan error, 1)
	if err := n.Send(agent, sendExit{To: to, Reason: reason, Done: done}); err != nil {
		return err
	}
	select {
	case err := <-done:
		return err
	case <-time.After(10 * time.Second):
		return errors.New("watchdog: agent did not answer")
	}
}

func evCount(v *victim) int64 {
	n := int64(len(v.inst.Events()))
	for _, o := range v.obs {
		ex, dn := o.seen(v.subject())
		n += int64(len(ex) + len(dn))
	}
	return n
}
