package main

import (
	"fmt"
	"time"

	"ergo.services/ergo/gen"

	"verif/harness/actors"
	"verif/harness/hk"
)

// X: exit-signal table. Every class of reason (normal, shutdown, kill, panic used as plain
// reasons, a custom error, a wrapped error) x every way an exit signal reaches a process
// (SendExit by the parent, by a non-parent process, by the node; a link to a peer that
// terminates with that reason; the parent itself terminating with that reason) x
// {act.Actor, trapping act.Actor, raw behaviour}.
// Untrapped, or from the parent: the process terminates, errors.Is(reason, R) at the
// callback, R at the observers. Trapping and from a non-parent: delivered to HandleMessage
// as gen.MessageExitPID{sender, R}, the process stays alive.

type xcase struct {
	kind string // actor | trap | raw
	src  string // parent | foreign | node | nodeparent | link | pdie
	rn   string // reason name
}

func (c xcase) id() string { return fmt.Sprintf("X/%s/%s/%s", c.kind, c.src, c.rn) }

func runExit(c xcase) {
	id := c.id()
	if !hk.Want(id) || breakerOpen() {
		return
	}
	r := &result{}
	n := gen.Node(node)
	parent, parentI, err := spawnAgent(n, id+"/parent")
	if err != nil {
		return
	}
	cleanup := []gen.PID{parent}
	defer func() {
		for _, p := range cleanup {
			n.Kill(p)
		}
	}()
	var v *victim
	if c.src == "nodeparent" {
		f, inst := factoryFor(c.kind, id)
		pid, e := n.Spawn(f, gen.ProcessOptions{})
		err = e
		if e == nil {
			v = &victim{node: n, kind: c.kind, label: id, inst: inst, pid: pid, parent: n.PID(), foreign: foreign}
			if !hk.WaitUntil(10*time.Second, v.idle) {
				err = errWatchdog
			}
		}
	} else {
		v, err = spawnVictim(n, parent, c.kind, id)
	}
	if err != nil {
		r.incon = "spawn victim: " + err.Error()
		finish(id, "exit-table", id, false, 0, r, nil)
		return
	}
	cleanup = append(cleanup, v.pid)
	for k := 0; k < 2; k++ {
		o, err := newObserver(n, fmt.Sprintf("%s/obs%d", id, k))
		if err == nil {
			err = o.watch(n, v.pid)
		}
		if err != nil {
			r.incon = "observer: " + err.Error()
			finish(id, "exit-table", id, false, 0, r, nil)
			return
		}
		cleanup = append(cleanup, o.pid)
		v.obs = append(v.obs, o)
	}
	reason := reasonByName[c.rn]
	delivered := reason // the reason carried by the signal that reaches the victim
	fromParent := c.src == "parent" || c.src == "nodeparent" || c.src == "pdie"
	v.xFatal = v.kind != "trap" || fromParent
	var from gen.PID

	// a process that dies with `reason`: what its linked processes are told
	die := func(who gen.PID, whoI *actors.Inst) error {
		var err error
		switch c.rn {
		case "kill":
			delivered = gen.TerminateReasonKill
			err = n.Kill(who)
		case "panic":
			delivered = gen.TerminateReasonPanic
			err = n.Send(who, "panic")
		default:
			delivered = unwrapOr(reason)
			err = n.Send(who, reason) // the agent's handler returns it
		}
		// the exit signals are pushed before the terminate callback of the dying process runs
		if !hk.WaitUntil(10*time.Second, func() bool { return whoI.TermCount.Load() >= 1 }) && err == nil {
			err = errWatchdog
		}
		return err
	}
	var done func(error)
	register := func() {
		obs := delivered
		if v.kind == "raw" {
			obs = unwrapOr(delivered) // the raw probe returns the signal's reason itself; the node unwraps it once
		}
		causeTable["x"] = causeSpec{is(delivered), obs}
	}
	switch c.src {
	case "parent":
		from = parent
		register()
		done = v.begin("x")
		done(askExit(n, parent, v.pid, reason))
	case "foreign":
		from = foreign
		register()
		done = v.begin("x")
		done(askExit(n, foreign, v.pid, reason))
	case "node", "nodeparent":
		from = n.PID()
		register()
		done = v.begin("x")
		done(n.SendExit(v.pid, reason))
	case "link":
		peer, peerI, err := spawnAgent(n, id+"/peer")
		if err != nil {
			r.incon = "spawn peer"
			break
		}
		cleanup = append(cleanup, peer)
		from = peer
		ld := make(chan error, 1)
		n.Send(v.pid, linkTo{Target: peer, Done: ld})
		select {
		case err := <-ld:
			if err != nil {
				r.incon = "link: " + err.Error()
			}
		case <-time.After(5 * time.Second):
			r.incon = "watchdog: link"
		}
		if r.incon != "" {
			break
		}
		done = v.begin("x")
		err = die(peer, peerI)
		register()
		done(err)
	case "pdie":
		from = parent
		done = v.begin("x")
		err := die(parent, parentI)
		register()
		done(err)
	}
	if r.incon != "" {
		finish(id, "exit-table", id, false, 0, r, nil)
		return
	}
	ended := settle(v, r)
	if !observersIdle(n, v.obs) && r.incon == "" {
		r.incon = "watchdog: observers not idle"
	}
	delivOK := len(v.issues()) > 0 && v.issues()[0].Err == ""
	if v.xFatal && !ended && delivOK && r.incon == "" && v.idle() {
		r.fail(fmt.Sprintf("exit-signal-%s-via-%s-ignored-by-%s", c.rn, c.src, v.kind),
			"%s (%s): exit signal with reason %q (%s, sender %s, parent %s, trap=%v) was accepted; the process is idle (Sleep, empty mailbox, no runner), still alive and its terminate callback never ran",
			v.label, v.pid, fmt.Sprint(delivered), c.src, from, v.parent, v.kind == "trap")
	}
	exact := ""
	if v.xFatal {
		exact = "x"
	}
	judge(v, ended, exact, true, r)
	if !v.xFatal && r.incon == "" && delivOK {
		// trapped: exactly one gen.MessageExitPID{sender, reason} in HandleMessage, still alive afterwards
		got := trappedExits(v, from, delivered)
		if !ended {
			if got != 1 {
				r.fail(fmt.Sprintf("trapped-exit-%s-via-%s-not-delivered-as-message", c.rn, c.src),
					"%s (%s): trapping process got an exit signal with reason %q from non-parent %s; HandleMessage received %d matching gen.MessageExitPID (want 1); events %v",
					v.label, v.pid, fmt.Sprint(delivered), from, got, v.inst.Events())
			}
			p := ping{Done: make(chan struct{})}
			n.Send(v.pid, p)
			select {
			case <-p.Done:
			case <-time.After(10 * time.Second):
				r.incon = "watchdog: live trapping victim did not answer a ping"
			}
		}
	}
	finish(id, "exit-table", id, false, evCount(v), r, map[string]any{
		"events": fmt.Sprint(v.inst.Events()), "issued": v.issues(), "ended": ended, "fatal": v.xFatal,
		"reason_delivered": fmt.Sprint(delivered), "sender": from.String(), "parent": v.parent.String(),
	})
}

func exitCases() []xcase {
	var cs []xcase
	for _, kind := range []string{"actor", "trap", "raw"} {
		for _, src := range []string{"parent", "foreign", "node", "nodeparent", "link", "pdie"} {
			if kind == "raw" && src == "link" {
				continue // the raw probe has no link command; it gets the same signal through "foreign"
			}
			for _, rn := range reasonNames {
				cs = append(cs, xcase{kind, src, rn})
			}
		}
	}
	return cs
}
