package main

import (
	"fmt"
	"strings"
	"sync"
	"sync/atomic"
	"time"

	"ergo.services/ergo/gen"

	"verif/harness/actors"
	"verif/harness/hk"
)

// directed cases for ordinary processes: the victim's runner goroutine (or a
// Kill in flight) is parked at a position, the actions are issued, the gate is
// released and the victim is judged at quiescence.

type pcase struct {
	pfx  string   // id prefix ("D" directed matrix, "R<k>" seeded random)
	kind string   // actor | trap | raw
	pos  string   // position of the victim when the actions are issued
	acts []string // actions issued in order while parked
}

func (c pcase) id() string {
	a := strings.Join(c.acts, "+")
	if a == "" {
		a = "none"
	}
	return fmt.Sprintf("%s/%s/%s/%s", c.pfx, c.kind, c.pos, a)
}

var (
	node    *hk.HNode
	foreign gen.PID // shared foreign (non-parent) process
)

// issueAct issues one action against a process victim and returns when the issuing call has returned
func issueAct(v *victim, parentI *actors.Inst, act string) {
	n := v.node
	switch act {
	case "kill":
		done := v.begin("kill")
		done(n.Kill(v.pid))
	case "kill2":
		done := v.begin("kill")
		done(n.Kill(v.pid))
		done = v.begin("kill")
		done(n.Kill(v.pid))
	case "killpar":
		var wg sync.WaitGroup
		for k := 0; k < 2; k++ {
			wg.Add(1)
			done := v.begin("kill")
			go func() { defer wg.Done(); done(n.Kill(v.pid)) }()
		}
		wg.Wait()
	case "pexit":
		done := v.begin("pexit")
		done(askExit(n, v.parent, v.pid, errPExit))
	case "fexit":
		done := v.begin("fexit")
		done(askExit(n, v.foreign, v.pid, errFExit))
	case "errmsg":
		done := v.begin("err")
		done(n.Send(v.pid, errHandler))
	case "panicmsg":
		done := v.begin("panic")
		done(n.Send(v.pid, "panic"))
	case "pdie":
		done := v.begin("pdie")
		err := n.Send(v.parent, errPDied)
		// the parent's termination delivers the exit signals before its terminate callback runs
		if !hk.WaitUntil(10*time.Second, func() bool { return parentI.TermCount.Load() >= 1 }) && err == nil {
			err = errWatchdog
		}
		done(err)
	default:
		panic("unknown action " + act)
	}
}

// probeEarlyTerminate: while the victim is parked inside a callback, give a wrongly started terminate
// callback a bounded chance to begin (it must not; expiry is the good outcome and decides nothing)
func probeEarlyTerminate(v *victim, d time.Duration) {
	if v.fatalIssued() == false {
		return
	}
	hk.WaitUntil(d, func() bool { return v.inst.TermCount.Load() >= 1 })
}

func runProc(c pcase, scenario string) {
	id := c.id()
	if !hk.Want(id) || breakerOpen() {
		return
	}
	r := &result{}
	n := gen.Node(node)
	parent, parentI, err := spawnAgent(n, id+"/parent")
	if err != nil {
		r.incon = "spawn parent: " + err.Error()
		finish(id, scenario, id, false, 0, r, nil)
		return
	}
	var cleanup []gen.PID
	cleanup = append(cleanup, parent)
	defer func() {
		for _, p := range cleanup {
			n.Kill(p)
		}
	}()
	v, err := spawnVictim(n, parent, c.kind, id)
	if err != nil {
		r.incon = "spawn victim: " + err.Error()
		finish(id, scenario, id, false, 0, r, nil)
		return
	}
	cleanup = append(cleanup, v.pid)
	for k := 0; k < 2; k++ {
		o, err := newObserver(n, fmt.Sprintf("%s/obs%d", id, k))
		if err == nil {
			err = o.watch(n, v.pid)
		}
		if err != nil {
			r.incon = "observer: " + err.Error()
			finish(id, scenario, id, false, 0, r, nil)
			return
		}
		cleanup = append(cleanup, o.pid)
		v.obs = append(v.obs, o)
	}

	fired := false
	exact := ""
	acts := func() {
		for _, a := range c.acts {
			issueAct(v, parentI, a)
		}
	}
	gateAt := func(point string, trigger func()) {
		g := hk.Park(point, hk.Eq(v.pid), false)
		trigger()
		if g.WaitArrived(5 * time.Second) {
			fired = true
			acts()
		} else {
			r.incon = "gate: " + point + " never reached"
		}
		g.Release()
		if g.TimedOut() {
			r.incon = "gate: released by deadline"
		}
	}
	pos := c.pos
	switch {
	case pos == "sleep":
		fired = true
		acts()

	case strings.HasPrefix(pos, "handler"):
		th := strings.TrimPrefix(strings.TrimPrefix(pos, "handler"), "-")
		b := block{Entered: make(chan struct{}), Release: make(chan struct{}), Then: th}
		var done func(error)
		if th == "err" {
			done = v.begin("err")
		} else if th == "panic" {
			done = v.begin("panic")
		}
		err := n.Send(v.pid, b)
		if done != nil {
			done(err)
		}
		select {
		case <-b.Entered:
			fired = true
			acts()
			probeEarlyTerminate(v, 30*time.Millisecond)
		case <-time.After(5 * time.Second):
			r.incon = "gate: handler never entered"
		}
		close(b.Release)

	case strings.HasPrefix(pos, "call"):
		th := strings.TrimPrefix(strings.TrimPrefix(pos, "call"), "-")
		callee, _, err := spawnAgent(n, id+"/callee")
		if err != nil {
			r.incon = "spawn callee: " + err.Error()
			break
		}
		cleanup = append(cleanup, callee)
		b := block{Entered: make(chan struct{}), Release: make(chan struct{})}
		n.Send(callee, b)
		<-b.Entered
		var done func(error)
		if th == "err" {
			done = v.begin("err")
		}
		cd := make(chan error, 1)
		err = n.Send(v.pid, callOut{To: callee, Timeout: 5, Then: th, Done: cd})
		if done != nil {
			done(err)
		}
		if hk.WaitUntil(5*time.Second, func() bool {
			s, _ := n.ProcessState(v.pid)
			return s == gen.ProcessStateWaitResponse
		}) {
			fired = true
			acts()
			probeEarlyTerminate(v, 30*time.Millisecond)
		} else {
			r.incon = "gate: WaitResponse never reached"
		}
		close(b.Release)
		select {
		case <-cd:
		case <-time.After(8 * time.Second):
			r.incon = "watchdog: call did not return"
		}

	case pos == "enter" || pos == "tosleep" || pos == "recheck":
		gateAt("proc.run."+pos, func() { n.Send(v.pid, work{ID: 1}) })

	case pos == "reacquire":
		g1 := hk.Park("proc.run.tosleep", hk.Eq(v.pid), false)
		n.Send(v.pid, work{ID: 1})
		if !g1.WaitArrived(5 * time.Second) {
			r.incon = "gate: tosleep never reached"
			g1.Release()
			break
		}
		gateAt("proc.run.reacquire", func() {
			n.Send(v.pid, work{ID: 2}) // wake-up CAS loses: state is still Running
			g1.Release()
		})
		if g1.TimedOut() {
			r.incon = "gate: released by deadline"
		}

	case pos == "term.err":
		gateAt("proc.run.term.err", func() { done := v.begin("err"); done(n.Send(v.pid, errHandler)) })

	case pos == "term.err-panic": // act.Actor recovers the panic and returns TerminateReasonPanic
		gateAt("proc.run.term.err", func() { done := v.begin("panic"); done(n.Send(v.pid, "panic")) })

	case pos == "term.panic": // raw behaviour: the panic reaches run()'s recover
		gateAt("proc.run.term.panic", func() { done := v.begin("panic"); done(n.Send(v.pid, "panic")) })

	case pos == "term.kill":
		g1 := hk.Park("proc.run.tosleep", hk.Eq(v.pid), false)
		n.Send(v.pid, work{ID: 1})
		if !g1.WaitArrived(5 * time.Second) {
			r.incon = "gate: tosleep never reached"
			g1.Release()
			break
		}
		gateAt("proc.run.term.kill", func() {
			done := v.begin("kill")
			done(n.Kill(v.pid)) // state Running -> Zombee
			g1.Release()
		})
		if g1.TimedOut() {
			r.incon = "gate: released by deadline"
		}

	case pos == "kill.zombie" || pos == "kill.term":
		kd := make(chan struct{})
		gateAt("proc."+pos, func() {
			done := v.begin("kill")
			go func() { done(n.Kill(v.pid)); close(kd) }()
		})
		select {
		case <-kd:
		case <-time.After(10 * time.Second):
			r.incon = "watchdog: Kill did not return"
		}

	case pos == "dead-kill" || pos == "dead-err":
		if pos == "dead-kill" {
			issueAct(v, parentI, "kill")
			exact = "kill"
		} else {
			issueAct(v, parentI, "errmsg")
			exact = "err"
		}
		if settle(v, r) {
			fired = true
		} else if r.incon == "" {
			r.incon = "first cause did not terminate the victim"
		}
		acts()
	default:
		panic("unknown position " + pos)
	}

	ended := settle(v, r)
	if !observersIdle(n, v.obs) && r.incon == "" {
		r.incon = "watchdog: observers not idle"
	}
	if exact == "" {
		// a single distinct fatal cause: the reason is determined
		set := map[string]bool{}
		for _, x := range v.issues() {
			if x.Fatal {
				set[x.C] = true
			}
		}
		if len(set) == 1 {
			for k := range set {
				exact = k
			}
		}
	}
	judge(v, ended, exact, true, r)
	if v.kind == "trap" && r.incon == "" {
		got := trappedExits(v, v.foreign, errFExit)
		if !ended {
			if got != v.fexitOK {
				r.fail("trapped-exit-not-delivered-as-message", "%s (%s): %d exit signals from a non-parent were accepted, HandleMessage received %d gen.MessageExitPID", v.label, v.pid, v.fexitOK, got)
			}
			p := ping{Done: make(chan struct{})}
			n.Send(v.pid, p)
			select {
			case <-p.Done:
			case <-time.After(10 * time.Second):
				r.incon = "watchdog: live trapping victim did not answer a ping"
			}
		} else if got > v.fexitOK {
			r.fail("trapped-exit-duplicated", "%s (%s): %d exit signals sent, %d delivered as messages", v.label, v.pid, v.fexitOK, got)
		}
	}
	racing := v.racing()
	nontrivial := fired && racing >= 2 && !strings.HasPrefix(pos, "dead")
	key := id
	finish(id, scenario, key, nontrivial, evCount(v), r, map[string]any{
		"events": fmt.Sprint(v.inst.Events()), "issued": v.issues(), "fired": fired, "ended": ended, "exact": exact,
		"causes_begun_before_first_swap": racing,
	})
}

// ---------------------------------------------------------------------------
// table: single causes in the other callbacks, wrapped errors, link exits

var tseq atomic.Int64

func runTable(kind, what string) {
	id := fmt.Sprintf("T/%s/%s", kind, what)
	if !hk.Want(id) || breakerOpen() {
		return
	}
	r := &result{}
	n := gen.Node(node)
	parent, _, err := spawnAgent(n, id+"/parent")
	if err != nil {
		return
	}
	cleanup := []gen.PID{parent}
	defer func() {
		for _, p := range cleanup {
			n.Kill(p)
		}
	}()
	v, err := spawnVictim(n, parent, kind, id)
	if err != nil {
		r.incon = "spawn victim: " + err.Error()
		finish(id, "table", id, false, 0, r, nil)
		return
	}
	cleanup = append(cleanup, v.pid)
	for k := 0; k < 2; k++ {
		o, err := newObserver(n, fmt.Sprintf("%s/obs%d", id, k))
		if err == nil {
			err = o.watch(n, v.pid)
		}
		if err != nil {
			r.incon = "observer: " + err.Error()
			finish(id, "table", id, false, 0, r, nil)
			return
		}
		cleanup = append(cleanup, o.pid)
		v.obs = append(v.obs, o)
	}
	exact := ""
	var target gen.PID
	switch what {
	case "errw":
		exact = "errw"
		done := v.begin("errw")
		done(n.Send(v.pid, errWrapped))
	case "normal":
		exact = "normal"
		done := v.begin("normal")
		done(n.Send(v.pid, gen.TerminateReasonNormal))
	case "call-err", "call-panic":
		caller, _, err := spawnAgent(n, id+"/caller")
		if err != nil {
			r.incon = "spawn caller"
			break
		}
		cleanup = append(cleanup, caller)
		var msg any = errHandler
		exact = "err"
		if what == "call-panic" {
			msg = "panic"
			exact = "panic"
		}
		done := v.begin(exact)
		v.mustEnd.Store(true) // the request travels through the caller process: only termination is a settled state
		done(n.Send(caller, callReq{To: v.pid, Msg: msg, Timeout: 1}))
	case "linkexit":
		// the victim links a target which then dies with errTarget
		var targetI *actors.Inst
		target, targetI, err = spawnAgent(n, id+"/target")
		if err != nil {
			r.incon = "spawn target"
			break
		}
		cleanup = append(cleanup, target)
		ld := make(chan error, 1)
		n.Send(v.pid, linkTo{Target: target, Done: ld})
		select {
		case err := <-ld:
			if err != nil {
				r.incon = "link: " + err.Error()
			}
		case <-time.After(5 * time.Second):
			r.incon = "watchdog: link"
		}
		if r.incon == "" {
			exact = "linkexit"
			done := v.begin("linkexit")
			err := n.Send(target, errTarget)
			// the exit signals are delivered before the target's terminate callback runs
			if !hk.WaitUntil(10*time.Second, func() bool { return targetI.TermCount.Load() >= 1 }) && err == nil {
				err = errWatchdog
			}
			done(err)
		}
	case "event-err", "event-panic":
		// the victim subscribes to an event of a producer; the event's payload makes HandleEvent fail
		producer, _, err := spawnAgent(n, id+"/producer")
		if err != nil {
			r.incon = "spawn producer"
			break
		}
		cleanup = append(cleanup, producer)
		name := gen.Atom(fmt.Sprintf("c05ev%d", tseq.Add(1)))
		rd := make(chan gen.Ref, 1)
		n.Send(producer, regEvent{Name: name, Done: rd})
		var token gen.Ref
		select {
		case t, ok := <-rd:
			if !ok {
				r.incon = "register event failed"
			}
			token = t
		case <-time.After(5 * time.Second):
			r.incon = "watchdog: register event"
		}
		if r.incon != "" {
			break
		}
		ld := make(chan error, 1)
		n.Send(v.pid, linkEvent{Ev: gen.Event{Name: name, Node: n.Name()}, Done: ld})
		select {
		case err := <-ld:
			if err != nil {
				r.incon = "link event: " + err.Error()
			}
		case <-time.After(5 * time.Second):
			r.incon = "watchdog: link event"
		}
		if r.incon != "" {
			break
		}
		var msg any = errHandler
		exact = "err"
		if what == "event-panic" {
			msg = "panic"
			exact = "panic"
		}
		done := v.begin(exact)
		v.mustEnd.Store(true) // delivered through the producer: only termination is a settled state
		sd := make(chan error, 1)
		err = n.Send(producer, sendEvent{Name: name, Token: token, Msg: msg, Done: sd})
		if err == nil {
			select {
			case err = <-sd:
			case <-time.After(5 * time.Second):
				err = errWatchdog
			}
		}
		done(err)
	case "fexit3":
		for k := 0; k < 3; k++ {
			issueAct(v, nil, "fexit")
		}
		exact = "fexit"
	}
	// the causes above take effect through the mailbox: wait until the message has been consumed
	ended := settle(v, r)
	if !observersIdle(n, v.obs) && r.incon == "" {
		r.incon = "watchdog: observers not idle"
	}
	if v.kind == "trap" && (what == "linkexit" || what == "fexit3") {
		exact = ""
	}
	judge(v, ended, exact, true, r)
	if v.kind == "trap" && r.incon == "" && (what == "linkexit" || what == "fexit3") {
		want, got := 1, 0
		if what == "linkexit" {
			got = trappedExits(v, target, errTarget)
		} else {
			want = v.fexitOK
			got = trappedExits(v, v.foreign, errFExit)
		}
		if !ended && got != want {
			r.fail("trapped-exit-not-delivered-as-message", "%s (%s): %d exit signals from non-parents, HandleMessage received %d gen.MessageExitPID", v.label, v.pid, want, got)
		}
		if !ended {
			p := ping{Done: make(chan struct{})}
			n.Send(v.pid, p)
			select {
			case <-p.Done:
			case <-time.After(10 * time.Second):
				r.incon = "watchdog: live trapping victim did not answer a ping"
			}
		}
	}
	finish(id, "table", id, false, evCount(v), r, map[string]any{"events": fmt.Sprint(v.inst.Events()), "issued": v.issues(), "ended": ended})
}

// ---------------------------------------------------------------------------
// case lists

var singleActs = []string{"kill", "kill2", "killpar", "pexit", "fexit", "errmsg", "panicmsg", "pdie"}
var pairActs = [][]string{
	{"kill", "pexit"}, {"pexit", "kill"}, {"fexit", "kill"}, {"kill", "fexit"}, {"errmsg", "kill"}, {"kill", "errmsg"},
	{"pexit", "fexit"}, {"fexit", "pexit"}, {"pdie", "kill"}, {"kill", "pdie"}, {"panicmsg", "kill2"}, {"fexit", "kill2"},
}
var sevenCauses = []string{"errmsg", "panicmsg", "kill", "kill2", "pexit", "fexit", "pdie"}

func positionsFor(kind string) []string {
	ps := []string{"sleep", "handler", "handler-err", "handler-panic", "enter", "tosleep", "recheck", "reacquire", "term.err", "term.kill", "kill.zombie", "kill.term", "dead-kill", "dead-err"}
	if kind == "raw" {
		ps = append(ps, "term.panic")
	} else {
		ps = append(ps, "call", "call-err", "term.err-panic")
	}
	return ps
}

// hasOwnCause: the position itself raises a cause, so "no further action" is a meaningful case
func hasOwnCause(pos string) bool {
	switch pos {
	case "handler-err", "handler-panic", "call-err", "term.err", "term.err-panic", "term.panic", "term.kill", "kill.zombie", "kill.term":
		return true
	}
	return false
}

func directedProcCases() []pcase {
	var cs []pcase
	for _, kind := range []string{"actor", "trap", "raw"} {
		for _, pos := range positionsFor(kind) {
			if hasOwnCause(pos) {
				cs = append(cs, pcase{"D", kind, pos, nil})
			}
			for _, a := range singleActs {
				cs = append(cs, pcase{"D", kind, pos, []string{a}})
			}
			if pos == "sleep" {
				for _, a := range sevenCauses {
					for _, b := range sevenCauses {
						cs = append(cs, pcase{"D", kind, pos, []string{a, b}})
					}
				}
				continue
			}
			for _, p := range pairActs {
				cs = append(cs, pcase{"D", kind, pos, p})
			}
		}
	}
	return cs
}

// randomProcCases: seeded sequences of 2..4 actions at seeded positions
func randomProcCases(n int) []pcase {
	rng := hk.Rng("c05", "randproc")
	var cs []pcase
	kinds := []string{"actor", "actor", "trap", "raw"}
	all := append(append([]string{}, sevenCauses...), "killpar")
	for k := 0; k < n; k++ {
		kind := kinds[rng.Intn(len(kinds))]
		ps := positionsFor(kind)
		pos := ps[rng.Intn(len(ps))]
		m := 2 + rng.Intn(3)
		var acts []string
		for j := 0; j < m; j++ {
			acts = append(acts, all[rng.Intn(len(all))])
		}
		cs = append(cs, pcase{fmt.Sprintf("R%d", k), kind, pos, acts})
	}
	return cs
}
