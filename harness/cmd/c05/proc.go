package main

import (
	"fmt"
	"strings"
	"sync"
	"sync/atomic"
	"time"

	"ergo.services/ergo/act"
	"ergo.services/ergo/gen"

	"verif/harness/actors"
	"verif/harness/hk"
)

// directed cases for ordinary processes: the victim's runner goroutine (or a
// Kill in flight) is parked at a position, the actions are issued, the gate is
// released and the victim is judged at quiescence.

type pcase struct {
	pfx  string   // id prefix ("D" directed matrix, "R<k>" seeded random)
	kind string   // actor | trap | raw
	pos  string   // position of the victim when the actions are issued
	acts []string // actions issued in order while parked
}

func (c pcase) id() string {
	a := strings.Join(c.acts, "+")
	if a == "" {
		a = "none"
	}
	return fmt.Sprintf("%s/%s/%s/%s", c.pfx, c.kind, c.pos, a)
}

var (
	node    *hk.HNode
	foreign gen.PID // shared foreign (non-parent) process
)

// issueAct issues one action against a process victim and returns when the issuing call has returned
func issueAct(v *victim, parentI *actors.Inst, act string) {
	n := v.node
	if i := strings.Index(act, "="); i > 0 {
		// exit signal with a named reason
		src, rn := act[:i], act[i+1:]
		reason := reasonByName[rn]
		switch src {
		case "pexit":
			done := v.begin(act)
			done(askExit(n, v.parent, v.pid, reason))
		case "fexit":
			done := v.begin(act)
			done(askExit(n, v.foreign, v.pid, reason))
		case "nexit": // victim spawned by the node: the node is its parent
			done := v.begin("pexit=" + rn)
			done(n.SendExit(v.pid, reason))
		default:
			panic("unknown action " + act)
		}
		return
	}
	switch act {
	case "kill":
		done := v.begin("kill")
		done(n.Kill(v.pid))
	case "kill2":
		done := v.begin("kill")
		done(n.Kill(v.pid))
		done = v.begin("kill")
		done(n.Kill(v.pid))
	case "killpar":
		var wg sync.WaitGroup
		for k := 0; k < 2; k++ {
			wg.Add(1)
			done := v.begin("kill")
			go func() { defer wg.Done(); done(n.Kill(v.pid)) }()
		}
		wg.Wait()
	case "pexit":
		done := v.begin("pexit")
		done(askExit(n, v.parent, v.pid, errPExit))
	case "fexit":
		done := v.begin("fexit")
		done(askExit(n, v.foreign, v.pid, errFExit))
	case "errmsg":
		done := v.begin("err")
		done(n.Send(v.pid, errHandler))
	case "panicmsg":
		if v.tpanic && v.kind == "raw" && !inChild() {
			// double panic (run + terminate) is examined in child processes only (see isolate.go)
			issueAct(v, parentI, "errmsg")
			return
		}
		done := v.begin("panic")
		done(n.Send(v.pid, "panic"))
	case "pdie":
		done := v.begin("pdie")
		err := n.Send(v.parent, errPDied)
		// the parent's termination delivers the exit signals before its terminate callback runs
		if !hk.WaitUntil(10*time.Second, func() bool { return parentI.TermCount.Load() >= 1 }) && err == nil {
			err = errWatchdog
		}
		done(err)
	default:
		panic("unknown action " + act)
	}
}

// probeEarlyTerminate: while the victim is parked inside a callback, give a wrongly started terminate
// callback a bounded chance to begin (it must not; expiry is the good outcome and decides nothing)
func probeEarlyTerminate(v *victim, d time.Duration) {
	if v.fatalIssued() == false {
		return
	}
	hk.WaitUntil(d, func() bool { return v.inst.TermCount.Load() >= 1 })
}

// doublePanic: a raw victim whose ProcessRun panics and whose terminate callback panics too
func (c pcase) doublePanic() bool {
	if c.kind != "raw!" {
		return false
	}
	if c.pos == "handler-panic" || c.pos == "term.panic" {
		return true
	}
	for _, a := range c.acts {
		if a == "panicmsg" {
			return true
		}
	}
	return false
}

func runProc(c pcase, scenario string) {
	id := c.id()
	if !hk.Want(id) || breakerOpen() {
		return
	}
	if c.doublePanic() && !inChild() {
		runChild(id, scenario)
		return
	}
	r := &result{}
	n := gen.Node(node)
	parent, parentI, err := spawnAgent(n, id+"/parent")
	if err != nil {
		r.incon = "spawn parent: " + err.Error()
		finish(id, scenario, id, false, 0, r, nil)
		return
	}
	var cleanup []gen.PID
	cleanup = append(cleanup, parent)
	defer func() {
		for _, p := range cleanup {
			n.Kill(p)
		}
	}()
	v, err := spawnVictim(n, parent, c.kind, id)
	if err != nil {
		r.incon = "spawn victim: " + err.Error()
		finish(id, scenario, id, false, 0, r, nil)
		return
	}
	cleanup = append(cleanup, v.pid)
	for k := 0; k < 2; k++ {
		o, err := newObserver(n, fmt.Sprintf("%s/obs%d", id, k))
		if err == nil {
			err = o.watch(n, v.pid)
		}
		if err != nil {
			r.incon = "observer: " + err.Error()
			finish(id, scenario, id, false, 0, r, nil)
			return
		}
		cleanup = append(cleanup, o.pid)
		v.obs = append(v.obs, o)
	}

	fired := false
	exact := ""
	acts := func() {
		for _, a := range c.acts {
			issueAct(v, parentI, a)
		}
	}
	gateAt := func(point string, trigger func()) {
		g := hk.Park(point, hk.Eq(v.pid), false)
		trigger()
		if g.WaitArrived(5 * time.Second) {
			fired = true
			acts()
		} else {
			r.incon = "gate: " + point + " never reached"
		}
		g.Release()
		if g.TimedOut() {
			r.incon = "gate: released by deadline"
		}
	}
	pos := c.pos
	switch {
	case pos == "sleep":
		fired = true
		acts()

	case strings.HasPrefix(pos, "handler"):
		th := strings.TrimPrefix(strings.TrimPrefix(pos, "handler"), "-")
		b := block{Entered: make(chan struct{}), Release: make(chan struct{}), Then: th}
		var done func(error)
		if th == "err" {
			done = v.begin("err")
		} else if th == "panic" {
			done = v.begin("panic")
		}
		err := n.Send(v.pid, b)
		if done != nil {
			done(err)
		}
		select {
		case <-b.Entered:
			fired = true
			acts()
			probeEarlyTerminate(v, 30*time.Millisecond)
		case <-time.After(5 * time.Second):
			r.incon = "gate: handler never entered"
		}
		close(b.Release)

	case strings.HasPrefix(pos, "call"):
		th := strings.TrimPrefix(strings.TrimPrefix(pos, "call"), "-")
		callee, _, err := spawnAgent(n, id+"/callee")
		if err != nil {
			r.incon = "spawn callee: " + err.Error()
			break
		}
		cleanup = append(cleanup, callee)
		b := block{Entered: make(chan struct{}), Release: make(chan struct{})}
		n.Send(callee, b)
		<-b.Entered
		var done func(error)
		if th == "err" {
			done = v.begin("err")
		}
		cd := make(chan error, 1)
		err = n.Send(v.pid, callOut{To: callee, Timeout: 5, Then: th, Done: cd})
		if done != nil {
			done(err)
		}
		if hk.WaitUntil(5*time.Second, func() bool {
			s, _ := n.ProcessState(v.pid)
			return s == gen.ProcessStateWaitResponse
		}) {
			fired = true
			acts()
			probeEarlyTerminate(v, 30*time.Millisecond)
		} else {
			r.incon = "gate: WaitResponse never reached"
		}
		close(b.Release)
		select {
		case <-cd:
		case <-time.After(8 * time.Second):
			r.incon = "watchdog: call did not return"
		}

	case pos == "enter" || pos == "tosleep" || pos == "recheck":
		gateAt("proc.run."+pos, func() { n.Send(v.pid, work{ID: 1}) })

	case pos == "reacquire":
		g1 := hk.Park("proc.run.tosleep", hk.Eq(v.pid), false)
		n.Send(v.pid, work{ID: 1})
		if !g1.WaitArrived(5 * time.Second) {
			r.incon = "gate: tosleep never reached"
			g1.Release()
			break
		}
		gateAt("proc.run.reacquire", func() {
			n.Send(v.pid, work{ID: 2}) // wake-up CAS loses: state is still Running
			g1.Release()
		})
		if g1.TimedOut() {
			r.incon = "gate: released by deadline"
		}

	case pos == "term.err":
		gateAt("proc.run.term.err", func() { done := v.begin("err"); done(n.Send(v.pid, errHandler)) })

	case pos == "term.err-panic": // act.Actor recovers the panic and returns TerminateReasonPanic
		gateAt("proc.run.term.err", func() { done := v.begin("panic"); done(n.Send(v.pid, "panic")) })

	case pos == "term.panic": // raw behaviour: the panic reaches run()'s recover
		gateAt("proc.run.term.panic", func() { done := v.begin("panic"); done(n.Send(v.pid, "panic")) })

	case pos == "term.kill":
		g1 := hk.Park("proc.run.tosleep", hk.Eq(v.pid), false)
		n.Send(v.pid, work{ID: 1})
		if !g1.WaitArrived(5 * time.Second) {
			r.incon = "gate: tosleep never reached"
			g1.Release()
			break
		}
		gateAt("proc.run.term.kill", func() {
			done := v.begin("kill")
			done(n.Kill(v.pid)) // state Running -> Zombee
			g1.Release()
		})
		if g1.TimedOut() {
			r.incon = "gate: released by deadline"
		}

	case pos == "kill.zombie" || pos == "kill.term":
		kd := make(chan struct{})
		gateAt("proc."+pos, func() {
			done := v.begin("kill")
			go func() { done(n.Kill(v.pid)); close(kd) }()
		})
		select {
		case <-kd:
		case <-time.After(10 * time.Second):
			r.incon = "watchdog: Kill did not return"
		}

	case pos == "dead-kill" || pos == "dead-err":
		if pos == "dead-kill" {
			issueAct(v, parentI, "kill")
			exact = "kill"
		} else {
			issueAct(v, parentI, "errmsg")
			exact = "err"
		}
		if settle(v, r) {
			fired = true
		} else if r.incon == "" {
			r.incon = "first cause did not terminate the victim"
		}
		acts()
	default:
		panic("unknown position " + pos)
	}

	ended := settle(v, r)
	if !observersIdle(n, v.obs) && r.incon == "" {
		r.incon = "watchdog: observers not idle"
	}
	if exact == "" {
		// a single distinct fatal cause: the reason is determined
		set := map[string]bool{}
		for _, x := range v.issues() {
			if x.Fatal {
				set[x.C] = true
			}
		}
		if len(set) == 1 {
			for k := range set {
				exact = k
			}
		}
	}
	judge(v, ended, exact, true, r)
	if v.kind == "trap" && r.incon == "" {
		got := trappedExits(v, v.foreign, errFExit)
		if !ended {
			if got != v.fexitOK {
				r.fail("trapped-exit-not-delivered-as-message", "%s (%s): %d exit signals from a non-parent were accepted, HandleMessage received %d gen.MessageExitPID", v.label, v.pid, v.fexitOK, got)
			}
			p := ping{Done: make(chan struct{})}
			n.Send(v.pid, p)
			select {
			case <-p.Done:
			case <-time.After(10 * time.Second):
				r.incon = "watchdog: live trapping victim did not answer a ping"
			}
		} else if got > v.fexitOK {
			r.fail("trapped-exit-duplicated", "%s (%s): %d exit signals sent, %d delivered as messages", v.label, v.pid, v.fexitOK, got)
		}
	}
	racing := v.racing()
	nontrivial := fired && racing >= 2 && !strings.HasPrefix(pos, "dead")
	key := id
	finish(id, scenario, key, nontrivial, evCount(v), r, map[string]any{
		"events": fmt.Sprint(v.inst.Events()), "issued": v.issues(), "fired": fired, "ended": ended, "exact": exact,
		"causes_begun_before_first_swap": racing,
	})
}

// ---------------------------------------------------------------------------
// table: single causes in the other callbacks, wrapped errors, link exits

var tseq atomic.Int64

func runTable(kind, what string) {
	id := fmt.Sprintf("T/%s/%s", kind, what)
	if !hk.Want(id) || breakerOpen() {
		return
	}
	r := &result{}
	n := gen.Node(node)
	parent, _, err := spawnAgent(n, id+"/parent")
	if err != nil {
		return
	}
	cleanup := []gen.PID{parent}
	defer func() {
		for _, p := range cleanup {
			n.Kill(p)
		}
	}()
	v, err := spawnVictim(n, parent, kind, id)
	if err != nil {
		r.incon = "spawn victim: " + err.Error()
		finish(id, "table", id, false, 0, r, nil)
		return
	}
	cleanup = append(cleanup, v.pid)
	for k := 0; k < 2; k++ {
		o, err := newObserver(n, fmt.Sprintf("%s/obs%d", id, k))
		if err == nil {
			err = o.watch(n, v.pid)
		}
		if err != nil {
			r.incon = "observer: " + err.Error()
			finish(id, "table", id, false, 0, r, nil)
			return
		}
		cleanup = append(cleanup, o.pid)
		v.obs = append(v.obs, o)
	}
	exact := ""
	var target gen.PID
	switch what {
	case "errw":
		exact = "errw"
		done := v.begin("errw")
		done(n.Send(v.pid, errWrapped))
	case "normal":
		exact = "normal"
		done := v.begin("normal")
		done(n.Send(v.pid, gen.TerminateReasonNormal))
	case "call-err", "call-panic":
		caller, _, err := spawnAgent(n, id+"/caller")
		if err != nil {
			r.incon = "spawn caller"
			break
		}
		cleanup = append(cleanup, caller)
		var msg any = errHandler
		exact = "err"
		if what == "call-panic" {
			msg = "panic"
			exact = "panic"
		}
		done := v.begin(exact)
		v.mustEnd.Store(true) // the request travels through the caller process: only termination is a settled state
		done(n.Send(caller, callReq{To: v.pid, Msg: msg, Timeout: 1}))
	case "linkexit":
		// the victim links a target which then dies with errTarget
		var targetI *actors.Inst
		target, targetI, err = spawnAgent(n, id+"/target")
		if err != nil {
			r.incon = "spawn target"
			break
		}
		cleanup = append(cleanup, target)
		ld := make(chan error, 1)
		n.Send(v.pid, linkTo{Target: target, Done: ld})
		select {
		case err := <-ld:
			if err != nil {
				r.incon = "link: " + err.Error()
			}
		case <-time.After(5 * time.Second):
			r.incon = "watchdog: link"
		}
		if r.incon == "" {
			exact = "linkexit"
			done := v.begin("linkexit")
			err := n.Send(target, errTarget)
			// the exit signals are delivered before the target's terminate callback runs
			if !hk.WaitUntil(10*time.Second, func() bool { return targetI.TermCount.Load() >= 1 }) && err == nil {
				err = errWatchdog
			}
			done(err)
		}
	case "event-err", "event-panic":
		// the victim subscribes to an event of a producer; the event's payload makes HandleEvent fail
		producer, _, err := spawnAgent(n, id+"/producer")
		if err != nil {
			r.incon = "spawn producer"
			break
		}
		cleanup = append(cleanup, producer)
		name := gen.Atom(fmt.Sprintf("c05ev%d", tseq.Add(1)))
		rd := make(chan gen.Ref, 1)
		n.Send(producer, regEvent{Name: name, Done: rd})
		var token gen.Ref
		select {
		case t, ok := <-rd:
			if !ok {
				r.incon = "register event failed"
			}
			token = t
		case <-time.After(5 * time.Second):
			r.incon = "watchdog: register event"
		}
		if r.incon != "" {
			break
		}
		ld := make(chan error, 1)
		n.Send(v.pid, linkEvent{Ev: gen.Event{Name: name, Node: n.Name()}, Done: ld})
		select {
		case err := <-ld:
			if err != nil {
				r.incon = "link event: " + err.Error()
			}
		case <-time.After(5 * time.Second):
			r.incon = "watchdog: link event"
		}
		if r.incon != "" {
			break
		}
		var msg any = errHandler
		exact = "err"
		if what == "event-panic" {
			msg = "panic"
			exact = "panic"
		}
		done := v.begin(exact)
		v.mustEnd.Store(true) // delivered through the producer: only termination is a settled state
		sd := make(chan error, 1)
		err = n.Send(producer, sendEvent{Name: name, Token: token, Msg: msg, Done: sd})
		if err == nil {
			select {
			case err = <-sd:
			case <-time.After(5 * time.Second):
				err = errWatchdog
			}
		}
		done(err)
	case "inspect-panic":
		// HandleInspect panics; the inspecting process is a throw-away agent (it waits for its timeout)
		insp, _, err := spawnAgent(n, id+"/inspector")
		if err != nil {
			r.incon = "spawn inspector"
			break
		}
		cleanup = append(cleanup, insp)
		exact = "panic"
		done := v.begin("panic")
		v.mustEnd.Store(true)
		done(n.Send(insp, inspectReq{To: v.pid, Item: "panic"}))
	case "log-err", "log-panic":
		// the victim acts as a logger; HandleLog fails on a marked line
		lname := fmt.Sprintf("c05log%d", tseq.Add(1))
		if err := n.LoggerAddPID(v.pid, lname, gen.LogLevelError); err != nil {
			r.incon = "logger add: " + err.Error()
			break
		}
		exact = "err"
		if what == "log-panic" {
			exact = "panic"
		}
		done := v.begin(exact)
		v.mustEnd.Store(true)
		n.Log().Error("c05-" + what)
		done(nil)
	case "fexit3":
		for k := 0; k < 3; k++ {
			issueAct(v, nil, "fexit")
		}
		exact = "fexit"
	}
	// the causes above take effect through the mailbox: wait until the message has been consumed
	ended := settle(v, r)
	if !observersIdle(n, v.obs) && r.incon == "" {
		r.incon = "watchdog: observers not idle"
	}
	if v.kind == "trap" && (what == "linkexit" || what == "fexit3") {
		exact = ""
	}
	judge(v, ended, exact, true, r)
	if v.kind == "trap" && r.incon == "" && (what == "linkexit" || what == "fexit3") {
		want, got := 1, 0
		if what == "linkexit" {
			got = trappedExits(v, target, errTarget)
		} else {
			want = v.fexitOK
			got = trappedExits(v, v.foreign, errFExit)
		}
		if !ended && got != want {
			r.fail("trapped-exit-not-delivered-as-message", "%s (%s): %d exit signals from non-parents, HandleMessage received %d gen.MessageExitPID", v.label, v.pid, want, got)
		}
		if !ended {
			p := ping{Done: make(chan struct{})}
			n.Send(v.pid, p)
			select {
			case <-p.Done:
			case <-time.After(10 * time.Second):
				r.incon = "watchdog: live trapping victim did not answer a ping"
			}
		}
	}
	finish(id, "table", id, false, evCount(v), r, map[string]any{"events": fmt.Sprint(v.inst.Events()), "issued": v.issues(), "ended": ended})
}

// runInit: Init fails (error / panic). The process never started: spawn reports the failure, the
// PID is not registered, the terminate callback ran at most once and nothing ran after it.
func runInit(kind, how string) {
	id := fmt.Sprintf("T/%s/init-%s", kind, how)
	if !hk.Want(id) || breakerOpen() {
		return
	}
	r := &result{}
	n := gen.Node(node)
	parent, _, err := spawnAgent(n, id+"/parent")
	if err != nil {
		return
	}
	defer n.Kill(parent)
	var arg any = errHandler
	if how == "panic" {
		arg = "init-panic"
	}
	var f gen.ProcessFactory
	var inst *actors.Inst
	switch kind {
	case "actor":
		f, inst = factoryFor("actor", id)
	case "sup", "pool":
		inst = &actors.Inst{Label: id}
		childF := actors.NewProbeMulti(id+"/child", victimHooks(false), nil)
		if kind == "pool" {
			f = func() gen.ProcessBehavior {
				return &poolProbe{I: inst, initFail: arg, opts: act.PoolOptions{PoolSize: 2, WorkerFactory: childF}}
			}
		} else {
			f = func() gen.ProcessBehavior {
				return &supProbe{I: inst, initFail: arg, spec: act.SupervisorSpec{Children: []act.SupervisorChildSpec{{Name: gen.Atom(fmt.Sprintf("c05i_%d", tseq.Add(1))), Factory: childF}}, Restart: act.SupervisorRestart{Strategy: act.SupervisorStrategyTemporary}}}
			}
		}
	}
	done := make(chan spawnRes, 1)
	n.Send(parent, spawnChild{F: f, Opts: gen.ProcessOptions{LinkParent: true}, Args: []any{arg}, Done: done})
	var res spawnRes
	select {
	case res = <-done:
	case <-time.After(10 * time.Second):
		r.incon = "watchdog: parent did not answer"
	}
	if r.incon == "" {
		hk.WaitUntil(2*time.Second, func() bool { return !inst.InCallback() })
		if res.Err == nil {
			r.fail("init-failure-spawn-succeeded", "%s: Init failed (%s) but Spawn returned pid %s without error", id, how, res.PID)
			n.Kill(res.PID)
		}
		if _, err := n.ProcessInfo(inst.PID); err == nil && res.Err != nil {
			r.fail("init-failure-process-registered", "%s: Init failed (%s) yet the process %s is registered", id, how, inst.PID)
		}
		if tc := inst.TermCount.Load(); tc > 1 {
			r.fail("terminate-twice", "%s: terminate callback ran %d times after a failed Init", id, tc)
		}
		if a := inst.AfterTerm.Load(); a > 0 {
			r.fail("callback-after-terminate", "%s: %d callbacks began after the terminate callback", id, a)
		}
		for _, e := range inst.Events() {
			if e.CB != "init" && e.CB != "terminate" {
				r.fail("callback-after-failed-init", "%s: callback %s ran although Init failed", id, e.CB)
			}
		}
	}
	finish(id, "table", id, false, int64(len(inst.Events())), r, map[string]any{"events": fmt.Sprint(inst.Events()), "spawn_error": fmt.Sprint(res.Err)})
}

// runAlive: after everything (terminate callbacks that panic included) the node still works
func runAlive() {
	id := "Z/node-alive"
	if !hk.Want(id) {
		return
	}
	r := &result{}
	n := gen.Node(node)
	pid, inst, err := spawnAgent(n, id)
	if err != nil {
		r.fail("node-dead-after-run", "spawn on the node failed at the end of the run: %v", err)
	} else {
		p := ping{Done: make(chan struct{})}
		n.Send(pid, p)
		select {
		case <-p.Done:
		case <-time.After(10 * time.Second):
			r.incon = "watchdog: fresh process did not answer a ping"
		}
		n.Kill(pid)
	}
	ev := int64(0)
	if inst != nil {
		ev = int64(len(inst.Events()))
	}
	finish(id, "table", id, false, ev, r, nil)
}

// ---------------------------------------------------------------------------
// case lists

var singleActs = []string{"kill", "kill2", "killpar", "pexit", "fexit", "errmsg", "panicmsg", "pdie"}
var pairActs = [][]string{
	{"kill", "pexit"}, {"pexit", "kill"}, {"fexit", "kill"}, {"kill", "fexit"}, {"errmsg", "kill"}, {"kill", "errmsg"},
	{"pexit", "fexit"}, {"fexit", "pexit"}, {"pdie", "kill"}, {"kill", "pdie"}, {"panicmsg", "kill2"}, {"fexit", "kill2"},
}
var sevenCauses = []string{"errmsg", "panicmsg", "kill", "kill2", "pexit", "fexit", "pdie"}

func positionsFor(kind string) []string {
	ps := []string{"sleep", "handler", "handler-err", "handler-panic", "enter", "tosleep", "recheck", "reacquire", "term.err", "term.kill", "kill.zombie", "kill.term", "dead-kill", "dead-err"}
	if strings.TrimSuffix(kind, "!") == "raw" {
		ps = append(ps, "term.panic")
	} else {
		ps = append(ps, "call", "call-err", "term.err-panic")
	}
	return ps
}

// hasOwnCause: the position itself raises a cause, so "no further action" is a meaningful case
func hasOwnCause(pos string) bool {
	switch pos {
	case "handler-err", "handler-panic", "call-err", "term.err", "term.err-panic", "term.panic", "term.kill", "kill.zombie", "kill.term":
		return true
	}
	return false
}

func directedProcCases() []pcase {
	var cs []pcase
	for _, kind := range []string{"actor", "trap", "raw"} {
		for _, pos := range positionsFor(kind) {
			if hasOwnCause(pos) {
				cs = append(cs, pcase{"D", kind, pos, nil})
			}
			for _, a := range singleActs {
				cs = append(cs, pcase{"D", kind, pos, []string{a}})
			}
			if pos == "sleep" {
				for _, a := range sevenCauses {
					for _, b := range sevenCauses {
						cs = append(cs, pcase{"D", kind, pos, []string{a, b}})
					}
				}
				continue
			}
			for _, p := range pairActs {
				cs = append(cs, pcase{"D", kind, pos, p})
			}
		}
	}
	return cs
}

// termPanicProcCases: the same machinery with victims whose terminate callback panics (kind suffix "!"):
// every teardown path (runner after error / kill / panic, Kill of a sleeping process) must enter the
// terminate callback exactly once, nothing afterwards, observers told once, node alive
func termPanicProcCases() []pcase {
	var cs []pcase
	acts := [][]string{{"kill"}, {"kill2"}, {"pexit"}, {"fexit"}, {"errmsg"}, {"panicmsg"}, {"pdie"}, {"pexit=normal"}, {"fexit=shutdown"}, {"errmsg", "kill"}, {"kill", "pexit"}}
	for _, kind := range []string{"actor!", "trap!", "raw!"} {
		for _, pos := range positionsFor(kind) {
			if strings.HasPrefix(pos, "dead") || pos == "recheck" || pos == "enter" {
				continue
			}
			if hasOwnCause(pos) {
				cs = append(cs, pcase{"P", kind, pos, nil})
			}
			for _, a := range acts {
				cs = append(cs, pcase{"P", kind, pos, a})
			}
		}
	}
	// double panics need a child process each: keep a handful
	keep := map[string]bool{"P/raw!/sleep/panicmsg": true, "P/raw!/handler-panic/none": true, "P/raw!/term.panic/none": true, "P/raw!/term.panic/kill": true}
	var out []pcase
	for _, c := range cs {
		if c.doublePanic() && !keep[c.id()] {
			continue
		}
		out = append(out, c)
	}
	return out
}

// randomProcCases: seeded sequences of 2..4 actions at seeded positions
func randomProcCases(n int) []pcase {
	rng := hk.Rng("c05", "randproc")
	var cs []pcase
	kinds := []string{"actor", "actor", "trap", "raw", "actor!", "raw!"}
	all := append(append([]string{}, sevenCauses...), "killpar")
	for k := 0; k < n; k++ {
		kind := kinds[rng.Intn(len(kinds))]
		ps := positionsFor(kind)
		pos := ps[rng.Intn(len(ps))]
		m := 2 + rng.Intn(3)
		var acts []string
		for j := 0; j < m; j++ {
			acts = append(acts, all[rng.Intn(len(all))])
		}
		c := pcase{fmt.Sprintf("R%d", k), kind, pos, acts}
		if c.doublePanic() {
			c.kind = "raw"
		}
		cs = append(cs, c)
	}
	return cs
}
