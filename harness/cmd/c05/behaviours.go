package main

import (
	"errors"
	"fmt"
	"strings"
	"sync"
	"sync/atomic"
	"time"

	"ergo.services/ergo/act"
	"ergo.services/ergo/gen"

	"verif/harness/actors"
	"verif/harness/hk"
)

// B: act.Supervisor and act.Pool have their own mailbox loops (own exit-signal
// handling). The victim is the supervisor / pool process; its children /
// workers (act.Actor probes, linked to it as parent) are judged as well.

func handleCommon(msg any) error {
	switch m := msg.(type) {
	case work:
		spin(m.Spin)
	case block:
		close(m.Entered)
		<-m.Release
		return then(m.Then)
	case ping:
		close(m.Done)
	case error:
		return m
	case string:
		if m == "panic" {
			panic("c05 requested panic")
		}
	}
	return nil
}

type supProbe struct {
	act.Supervisor
	I    *actors.Inst
	spec act.SupervisorSpec
	tp   bool
	// initFail: error to return from Init, or "init-panic"
	initFail any
}

func (s *supProbe) Init(args ...any) (act.SupervisorSpec, error) {
	x := s.I.Enter("init")
	defer s.I.Exit(x)
	s.I.PID = s.PID()
	if e, ok := s.initFail.(error); ok {
		return s.spec, e
	} else if s.initFail != nil {
		panic("c05 requested panic in Init")
	}
	return s.spec, nil
}

// startChildren: simple-one-for-one children are started on demand
type startChildren struct {
	Name gen.Atom
	N    int
	Done chan error
}

func (s *supProbe) HandleMessage(from gen.PID, message any) error {
	x := s.I.Enter("msg")
	defer s.I.Exit(x)
	s.I.Set(x, func(e *actors.Ev) { e.From = from; e.Msg = message })
	if m, ok := message.(startChildren); ok {
		var err error
		for k := 0; k < m.N && err == nil; k++ {
			err = s.StartChild(m.Name)
		}
		m.Done <- err
		return nil
	}
	return handleCommon(message)
}

func (s *supProbe) HandleCall(from gen.PID, ref gen.Ref, request any) (any, error) {
	x := s.I.Enter("call")
	defer s.I.Exit(x)
	return "ok", nil
}

func (s *supProbe) Terminate(reason error) {
	x := s.I.Enter("terminate")
	defer s.I.Exit(x)
	s.I.Set(x, func(e *actors.Ev) { e.Err = reason })
	if s.tp {
		termPanic(s.I)
	}
}

type poolProbe struct {
	act.Pool
	I    *actors.Inst
	opts act.PoolOptions
	tp   bool
	// initFail: error to return from Init, or "init-panic"
	initFail any
}

func (p *poolProbe) Init(args ...any) (act.PoolOptions, error) {
	x := p.I.Enter("init")
	defer p.I.Exit(x)
	p.I.PID = p.PID()
	if e, ok := p.initFail.(error); ok {
		return p.opts, e
	} else if p.initFail != nil {
		panic("c05 requested panic in Init")
	}
	return p.opts, nil
}

func (p *poolProbe) HandleMessage(from gen.PID, message any) error {
	x := p.I.Enter("msg")
	defer p.I.Exit(x)
	p.I.Set(x, func(e *actors.Ev) { e.From = from; e.Msg = message })
	return handleCommon(message)
}

func (p *poolProbe) HandleCall(from gen.PID, ref gen.Ref, request any) (any, error) {
	x := p.I.Enter("call")
	defer p.I.Exit(x)
	return "ok", nil
}

func (p *poolProbe) Terminate(reason error) {
	x := p.I.Enter("terminate")
	defer p.I.Exit(x)
	p.I.Set(x, func(e *actors.Ev) { e.Err = reason })
	if p.tp {
		termPanic(p.I)
	}
}

type bcase struct {
	pfx  string
	kind string // sup-ofo | sup-afo | sup-rfo | pool
	pos  string // idle | child-busy (one child / worker parked in a handler)
	acts []string
	tp   bool // the terminate callbacks (supervisor/pool and children) panic on their first entry
}

func (c bcase) id() string {
	k := c.kind
	if c.tp {
		k += "!"
	}
	return fmt.Sprintf("%s/%s/%s/%s", c.pfx, k, c.pos, strings.Join(c.acts, "+"))
}

var bseq atomic.Int64

func runBehaviour(c bcase, scenario string) {
	id := c.id()
	if !hk.Want(id) || breakerOpen() {
		return
	}
	r := &result{}
	n := gen.Node(node)
	var cmu sync.Mutex
	var kids []*actors.Inst
	reg := func(i *actors.Inst) { cmu.Lock(); kids = append(kids, i); cmu.Unlock() }
	kidsNow := func() []*actors.Inst { cmu.Lock(); defer cmu.Unlock(); return append([]*actors.Inst(nil), kids...) }
	childF := actors.NewProbeMulti(id+"/child", victimHooksT(false, c.tp), reg)

	inst := &actors.Inst{Label: id}
	seq := bseq.Add(1) // child spec names are registered process names: keep them unique per case
	var f gen.ProcessFactory
	if c.kind == "pool" {
		f = func() gen.ProcessBehavior {
			return &poolProbe{I: inst, tp: c.tp, opts: act.PoolOptions{PoolSize: 3, WorkerFactory: childF}}
		}
	} else {
		spec := act.SupervisorSpec{
			Type: map[string]act.SupervisorType{"sup-ofo": act.SupervisorTypeOneForOne, "sup-sofo": act.SupervisorTypeSimpleOneForOne, "sup-afo": act.SupervisorTypeAllForOne, "sup-rfo": act.SupervisorTypeRestForOne}[c.kind],
			Children: []act.SupervisorChildSpec{
				{Name: gen.Atom(fmt.Sprintf("c05a_%d", seq)), Factory: childF},
				{Name: gen.Atom(fmt.Sprintf("c05b_%d", seq)), Factory: childF},
				{Name: gen.Atom(fmt.Sprintf("c05c_%d", seq)), Factory: childF},
			},
			Restart:             act.SupervisorRestart{Strategy: act.SupervisorStrategyTemporary},
			DisableAutoShutdown: true,
		}
		if c.kind == "sup-sofo" {
			spec.Type = act.SupervisorTypeSimpleOneForOne
			spec.Children = spec.Children[:1]
		}
		f = func() gen.ProcessBehavior { return &supProbe{I: inst, spec: spec, tp: c.tp} }
	}
	pid, err := n.Spawn(f, gen.ProcessOptions{})
	if err != nil {
		r.incon = "spawn: " + err.Error()
		finish(id, scenario, id, false, 0, r, nil)
		return
	}
	v := &victim{node: n, kind: c.kind, label: id, inst: inst, pid: pid, foreign: foreign}
	cleanup := []gen.PID{pid}
	defer func() {
		for _, p := range cleanup {
			n.Kill(p)
		}
		for _, k := range kidsNow() {
			n.Kill(k.PID)
		}
	}()
	if c.kind == "sup-sofo" {
		hk.WaitUntil(10*time.Second, v.idle)
		sd := make(chan error, 1)
		n.Send(pid, startChildren{Name: gen.Atom(fmt.Sprintf("c05a_%d", seq)), N: 3, Done: sd})
		select {
		case err := <-sd:
			if err != nil {
				r.incon = "start children: " + err.Error()
			}
		case <-time.After(10 * time.Second):
			r.incon = "watchdog: start children"
		}
		if r.incon != "" {
			finish(id, scenario, id, false, 0, r, nil)
			return
		}
	}
	if !hk.WaitUntil(10*time.Second, func() bool {
		if !v.idle() || len(kidsNow()) < 3 {
			return false
		}
		for _, k := range kidsNow() {
			if k.InCallback() || hk.LiveRunners(k.PID) > 0 {
				return false
			}
		}
		return true
	}) {
		r.incon = "watchdog: supervisor/pool did not start"
		finish(id, scenario, id, false, 0, r, nil)
		return
	}
	for k := 0; k < 2; k++ {
		o, err := newObserver(n, fmt.Sprintf("%s/obs%d", id, k))
		if err == nil {
			err = o.watch(n, v.pid)
		}
		if err != nil {
			r.incon = "observer: " + err.Error()
			finish(id, scenario, id, false, 0, r, nil)
			return
		}
		cleanup = append(cleanup, o.pid)
		v.obs = append(v.obs, o)
	}
	fired := true
	var b *block
	var busy *actors.Inst // the child parked in a handler
	busyOwn := ""         // the cause by which the parked child dies on its own
	if strings.HasPrefix(c.pos, "child-busy") {
		th := strings.TrimPrefix(strings.TrimPrefix(c.pos, "child-busy"), "-")
		busyOwn = th
		if th == "err" {
			busyOwn = "err"
		}
		b = &block{Entered: make(chan struct{}), Release: make(chan struct{}), Then: th}
		if c.kind == "pool" {
			n.Send(pid, *b) // forwarded to a worker
		} else {
			n.Send(kidsNow()[0].PID, *b)
		}
		select {
		case <-b.Entered:
			for _, k := range kidsNow() {
				if k.InCallback() {
					busy = k
				}
			}
		case <-time.After(5 * time.Second):
			r.incon = "gate: child handler never entered"
			fired = false
		}
	}
	killedKid := map[gen.PID]bool{}
	for _, a := range c.acts {
		if strings.HasPrefix(c.kind, "sup") && a != "childkill" {
			// a supervisor first terminates its children and is idle while it waits for them: only termination is a settled state
			v.mustEnd.Store(true)
		}
		switch a {
		case "nexit": // the node is the parent of the victim
			done := v.begin("pexit")
			done(n.SendExit(v.pid, errPExit))
		case "herrmsg":
			done := v.begin("err")
			done(n.SendWithPriority(v.pid, errHandler, gen.MessagePriorityHigh))
		case "hpanicmsg":
			done := v.begin("panic")
			done(n.SendWithPriority(v.pid, "panic", gen.MessagePriorityHigh))
		case "childkill":
			k := kidsNow()[1]
			killedKid[k.PID] = true
			n.Kill(k.PID)
		case "busykill": // the parked child is killed: it dies for its own reason and never handles the forwarded exit
			if busy != nil {
				killedKid[busy.PID] = true
				n.Kill(busy.PID)
			}
		default:
			issueAct(v, nil, a)
		}
	}
	if b != nil {
		if v.fatalIssued() {
			// the supervisor is waiting for its children (the pool is already gone): bounded chance for a wrong early terminate
			probeEarlyTerminate(v, 20*time.Millisecond)
			if busy != nil && (busyOwn != "" || killedKid[busy.PID]) {
				// make the parked child the LAST one to die (bounded, decides nothing): the supervisor then
				// finishes its shutdown on the exit of a child that died for its own reason
				hk.WaitUntil(2*time.Second, func() bool {
					for _, k := range kidsNow() {
						if k != busy && k.TermCount.Load() == 0 {
							return false
						}
					}
					return true
				})
			}
		}
		close(b.Release)
	}
	ended := settle(v, r)
	if !observersIdle(n, v.obs) && r.incon == "" {
		r.incon = "watchdog: observers not idle"
	}
	exact := ""
	set := map[string]bool{}
	for _, x := range v.issues() {
		if x.Fatal {
			set[x.C] = true
		}
	}
	if len(set) == 1 {
		for k := range set {
			exact = k
		}
	}
	judge(v, ended, exact, true, r)
	// children / workers: every one that was started ends exactly once when the parent ended
	var events int64 = evCount(v)
	if ended && r.incon == "" {
		for _, k := range kidsNow() {
			k := k
			ok := hk.WaitUntil(watchdog(), func() bool {
				_, err := n.ProcessInfo(k.PID)
				return err != nil && k.TermCount.Load() >= 1 && !k.InCallback() && hk.LiveRunners(k.PID) == 0
			})
			if !ok {
				watchdogExpiries.Add(1)
				if _, err := n.ProcessInfo(k.PID); err == nil {
					if st, _ := n.ProcessState(k.PID); st == gen.ProcessStateSleep {
						r.fail("child-survives-parent", "%s: child %s (linked to its parent) is still alive and asleep after the parent %s terminated", id, k.PID, v.pid)
					} else {
						r.incon = "watchdog: child did not terminate"
					}
				} else if k.TermCount.Load() == 0 && hk.LiveRunners(k.PID) == 0 {
					r.fail("terminate-callback-missing", "%s: child %s is unregistered, no runner alive, terminate callback never ran", id, k.PID)
					stuckViolations.Add(1)
				} else {
					r.incon = "watchdog: child did not settle"
				}
				continue
			}
			kv := &victim{node: n, kind: "actor", label: id + "/child", inst: k, pid: k.PID}
			// what may have terminated the child: the parent's causes (as exit from the parent) or its own Kill
			for _, x := range v.issues() {
				kv.issued = append(kv.issued, issue{C: "child:" + x.C, Fatal: true})
			}
			if killedKid[k.PID] {
				kv.issued = append(kv.issued, issue{C: "kill", Fatal: true})
			}
			if k == busy && busyOwn != "" {
				kv.issued = append(kv.issued, issue{C: busyOwn, Fatal: true})
			}
			judgeChild(kv, v, r)
			events += int64(len(k.Events()))
		}
	}
	racing := v.racing()
	finish(id, scenario, id, fired && racing >= 2, events, r, map[string]any{
		"events": fmt.Sprint(v.inst.Events()), "issued": v.issues(), "ended": ended, "exact": exact, "children": len(kidsNow()),
		"causes_begun_before_first_swap": racing,
	})
}

// judgeChild: once / final / ordered, and the reason reflects one of the parent's causes or the child's own
func judgeChild(kv *victim, parent *victim, r *result) {
	i := kv.inst
	if tc := i.TermCount.Load(); tc != 1 {
		r.fail("terminate-twice", "%s (%s): child terminate callback ran %d times", kv.label, kv.pid, tc)
	}
	if n := i.AfterTerm.Load(); n > 0 {
		r.fail("callback-after-terminate", "%s (%s): %d child callbacks began after its terminate callback began", kv.label, kv.pid, n)
	}
	var term *actors.Ev
	evs := i.Events()
	for k := range evs {
		if evs[k].CB == "terminate" {
			term = &evs[k]
			break
		}
	}
	if term == nil {
		return
	}
	for _, e := range evs {
		if e.CB != "terminate" && e.L < term.L && (e.LX == 0 || e.LX > term.L) {
			r.fail("terminate-beside-callback", "%s (%s): child terminate callback began (lclock %d) while callback %s (began %d, ended %d) was still executing", kv.label, kv.pid, term.L, e.CB, e.L, e.LX)
			break
		}
	}
	ok := false
	for _, x := range kv.issued {
		if x.C == "kill" && term.Err == gen.TerminateReasonKill {
			ok = true
		}
		if x.C == "err" || x.C == "panic" { // the child's own handler error / panic
			if causeTable[x.C].cb(term.Err) {
				ok = true
			}
		}
		if strings.HasPrefix(x.C, "child:") {
			if want := causeTable[strings.TrimPrefix(x.C, "child:")].obs; errors.Is(term.Err, want) {
				ok = true
			}
		}
	}
	if !ok {
		r.fail(fmt.Sprintf("child-reason-%s-not-among-causes", classify(term.Err)), "%s (%s): child terminated with reason %q; the parent's causes were %v", kv.label, kv.pid, fmt.Sprint(term.Err), parent.issues())
	}
}

func behaviourCases() []bcase {
	var cs []bcase
	seqs := [][]string{
		{"kill"}, {"kill2"}, {"killpar"}, {"nexit"}, {"fexit"}, {"herrmsg"}, {"hpanicmsg"},
		{"herrmsg", "kill"}, {"nexit", "kill"}, {"kill", "nexit"}, {"nexit", "fexit"}, {"fexit", "nexit"}, {"herrmsg", "nexit"},
		{"hpanicmsg", "kill2"}, {"childkill", "nexit"}, {"nexit", "childkill", "kill"}, {"fexit", "herrmsg", "kill"},
	}
	for _, kind := range []string{"sup-ofo", "sup-afo", "sup-rfo", "sup-sofo", "pool"} {
		// the parent is shutting down for R1 while its last child dies for its own reason (handler error, panic, Kill):
		// the parent's reason stays R1
		for _, rn := range []string{"normal", "shutdown", "kill", "panic", "custom"} {
			for _, src := range []string{"nexit", "fexit"} {
				cs = append(cs,
					bcase{"B", kind, "child-busy-err", []string{src + "=" + rn}, false},
					bcase{"B", kind, "child-busy-panic", []string{src + "=" + rn}, false},
					bcase{"B", kind, "child-busy", []string{src + "=" + rn, "busykill"}, false})
			}
		}
		for _, s := range [][]string{{"herrmsg"}, {"hpanicmsg"}} {
			cs = append(cs,
				bcase{"B", kind, "child-busy-err", s, false},
				bcase{"B", kind, "child-busy-panic", s, false},
				bcase{"B", kind, "child-busy", append(append([]string{}, s...), "busykill"), false})
		}
		for _, pos := range []string{"idle", "child-busy"} {
			for _, s := range seqs {
				cs = append(cs, bcase{"B", kind, pos, s, false})
			}
			// exit signals with every reason class, from the parent (the node) and from a non-parent
			for _, rn := range []string{"normal", "shutdown", "kill", "panic", "custom"} {
				cs = append(cs, bcase{"B", kind, pos, []string{"nexit=" + rn}, false}, bcase{"B", kind, pos, []string{"fexit=" + rn}, false})
			}
			// terminate callbacks that panic
			for _, s := range [][]string{{"kill"}, {"nexit"}, {"fexit"}, {"herrmsg"}, {"hpanicmsg"}, {"nexit", "kill"}, {"childkill", "nexit"}, {"fexit=normal"}} {
				cs = append(cs, bcase{"P", kind, pos, s, true})
			}
		}
	}
	return cs
}
