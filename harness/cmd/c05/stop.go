package main

import (
	"fmt"
	"sync"
	"time"

	"ergo.services/ergo/gen"

	"verif/harness/hk"
)

// N: node Stop as a cause. Every process of a node gets a shutdown exit signal
// in the name of its parent (so trapping does not apply) while other causes
// race with it. Own node per case.

func runStop(k int) {
	id := fmt.Sprintf("N/%d", k)
	if !hk.Want(id) || breakerOpen() {
		return
	}
	rng := hk.Rng("c05", id)
	r := &result{}
	hn, err := hk.StartNode(hk.NodeCfg{Name: hk.UniqueName("c05stop")})
	if err != nil {
		r.incon = "start node: " + err.Error()
		finish(id, "node-stop", id, false, 0, r, nil)
		return
	}
	n := gen.Node(hn)
	parent, parentI, err := spawnAgent(n, id+"/parent")
	fpid, _, err2 := spawnAgent(n, id+"/foreign")
	if err != nil || err2 != nil {
		r.incon = "spawn agents"
		finish(id, "node-stop", id, false, 0, r, nil)
		hn.StopForce()
		return
	}
	nV := 8 + rng.Intn(25)
	kinds := []string{"actor", "actor", "trap", "raw", "actor!", "raw!"}
	type slot struct {
		v     *victim
		b     *block
		extra string
	}
	var slots []*slot
	for j := 0; j < nV; j++ {
		v, err := spawnVictim(n, parent, kinds[rng.Intn(len(kinds))], fmt.Sprintf("%s/v%d", id, j))
		if err != nil {
			r.incon = "spawn victim: " + err.Error()
			break
		}
		v.foreign = fpid
		s := &slot{v: v}
		switch rng.Intn(4) {
		case 0, 1: // asleep
		default: // parked in a handler that afterwards returns nil / error / panics
			s.b = &block{Entered: make(chan struct{}), Release: make(chan struct{}), Then: []string{"", "", "err", "panic"}[rng.Intn(4)]}
			if v.tpanic && v.kind == "raw" && s.b.Then == "panic" {
				s.b.Then = "err" // double panic (run + terminate) is examined in child processes only (see isolate.go)
			}
		}
		if rng.Intn(3) == 0 {
			s.extra = []string{"kill", "kill2", "errmsg", "panicmsg"}[rng.Intn(4)] // direct node calls only: the agents are shutting down too
		}
		slots = append(slots, s)
	}
	if r.incon != "" {
		finish(id, "node-stop", id, false, 0, r, nil)
		hn.StopForce()
		return
	}
	for _, s := range slots {
		if s.b == nil {
			continue
		}
		var done func(error)
		if s.b.Then == "err" {
			done = s.v.begin("err")
		} else if s.b.Then == "panic" {
			done = s.v.begin("panic")
		}
		err := n.Send(s.v.pid, *s.b)
		if done != nil {
			done(err)
		}
		select {
		case <-s.b.Entered:
		case <-time.After(5 * time.Second):
			r.incon = "gate: handler never entered"
		}
	}
	for _, s := range slots {
		s.v.begin("stop")(nil)
	}
	stopped := make(chan struct{})
	go func() { hn.Stop(); close(stopped) }()
	var wg sync.WaitGroup
	wg.Add(1)
	go func() {
		defer wg.Done()
		for _, s := range slots {
			if s.extra != "" {
				issueAct(s.v, parentI, s.extra)
			}
		}
	}()
	wg.Wait()
	for _, s := range slots {
		if s.b != nil {
			close(s.b.Release)
		}
	}
	select {
	case <-stopped:
	case <-time.After(30 * time.Second):
		r.incon = "watchdog: node Stop did not return"
	}
	var events int64
	contested := 0
	reasons := map[string]int{}
	for _, s := range slots {
		v := s.v
		if r.incon != "" {
			break
		}
		ok := hk.WaitUntil(watchdog(), func() bool {
			return v.inst.TermCount.Load() >= 1 && !v.inst.InCallback() && hk.LiveRunners(v.pid) == 0
		})
		if !ok {
			if v.inst.TermCount.Load() == 0 && hk.LiveRunners(v.pid) == 0 && !v.inst.InCallback() {
				// Stop() returned: every process has been unregistered; nothing of this one runs
				r.fail("terminate-callback-missing", "%s (%s): node Stop returned, no runner goroutine is alive, yet the terminate callback never ran", v.label, v.pid)
				stuckViolations.Add(1)
			} else {
				r.incon = "watchdog: victim still running after node Stop"
			}
			continue
		}
		judge(v, true, "", false, r)
		for _, e := range v.inst.Events() {
			if e.CB == "terminate" {
				reasons[classify(e.Err)]++
			}
		}
		if v.racing() >= 2 {
			contested++
		}
		events += v.inst.Callbacks.Load()
	}
	hk.Stat("stop_victims", int64(len(slots)))
	hk.Stat("stop_victims_with_racing_causes", int64(contested))
	key := fmt.Sprintf("N/contested=%v", contested > 0)
	finish(id, "node-stop", key, contested > 0, events, r, map[string]any{"victims": nV, "reasons": reasons, "victims_with_2+_causes_before_first_swap": contested})
	if r.incon != "" {
		hn.StopForce()
	}
}
