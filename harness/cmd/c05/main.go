// C05 — termination happens once, with the right reason, and is final.
//
// Monitors: terminate-callback counter, callbacks-after-terminate counter,
// logical-clock order of the terminate callback against every other callback,
// reason table (callback reason and the reasons seen by linked / monitoring
// observers against the issued causes), trap-exit delivery, and the race
// detector on the per-process canary word (terminate racing a handler).
// Workloads: gate-directed cause pairs in every state of the run gate for
// act.Actor, raw behaviours and meta processes; seeded cause storms; node Stop.
package main

import (
	"fmt"
	"os"

	"ergo.services/ergo/gen"

	"verif/harness/hk"
)

func main() {
	hk.InstallHook()
	installSwapObservers()
	hk.Rule("directed (D/R): victim (act.Actor, trapping act.Actor, raw behaviour, meta process) x position (asleep, parked in a handler that then returns nil/error/panics, blocked in Call, parked by a yield-point gate at run.enter/tosleep/recheck/reacquire/term.err/term.kill/term.panic, a Kill parked at kill.zombie/kill.term, meta tosleep/recheck/reacquire/term/start.term, already terminated) x ordered action sequence over {handler error, panic, Kill, Kill twice, two concurrent Kills, exit from parent, exit from a non-parent, parent terminates, Start() returns nil/error, SendExitMeta}; R = seeded random sequences of 2..4 actions. storm (S): 40..200 victims, seeded causes and traffic from 4..16 goroutines under seeded delays at the yield points. node-stop (N): own node, victims asleep or parked in handlers, Stop racing Kill/error/panic. supervisor-pool (B): act.Supervisor (one-for-one, all-for-one, rest-for-one; temporary children) and act.Pool with three children/workers, idle or with one child parked in a handler, x cause sequences on the supervisor/pool; the children are judged too. A case is non-trivial iff the position was really reached (gate fired) and at least two terminating causes had been issued before the first swap of the state word to Terminated completed (measured from the yield points proc.unreg.deleted / meta.term / meta.start.term and the logical clock at issue time); storms: iff at least one victim had that. distinct = kind x position x action sequence (directed), parameter class x contested (storm, node-stop). exit-table (X): reason class x delivery path x kind; terminate-panics (P): the same directed machinery with terminate callbacks that panic on first entry (callback panic + terminate panic in a child process). table (T) and exit-table (X) cases are single causes and never count as non-trivial")
	hk.Assume("the instrumented behaviours (act.Actor, raw gen.ProcessBehavior, gen.MetaBehavior) are representative: all behaviours share node/process.go run(), node.Kill and node/meta.go")
	hk.Assume("meta Start() is the main loop, concurrent to the handlers by design; it is not a callback and may still be running after Terminate")
	hk.Assume("a process counts as 'ended' when the node no longer knows its PID (meta: its alias); observers' notifications are pushed before the terminate callback starts, so they are counted once the observers are idle")
	hk.Assume("for racing causes either cause may win; the reason must be one of the issued causes and the same (after one Unwrap) at the callback and at every observer")
	var err error
	node, err = hk.StartNode(hk.NodeCfg{Name: "c05"})
	if err != nil {
		fmt.Fprintln(os.Stderr, "start node:", err)
		os.Exit(3)
	}
	foreign, _, err = spawnAgent(gen.Node(node), "foreign")
	if err != nil {
		fmt.Fprintln(os.Stderr, "spawn foreign:", err)
		os.Exit(3)
	}

	for _, kind := range []string{"actor", "trap", "raw"} {
		whats := []string{"errw", "normal", "fexit3"}
		if kind != "raw" {
			whats = append(whats, "call-err", "call-panic", "linkexit", "event-err", "event-panic", "inspect-panic", "log-err", "log-panic")
		}
		for _, w := range whats {
			runTable(kind, w)
		}
	}
	for _, kind := range []string{"actor", "sup", "pool"} {
		runInit(kind, "err")
		runInit(kind, "panic")
	}
	for _, c := range exitCases() {
		runExit(c)
	}
	for _, c := range directedProcCases() {
		runProc(c, "directed")
	}
	for _, c := range directedMetaCases() {
		runMeta(c, "directed-meta")
	}
	for _, c := range termPanicProcCases() {
		runProc(c, "terminate-panics")
	}
	for _, c := range termPanicMetaCases() {
		runMeta(c, "terminate-panics-meta")
	}
	for _, c := range behaviourCases() {
		runBehaviour(c, "supervisor-pool")
	}
	for _, c := range randomProcCases(hk.Pick(150, 10000)) {
		runProc(c, "random-directed")
	}
	for _, c := range randomMetaCases(hk.Pick(40, 2500)) {
		runMeta(c, "random-directed-meta")
	}
	for k := 0; k < hk.Pick(40, 1500); k++ {
		runStorm(k)
	}
	for k := 0; k < hk.Pick(6, 200); k++ {
		runStop(k)
	}

	runAlive()

	h, d := hk.PointStats()
	hk.Note("hook_hits", h)
	hk.Note("hook_delays", d)
	if lines := node.Cap.PanicLines(); len(lines) > 0 {
		if len(lines) > 10 {
			lines = lines[:10]
		}
		hk.Note("framework_panic_log_lines_sample", lines)
	}
	os.Stdout.Sync()
	os.Exit(0)
}
