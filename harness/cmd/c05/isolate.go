package main

import (
	"bufio"
	"bytes"
	"context"
	"encoding/json"
	"os"
	"os/exec"
	"strings"
	"time"

	"verif/harness/hk"
)

// Cases in which a callback panics and the terminate callback that follows panics as well are run
// in a child process (re-exec of this binary with VERIF_ONLY=<id>): if the framework lets the
// second panic escape, the whole OS process dies, and that must be an observation, not the death
// of the monitor.

func inChild() bool { return os.Getenv("C05_CHILD") != "" }

// runChild runs the case `id` in a child process and re-emits its verdict; a child that dies is a violation
func runChild(id, scenario string) {
	bin := os.Getenv("VERIF_BIN")
	if bin == "" {
		bin = os.Args[0]
	}
	ctx, cancel := context.WithTimeout(context.Background(), 120*time.Second)
	defer cancel()
	cmd := exec.CommandContext(ctx, bin)
	cmd.Env = append(os.Environ(), "VERIF_ONLY="+id, "C05_CHILD=1")
	var out, errb bytes.Buffer
	cmd.Stdout = &out
	cmd.Stderr = &errb
	runErr := cmd.Run()
	var found *hk.Case
	sc := bufio.NewScanner(&out)
	sc.Buffer(make([]byte, 1<<20), 1<<24)
	for sc.Scan() {
		var c hk.Case
		if json.Unmarshal(sc.Bytes(), &c) == nil && c.T == "case" && c.ID == id {
			cc := c
			found = &cc
		}
	}
	if runErr == nil && found != nil {
		hk.Emit(*found)
		return
	}
	stderr := errb.String()
	c := hk.Case{ID: id, Scenario: scenario, Key: id}
	switch {
	case ctx.Err() != nil:
		c.Verdict = hk.Inconclusive
		c.What = "watchdog: child process did not finish"
	case strings.Contains(stderr, "panic: ") && strings.Contains(stderr, "c05 requested panic in the terminate callback"):
		c.Verdict = hk.Violated
		c.Sig = "handler-panic-then-terminate-panic-crashes-node"
		c.What = "a callback panicked, the framework's recover handler invoked the terminate callback, the terminate callback panicked as well and the panic escaped: the whole node (OS process) died"
		if len(stderr) > 3000 {
			stderr = stderr[:3000]
		}
		c.Events = 1
		c.Detail = map[string]any{"child_exit": runErr.Error(), "child_stderr": stderr}
	default:
		c.Verdict = hk.Inconclusive
		c.What = "child process failed without the expected trace"
		if len(stderr) > 1500 {
			stderr = stderr[len(stderr)-1500:]
		}
		c.Detail = map[string]any{"child_stderr": stderr}
	}
	hk.Emit(c)
}
