package main

import (
	"fmt"
	"os"
	"runtime"
	"strings"
	"sync"
	"time"

	"ergo.services/ergo/act"

	"verif/harness/hk"
	"verif/harness/p08"
)

type aJob struct {
	cfg   p08.Cfg
	depth int
	res   *p08.ExploreResult
	dur   time.Duration
}

func layerAConfigs() []p08.Cfg {
	maxN := hk.Pick(3, 4)
	var out []p08.Cfg
	types := []act.SupervisorType{act.SupervisorTypeOneForOne, act.SupervisorTypeAllForOne, act.SupervisorTypeRestForOne, act.SupervisorTypeSimpleOneForOne}
	strategies := []act.SupervisorStrategy{act.SupervisorStrategyPermanent, act.SupervisorStrategyTransient, act.SupervisorStrategyTemporary}
	for _, typ := range types {
		sofo := typ == act.SupervisorTypeSimpleOneForOne
		arfo := typ == act.SupervisorTypeAllForOne || typ == act.SupervisorTypeRestForOne
		for _, st := range strategies {
			for n := 1; n <= maxN; n++ {
				if sofo && n > 2 {
					continue
				}
				for _, ko := range []bool{false, true} {
					if ko && arfo == false {
						continue
					}
					for sig := uint32(0); sig < 1<<uint(n); sig++ {
						if sofo && sig != 0 {
							continue
						}
						if st == act.SupervisorStrategyPermanent && sig != 0 && sig != 1<<uint(n)-1 {
							// Significant is documented as ignored with Permanent: none / all only
							continue
						}
						if n == 4 && sig != 0 && sig != 1 && sig != 4 && sig != 15 {
							continue
						}
						for _, das := range []bool{false, true} {
							if sofo && das {
								continue
							}
							out = append(out, p08.Cfg{Type: typ, Strategy: st, KeepOrder: ko, N: n, Sig: sig, DAS: das, Intensity: 60000, Period: 1})
						}
					}
				}
			}
		}
	}
	return out
}

func depthFor(c p08.Cfg) int {
	d := hk.Pick(6, 8)
	if v := os.Getenv("C08_DEPTH"); v != "" {
		fmt.Sscan(v, &d)
		return d
	}
	// the state space grows with the number of specs; keep the cost per configuration bounded
	if c.Type == act.SupervisorTypeSimpleOneForOne {
		return d + 2 // small state space
	}
	if c.N >= 3 {
		d--
	}
	if c.N >= 4 {
		d--
	}
	return d
}

func runLayerA() {
	cfgs := layerAConfigs()
	jobs := make([]*aJob, 0, len(cfgs))
	for _, c := range cfgs {
		id := "A/" + c.ID()
		if only := hk.Only(); only != "" && only != id && strings.HasPrefix(only, id+"#") == false {
			continue
		}
		jobs = append(jobs, &aJob{cfg: c, depth: depthFor(c)})
	}
	if len(jobs) == 0 {
		return
	}
	// the explorer branches by cloning the state machine; check the cloner against replay first
	var st []p08.Cfg
	for i, c := range cfgs {
		if i%7 == 0 {
			st = append(st, c)
		}
	}
	if err := p08.SelfTestClone(st, 40, hk.Rng("c08", "clone-selftest")); err != nil {
		p08.UseClone = false
		hk.Note("clone_selftest", "FAILED, falling back to replay: "+err.Error())
		fmt.Fprintln(os.Stderr, "clone self-test failed:", err)
	} else {
		hk.Note("clone_selftest", "ok")
	}
	workers := runtime.NumCPU() - 2
	if workers < 1 {
		workers = 1
	}
	ch := make(chan *aJob)
	var wg sync.WaitGroup
	for w := 0; w < workers; w++ {
		wg.Add(1)
		go func() {
			defer wg.Done()
			for j := range ch {
				t := time.Now()
				j.res = p08.Explore(j.cfg, j.depth, p08.EnumOpt{Mgmt: true, MaxInst: 3, MaxSpecs: j.cfg.N + 1}, hk.Pick(400000, 3000000))
				j.dur = time.Since(t)
			}
		}()
	}
	for _, j := range jobs {
		ch <- j
	}
	close(ch)
	wg.Wait()

	var states, trans int64
	sampled := 0
	for _, j := range jobs {
		c, res := j.cfg, j.res
		id := "A/" + c.ID()
		states += int64(res.States)
		trans += int64(res.Transitions)
		nontrivial := res.DeathWhilePending > 0 || res.MgmtWhilePending > 0
		key := fmt.Sprintf("A/%s/%s/ko=%v/n=%d/deathInWave=%v/mgmtInStrategy=%v", p08.TypeShort(c.Type), p08.StrategyShort(c.Strategy), c.KeepOrder, c.N, res.DeathWhilePending > 0, res.MgmtWhilePending > 0)
		detail := map[string]any{"depth": j.depth, "states": res.States, "transitions": res.Transitions, "machine_calls": res.MachineCalls,
			"deaths_while_exit_requests_pending": res.DeathWhilePending, "mgmt_calls_while_pending": res.MgmtWhilePending, "undetermined_paths_dropped": res.Lost, "unconfirmed_dropped": res.Unconfirmed, "truncated": res.Truncated, "seconds": j.dur.Seconds()}
		if len(res.Viols) == 0 {
			hk.Emit(hk.Case{ID: id, Scenario: "A-machine-exhaustive", Verdict: hk.Held, Key: key, Nontrivial: nontrivial, Events: int64(res.MachineCalls), Detail: detail})
			if sampled < 2 && c.N == 3 {
				sampled++
				hk.Sample(map[string]any{"case": id, "detail": detail})
			}
			continue
		}
		first := true
		for _, sig := range res.SortedSigs() {
			v := res.Viols[sig]
			if only := hk.Only(); only != "" && only != id && only != id+"#"+sig {
				continue
			}
			d := map[string]any{"config": c.ID(), "history": v.Trace, "events": fmt.Sprint(v.Path)}
			ev := int64(0)
			if first {
				ev = int64(res.MachineCalls)
				for k, x := range detail {
					d[k] = x
				}
				first = false
			}
			hk.Emit(hk.Case{ID: id + "#" + sig, Scenario: "A-machine-exhaustive", Verdict: hk.Violated, Sig: sig, What: v.What + " | history: " + strings.Join(v.Trace, " ; "), Key: key, Nontrivial: nontrivial, Events: ev, Detail: d})
		}
	}
	hk.Stat("A_configurations", int64(len(jobs)))
	hk.Stat("A_distinct_states", states)
	hk.Stat("A_transitions", trans)
}
