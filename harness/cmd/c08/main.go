// C08 — supervisor restart semantics by type and strategy.
//
// Layer A (layera.go): the real restart state machines (act/supervisor_ofo.go,
// supervisor_arfo.go, supervisor_sofo.go, reached through act/verif_export.go)
// are driven by a simulated node through every event sequence of a small scope
// and compared with a reference model written from the documentation.
// Layer B (live.go): live supervisors on a node, children that die on command,
// deaths queued while the supervisor is held, kills during a restart and right
// after a start.
package main

import (
	"fmt"
	"os"

	"verif/harness/hk"
)

func main() {
	hk.InstallHook()
	hk.Rule("layer A: one case per supervisor configuration (type x strategy x KeepOrder x significant subset x DisableAutoShutdown x 1..3 children, 4 in thorough); inside a case every sequence of environment events (spontaneous child death normal/shutdown/crash, delivery of a requested exit in any order, foreign exit, handler error, StartChild/EnableChild/DisableChild/AddChild) up to depth 6 (5 with three children, 8 for simple-one-for-one; thorough: 8, 7 with three, 6 with four children, 10 for simple-one-for-one) is enumerated with visited-state pruning; non-trivial iff the enumeration of the case contained a spontaneous death or foreign exit delivered while exit requests of the supervisor were pending (death during a restart wave / shutdown) or a management call in that state; distinct = configuration class (type, strategy, KeepOrder, children) x observed classes. layer B: one case per live scenario (type x strategy x KeepOrder x kill set/order/reason, supervisor held while several children die, child parked in Init during a restart, child killed between spawn and link); non-trivial iff >=2 deaths were queued before the first was processed or a death happened while a restart was in progress (measured from the logs)")
	hk.Assume("layer A: the simulated node mirrors Supervisor.handleAction / ProcessRun: start actions are performed synchronously, exit requests are asynchronous, a child asked to exit terminates with the wrapped reason an act.Actor returns, SpawnRegister fails with ErrTaken while the previous instance of the spec is alive")
	hk.Assume("the reference model does not predict where the documentation is silent: termination of a Transient child with a wrapped normal/shutdown reason, auto-shutdown under Permanent, management calls while the supervisor is ending")
	runLayerA()
	if os.Getenv("C08_SKIP_LIVE") == "" {
		runLive()
	}
	os.Stdout.Sync()
	fmt.Fprintln(os.Stderr, "c08 done")
	os.Exit(0)
}
