package main

import (
	"errors"
	"fmt"
	"os"
	"strings"
	"sync"
	"time"

	"ergo.services/ergo/act"
	"ergo.services/ergo/gen"

	"verif/harness/actors"
	"verif/harness/hk"
	"verif/harness/p08"
)

var (
	lnode   *hk.HNode
	ldriver gen.PID
)

type death struct {
	I      int
	Reason error
}

func reasonName(e error) string { return p08.Label(e) }

func base(e error) error {
	for e != nil {
		u := errors.Unwrap(e)
		if u == nil {
			return e
		}
		e = u
	}
	return e
}

type verdict struct {
	viol  []string
	sig   string
	incon string
}

func (v *verdict) fail(sig, format string, a ...any) {
	if v.sig == "" {
		v.sig = sig
	}
	v.viol = append(v.viol, fmt.Sprintf(format, a...))
}

func famKO(c p08.Cfg) string {
	switch c.Type {
	case act.SupervisorTypeAllForOne, act.SupervisorTypeRestForOne:
		if c.KeepOrder {
			return "ARFO-keeporder"
		}
		return "ARFO"
	}
	return p08.TypeShort(c.Type)
}

func typeKO(c p08.Cfg) string {
	s := p08.TypeShort(c.Type)
	if c.KeepOrder && strings.HasPrefix(famKO(c), "ARFO") {
		s += "-keeporder"
	}
	return s
}

// judge compares the live supervisor at quiescence with the closed-loop reference
func judge(l *p08.LiveSup, d *p08.ModelDriver, v *verdict) p08.Snapshot {
	s := l.Snapshot()
	m := d.M
	c := l.Cfg
	if s.TermReason == gen.TerminateReasonPanic {
		lines := lnode.Cap.PanicLines()
		msg := "panic"
		for _, ln := range lines {
			if strings.Contains(ln, "internal error") {
				msg = "internal-error"
			}
		}
		v.fail("machine-panic:"+famKO(c)+":"+msg, "the supervisor ended with the internal panic reason (framework panic log: %v)", lines)
		return s
	}
	if m.Lost {
		v.incon = "reference undetermined: " + m.LostWhy
		return s
	}
	if s.ChildErr != nil {
		v.incon = "watchdog: Children() call failed: " + s.ChildErr.Error()
		return s
	}
	for _, p := range s.Problems {
		v.fail(s.ProblemSig+":"+famKO(c), "%s", p)
	}
	if s.SupAlive == false && base(s.TermReason) == gen.ErrTaken {
		v.fail("restart-fails-name-still-registered", "the supervisor terminated with %q: SpawnRegister of a replacement ran before the dead instance's name was released (node.unregisterProcess routes the exit before it deletes the name)", fmt.Sprint(s.TermReason))
		return s
	}
	if s.SupAlive == false {
		if m.Phase != p08.PDead {
			if m.EitherDead {
				return s
			}
			v.fail("terminated-unexpectedly:"+typeKO(c)+":"+p08.StrategyShort(c.Strategy), "supervisor terminated with %v; the reference is in phase %s", s.TermReason, m.Phase)
			return s
		}
		if m.ReasonSoft == false && base(s.TermReason) != base(m.Reason) {
			v.fail("terminate-reason:"+famKO(c), "supervisor terminated with %q, reference: %q", fmt.Sprint(s.TermReason), fmt.Sprint(m.Reason))
		}
		if n := len(l.LiveOf(-1)); n > 0 {
			v.fail("terminated-with-running-children:"+famKO(c), "supervisor terminated but %d of its children are still running", n)
		}
		return s
	}
	if m.Phase == p08.PDead || m.Phase == p08.PShutdown {
		if m.Phase == p08.PDead && m.EitherDead {
			return s
		}
		if m.SigInWave {
			v.fail("rfo-significant-exit-during-stop-phase-ignored", "rest-for-one: a significant child before the restart range ended while the supervisor was stopping the range; the supervisor did not end (running %v)", s.Up)
			return s
		}
		r := p08.Label(m.Reason)
		if r == "foreign" || r == "self" {
			r = "external"
		}
		v.fail("not-terminated:"+typeKO(c)+":"+r, "supervisor is still alive at quiescence; the reference ended with %v (running per spec: %v)", m.Reason, s.Up)
		return s
	}
	for i, sp := range m.Specs {
		if sp.Disabled && s.Up[i] > 0 {
			v.fail("disabled-child-running:"+famKO(c), "c%d is disabled but running", i)
		}
		if s.Up[i] != sp.Want {
			if s.Up[i] < sp.Want && m.ExtendedWave {
				v.fail("rfo-child-before-range-died-during-stop-phase-not-restarted", "rest-for-one: c%d (before the restart range) terminated while the supervisor was stopping the range and is to be restarted, but it stays down: running per spec %v", i, s.Up)
				continue
			}
			kind := "missing"
			if s.Up[i] > sp.Want {
				kind = "unexpected"
			}
			v.fail(fmt.Sprintf("child-%s:%s:%s", kind, typeKO(c), p08.StrategyShort(c.Strategy)), "at quiescence c%d has %d running instance(s), the reference wants %d (running per spec %v)", i, s.Up[i], sp.Want, s.Up)
		}
	}
	if len(v.viol) == 0 {
		for i := range d.Starts {
			if s.Starts[i] != d.Starts[i] {
				kind := "child-restarted-needlessly"
				if s.Starts[i] < d.Starts[i] {
					kind = "child-not-replaced"
				}
				v.fail(kind+":"+typeKO(c)+":"+p08.StrategyShort(c.Strategy), "c%d was started %d times, the reference starts it %d times (starts per spec: observed %v, reference %v)", i, s.Starts[i], d.Starts[i], s.Starts, d.Starts)
			}
		}
	}
	return s
}

func emitLive(id, scenario, key string, nontrivial bool, l *p08.LiveSup, v *verdict, detail map[string]any) {
	c := hk.Case{ID: id, Scenario: scenario, Key: key, Nontrivial: nontrivial, Detail: detail}
	if l != nil {
		for _, r := range l.Recs() {
			c.Events += r.Inst.Callbacks.Load()
		}
		var log []string
		for _, r := range l.Recs() {
			st := "running"
			for _, e := range r.Inst.Events() {
				if e.CB == "terminate" {
					st = fmt.Sprintf("terminated(%v)@%d", e.Err, e.L)
				}
			}
			log = append(log, fmt.Sprintf("c%d %s started@%d %s", r.SpecI, r.Inst.PID, r.T, st))
		}
		detail["children_log"] = log
		c.Events++
	}
	switch {
	case len(v.viol) > 0:
		c.Verdict = hk.Violated
		c.Sig = v.sig
		c.What = strings.Join(v.viol, " | ")
	case v.incon != "":
		c.Verdict = hk.Inconclusive
		c.What = v.incon
	default:
		c.Verdict = hk.Held
	}
	hk.Emit(c)
}

func cfgDetail(c p08.Cfg) map[string]any {
	return map[string]any{"config": c.ID()}
}

// ---------------------------------------------------------------------------
// L1: deaths queued while the supervisor is held inside a handler

func runQueue(id string, cfg p08.Cfg, deaths []death) {
	if !hk.Want(id) {
		return
	}
	v := &verdict{}
	detail := cfgDetail(cfg)
	var ds []string
	for _, d := range deaths {
		ds = append(ds, fmt.Sprintf("c%d:%s", d.I, reasonName(d.Reason)))
	}
	detail["deaths_in_order"] = ds
	key := fmt.Sprintf("B/queue/%s/%s/ko=%v/deaths=%d", p08.TypeShort(cfg.Type), p08.StrategyShort(cfg.Strategy), cfg.KeepOrder, len(deaths))
	l, err := p08.StartLive(lnode, ldriver, cfg)
	if err != nil {
		v.incon = "spawn supervisor: " + err.Error()
		emitLive(id, "B-live-queued-deaths", key, false, nil, v, detail)
		return
	}
	defer l.Stop()
	md := p08.NewModelDriver(cfg)
	if l.WaitQuiescent(20*time.Second) == false {
		v.incon = "watchdog: no quiescence after start"
	}
	release, ok := l.Hold()
	if ok == false {
		v.incon = "watchdog: supervisor did not enter the holding handler"
	}
	queued := 0
	for _, d := range deaths {
		live := l.LiveOf(d.I)
		if len(live) == 0 || v.incon != "" {
			continue
		}
		if l.Kill(live[0], d.Reason) == false {
			v.incon = "watchdog: child did not terminate"
			continue
		}
		md.Die(d.I, d.Reason)
		queued++
	}
	release()
	if l.WaitQuiescent(20*time.Second) == false && v.incon == "" {
		v.incon = "watchdog: no quiescence"
	}
	md.Settle()
	if v.incon == "" {
		s := judge(l, md, v)
		detail["running_per_spec"] = s.Up
		detail["starts_per_spec"] = s.Starts
		detail["reference_starts"] = md.Starts
		detail["supervisor_alive"] = s.SupAlive
		detail["terminate_reason"] = fmt.Sprint(s.TermReason)
	}
	emitLive(id, "B-live-queued-deaths", key, queued >= 2, l, v, detail)
}

// ---------------------------------------------------------------------------
// L2: a child dies between the supervisor's spawn and the link to it (gate proc.spawn.linked)

var gateMu sync.Mutex // the gate matches any pid: one such case at a time

func runSpawnLinkGate(id string, cfg p08.Cfg, victim int) {
	if !hk.Want(id) {
		return
	}
	gateMu.Lock()
	defer gateMu.Unlock()
	v := &verdict{}
	detail := cfgDetail(cfg)
	detail["victim"] = victim
	key := fmt.Sprintf("B/spawn-link/%s/%s", p08.TypeShort(cfg.Type), p08.StrategyShort(cfg.Strategy))
	l, err := p08.StartLive(lnode, ldriver, cfg)
	if err != nil {
		v.incon = "spawn supervisor: " + err.Error()
		emitLive(id, "B-live-death-right-after-start", key, false, nil, v, detail)
		return
	}
	defer l.Stop()
	md := p08.NewModelDriver(cfg)
	l.WaitQuiescent(20 * time.Second)
	first := l.LiveOf(victim)
	if len(first) != 1 {
		v.incon = "victim not running"
		emitLive(id, "B-live-death-right-after-start", key, false, l, v, detail)
		return
	}
	n0 := len(l.Recs())
	g := hk.Park("proc.spawn.linked", nil, false)
	// first death: the supervisor restarts the child and is parked between spawn and link
	l.Node.Send(first[0].Inst.PID, p08.MsgDie(p08.ErrCrash))
	md.Die(victim, p08.ErrCrash)
	fired := g.WaitArrived(10 * time.Second)
	if fired == false {
		g.Release()
		v.incon = "gate: proc.spawn.linked never reached"
	} else {
		// the instance just spawned (its Init is over) dies now, before the supervisor links to it
		var fresh *p08.ChildRec
		hk.WaitUntil(5*time.Second, func() bool {
			recs := l.Recs()
			if len(recs) > n0 {
				fresh = recs[len(recs)-1]
				var empty gen.PID
				return fresh.Inst.PID != empty
			}
			return false
		})
		if fresh == nil {
			v.incon = "watchdog: restarted instance not seen"
		} else {
			detail["fresh_instance"] = fmt.Sprintf("c%d %s", fresh.SpecI, fresh.Inst.PID)
			if l.Kill(fresh, p08.ErrCrash) == false {
				v.incon = "watchdog: fresh instance did not terminate"
			} else {
				md.Settle() // the wave of the first death completes (its starts are in progress)
				md.Die(fresh.SpecI, p08.ErrCrash)
			}
		}
		g.Release()
		if g.TimedOut() {
			v.incon = "gate: released by deadline"
		}
	}
	if l.WaitQuiescent(20*time.Second) == false && v.incon == "" {
		v.incon = "watchdog: no quiescence"
	}
	md.Settle()
	if v.incon == "" {
		s := judge(l, md, v)
		detail["running_per_spec"] = s.Up
		detail["starts_per_spec"] = s.Starts
		detail["reference_starts"] = md.Starts
		if len(v.viol) > 0 {
			// whatever the symptom, the cause class is fixed by the schedule
			v.sig = "child-died-between-spawn-and-link-unnoticed"
		}
	}
	emitLive(id, "B-live-death-right-after-start", key, fired, l, v, detail)
}

// ---------------------------------------------------------------------------
// L3: children die while the supervisor is blocked in the Init of a child it restarts

func runParkedInit(id string, cfg p08.Cfg, first int, others []death) {
	if !hk.Want(id) {
		return
	}
	v := &verdict{}
	detail := cfgDetail(cfg)
	detail["first_death"] = first
	var ds []string
	for _, d := range others {
		ds = append(ds, fmt.Sprintf("c%d:%s", d.I, reasonName(d.Reason)))
	}
	detail["deaths_during_restart"] = ds
	key := fmt.Sprintf("B/parked-init/%s/%s/ko=%v/during=%d", p08.TypeShort(cfg.Type), p08.StrategyShort(cfg.Strategy), cfg.KeepOrder, len(others))
	l, err := p08.StartLive(lnode, ldriver, cfg)
	if err != nil {
		v.incon = "spawn supervisor: " + err.Error()
		emitLive(id, "B-live-death-during-restart", key, false, nil, v, detail)
		return
	}
	defer l.Stop()
	md := p08.NewModelDriver(cfg)
	l.WaitQuiescent(20 * time.Second)
	pk := l.ArmPark(first)
	live := l.LiveOf(first)
	if len(live) != 1 {
		v.incon = "victim not running"
		emitLive(id, "B-live-death-during-restart", key, false, l, v, detail)
		return
	}
	l.Node.Send(live[0].Inst.PID, p08.MsgDie(p08.ErrCrash))
	md.Die(first, p08.ErrCrash)
	during := 0
	select {
	case <-pk.Entered:
		// the supervisor is inside Spawn of the replacement; whatever stop requests the wave
		// needed have been answered (the start phase begins only then)
		md.Settle()
		for _, d := range others {
			lv := l.LiveOf(d.I)
			if len(lv) == 0 {
				continue
			}
			if l.Kill(lv[0], d.Reason) == false {
				v.incon = "watchdog: child did not terminate"
				break
			}
			md.Die(d.I, d.Reason)
			during++
		}
	case <-time.After(10 * time.Second):
		v.incon = "watchdog: replacement never entered Init"
	}
	close(pk.Release)
	if l.WaitQuiescent(20*time.Second) == false && v.incon == "" {
		v.incon = "watchdog: no quiescence"
	}
	md.Settle()
	if v.incon == "" {
		s := judge(l, md, v)
		detail["running_per_spec"] = s.Up
		detail["starts_per_spec"] = s.Starts
		detail["reference_starts"] = md.Starts
		detail["supervisor_alive"] = s.SupAlive
	}
	emitLive(id, "B-live-death-during-restart", key, during >= 1, l, v, detail)
}

// ---------------------------------------------------------------------------
// L4: management calls and foreign exits

type mstep struct {
	Op     p08.EvKind // EvStart/EvEnable/EvDisable, EvDie, EvSelfErr
	I      int
	Reason error
}

func runScript(id string, cfg p08.Cfg, steps []mstep) {
	if !hk.Want(id) {
		return
	}
	v := &verdict{}
	detail := cfgDetail(cfg)
	var ss []string
	key := fmt.Sprintf("B/script/%s/%s/ko=%v/%s", p08.TypeShort(cfg.Type), p08.StrategyShort(cfg.Strategy), cfg.KeepOrder, strings.SplitN(id, "/", 3)[1])
	l, err := p08.StartLive(lnode, ldriver, cfg)
	if err != nil {
		v.incon = "spawn supervisor: " + err.Error()
		emitLive(id, "B-live-management", key, false, nil, v, detail)
		return
	}
	defer l.Stop()
	md := p08.NewModelDriver(cfg)
	l.WaitQuiescent(20 * time.Second)
	mgmtAfterWave := false
	for _, st := range steps {
		if v.incon != "" || len(v.viol) > 0 {
			break
		}
		switch st.Op {
		case p08.EvDie:
			lv := l.LiveOf(st.I)
			if len(lv) == 0 {
				v.incon = "script: victim not running"
				continue
			}
			ss = append(ss, fmt.Sprintf("die(c%d,%s)", st.I, reasonName(st.Reason)))
			if l.Kill(lv[0], st.Reason) == false {
				v.incon = "watchdog: child did not terminate"
			}
			md.Die(st.I, st.Reason)
		case p08.EvSelfErr:
			ss = append(ss, "handler-error")
			l.Fail(p08.ErrSelf)
			md.Foreign(p08.ErrSelf)
		default:
			idle := md.M.Phase == p08.PNormal
			res, cerr := l.Mgmt(st.Op, st.I)
			if cerr != nil {
				v.incon = "watchdog: management call: " + cerr.Error()
				continue
			}
			ss = append(ss, fmt.Sprintf("%s -> %v", p08.Ev{K: st.Op, S: st.I}, res))
			var flags []bool
			if cfg.Type != act.SupervisorTypeSimpleOneForOne {
				if ch, err := l.Children(); err == nil {
					for _, c := range ch {
						flags = append(flags, c.Disabled)
					}
				}
			}
			if res == act.ErrSupervisorStrategyActive && idle {
				mgmtAfterWave = true
				v.fail("strategy-active-while-idle:"+strings.TrimSuffix(famKO(cfg), "-keeporder"), "%s returned ErrSupervisorStrategyActive although no restart is in progress", p08.Ev{K: st.Op, S: st.I})
			}
			if note := md.M.Mgmt(st.Op, st.I, res, flags); note != "" {
				v.fail("disable-returns-nil-without-disabling:"+strings.TrimSuffix(famKO(cfg), "-keeporder"), "%s", note)
			}
		}
		if l.WaitQuiescent(20*time.Second) == false && v.incon == "" {
			v.incon = "watchdog: no quiescence"
		}
		md.Settle()
	}
	_ = mgmtAfterWave
	detail["script"] = ss
	if v.incon == "" && len(v.viol) == 0 {
		s := judge(l, md, v)
		detail["running_per_spec"] = s.Up
		detail["starts_per_spec"] = s.Starts
		detail["reference_starts"] = md.Starts
		detail["supervisor_alive"] = s.SupAlive
		detail["terminate_reason"] = fmt.Sprint(s.TermReason)
	}
	emitLive(id, "B-live-management", key, len(steps) >= 2, l, v, detail)
}

// ---------------------------------------------------------------------------
// L5: restart churn: one child is killed again and again as soon as it is back

func runChurn(id string, cfg p08.Cfg, rounds int) {
	if !hk.Want(id) {
		return
	}
	v := &verdict{}
	detail := cfgDetail(cfg)
	key := fmt.Sprintf("B/churn/%s", p08.TypeShort(cfg.Type))
	l, err := p08.StartLive(lnode, ldriver, cfg)
	if err != nil {
		v.incon = "spawn supervisor: " + err.Error()
		emitLive(id, "B-live-restart-churn", key, false, nil, v, detail)
		return
	}
	defer l.Stop()
	md := p08.NewModelDriver(cfg)
	l.WaitQuiescent(20 * time.Second)
	done := 0
	for k := 0; k < rounds && v.incon == ""; k++ {
		i := k % cfg.N
		var lv []*p08.ChildRec
		stuck := false
		if hk.WaitUntil(10*time.Second, func() bool {
			if t, _ := l.Terminated(); t {
				return true
			}
			// the supervisor has finished its start phase (so it is linked to what it started):
			// the death between spawn and link has its own scenario
			if l.SupIdle() == false {
				return false
			}
			lv = l.LiveOf(i)
			return len(lv) > 0
		}) == false {
			stuck = true
		}
		if stuck {
			// judged below: an idle supervisor that lists a dead pid is a structural witness
			detail["stuck"] = fmt.Sprintf("c%d is not running and the supervisor is idle", i)
			break
		}
		if t, _ := l.Terminated(); t {
			break
		}
		// no waiting for quiescence between the kills: the next victim dies while the previous restart may still be in progress
		l.Node.Send(lv[0].Inst.PID, p08.MsgDie(p08.ErrCrash))
		hk.WaitUntil(10*time.Second, func() bool { return lv[0].Inst.TermCount.Load() > 0 })
		md.Die(i, p08.ErrCrash)
		md.Settle()
		done++
	}
	if l.WaitQuiescent(20*time.Second) == false && v.incon == "" {
		v.incon = "watchdog: no quiescence"
	}
	detail["kills"] = done
	if v.incon == "" {
		// kills are not synchronised with the restarts here: a victim may be an instance the
		// supervisor is stopping anyway, so the number of starts is not predicted, only the final state
		md.Starts = nil
		s := judge(l, md, v)
		detail["running_per_spec"] = s.Up
		detail["supervisor_alive"] = s.SupAlive
		detail["terminate_reason"] = fmt.Sprint(s.TermReason)
	}
	emitLive(id, "B-live-restart-churn", key, done >= 2, l, v, detail)
}

// ---------------------------------------------------------------------------

func runLive() {
	var err error
	lnode, err = hk.StartNode(hk.NodeCfg{Name: hk.UniqueName("c08")})
	if err != nil {
		fmt.Fprintln(os.Stderr, "start node:", err)
		hk.Emit(hk.Case{ID: "B/node", Scenario: "B-live", Verdict: hk.Inconclusive, What: "node start failed: " + err.Error()})
		return
	}
	df, _ := actors.NewProbe("driver", p08.DriverHooks())
	ldriver, err = lnode.Spawn(df, gen.ProcessOptions{})
	if err != nil {
		fmt.Fprintln(os.Stderr, "spawn driver:", err)
		return
	}

	types := []act.SupervisorType{act.SupervisorTypeOneForOne, act.SupervisorTypeAllForOne, act.SupervisorTypeRestForOne}
	strategies := []act.SupervisorStrategy{act.SupervisorStrategyPermanent, act.SupervisorStrategyTransient, act.SupervisorStrategyTemporary}
	reasons := []error{gen.TerminateReasonNormal, p08.ErrCrash}
	if hk.Thorough() {
		reasons = append(reasons, gen.TerminateReasonShutdown, gen.TerminateReasonKill)
	}

	// L1: all ordered selections of 1..2 (3 in thorough) distinct children x reasons; sampled in quick
	type qc struct {
		id     string
		cfg    p08.Cfg
		deaths []death
	}
	var all []qc
	for _, typ := range types {
		for _, st := range strategies {
			for _, ko := range []bool{false, true} {
				if ko && typ == act.SupervisorTypeOneForOne {
					continue
				}
				for _, sig := range []uint32{0, 1, 4} {
					if sig != 0 && st == act.SupervisorStrategyPermanent {
						continue
					}
					for _, das := range []bool{false, true} {
						if das && st == act.SupervisorStrategyPermanent {
							continue
						}
						cfg := p08.Cfg{Type: typ, Strategy: st, KeepOrder: ko, N: 3, Sig: sig, DAS: das, Intensity: 1000, Period: 1}
						var seqs [][]death
						for a := 0; a < 3; a++ {
							for _, ra := range reasons {
								seqs = append(seqs, []death{{a, ra}})
								for b := 0; b < 3; b++ {
									if b == a {
										continue
									}
									for _, rb := range reasons {
										seqs = append(seqs, []death{{a, ra}, {b, rb}})
										if hk.Thorough() {
											c := 3 - a - b
											seqs = append(seqs, []death{{a, ra}, {b, rb}, {c, p08.ErrCrash}})
										}
									}
								}
							}
						}
						for _, sq := range seqs {
							var parts []string
							for _, d := range sq {
								parts = append(parts, fmt.Sprintf("c%d:%s", d.I, reasonName(d.Reason)))
							}
							all = append(all, qc{id: "B/queue/" + cfg.ID() + "/" + strings.Join(parts, ","), cfg: cfg, deaths: sq})
						}
					}
				}
			}
		}
	}
	rng := hk.Rng("c08", "live-queue")
	rng.Shuffle(len(all), func(i, j int) { all[i], all[j] = all[j], all[i] })
	nq := hk.Pick(160, 1400)
	if nq > len(all) {
		nq = len(all)
	}
	// the two schedules behind the reproduced suspicions are always part of the list
	fixed := []qc{
		{id: "B/queue/fixed/RFO-lower-child-dies-during-stop", cfg: p08.Cfg{Type: act.SupervisorTypeRestForOne, Strategy: act.SupervisorStrategyPermanent, N: 3, Intensity: 1000, Period: 1}, deaths: []death{{1, p08.ErrCrash}, {0, p08.ErrCrash}}},
		{id: "B/queue/fixed/AFO-keeporder-unawaited-child-dies-during-stop", cfg: p08.Cfg{Type: act.SupervisorTypeAllForOne, Strategy: act.SupervisorStrategyPermanent, KeepOrder: true, N: 3, Intensity: 1000, Period: 1}, deaths: []death{{0, p08.ErrCrash}, {1, p08.ErrCrash}}},
		{id: "B/queue/fixed/RFO-keeporder-unawaited-child-dies-during-stop", cfg: p08.Cfg{Type: act.SupervisorTypeRestForOne, Strategy: act.SupervisorStrategyTransient, KeepOrder: true, N: 3, Intensity: 1000, Period: 1}, deaths: []death{{0, p08.ErrCrash}, {1, gen.TerminateReasonNormal}}},
	}
	list := append(fixed, all[:nq]...)
	par := 6
	sem := make(chan struct{}, par)
	var wg sync.WaitGroup
	for _, q := range list {
		q := q
		wg.Add(1)
		sem <- struct{}{}
		go func() {
			defer wg.Done()
			defer func() { <-sem }()
			runQueue(q.id, q.cfg, q.deaths)
		}()
	}
	wg.Wait()

	// L3: deaths while the supervisor is blocked in the Init of a replacement
	for _, typ := range types {
		for _, st := range []act.SupervisorStrategy{act.SupervisorStrategyPermanent, act.SupervisorStrategyTransient} {
			for _, ko := range []bool{false, true} {
				if ko && typ == act.SupervisorTypeOneForOne {
					continue
				}
				cfg := p08.Cfg{Type: typ, Strategy: st, KeepOrder: ko, N: 3, Intensity: 1000, Period: 1}
				// first = the child whose replacement is parked; others die meanwhile
				runParkedInit("B/parked/"+cfg.ID()+"/c1-then-c0", cfg, 1, []death{{0, p08.ErrCrash}})
				runParkedInit("B/parked/"+cfg.ID()+"/c1-then-c0,c2", cfg, 1, []death{{0, p08.ErrCrash}, {2, p08.ErrCrash}})
				runParkedInit("B/parked/"+cfg.ID()+"/c2-then-c1n,c0", cfg, 2, []death{{1, gen.TerminateReasonNormal}, {0, p08.ErrCrash}})
				if hk.Thorough() {
					runParkedInit("B/parked/"+cfg.ID()+"/c0-then-c2", cfg, 0, []death{{2, p08.ErrCrash}})
					runParkedInit("B/parked/"+cfg.ID()+"/c0-then-c1,c2", cfg, 0, []death{{1, p08.ErrCrash}, {2, p08.ErrCrash}})
				}
			}
		}
	}

	// L2: death between spawn and link
	for _, typ := range types {
		for _, st := range []act.SupervisorStrategy{act.SupervisorStrategyPermanent, act.SupervisorStrategyTransient} {
			cfg := p08.Cfg{Type: typ, Strategy: st, N: 2, Intensity: 1000, Period: 1}
			runSpawnLinkGate("B/spawn-link/"+cfg.ID()+"/c0", cfg, 0)
			if hk.Thorough() {
				runSpawnLinkGate("B/spawn-link/"+cfg.ID()+"/c1", cfg, 1)
			}
		}
	}

	// L4: management scripts
	ofo := func(st act.SupervisorStrategy, n int) p08.Cfg {
		return p08.Cfg{Type: act.SupervisorTypeOneForOne, Strategy: st, N: n, Intensity: 1000, Period: 1}
	}
	arfo := func(t act.SupervisorType, st act.SupervisorStrategy, ko bool, n int) p08.Cfg {
		return p08.Cfg{Type: t, Strategy: st, KeepOrder: ko, N: n, Intensity: 1000, Period: 1}
	}
	T, P := act.SupervisorStrategyTransient, act.SupervisorStrategyPermanent
	runScript("B/disable-stays-down/OFO", ofo(P, 2), []mstep{{Op: p08.EvDisable, I: 0}, {Op: p08.EvDie, I: 1, Reason: p08.ErrCrash}, {Op: p08.EvEnable, I: 0}})
	for _, t := range []act.SupervisorType{act.SupervisorTypeAllForOne, act.SupervisorTypeRestForOne} {
		for _, ko := range []bool{false, true} {
			runScript("B/disable-stays-down/"+p08.TypeShort(t)+fmt.Sprint(ko), arfo(t, P, ko, 3), []mstep{{Op: p08.EvDisable, I: 1}, {Op: p08.EvDie, I: 0, Reason: p08.ErrCrash}, {Op: p08.EvDie, I: 2, Reason: p08.ErrCrash}, {Op: p08.EvEnable, I: 1}})
			runScript("B/last-disabled-then-wave/"+p08.TypeShort(t)+fmt.Sprint(ko), arfo(t, P, ko, 2), []mstep{{Op: p08.EvDisable, I: 1}, {Op: p08.EvDie, I: 0, Reason: p08.ErrCrash}, {Op: p08.EvStart, I: 0}, {Op: p08.EvEnable, I: 1}})
			runScript("B/handler-error/"+p08.TypeShort(t)+fmt.Sprint(ko), arfo(t, T, ko, 3), []mstep{{Op: p08.EvSelfErr}})
		}
	}
	runScript("B/transient-normal-then-start/OFO", ofo(T, 2), []mstep{{Op: p08.EvDie, I: 0, Reason: gen.TerminateReasonNormal}, {Op: p08.EvStart, I: 0}, {Op: p08.EvDie, I: 0, Reason: p08.ErrCrash}})
	runScript("B/disable-down-child/OFO", p08.Cfg{Type: act.SupervisorTypeOneForOne, Strategy: T, N: 2, DAS: true, Intensity: 1000, Period: 1}, []mstep{{Op: p08.EvDie, I: 0, Reason: gen.TerminateReasonNormal}, {Op: p08.EvDisable, I: 0}})
	runScript("B/autoshutdown-by-disable/OFO", ofo(T, 2), []mstep{{Op: p08.EvDisable, I: 0}, {Op: p08.EvDisable, I: 1}})
	runScript("B/handler-error/OFO", ofo(T, 3), []mstep{{Op: p08.EvSelfErr}})
	sofo := p08.Cfg{Type: act.SupervisorTypeSimpleOneForOne, Strategy: P, N: 1, Intensity: 1000, Period: 1}
	runScript("B/sofo-restart/SOFO", sofo, []mstep{{Op: p08.EvStart, I: 0}, {Op: p08.EvStart, I: 0}, {Op: p08.EvDie, I: 0, Reason: p08.ErrCrash}})
	runScript("B/sofo-disable-then-external-exit/SOFO", sofo, []mstep{{Op: p08.EvStart, I: 0}, {Op: p08.EvStart, I: 0}, {Op: p08.EvDisable, I: 0}, {Op: p08.EvEnable, I: 0}, {Op: p08.EvStart, I: 0}, {Op: p08.EvSelfErr}})
	sofoT := sofo
	sofoT.Strategy = T
	runScript("B/sofo-transient/SOFO", sofoT, []mstep{{Op: p08.EvStart, I: 0}, {Op: p08.EvStart, I: 0}, {Op: p08.EvDie, I: 0, Reason: gen.TerminateReasonNormal}, {Op: p08.EvSelfErr}})

	// L5
	for _, typ := range types {
		cfg := p08.Cfg{Type: typ, Strategy: act.SupervisorStrategyPermanent, N: 2, Intensity: 60000, Period: 1}
		runChurn("B/churn/"+cfg.ID(), cfg, hk.Pick(150, 1500))
	}

	if n := lnode.Cap.Panics.Load(); n > 0 {
		hk.Note("framework_panic_log_lines", lnode.Cap.PanicLines())
	}
	h, _ := hk.PointStats()
	hk.Note("hook_hits", h)
}
