package main

import (
	"errors"
	"fmt"
	"runtime"
	"strings"
	"sync"
	"sync/atomic"
	"time"

	"ergo.services/ergo/gen"

	"verif/harness/actors"
	"verif/harness/hk"
)

var node *hk.HNode
var tap *tapTM

// watchdog for every wait of the harness; expiry = inconclusive, never violated.
// A case has a total waiting budget so that a badly broken tree cannot make the
// check run for hours: once it is used up the remaining waits of the case are short.
const (
	watchdogMax  = 20 * time.Second
	caseBudget   = 25 * time.Second
	shortBudget  = 6 * time.Second // per case after several cases ran out of budget
	watchdogTiny = 300 * time.Millisecond
)

var (
	caseEnd      atomic.Int64 // unix nanos
	stalledCases atomic.Int64
	caseStalled  atomic.Bool
)

// beginCase starts the waiting budget of a case
func beginCase() {
	b := caseBudget
	if stalledCases.Load() >= 3 {
		b = shortBudget
	}
	caseStalled.Store(false)
	caseEnd.Store(time.Now().Add(b).UnixNano())
}

func wd() time.Duration {
	left := time.Duration(caseEnd.Load() - time.Now().UnixNano())
	if left > watchdogMax {
		return watchdogMax
	}
	if left < watchdogTiny {
		if !caseStalled.Swap(true) {
			stalledCases.Add(1)
		}
		return watchdogTiny
	}
	return left
}

// opsObserved counts the operations whose results the oracles looked at
var opsObserved atomic.Int64

// ---------------------------------------------------------------------------
// wrapping TargetManager: delegates to the default one, counts the calls and
// gives the oracles read access to the relation set

type tapTM struct {
	inner gen.TargetManager
	calls atomic.Int64
}

func newTap() *tapTM { return &tapTM{inner: gen.CreateDefaultTargetManager()} }

func (t *tapTM) AddLink(c gen.PID, target any) error {
	t.calls.Add(1)
	return t.inner.AddLink(c, target)
}
func (t *tapTM) RemoveLink(c gen.PID, target any) error {
	t.calls.Add(1)
	return t.inner.RemoveLink(c, target)
}
func (t *tapTM) HasLink(c gen.PID, target any) bool { return t.inner.HasLink(c, target) }
func (t *tapTM) AddMonitor(c gen.PID, target any) error {
	t.calls.Add(1)
	return t.inner.AddMonitor(c, target)
}
func (t *tapTM) RemoveMonitor(c gen.PID, target any) error {
	t.calls.Add(1)
	return t.inner.RemoveMonitor(c, target)
}
func (t *tapTM) HasMonitor(c gen.PID, target any) bool { return t.inner.HasMonitor(c, target) }
func (t *tapTM) CleanupConsumer(c gen.PID) ([]any, []any) {
	t.calls.Add(1)
	return t.inner.CleanupConsumer(c)
}
func (t *tapTM) CleanupTarget(target any) ([]gen.PID, []gen.PID) {
	t.calls.Add(1)
	return t.inner.CleanupTarget(target)
}
func (t *tapTM) CleanupNode(n gen.Atom) (map[any][]gen.PID, map[any][]gen.PID) {
	t.calls.Add(1)
	return t.inner.CleanupNode(n)
}
func (t *tapTM) GetTargetsForConsumer(c gen.PID) ([]any, []any) {
	return t.inner.GetTargetsForConsumer(c)
}
func (t *tapTM) GetConsumersForTarget(target any) []gen.PID {
	return t.inner.GetConsumersForTarget(target)
}

// ---------------------------------------------------------------------------
// processes of the harness

// do is the command message: F runs inside the process (in its HandleMessage
// callback); a non-nil result terminates the process with that reason.
type do struct {
	F    func(p *actors.Probe) error
	Done chan struct{}
}

// ping is the resolve probe: whoever logs it in its Inst received it
type ping struct{ ID int64 }

// handle is what the harness knows about one of its processes
type handle struct {
	label  string
	pid    gen.PID
	inst   *actors.Inst
	dead   chan struct{} // closed when the Terminate callback begins (unregisterProcess is over by then)
	reason error
	idx    int // claimer index inside a partition
	// value and stack of a panic raised inside a closure run by inProc (read after dead is closed)
	panicked string
}

var closurePanics atomic.Int64

func (h *handle) isDead() bool {
	select {
	case <-h.dead:
		return true
	default:
		return false
	}
}

// newProc returns a factory (one spawn) and its handle. Spawn args: an optional
// func(*actors.Probe) error to run inside Init.
func newProc(label string) (gen.ProcessFactory, *handle) {
	h := &handle{label: label, dead: make(chan struct{})}
	hooks := &actors.Hooks{
		Init: func(p *actors.Probe, args ...any) error {
			for _, a := range args {
				if f, ok := a.(func(p *actors.Probe) error); ok {
					return f(p)
				}
			}
			return nil
		},
		Msg: func(p *actors.Probe, from gen.PID, msg any) error {
			switch m := msg.(type) {
			case do:
				// a panic inside the framework call of the closure is an observation: keep value and stack
				defer func() {
					if rcv := recover(); rcv != nil {
						buf := make([]byte, 4096)
						buf = buf[:runtime.Stack(buf, false)]
						h.panicked = fmt.Sprintf("%v\n%s", rcv, buf)
						closurePanics.Add(1)
						panic(rcv)
					}
				}()
				err := m.F(p)
				close(m.Done)
				return err
			}
			return nil
		},
		Call: func(p *actors.Probe, from gen.PID, ref gen.Ref, req any) (any, error) {
			return p.PID(), nil
		},
		Terminate: func(p *actors.Probe, reason error) {
			h.reason = reason
			close(h.dead)
		},
	}
	f, inst := actors.NewProbe(label, hooks)
	h.inst = inst
	return f, h
}

func spawnProc(label string, args ...any) (*handle, error) {
	f, h := newProc(label)
	pid, err := node.Spawn(f, gen.ProcessOptions{}, args...)
	h.pid = pid
	return h, err
}

var errWatchdog = errors.New("watchdog")

// inProc runs f inside the process. ran=false: the process terminated without
// running f (f had no effect). err=errWatchdog: nothing observable happened in time.
func inProc(h *handle, f func(p *actors.Probe) error) (ran bool, err error) {
	return inProcT(h, f, 0)
}

// inProcT: d > 0 replaces the watchdog for closures that compute for a long time
func inProcT(h *handle, f func(p *actors.Probe) error, limit time.Duration) (ran bool, err error) {
	d := do{F: f, Done: make(chan struct{})}
	if e := node.Send(h.pid, d); e != nil {
		return false, nil
	}
	if limit == 0 {
		limit = wd()
	}
	t := time.NewTimer(limit)
	defer t.Stop()
	select {
	case <-d.Done:
		return true, nil
	case <-h.dead:
		// the Terminate callback began: no handler starts after it; one that
		// finished before has closed Done already
		select {
		case <-d.Done:
			return true, nil
		default:
			return false, nil
		}
	case <-t.C:
		return false, errWatchdog
	}
}

// waitDead waits for the Terminate callback of the process to be over. On every
// termination path unregisterProcess (which removes the pid, the name, ...) runs
// before that callback, so from here on the oracles may demand that everything is gone.
func waitDead(h *handle) bool {
	t := time.NewTimer(wd())
	defer t.Stop()
	select {
	case <-h.dead:
	case <-t.C:
		return false
	}
	return hk.WaitUntil(wd(), func() bool { return h.inst.Quiet() })
}

// received reports whether the process logged ping id
func received(h *handle, id int64) bool {
	for _, e := range h.inst.Events() {
		if p, ok := e.Msg.(ping); ok && p.ID == id {
			return true
		}
	}
	return false
}

var pingSeq atomic.Int64

// resolvesTo sends a ping to target (name or alias) and reports the error of the
// send and whether h received it (waits for delivery if the send succeeded)
func resolvesTo(target any, h *handle) (delivered bool, sendErr error, incon bool) {
	id := pingSeq.Add(1)
	opsObserved.Add(1)
	if err := node.Send(target, ping{ID: id}); err != nil {
		return false, err, false
	}
	ok := hk.WaitUntil(wd(), func() bool { return received(h, id) || h.isDead() })
	if !ok {
		return false, nil, true
	}
	return received(h, id), nil, false
}

// ---------------------------------------------------------------------------
// case results

type result struct {
	viol  []string
	sig   string
	incon string
}

func (r *result) fail(sig, format string, a ...any) {
	if r.sig == "" {
		r.sig = sig
	}
	r.viol = append(r.viol, fmt.Sprintf(format, a...))
}

func (r *result) inconclusive(format string, a ...any) {
	if r.incon == "" {
		r.incon = fmt.Sprintf(format, a...)
	}
}

func finish(id, scenario, key string, nontrivial bool, events int64, r *result, detail any) {
	c := hk.Case{ID: id, Scenario: scenario, Key: key, Nontrivial: nontrivial, Events: events, Detail: detail}
	switch {
	case len(r.viol) > 0:
		c.Verdict = hk.Violated
		c.Sig = r.sig
		c.What = strings.Join(r.viol, "; ")
	case r.incon != "":
		c.Verdict = hk.Inconclusive
		c.What = r.incon
	default:
		c.Verdict = hk.Held
	}
	hk.Emit(c)
}

// wantGroup: a run that emits several cases "base#group" is replayed by any of them
func wantGroup(base string) bool {
	o := hk.Only()
	return o == "" || o == base || strings.HasPrefix(o, base+"#")
}

var nameSeq atomic.Int64

func uniq(prefix string) gen.Atom {
	return gen.Atom(fmt.Sprintf("%s_%d", prefix, nameSeq.Add(1)))
}

type counters struct {
	Procs, Names, Aliases, Events int64
}

func snapshot() counters {
	i, _ := node.Info()
	return counters{Procs: i.ProcessesTotal, Names: i.RegisteredNames, Aliases: i.RegisteredAliases, Events: i.RegisteredEvents}
}

func inList(pid gen.PID) bool {
	l, _ := node.ProcessList()
	for _, p := range l {
		if p == pid {
			return true
		}
	}
	return false
}

var sampleMu sync.Mutex
var sampled = map[string]int{}

// sampleOnce emits at most n samples per family
func sampleOnce(family string, n int, v any) {
	sampleMu.Lock()
	defer sampleMu.Unlock()
	if sampled[family] >= n {
		return
	}
	sampled[family]++
	hk.Sample(map[string]any{"family": family, "case": v})
}
