// C06 — registry integrity: unique identities, complete release on termination.
//
// (a) names / event names: porcupine-checked client-boundary histories per name
// (model owner∈{none,pid}), "n claimers, one winner" races released from a gate,
// gate-directed races of RegisterName/UnregisterName/SpawnMeta against termination;
// (b) exact duplicate detection over references, pids and aliases minted by the node;
// (c) before/after queries (routing by name/alias, ProcessList, Info counters, a
// wrapping TargetManager) per termination cause, alias create/delete sequences of
// every order up to 4 aliases.
package main

import (
	"fmt"
	"os"
	"strings"
	"time"

	"ergo.services/ergo/gen"

	"verif/harness/hk"
)

// tooManyStalls: when the tree is so broken that case after case runs into the watchdog,
// the rest of a long family is skipped (reported as one inconclusive case)
func tooManyStalls(family string, k, n int) bool {
	if stalledCases.Load() < 10 || hk.Only() != "" {
		return false
	}
	hk.Emit(hk.Case{ID: fmt.Sprintf("%s/skipped-from-%d", family, k), Scenario: "skipped", Verdict: hk.Inconclusive,
		What: fmt.Sprintf("watchdog: %d cases ran out of their waiting budget; cases %d..%d of family %s skipped", stalledCases.Load(), k, n-1, family)})
	return true
}

func main() {
	if f := os.Getenv("C06_RECHECK"); f != "" {
		recheck(f)
		return
	}
	hk.InstallHook()
	hk.Rule("name-linearizability L/k: 1-3 names x 3-6 client goroutines x 8-21 seeded random operations (Node.RegisterName, Process.RegisterName, SpawnRegister, Node/Process.UnregisterName, terminate by kill/exit/normal, resolve by send or Call) over processes dedicated to one name, seeded delays at the yield points of unregisterProcess/Kill/run (odd k: also inside RegisterName/UnregisterName); non-trivial iff >=2 claim operations of one name overlapped in time; event-linearizability E/k the same for one event name with tokens. one-winner W/WE: n claimers released together from a gate, non-trivial iff >=2 claim intervals overlapped; W1: n different names claimed at once for ONE process, every granted name must reach it and be released when it terminates. directed D: an operation parked at a yield point (or inside a callback) while the process terminates completely, non-trivial iff the gate fired. release R/cause/shape: subject with name+aliases+events+meta-processes, linked/monitored by observers and linking/monitoring another process, terminated by each cause; non-trivial iff >=1 name, alias, event, meta and >=1 relation in each role. alias-sequences A: every create/delete order up to 4 aliases. ids I: everything minted is kept and compared exactly; pids also with failing Inits interleaved (non-trivial iff failed Inits and children spawned inside Init occurred). distinct = scenario x parameters x observed overlap class")
	hk.Assume("a claimer process is dedicated to one name, so the per-process one-name flag does not couple partitions")
	hk.Assume("termination of a process is complete when its Terminate callback is over: unregisterProcess precedes that callback on every termination path")
	hk.Assume("a resolve that returned ErrProcessTerminated, or whose message was accepted but never handled, carries no information about the owner and is left out of the history")
	tap = newTap()
	var err error
	node, err = hk.StartNode(hk.NodeCfg{Name: "c06", Tweak: func(o *gen.NodeOptions) { o.TargetManager = tap }})
	if err != nil {
		fmt.Fprintln(os.Stderr, "start node:", err)
		os.Exit(3)
	}

	// C06_FAMILIES=D,R,A,L,E,I restricts the run to some families (development aid; default all)
	fam := func(f string) bool {
		v := os.Getenv("C06_FAMILIES")
		return v == "" || strings.Contains(","+v+",", ","+f+",")
	}
	t0 := time.Now()
	lap := func(what string) {
		hk.Note("wall_s_"+what, time.Since(t0).Seconds())
		t0 = time.Now()
	}
	if fam("I") {
		runPids() // first: a repeated pid would confuse every later case
		runPidsFailing()
		lap("ids-pids")
	}
	if fam("D") {
		runDirected()
		lap("directed+one-winner")
	}
	if fam("R") {
		runReleaseAll()
		runInitFail()
		runChurnAll()
		lap("release")
	}
	if fam("A") {
		runAliasSeqAll()
		lap("alias-sequences")
	}
	if fam("L") {
		nl := hk.Pick(400, 8000)
		for k := 0; k < nl && !tooManyStalls("L", k, nl); k++ {
			runNameLin(k)
		}
		lap("name-linearizability")
	}
	if fam("E") {
		ne := hk.Pick(400, 8000)
		for k := 0; k < ne && !tooManyStalls("E", k, ne); k++ {
			runEventLin(k)
		}
		lap("event-linearizability")
	}
	// last: minting half a million references moves the node's counter a long way
	if fam("I") {
		runIDs()
		lap("ids")
	}

	h, d := hk.PointStats()
	hk.Note("hook_hits", h)
	hk.Note("hook_delays", d)
	hk.Stat("operations_observed", opsObserved.Load())
	hk.Stat("target_manager_calls", tap.calls.Load())
	hk.Stat("unregistername_returned_zero_pid_during_spawnregister", zeroPidUnreg.Load())
	if l := node.Cap.PanicLines(); len(l) > 0 {
		if len(l) > 10 {
			l = l[:10]
		}
		hk.Note("framework_panic_log_lines", l)
	}
	os.Stdout.Sync()
	os.Exit(0)
}
