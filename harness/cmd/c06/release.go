package main

// (c) complete release on termination: after the Terminate callback of a
// process its name, aliases, events and meta-processes are gone and claimable,
// it is in no listing and in no link/monitor relation in either role.

import (
	"errors"
	"fmt"
	"sort"
	"strings"
	"time"

	"ergo.services/ergo/gen"

	"verif/harness/actors"
	"verif/harness/hk"
)

var causes = []string{"kill-sleeping", "kill-running", "exit-signal", "normal", "shutdown", "error", "panic"}

// terminate ends the process by the given cause and waits until it is gone
func terminate(h *handle, cause string, r *result) {
	switch cause {
	case "kill-sleeping":
		node.Kill(h.pid)
	case "kill-running":
		entered, release := make(chan struct{}), make(chan struct{})
		d := do{F: func(p *actors.Probe) error { close(entered); <-release; return nil }, Done: make(chan struct{})}
		if err := node.Send(h.pid, d); err == nil {
			select {
			case <-entered:
				node.Kill(h.pid)
			case <-h.dead:
			case <-time.After(wd()):
				r.inconclusive("watchdog: handler never entered")
			}
			close(release)
		}
	case "exit-signal":
		node.SendExit(h.pid, errors.New("c06-exit"))
	case "normal":
		inProc(h, func(p *actors.Probe) error { return gen.TerminateReasonNormal })
	case "shutdown":
		inProc(h, func(p *actors.Probe) error { return gen.TerminateReasonShutdown })
	case "error":
		inProc(h, func(p *actors.Probe) error { return errors.New("c06-custom") })
	case "panic":
		inProc(h, func(p *actors.Probe) error { panic("c06 requested panic") })
	}
	if !waitDead(h) {
		r.inconclusive("watchdog: process %s did not terminate by %s", h.pid, cause)
	}
}

type relShape struct {
	NameMode    string `json:"name"` // "", spawnregister, self, node
	Aliases     int    `json:"aliases"`
	Events      int    `json:"events"`
	Metas       int    `json:"metas"`
	AsTarget    bool   `json:"as_target"`
	AsRequester bool   `json:"as_requester"`
}

func (s relShape) String() string {
	return fmt.Sprintf("name=%s,al=%d,ev=%d,meta=%d,tgt=%v,req=%v", s.NameMode, s.Aliases, s.Events, s.Metas, s.AsTarget, s.AsRequester)
}

func (s relShape) full() bool {
	return s.NameMode != "" && s.Aliases > 0 && s.Events > 0 && s.Metas > 0 && s.AsTarget && s.AsRequester
}

type tgtSet struct {
	pid     gen.PID
	name    gen.Atom
	aliases []gen.Alias
	events  []gen.Atom
	tokens  []gen.Ref
	metas   []*actors.Meta
	malias  []gen.Alias
}

func (t *tgtSet) targets() []any {
	var l []any
	l = append(l, t.pid)
	if t.name != "" {
		l = append(l, gen.ProcessID{Name: t.name, Node: node.Name()})
	}
	for _, a := range t.aliases {
		l = append(l, a)
	}
	for _, a := range t.malias {
		l = append(l, a)
	}
	for _, e := range t.events {
		l = append(l, gen.Event{Name: e, Node: node.Name()})
	}
	return l
}

// equip gives process h the resources of the shape
func equip(h *handle, s relShape, name gen.Atom, r *result) *tgtSet {
	t := &tgtSet{pid: h.pid}
	switch s.NameMode {
	case "spawnregister":
		t.name = name // done at spawn
	case "node":
		if err := node.RegisterName(name, h.pid); err != nil {
			r.inconclusive("setup: RegisterName: %v", err)
		}
		t.name = name
	case "self":
		var e error
		inProc(h, func(p *actors.Probe) error { e = p.RegisterName(name); return nil })
		if e != nil {
			r.inconclusive("setup: Process.RegisterName: %v", e)
		}
		t.name = name
	}
	var serr []string
	ran, werr := inProc(h, func(p *actors.Probe) error {
		for i := 0; i < s.Aliases; i++ {
			a, err := p.CreateAlias()
			if err != nil {
				serr = append(serr, "CreateAlias: "+err.Error())
				continue
			}
			t.aliases = append(t.aliases, a)
		}
		for i := 0; i < s.Events; i++ {
			ev := uniq("c06ev")
			tok, err := p.RegisterEvent(ev, gen.EventOptions{})
			if err != nil {
				serr = append(serr, "RegisterEvent: "+err.Error())
				continue
			}
			t.events = append(t.events, ev)
			t.tokens = append(t.tokens, tok)
		}
		for i := 0; i < s.Metas; i++ {
			m := actors.NewMeta(h.label+"/meta", nil)
			a, err := p.SpawnMeta(m, gen.MetaOptions{})
			if err != nil {
				serr = append(serr, "SpawnMeta: "+err.Error())
				continue
			}
			t.metas = append(t.metas, m)
			t.malias = append(t.malias, a)
		}
		return nil
	})
	if !ran || werr != nil {
		r.inconclusive("setup: equip did not run")
	}
	if len(serr) > 0 {
		r.inconclusive("setup: %s", strings.Join(serr, ", "))
	}
	return t
}

// relate makes consumer link or monitor every target of t
func relate(consumer *handle, t *tgtSet, monitor bool, r *result) int {
	n := 0
	var serr []string
	ran, _ := inProc(consumer, func(p *actors.Probe) error {
		p.SetTrapExit(true)
		for _, tg := range t.targets() {
			var err error
			switch x := tg.(type) {
			case gen.Event:
				if monitor {
					_, err = p.MonitorEvent(x)
				} else {
					_, err = p.LinkEvent(x)
				}
			default:
				if monitor {
					err = p.Monitor(x)
				} else {
					err = p.Link(x)
				}
			}
			if err != nil {
				serr = append(serr, fmt.Sprintf("%T: %v", tg, err))
				continue
			}
			n++
		}
		return nil
	})
	if !ran {
		r.inconclusive("setup: relate did not run")
	}
	if len(serr) > 0 {
		r.inconclusive("setup: link/monitor: %s", strings.Join(serr, ", "))
	}
	return n
}

func descTargets(l []any) string {
	var s []string
	for _, t := range l {
		s = append(s, fmt.Sprintf("%T %v", t, t))
	}
	sort.Strings(s)
	return strings.Join(s, ", ")
}

// checkGone applies the registry oracles to a terminated process and its resources
func checkGone(h *handle, t *tgtSet, r *result) {
	if inList(h.pid) {
		r.fail("pid-listed-after-termination", "%s is in ProcessList after its Terminate callback", h.pid)
	}
	if _, err := node.ProcessInfo(h.pid); err != gen.ErrProcessUnknown {
		r.fail("pid-listed-after-termination", "ProcessInfo(%s) = %v after termination, want ErrProcessUnknown", h.pid, err)
	}
	opsObserved.Add(2)
	if t.name != "" {
		opsObserved.Add(2)
		if err := node.Send(t.name, ping{}); err != gen.ErrProcessUnknown {
			r.fail("name-survives-termination", "send to name %q after its owner %s terminated: %v, want ErrProcessUnknown", t.name, h.pid, err)
		}
		// claimable again
		c, err := spawnProc(h.label + "/reclaimer")
		if err == nil {
			if err := node.RegisterName(t.name, c.pid); err != nil {
				r.fail("name-not-claimable-after-termination", "RegisterName(%q) for a fresh process after the owner %s terminated: %v", t.name, h.pid, err)
			} else {
				if ok, serr, inc := resolvesTo(t.name, c); inc {
					r.inconclusive("watchdog: ping to reclaimed name not delivered")
				} else if !ok {
					r.fail("name-misresolves", "name %q re-registered to %s does not reach it (send error %v)", t.name, c.pid, serr)
				}
			}
			node.Kill(c.pid)
			if !waitDead(c) {
				r.inconclusive("watchdog: reclaimer did not terminate")
			}
		}
	}
	for _, a := range t.aliases {
		opsObserved.Add(1)
		if err := node.Send(a, ping{}); err != gen.ErrProcessUnknown {
			r.fail("alias-survives-termination", "send to alias %v after its owner %s terminated: %v, want ErrProcessUnknown", a, h.pid, err)
		}
	}
	for i, ev := range t.events {
		opsObserved.Add(2)
		if err := node.SendEvent(ev, t.tokens[i], gen.MessageOptions{}, "x"); err != gen.ErrEventUnknown {
			r.fail("event-survives-termination", "SendEvent(%q) with the old token after the producer %s terminated: %v, want ErrEventUnknown", ev, h.pid, err)
		}
		if _, err := node.RegisterEvent(ev, gen.EventOptions{}); err != nil {
			r.fail("event-not-claimable-after-termination", "RegisterEvent(%q) after the producer %s terminated: %v", ev, h.pid, err)
		} else {
			node.UnregisterEvent(ev)
		}
	}
	for i, m := range t.metas {
		opsObserved.Add(2)
		ok := hk.WaitUntil(wd(), func() bool { return m.I.TermCount.Load() > 0 && m.I.Quiet() })
		if !ok {
			// stable witness? the meta process sleeps with an empty mailbox and nobody will ever tell it
			if mi, err := node.MetaInfo(t.malias[i]); err == nil && mi.MailboxQueues.Main+mi.MailboxQueues.System == 0 && hk.LiveRunners(t.malias[i]) == 0 {
				r.fail("meta-survives-termination", "meta-process %v of terminated %s is still there (state %s, empty mailbox, no handler goroutine)", t.malias[i], h.pid, mi.State)
			} else {
				r.inconclusive("watchdog: meta-process %v did not terminate", t.malias[i])
			}
			continue
		}
		if err := node.Send(t.malias[i], ping{}); err != gen.ErrProcessUnknown {
			r.fail("meta-survives-termination", "send to meta-process %v after its parent %s terminated: %v, want ErrProcessUnknown", t.malias[i], h.pid, err)
		}
		if _, err := node.MetaInfo(t.malias[i]); err == nil {
			r.fail("meta-survives-termination", "MetaInfo(%v) succeeds after the parent %s terminated", t.malias[i], h.pid)
		}
	}
}

func stopMetas(t *tgtSet) {
	for _, m := range t.metas {
		select {
		case <-m.Stop:
		default:
			close(m.Stop)
		}
	}
}

func runRelease(k int, cause string, s relShape) {
	base := fmt.Sprintf("R/%s/%d/%s", cause, k, s)
	if !wantGroup(base) {
		return
	}
	beginCase()
	reg, asT, asR := &result{}, &result{}, &result{}
	setup := &result{}
	before := snapshot()
	tm0 := tap.calls.Load()

	name := uniq("c06name")
	var subj *handle
	var err error
	if s.NameMode == "spawnregister" {
		f, h := newProc(base)
		h.pid, err = node.SpawnRegister(name, f, gen.ProcessOptions{})
		subj = h
	} else {
		subj, err = spawnProc(base)
	}
	if err != nil {
		setup.inconclusive("spawn: %v", err)
		finish(base+"#registry", "release", base, false, 0, setup, nil)
		return
	}
	st := equip(subj, s, name, setup)

	// the subject as target: one linker, one monitor
	var observers []*handle
	nT := 0
	if s.AsTarget {
		for _, mon := range []bool{false, true} {
			o, err := spawnProc(base + "/observer")
			if err != nil {
				setup.inconclusive("spawn observer: %v", err)
				continue
			}
			observers = append(observers, o)
			nT += relate(o, st, mon, setup)
		}
	}
	// the subject as requester: links and monitors everything of another process
	var other *handle
	var ot *tgtSet
	nR := 0
	if s.AsRequester {
		other, err = spawnProc(base + "/other")
		if err != nil {
			setup.inconclusive("spawn other: %v", err)
		} else {
			ot = equip(other, relShape{NameMode: "node", Aliases: 1, Events: 1, Metas: 1}, uniq("c06other"), setup)
			nR += relate(subj, ot, false, setup)
			nR += relate(subj, ot, true, setup)
		}
	}

	terminate(subj, cause, setup)

	if setup.incon == "" {
		checkGone(subj, st, reg)
		if s.AsTarget {
			for _, tg := range st.targets() {
				opsObserved.Add(1)
				if c := tap.GetConsumersForTarget(tg); len(c) > 0 {
					asT.fail("dead-target-stays-in-relations", "after %s terminated (%s) the relation set still has consumers %v for its %T %v", subj.pid, cause, c, tg, tg)
				}
			}
			// the consumers' own side of the relation state
			for _, o := range observers {
				if h := holds(o, st.targets()); len(h) > 0 && !o.isDead() {
					asT.fail("dead-target-stays-in-relations", "after %s terminated (%s) observer %s is still related to it: %v", subj.pid, cause, o.pid, h)
				}
			}
		}
		if s.AsRequester {
			opsObserved.Add(1)
			l, m := tap.GetTargetsForConsumer(subj.pid)
			if len(l)+len(m) > 0 {
				asR.fail("dead-requester-stays-in-relations", "after %s terminated (%s) the relation set still holds it as requester: links to [%s], monitors of [%s]", subj.pid, cause, descTargets(l), descTargets(m))
			}
			if ot != nil {
				for _, tg := range ot.targets() {
					for _, c := range tap.GetConsumersForTarget(tg) {
						if c == subj.pid {
							asR.fail("dead-requester-stays-in-relations", "terminated %s is still listed as consumer of %T %v", subj.pid, tg, tg)
						}
					}
				}
			}
		}
	}

	// teardown of the helpers, then the counters must be back at the baseline
	helpers := append([]*handle{}, observers...)
	if other != nil {
		helpers = append(helpers, other)
	}
	for _, h := range helpers {
		node.Kill(h.pid)
	}
	for _, h := range helpers {
		if !waitDead(h) {
			setup.inconclusive("watchdog: helper did not terminate")
		}
	}
	if ot != nil {
		for _, m := range ot.metas {
			hk.WaitUntil(wd(), func() bool { return m.I.TermCount.Load() > 0 })
		}
		stopMetas(ot)
	}
	stopMetas(st)
	if setup.incon == "" {
		after := snapshot()
		opsObserved.Add(1)
		if after != before {
			sig := "counter-leak"
			if len(reg.viol) > 0 {
				sig = reg.sig
			}
			reg.fail(sig, "node counters after the case %+v differ from before %+v (processes, names, aliases, events)", after, before)
		}
	}
	ev := tap.calls.Load() - tm0 + int64(subj.inst.Callbacks.Load())
	for _, x := range []*result{reg, asT, asR} {
		if setup.incon != "" && len(x.viol) == 0 {
			x.incon = setup.incon
		}
	}
	detail := map[string]any{"cause": cause, "shape": s, "pid": subj.pid.String(), "relations_as_target": nT, "relations_as_requester": nR, "terminate_reason": fmt.Sprint(subj.reason)}
	key := fmt.Sprintf("R/%s/%s", cause, s)
	finish(base+"#registry", "release", key+"#registry", s.full(), ev, reg, detail)
	if s.AsTarget {
		finish(base+"#as-target", "release", key+"#as-target", nT > 0, int64(nT), asT, detail)
	}
	if s.AsRequester {
		finish(base+"#as-requester", "release", key+"#as-requester", nR > 0, int64(nR), asR, detail)
	}
	sampleOnce("release", 2, detail)
}

func runReleaseAll() {
	rng := hk.Rng("c06", "release")
	modes := []string{"", "spawnregister", "self", "node"}
	extra := hk.Pick(3, 40)
	for ci, cause := range causes {
		runRelease(0, cause, relShape{NameMode: modes[1+ci%3], Aliases: 2, Events: 2, Metas: 2, AsTarget: true, AsRequester: true})
		for k := 1; k <= extra; k++ {
			s := relShape{NameMode: modes[rng.Intn(4)], Aliases: rng.Intn(4), Events: rng.Intn(3), Metas: rng.Intn(3), AsTarget: rng.Intn(2) == 0, AsRequester: rng.Intn(3) == 0}
			runRelease(k, cause, s)
		}
	}
}

// ---------------------------------------------------------------------------
// spawn with a name whose Init fails: the name must be free afterwards

func runInitFail() {
	id := "R/init-fails/spawnregister"
	if !hk.Want(id) {
		return
	}
	beginCase()
	r := &result{}
	before := snapshot()
	name := uniq("c06initfail")
	f, h := newProc(id)
	var a gen.Alias
	var ev gen.Atom = uniq("c06initev")
	_, err := node.SpawnRegister(name, f, gen.ProcessOptions{}, func(p *actors.Probe) error {
		a, _ = p.CreateAlias()
		p.RegisterEvent(ev, gen.EventOptions{})
		return errors.New("c06 init fails")
	})
	opsObserved.Add(4)
	if err == nil {
		r.inconclusive("spawn unexpectedly succeeded")
		node.Kill(h.pid)
	} else {
		if e := node.Send(name, ping{}); e != gen.ErrProcessUnknown {
			r.fail("name-survives-failed-init", "send to name %q of a process whose Init failed: %v, want ErrProcessUnknown", name, e)
		}
		c, cerr := spawnProc(id + "/reclaimer")
		if cerr == nil {
			if e := node.RegisterName(name, c.pid); e != nil {
				r.fail("name-survives-failed-init", "RegisterName(%q) after the failed spawn: %v", name, e)
			}
			node.Kill(c.pid)
			waitDead(c)
		}
		// Init may not create aliases/events (state Init): whatever it did must not stay
		after := snapshot()
		if after != before {
			r.fail("failed-init-leaks", "node counters after a failed SpawnRegister %+v differ from before %+v (alias %v)", after, before, a)
		}
	}
	finish(id, "release", id, true, 4, r, nil)
}

// ---------------------------------------------------------------------------
// alias create/delete sequences of every order up to 4 aliases

func permutations(items []int, k int) [][]int {
	if k == 0 {
		return [][]int{{}}
	}
	var out [][]int
	for i, x := range items {
		rest := append(append([]int{}, items[:i]...), items[i+1:]...)
		for _, p := range permutations(rest, k-1) {
			out = append(out, append([]int{x}, p...))
		}
	}
	return out
}

func runAliasSeq(n int, del []int, cause string) {
	id := fmt.Sprintf("A/%d/del%v/%s", n, del, cause)
	if !hk.Want(id) {
		return
	}
	beginCase()
	r := &result{}
	before := snapshot()
	h, err := spawnProc(id)
	if err != nil {
		r.inconclusive("spawn: %v", err)
		finish(id, "alias-sequences", id, false, 0, r, nil)
		return
	}
	obs, err := spawnProc(id + "/observer")
	if err != nil {
		r.inconclusive("spawn: %v", err)
	}
	var created []gen.Alias
	var view []gen.Alias
	var delErr []string
	inProc(h, func(p *actors.Probe) error {
		for i := 0; i < n; i++ {
			a, err := p.CreateAlias()
			if err != nil {
				delErr = append(delErr, "CreateAlias: "+err.Error())
				return nil
			}
			created = append(created, a)
		}
		return nil
	})
	if len(created) != n {
		r.inconclusive("setup: %v", delErr)
		finish(id, "alias-sequences", id, false, 0, r, nil)
		node.Kill(h.pid)
		return
	}
	// the observer monitors every alias (subject as target through its aliases)
	if obs != nil {
		relate(obs, &tgtSet{pid: h.pid, aliases: created}, true, r)
	}
	inProc(h, func(p *actors.Probe) error {
		for _, d := range del {
			if err := p.DeleteAlias(created[d]); err != nil {
				delErr = append(delErr, fmt.Sprintf("DeleteAlias(#%d): %v", d, err))
			}
		}
		view = p.Aliases()
		return nil
	})
	ops := int64(n + len(del))
	deleted := map[int]bool{}
	for _, d := range del {
		deleted[d] = true
	}
	if len(delErr) > 0 {
		r.fail("delete-alias-error", "deleting own aliases failed: %v", delErr)
	}
	// while alive: deleted aliases resolve to nobody, kept ones to the owner
	for i, a := range created {
		ops++
		if deleted[i] {
			opsObserved.Add(1)
			if err := node.Send(a, ping{}); err != gen.ErrProcessUnknown {
				r.fail("deleted-alias-resolves", "send to deleted alias #%d %v: %v, want ErrProcessUnknown", i, a, err)
			}
			continue
		}
		if ok, serr, inc := resolvesTo(a, h); inc {
			r.inconclusive("watchdog: ping to alias not delivered")
		} else if !ok {
			r.fail("alias-misresolves", "alias #%d %v of live %s does not reach it (send error %v)", i, a, h.pid, serr)
		}
	}
	// the process's own view of its aliases (diagnosis only)
	viewOK := true
	vs := map[gen.Alias]bool{}
	for _, a := range view {
		vs[a] = true
	}
	for i, a := range created {
		if vs[a] == deleted[i] {
			viewOK = false
		}
	}
	terminate(h, cause, r)
	if r.incon == "" {
		for i, a := range created {
			ops++
			opsObserved.Add(1)
			if err := node.Send(a, ping{}); err != gen.ErrProcessUnknown {
				sig := "alias-survives-termination"
				why := ""
				if !deleted[i] && !vs[a] {
					sig = "delete-alias-wrong-element"
					why = fmt.Sprintf(" (after deleting %v of %d aliases Process.Aliases() listed %d entries without this one: DeleteAlias dropped the wrong slice element)", del, n, len(view))
				}
				r.fail(sig, "send to alias #%d %v after its owner %s terminated (%s): %v, want ErrProcessUnknown%s", i, a, h.pid, cause, err, why)
			}
			if c := tap.GetConsumersForTarget(a); len(c) > 0 {
				sig := "dead-target-stays-in-relations"
				if !deleted[i] && !vs[a] {
					sig = "delete-alias-wrong-element"
				}
				r.fail(sig, "alias #%d %v of terminated %s still has consumers %v in the relation set", i, a, h.pid, c)
			}
		}
	}
	if obs != nil {
		node.Kill(obs.pid)
		if !waitDead(obs) {
			r.inconclusive("watchdog: observer did not terminate")
		}
	}
	if r.incon == "" {
		if after := snapshot(); after != before {
			sig := "counter-leak"
			onlyAliases := after.Procs == before.Procs && after.Names == before.Names && after.Events == before.Events
			if onlyAliases && r.sig != "" {
				sig = r.sig // the leaked alias found above, counted
			} else if onlyAliases && !viewOK {
				sig = "delete-alias-wrong-element"
			}
			r.fail(sig, "node counters after the case %+v differ from before %+v (processes, names, aliases, events)", after, before)
		}
	}
	detail := map[string]any{"created": n, "delete_order": del, "cause": cause, "aliases_view_before_termination": fmt.Sprint(view), "created_aliases": fmt.Sprint(created)}
	finish(id, "alias-sequences", fmt.Sprintf("A/%d/del%v", n, del), true, ops, r, detail)
	sampleOnce("alias-sequences", 1, detail)
}

func runAliasSeqAll() {
	k := 0
	for n := 1; n <= 4; n++ {
		items := make([]int, n)
		for i := range items {
			items[i] = i
		}
		for d := 0; d <= n; d++ {
			for _, del := range permutations(items, d) {
				cause := []string{"kill-sleeping", "normal", "exit-signal", "kill-running"}[k%4]
				k++
				runAliasSeq(n, del, cause)
			}
		}
	}
}
