package main

// (b) pids again, with FAILING spawns in the mix: a process whose Init returns an
// error has had a pid (Process.PID() inside Init, the pid of a child it spawned from
// Init is derived from the same counter). No pid value may ever be handed to two
// process instances, and every live spawned process stays listed and reachable under
// its pid until it terminates.

import (
	"errors"
	"fmt"
	"sync"

	"ergo.services/ergo/gen"

	"verif/harness/actors"
	"verif/harness/hk"
)

var errInitFails = errors.New("c06 init fails")

type pidRec struct {
	h    *handle
	kind string // live failed child
}

// spawnMaybeFailing spawns one process; fail: its Init returns an error; withChild: Init spawns a
// (successful, live) child first; reg: through SpawnRegister. Returns the records of every
// process instance that got a pid.
func spawnMaybeFailing(label string, fail, withChild, reg bool) (recs []pidRec, err error) {
	f, h := newProc(label)
	var child *handle
	var childErr error
	initf := func(p *actors.Probe) error {
		if withChild {
			cf, ch := newProc(label + "/child")
			ch.pid, childErr = p.Spawn(cf, gen.ProcessOptions{})
			if childErr == nil {
				child = ch
			}
		}
		if fail {
			return errInitFails
		}
		return nil
	}
	var pid gen.PID
	if reg {
		pid, err = node.SpawnRegister(uniq("c06pidmix"), f, gen.ProcessOptions{}, initf)
	} else {
		pid, err = node.Spawn(f, gen.ProcessOptions{}, initf)
	}
	// the pid the instance saw in its own Init (set by the probe before the hook runs)
	h.pid = h.inst.PID
	if err == nil {
		if pid != h.pid {
			// the caller and the process disagree about the pid
			h.pid = pid
		}
		recs = append(recs, pidRec{h, "live"})
	} else if h.pid != (gen.PID{}) {
		recs = append(recs, pidRec{h, "failed"})
	}
	if child != nil {
		recs = append(recs, pidRec{child, "child"})
	}
	return recs, err
}

// stillThere: the live process is listed and a message to its pid reaches this very instance
func stillThere(h *handle, r *result, when string) {
	opsObserved.Add(2)
	if _, err := node.ProcessInfo(h.pid); err != nil {
		r.fail("live-process-lost-from-table", "ProcessInfo(%s) = %v for a live process (%s) %s", h.pid, err, h.label, when)
		return
	}
	if ok, serr, inc := resolvesTo(h.pid, h); inc {
		r.inconclusive("watchdog: ping to pid not delivered")
	} else if !ok && !h.isDead() {
		r.fail("live-process-lost-from-table", "a message to %s does not reach the live process that was given this pid (%s) %s (send error %v): its entry in the process table belongs to somebody else", h.pid, h.label, when, serr)
	}
}

func checkDistinct(all []pidRec, r *result) int {
	seen := map[gen.PID]pidRec{}
	dups := 0
	for _, x := range all {
		if y, dup := seen[x.h.pid]; dup && y.h != x.h {
			dups++
			if dups <= 3 {
				r.fail("pid-repeat", "pid %s was given to two process instances: %s (%s) and %s (%s)", x.h.pid, y.h.label, y.kind, x.h.label, x.kind)
			}
			continue
		}
		seen[x.h.pid] = x
	}
	return dups
}

// deterministic: failing Init (with and without a child spawned inside it), then the next spawns
func runPidFailDirected(withChild, reg bool) {
	id := fmt.Sprintf("I/pid/failing-init/child=%v/register=%v", withChild, reg)
	if !hk.Want(id) {
		return
	}
	beginCase()
	r := &result{}
	var all []pidRec
	before, _ := spawnMaybeFailing(id+"/before", false, false, false)
	failed, err := spawnMaybeFailing(id+"/failing", true, withChild, reg)
	if err == nil {
		r.inconclusive("setup: the failing spawn succeeded")
	}
	var after []pidRec
	for k := 0; k < 3; k++ {
		a, _ := spawnMaybeFailing(fmt.Sprintf("%s/after%d", id, k), false, false, false)
		after = append(after, a...)
	}
	all = append(append(append(all, before...), failed...), after...)
	opsObserved.Add(int64(len(all)))
	checkDistinct(all, r)
	for _, x := range all {
		if x.kind != "failed" {
			stillThere(x.h, r, "after a spawn whose Init failed")
		}
	}
	for _, x := range all {
		if x.kind != "failed" {
			node.Kill(x.h.pid)
		}
	}
	for _, x := range all {
		if x.kind != "failed" && !waitDead(x.h) {
			r.inconclusive("watchdog: process did not terminate")
		}
	}
	var desc []string
	for _, x := range all {
		desc = append(desc, fmt.Sprintf("%s %s %s", x.kind, x.h.pid, x.h.label))
	}
	finish(id, "ids", id, len(failed) > 0, int64(len(all)), r, map[string]any{"instances": desc})
}

// concurrent mix of successful and failing spawns
func runPidFailMix() {
	id := "I/pid/failing-init-mix16"
	if !hk.Want(id) {
		return
	}
	beginCase()
	r := &result{}
	per := hk.Pick(1500, 60000)
	const g = 16
	parts := make([][]pidRec, g)
	results := make([]*result, g)
	var wg sync.WaitGroup
	for w := 0; w < g; w++ {
		wg.Add(1)
		go func(w int) {
			defer wg.Done()
			rng := hk.Rng("c06", id, fmt.Sprint(w))
			rr := &result{}
			results[w] = rr
			var live []*handle
			retire := func(n int) {
				for len(live) > n {
					h := live[0]
					live = live[1:]
					if rng.Intn(4) == 0 {
						stillThere(h, rr, "while failing and successful spawns run concurrently")
					}
					node.Kill(h.pid)
				}
			}
			for i := 0; i < per; i++ {
				x := rng.Intn(10)
				fail := x < 4
				withChild := x == 0 || x == 1 || x == 9
				reg := x%3 == 0
				recs, _ := spawnMaybeFailing(fmt.Sprintf("%s/%d.%d", id, w, i), fail, withChild, reg)
				parts[w] = append(parts[w], recs...)
				for _, rc := range recs {
					if rc.kind != "failed" {
						live = append(live, rc.h)
					}
				}
				retire(6)
			}
			for _, h := range live {
				stillThere(h, rr, "at the end of the run")
			}
			retire(0)
		}(w)
	}
	wg.Wait()
	var all []pidRec
	failedN, childN := 0, 0
	for w, p := range parts {
		all = append(all, p...)
		for _, x := range p {
			switch x.kind {
			case "failed":
				failedN++
			case "child":
				childN++
			}
		}
		if rr := results[w]; rr != nil {
			if len(rr.viol) > 0 && len(r.viol) < 4 {
				r.fail(rr.sig, "%s", rr.viol[0])
			}
			if rr.incon != "" {
				r.inconclusive("%s", rr.incon)
			}
		}
	}
	opsObserved.Add(int64(len(all)))
	dups := checkDistinct(all, r)
	// everything was killed: wait for the last ones
	for _, p := range parts {
		for i := len(p) - 1; i >= 0 && i >= len(p)-8; i-- {
			if p[i].kind != "failed" && !waitDead(p[i].h) {
				r.inconclusive("watchdog: process did not terminate")
			}
		}
	}
	finish(id, "ids", "pid/failing-init-mix16", failedN > 0 && childN > 0, int64(len(all)), r, map[string]any{"instances": len(all), "failed_inits": failedN, "children_spawned_inside_init": childN, "repeated_pids": dups})
}

func runPidsFailing() {
	for _, c := range []bool{false, true} {
		for _, reg := range []bool{false, true} {
			runPidFailDirected(c, reg)
		}
	}
	runPidFailMix()
}
