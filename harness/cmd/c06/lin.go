package main

// (a) linearizability of the name table and of the event table at the client
// boundary. Histories are recorded with hk.Tick() stamps around every call,
// partitioned by name, and checked with porcupine against the sequential
// specification "owner in {none, pid}" (plus the set of claimers known dead:
// a claim may only succeed for a live process).

import (
	"encoding/json"
	"errors"
	"fmt"
	"math/rand"
	"os"
	"runtime"
	"sort"
	"strings"
	"sync"
	"sync/atomic"
	"time"

	"github.com/anishathalye/porcupine"

	"ergo.services/ergo/gen"

	"verif/harness/actors"
	"verif/harness/hk"
)

type nIn struct {
	Op   string // claim unreg-node unreg-self term resolve | ev-reg ev-unreg ev-pub
	Via  string // node self spawn | kill exit stop | send call
	Who  int    // claimer index the op is about (-1: none, -2: the node itself for events)
	Tok  gen.Ref `json:"-"`
	// relaxed models only: the op overlaps the op of the other kind that the known race needs
	RaceA bool // claim by Node.RegisterName(i) <-> termination of i
	RaceB bool // termination of i <-> Node.UnregisterName that removed i
	// Flag: a claim overlapping another operation that holds the process's one-name flag
	// (a node-level unregistration of this process, another claim for this process): the
	// flag is per process, not per name; ErrTaken is then admissible although the name is free
	Flag bool
}

type nOut struct {
	Res string // ok taken dead unknown notowner none
	Who int    // owner reported by the operation (unreg-node, resolve)
	Tok gen.Ref `json:"-"`
	Err string
}

type nState struct {
	Owner int // -1 none
	Dead  uint64
	Tok   gen.Ref
	Vict  uint64 // relaxed model B only: processes whose table entry was removed behind their back
	Rel   uint64 // processes whose termination has released its registration (a process terminates once)
	// number of claim-try steps whose claim-undo is pending, per process: a 3-bit counter
	// spread over three masks (several claims for one process may be in flight)
	T1, T2, T4 uint64
	Trans      uint64 // entry written by a claim-try
}

func (s *nState) tried(i int) int {
	n := 0
	if s.T1&bit(i) != 0 {
		n |= 1
	}
	if s.T2&bit(i) != 0 {
		n |= 2
	}
	if s.T4&bit(i) != 0 {
		n |= 4
	}
	return n
}

func (s *nState) setTried(i, n int) {
	s.T1 &^= bit(i)
	s.T2 &^= bit(i)
	s.T4 &^= bit(i)
	if n&1 != 0 {
		s.T1 |= bit(i)
	}
	if n&2 != 0 {
		s.T2 |= bit(i)
	}
	if n&4 != 0 {
		s.T4 |= bit(i)
	}
}

func bit(i int) uint64 {
	if i < 0 || i > 63 {
		return 0
	}
	return 1 << uint(i)
}

// nameModel is the sequential specification. relaxA admits the outcome of
// "RegisterName racing termination" (a claim of a dead process succeeds if it
// overlapped that process's termination), relaxB the outcome of "UnregisterName
// racing termination" (termination of the old owner overlapping its node-level
// unregistration may clear the name whoever owns it). They are used only to
// attribute a violation found with the strict model to a known root cause.
func nameModel(relaxA, relaxB bool, relaxE ...bool) porcupine.Model {
	relaxEv := len(relaxE) > 0 && relaxE[0]
	nm := porcupine.NondeterministicModel{
		Init: func() []interface{} { return []interface{}{nState{Owner: -1}} },
		Step: func(state, input, output interface{}) []interface{} {
			s := state.(nState)
			in := input.(nIn)
			out := output.(nOut)
			one := func(n nState) []interface{} { return []interface{}{n} }
			switch in.Op {
			case "claim":
				switch out.Res {
				case "ok":
					if s.Owner != -1 {
						return nil
					}
					if s.Dead&bit(out.Who) != 0 && !(relaxA && in.RaceA) {
						return nil
					}
					s.Owner = out.Who
					return one(s)
				case "taken":
					if s.Owner == -1 && !in.Flag && !((relaxA || relaxB) && s.Vict&bit(in.Who) != 0) {
						return nil
					}
					return one(s)
				case "dead":
					if s.Dead&bit(in.Who) == 0 {
						return nil
					}
					return one(s)
				}
			case "claim-try":
				// first half of a claim that reported the process as terminated while that process
				// was terminating: the entry may have been in the table for a while ...
				if s.tried(in.Who) >= 7 {
					return nil
				}
				s.setTried(in.Who, s.tried(in.Who)+1)
				if s.Owner == -1 {
					c := s
					c.Owner = in.Who
					c.Trans |= bit(in.Who)
					return []interface{}{s, c}
				}
				return one(s)
			case "claim-undo":
				// ... and is taken out again by the call itself, which has seen the process dead
				if s.tried(in.Who) == 0 || s.Dead&bit(in.Who) == 0 {
					return nil
				}
				s.setTried(in.Who, s.tried(in.Who)-1)
				if s.Trans&bit(in.Who) != 0 {
					s.Trans &^= bit(in.Who)
					if s.Owner == in.Who {
						s.Owner = -1
					}
				}
				return one(s)
			case "unreg-node":
				switch out.Res {
				case "ok":
					if s.Owner == -1 || (s.Owner != out.Who && out.Who != -4) {
						return nil
					}
					if relaxB && out.Who == -4 {
						// the entry was removed while SpawnRegister was still constructing its process:
						// spawn sets the one-name flag afterwards, so that process keeps believing it
						// holds the name
						c := s
						c.Vict |= bit(s.Owner)
						c.Owner = -1
						s.Owner = -1
						return []interface{}{s, c}
					}
					s.Owner = -1
					return one(s)
				case "unknown":
					if s.Owner != -1 {
						return nil
					}
					return one(s)
				}
			case "unreg-self":
				switch out.Res {
				case "ok":
					// Process.UnregisterName does not say whose registration it removed
					if s.Owner == -1 {
						return nil
					}
					s.Owner = -1
					return one(s)
				case "unknown":
					// (in.Flag: a Node.RegisterName for this process is in flight; the process
					// learns its name only when that call is about to return)
					if s.Owner == in.Who && !in.Flag {
						return nil
					}
					return one(s)
				case "dead":
					if s.Dead&bit(in.Who) == 0 {
						return nil
					}
					return one(s)
				}
			case "term-die":
				// the process stops being alive (claims for it fail from here on) ...
				s.Dead |= bit(in.Who)
				return one(s)
			case "term-release":
				// ... and, not necessarily at the same moment, its registration goes away
				if s.Rel&bit(in.Who) != 0 {
					return one(s) // terminating a terminated process does nothing
				}
				s.Rel |= bit(in.Who)
				if s.Owner == in.Who {
					c := s
					c.Owner = -1
					c.Tok = gen.Ref{}
					if relaxA && in.RaceA {
						// the known race: the table entry written by the racing RegisterName survives
						return []interface{}{c, s}
					}
					return one(c)
				}
				// (relaxA: a RegisterName for this process is in flight, so its one-name flag may be
				// set while p.name still holds the name of an earlier registration: the termination
				// then deletes that name's entry, whoever owns it)
				if ((relaxB && in.RaceB) || (relaxA && in.RaceA) || ((relaxA || relaxB || relaxEv) && s.Vict&bit(in.Who) != 0)) && s.Owner != -1 {
					// the known race: a process that still believes it holds the name deletes the
					// entry of whoever holds it now; that one becomes the next such process
					c := s
					c.Vict |= bit(s.Owner)
					c.Owner = -1
					c.Tok = gen.Ref{}
					return []interface{}{s, c}
				}
				return one(s)
			case "resolve":
				switch out.Res {
				case "ok":
					if s.Owner != out.Who {
						return nil
					}
					return one(s)
				case "none":
					if s.Owner != -1 {
						return nil
					}
					return one(s)
				}
			// ---- events
			case "ev-reg":
				switch out.Res {
				case "ok":
					if s.Owner != -1 || s.Dead&bit(in.Who) != 0 {
						return nil
					}
					s.Owner = in.Who
					s.Tok = out.Tok
					return one(s)
				case "taken":
					if s.Owner == -1 {
						return nil
					}
					return one(s)
				case "dead":
					if s.Dead&bit(in.Who) == 0 {
						return nil
					}
					return one(s)
				}
			case "ev-unreg":
				switch out.Res {
				case "ok":
					if in.Flag && s.Owner != in.Who {
						// two overlapping unregistrations by the same owner may both report success
						// (the entry is checked, then deleted); the second one removes nothing
						if relaxEv && s.Owner != -1 {
							// ... or, the known race, the registration somebody else made in between
							// (that owner goes on believing it holds the event and deletes the entry,
							// whoever owns it, when it terminates)
							c := s
							c.Vict |= bit(s.Owner)
							c.Owner = -1
							c.Tok = gen.Ref{}
							return []interface{}{s, c}
						}
						return one(s)
					}
					if s.Owner == -1 || s.Owner != in.Who {
						return nil
					}
					s.Owner = -1
					s.Tok = gen.Ref{}
					return one(s)
				case "unknown":
					if s.Owner != -1 {
						return nil
					}
					return one(s)
				case "notowner":
					if s.Owner == -1 || s.Owner == in.Who {
						return nil
					}
					return one(s)
				case "dead":
					if s.Dead&bit(in.Who) == 0 {
						return nil
					}
					return one(s)
				}
			case "ev-pub":
				switch out.Res {
				case "ok":
					if s.Owner == -1 || s.Tok != in.Tok {
						return nil
					}
					return one(s)
				case "unknown":
					if s.Owner != -1 {
						return nil
					}
					return one(s)
				case "notowner":
					if s.Owner == -1 || s.Tok == in.Tok {
						return nil
					}
					return one(s)
				}
			}
			return nil
		},
		Equal: func(a, b interface{}) bool { return a.(nState) == b.(nState) },
		DescribeOperation: func(input, output interface{}) string {
			return descOp(input.(nIn), output.(nOut))
		},
	}
	return nm.ToModel()
}

func descOp(in nIn, out nOut) string {
	who := ""
	if in.Who != -1 {
		who = fmt.Sprintf("(#%d)", in.Who)
	}
	res := out.Res
	if out.Who >= 0 && (in.Op == "unreg-node" || in.Op == "resolve" || (in.Op == "claim" && in.Via == "spawn")) && out.Res == "ok" {
		res = fmt.Sprintf("ok:#%d", out.Who)
	}
	if out.Err != "" && out.Res != "ok" {
		res += "[" + out.Err + "]"
	}
	return fmt.Sprintf("%s/%s%s->%s", in.Op, in.Via, who, res)
}

// ---------------------------------------------------------------------------

type recOp struct {
	in        nIn
	out       nOut
	call, ret int64
	client    int
	pingID    int64 // resolve by send: decided after the run from the receivers' logs
	// owner reported as a pid: mapped to a claimer index after the run (a spawn may still be in
	// flight). Only the numeric words are kept: UnregisterName may return the pid of a process
	// that spawn() is still constructing, a torn value whose Node string must not be touched.
	pidID       uint64
	pidCreation int64
	hasPid    bool
	drop      bool  // no information / no effect
}

type partition struct {
	name     gen.Atom
	mu       sync.Mutex
	claimers []*handle
	label    string
}

func (pt *partition) pick(rng *rand.Rand) *handle {
	pt.mu.Lock()
	defer pt.mu.Unlock()
	return pt.claimers[rng.Intn(len(pt.claimers))]
}

func (pt *partition) add(h *handle) int {
	pt.mu.Lock()
	defer pt.mu.Unlock()
	h.idx = len(pt.claimers)
	pt.claimers = append(pt.claimers, h)
	return h.idx
}

func (pt *partition) count() (total, alive int) {
	pt.mu.Lock()
	defer pt.mu.Unlock()
	for _, h := range pt.claimers {
		if !h.isDead() {
			alive++
		}
	}
	return len(pt.claimers), alive
}

const maxClaimers = 48

func classify(err error) string {
	switch err {
	case nil:
		return "ok"
	case gen.ErrTaken:
		return "taken"
	case gen.ErrProcessUnknown, gen.ErrProcessTerminated, gen.ErrNotAllowed:
		return "dead"
	case gen.ErrNameUnknown, gen.ErrEventUnknown:
		return "unknown"
	case gen.ErrEventOwner:
		return "notowner"
	}
	return "other:" + err.Error()
}

func errStr(err error) string {
	if err == nil {
		return ""
	}
	return err.Error()
}

// termOp terminates claimer h by cause and returns when its Terminate callback began
func termOp(h *handle, cause string) (ok bool) {
	switch cause {
	case "kill":
		node.Kill(h.pid)
	case "exit":
		node.SendExit(h.pid, errors.New("c06-exit"))
	case "stop":
		if ran, err := inProc(h, func(p *actors.Probe) error { return gen.TerminateReasonNormal }); err != nil {
			return false
		} else if !ran {
			// it is terminating for another reason
		}
	}
	t := time.NewTimer(wd())
	defer t.Stop()
	select {
	case <-h.dead:
		return true
	case <-t.C:
		return false
	}
}

type linCase struct {
	id      string
	stall   string // wd() reason
	stallMu sync.Mutex
	panics  []string // a registry call of the harness panicked inside the framework
}

// safeSend is Node.Send by name; a panic inside the framework is an observation, not a crash of the monitor
func safeSend(lc *linCase, name gen.Atom, msg any) (err error) {
	defer func() {
		if rcv := recover(); rcv != nil {
			buf := make([]byte, 1500)
			buf = buf[:runtime.Stack(buf, false)]
			lc.stallMu.Lock()
			if len(lc.panics) < 3 {
				lc.panics = append(lc.panics, fmt.Sprintf("%v\n%s", rcv, buf))
			}
			lc.stallMu.Unlock()
			err = errPanicked
		}
	}()
	return node.Send(name, msg)
}

var errPanicked = errors.New("panicked inside the framework")

// UnregisterName calls that returned (gen.PID{}, nil)
var zeroPidUnreg atomic.Int64

func (lc *linCase) stalled(why string) {
	lc.stallMu.Lock()
	if lc.stall == "" {
		lc.stall = why
	}
	lc.stallMu.Unlock()
}

// nameWorker performs n random operations on the partition
func nameWorker(lc *linCase, pt *partition, client int, rng *rand.Rand, n int, resolver *handle) []recOp {
	var ops []recOp
	rec := func(o recOp) {
		o.client = client
		ops = append(ops, o)
		opsObserved.Add(1)
	}
	for k := 0; k < n; k++ {
		total, alive := pt.count()
		x := rng.Intn(100)
		switch {
		case x < 20: // Node.RegisterName
			h := pt.pick(rng)
			o := recOp{in: nIn{Op: "claim", Via: "node", Who: h.idx}}
			o.call = hk.Tick()
			err := node.RegisterName(pt.name, h.pid)
			o.ret = hk.Tick()
			o.out = nOut{Res: classify(err), Who: h.idx, Err: errStr(err)}
			rec(o)
		case x < 33: // Process.RegisterName
			h := pt.pick(rng)
			o := recOp{in: nIn{Op: "claim", Via: "self", Who: h.idx}}
			var err error
			o.call = hk.Tick()
			ran, werr := inProc(h, func(p *actors.Probe) error { err = p.RegisterName(pt.name); return nil })
			o.ret = hk.Tick()
			if werr != nil {
				lc.stalled("watchdog: Process.RegisterName command not answered")
				return ops
			}
			o.out = nOut{Res: classify(err), Who: h.idx, Err: errStr(err)}
			o.drop = !ran
			rec(o)
		case x < 41: // SpawnRegister
			if total >= maxClaimers {
				continue
			}
			f, h := newProc(fmt.Sprintf("%s/s%d.%d", pt.label, client, k))
			o := recOp{in: nIn{Op: "claim", Via: "spawn", Who: -1}}
			o.call = hk.Tick()
			pid, err := node.SpawnRegister(pt.name, f, gen.ProcessOptions{})
			if err == nil {
				h.pid = pid
				// the index must exist before the return stamp: others may act on the pid only after it
				pt.add(h)
			}
			o.ret = hk.Tick()
			o.out = nOut{Res: classify(err), Who: -1, Err: errStr(err)}
			if err == nil {
				o.out.Who = h.idx
				o.in.Who = h.idx
			}
			rec(o)
		case x < 52: // Node.UnregisterName
			o := recOp{in: nIn{Op: "unreg-node", Via: "node", Who: -1}}
			o.call = hk.Tick()
			pid, err := node.UnregisterName(pt.name)
			o.ret = hk.Tick()
			o.out = nOut{Res: classify(err), Who: -1, Err: errStr(err)}
			if err == nil {
				o.pidID, o.pidCreation, o.hasPid = pid.ID, pid.Creation, true
			}
			rec(o)
		case x < 61: // Process.UnregisterName
			h := pt.pick(rng)
			o := recOp{in: nIn{Op: "unreg-self", Via: "self", Who: h.idx}}
			var err error
			o.call = hk.Tick()
			ran, werr := inProc(h, func(p *actors.Probe) error { err = p.UnregisterName(); return nil })
			o.ret = hk.Tick()
			if werr != nil {
				lc.stalled("watchdog: Process.UnregisterName command not answered")
				return ops
			}
			o.out = nOut{Res: classify(err), Who: h.idx, Err: errStr(err)}
			o.drop = !ran
			rec(o)
		case x < 71: // terminate a claimer
			if alive <= 1 && total < maxClaimers {
				// refill instead: a fresh unregistered claimer (not an operation on the name)
				if h, err := spawnProc(fmt.Sprintf("%s/r%d.%d", pt.label, client, k)); err == nil {
					pt.add(h)
				}
				continue
			}
			h := pt.pick(rng)
			cause := []string{"kill", "exit", "stop"}[rng.Intn(3)]
			o := recOp{in: nIn{Op: "term", Via: cause, Who: h.idx}}
			o.call = hk.Tick()
			ok := termOp(h, cause)
			o.ret = hk.Tick()
			if !ok {
				lc.stalled("watchdog: claimer did not terminate")
				return ops
			}
			o.out = nOut{Res: "ok", Who: h.idx}
			rec(o)
		case x < 74 && resolver != nil: // resolve by Call from a process
			o := recOp{in: nIn{Op: "resolve", Via: "call", Who: -1}}
			var v any
			var err error
			o.call = hk.Tick()
			ran, werr := inProc(resolver, func(p *actors.Probe) error { v, err = p.CallWithTimeout(pt.name, "who", 1); return nil })
			o.ret = hk.Tick()
			if werr != nil || !ran {
				if resolver.panicked != "" {
					// the Call by name panicked inside the framework (the resolver process died of it)
					lc.stallMu.Lock()
					if len(lc.panics) < 3 {
						lc.panics = append(lc.panics, resolver.panicked)
					}
					lc.stallMu.Unlock()
					resolver = nil
					continue
				}
				lc.stalled("watchdog: resolver did not answer")
				return ops
			}
			switch {
			case err == gen.ErrProcessUnknown:
				o.out = nOut{Res: "none", Who: -1, Err: errStr(err)}
			case err == nil:
				pid, _ := v.(gen.PID)
				o.out = nOut{Res: "ok", Who: -3}
				o.pidID, o.pidCreation, o.hasPid = pid.ID, pid.Creation, true
			default:
				o.drop = true // timeout / terminated: no information
				o.out = nOut{Res: "noinfo", Who: -1, Err: errStr(err)}
			}
			rec(o)
		default: // resolve by send
			o := recOp{in: nIn{Op: "resolve", Via: "send", Who: -1}}
			o.pingID = pingSeq.Add(1)
			o.call = hk.Tick()
			err := safeSend(lc, pt.name, ping{ID: o.pingID})
			o.ret = hk.Tick()
			switch err {
			case nil:
				o.out = nOut{Res: "ok", Who: -1} // receiver filled in later
			case gen.ErrProcessUnknown:
				o.out = nOut{Res: "none", Who: -1, Err: errStr(err)}
				o.pingID = 0
			default:
				o.out = nOut{Res: "noinfo", Who: -1, Err: errStr(err)}
				o.drop = true
				o.pingID = 0
			}
			rec(o)
		}
	}
	return ops
}

// settle waits until no claimer has anything left to do
func settle(hs []*handle) bool {
	return hk.WaitUntil(wd(), func() bool {
		for _, h := range hs {
			if !h.inst.Quiet() {
				return false
			}
			if h.isDead() {
				continue
			}
			info, err := node.ProcessInfo(h.pid)
			if err != nil {
				continue
			}
			if q := info.MailboxQueues; q.Main+q.System+q.Urgent+q.Log > 0 || info.State != gen.ProcessStateSleep {
				return false
			}
			if hk.LiveRunners(h.pid) > 0 {
				return false
			}
		}
		return true
	})
}

func markRaces(ops []recOp) {
	for i := range ops {
		a := &ops[i]
		for j := range ops {
			b := &ops[j]
			if i == j || !(a.call < b.ret && b.call < a.ret) {
				continue
			}
			// claim(i) overlapping term(i)
			if a.in.Op == "claim" && a.in.Via != "spawn" && b.in.Op == "term" && a.in.Who == b.in.Who {
				a.in.RaceA = true
				b.in.RaceA = true
			}
			if a.in.Op == "claim" && b.in.Op == "claim" && b.out.Res == "dead" {
				// a claim for a process found dead may have held the entry for a moment
				// before giving up: a concurrent claimer that saw it gets ErrTaken
				a.in.Flag = true
			}
			if a.in.Op == "claim" && a.in.Via != "spawn" {
				// (Process.UnregisterName does not say whose entry it removed)
				if (b.in.Op == "unreg-node" && b.out.Res == "ok" && b.out.Who == a.in.Who) || (b.in.Op == "unreg-self" && b.out.Res == "ok") || (b.in.Op == "claim" && b.in.Who == a.in.Who) {
					a.in.Flag = true
				}
			}
			if a.in.Op == "ev-unreg" && b.in.Op == "ev-unreg" && a.in.Who == b.in.Who && a.out.Res == "ok" && b.out.Res == "ok" {
				a.in.Flag = true
			}
			if a.in.Op == "unreg-self" && b.in.Op == "claim" && b.in.Via == "node" && b.in.Who == a.in.Who {
				a.in.Flag = true
			}
			// term(i) overlapping an unreg-node that removed i
			if a.in.Op == "term" && b.in.Op == "unreg-node" && b.out.Res == "ok" && (b.out.Who == a.in.Who || b.out.Who == -4) {
				a.in.RaceB = true
			}
			// (Process.UnregisterName goes through Node.UnregisterName(p.name) and may have removed anybody's entry)
			if a.in.Op == "term" && b.in.Op == "unreg-self" && b.out.Res == "ok" {
				a.in.RaceB = true
			}
		}
	}
}

func toPorcupine(ops []recOp) []porcupine.Operation {
	var h []porcupine.Operation
	for _, o := range ops {
		if o.drop {
			continue
		}
		if o.in.Op == "claim" && o.out.Res == "dead" && o.in.RaceA {
			a, b := o.in, o.in
			a.Op, b.Op = "claim-try", "claim-undo"
			h = append(h, porcupine.Operation{ClientId: o.client, Input: a, Call: o.call, Output: o.out, Return: o.ret})
			h = append(h, porcupine.Operation{ClientId: o.client, Input: b, Call: o.call, Output: o.out, Return: o.ret})
			continue
		}
		if o.in.Op == "term" {
			// termination is two steps inside one interval: not alive any more, registration released
			a, b := o.in, o.in
			a.Op, b.Op = "term-die", "term-release"
			h = append(h, porcupine.Operation{ClientId: o.client, Input: a, Call: o.call, Output: o.out, Return: o.ret})
			h = append(h, porcupine.Operation{ClientId: o.client, Input: b, Call: o.call, Output: o.out, Return: o.ret})
			continue
		}
		h = append(h, porcupine.Operation{ClientId: o.client, Input: o.in, Call: o.call, Output: o.out, Return: o.ret})
	}
	return h
}

// machine-readable copy of a history (witness; `C06_RECHECK=<viol.json>` re-decides it offline)
type opJSON struct {
	In     nIn   `json:"in"`
	Out    nOut  `json:"out"`
	Call   int64 `json:"call"`
	Ret    int64 `json:"ret"`
	Client int   `json:"client"`
	Drop   bool  `json:"drop,omitempty"`
	// event tokens (gen.Ref marshals to a string): the three id words
	InTok  [3]uint64 `json:"in_tok"`
	OutTok [3]uint64 `json:"out_tok"`
}

func rawHistory(ops []recOp) []opJSON {
	var out []opJSON
	for _, o := range ops {
		out = append(out, opJSON{In: o.in, Out: o.out, Call: o.call, Ret: o.ret, Client: o.client, Drop: o.drop, InTok: o.in.Tok.ID, OutTok: o.out.Tok.ID})
	}
	return out
}

func fromRaw(raw []opJSON) []recOp {
	var ops []recOp
	for _, o := range raw {
		o.In.RaceA, o.In.RaceB, o.In.Flag = false, false, false
		o.In.Tok.ID, o.Out.Tok.ID = o.InTok, o.OutTok
		ops = append(ops, recOp{in: o.In, out: o.Out, call: o.Call, ret: o.Ret, client: o.Client, drop: o.Drop})
	}
	return ops
}

// recheck re-decides the histories stored in a violation replay file (development aid)
func recheck(path string) {
	b, err := os.ReadFile(path)
	if err != nil {
		fmt.Fprintln(os.Stderr, err)
		return
	}
	var v struct {
		ID     string `json:"id"`
		Detail struct {
			NL  []struct {
				Raw []opJSON `json:"raw"`
			} `json:"not_linearizable"`
			Raw []opJSON `json:"raw"`
		} `json:"detail"`
	}
	if err := json.Unmarshal(b, &v); err != nil {
		fmt.Fprintln(os.Stderr, err)
		return
	}
	one := func(raw []opJSON, events bool) {
		ops := fromRaw(raw)
		markRaces(ops)
		sig, to := decide(ops, events)
		fmt.Printf("%s: %d operations: sig=%q timeout=%v first_unexplained=%s\n", v.ID, len(ops), sig, to, firstUnexplained(ops))
		fmt.Printf("   most relaxed model: first_unexplained=%s\n", firstUnexplainedBy(nameModel(true, true, true), ops))
	}
	for _, p := range v.Detail.NL {
		one(p.Raw, false)
	}
	if len(v.Detail.Raw) > 0 {
		one(v.Detail.Raw, true)
	}
}

func descClaimers(hs []*handle) []string {
	var out []string
	for _, h := range hs {
		st := "alive"
		if h.isDead() {
			st = fmt.Sprintf("terminated: %v", h.reason)
			if h.panicked != "" {
				st += " PANIC IN CLOSURE: " + h.panicked
			}
		}
		out = append(out, fmt.Sprintf("#%d %s %s (%s)", h.idx, h.pid, st, h.label))
	}
	return out
}

func fmtHistory(ops []recOp) []string {
	s := append([]recOp(nil), ops...)
	sort.Slice(s, func(i, j int) bool { return s[i].call < s[j].call })
	var out []string
	for _, o := range s {
		d := ""
		if o.drop {
			d = " (dropped: no effect/no information)"
		}
		out = append(out, fmt.Sprintf("[%d,%d] c%d %s%s", o.call, o.ret, o.client, descOp(o.in, o.out), d))
	}
	return out
}

func overlappingClaims(ops []recOp) (claims, claimTerm int) {
	for i := range ops {
		for j := i + 1; j < len(ops); j++ {
			a, b := ops[i], ops[j]
			if a.drop || b.drop || !(a.call < b.ret && b.call < a.ret) {
				continue
			}
			ac := a.in.Op == "claim" || a.in.Op == "ev-reg"
			bc := b.in.Op == "claim" || b.in.Op == "ev-reg"
			if ac && bc {
				claims++
			}
			if (ac && b.in.Op == "term") || (bc && a.in.Op == "term") {
				claimTerm++
			}
		}
	}
	return
}

// decide checks one partition's history; returns a signature ("" = linearizable) and whether the checker timed out
// firstUnexplained: the operation (in call order) at which the history stops being explainable;
// a reading aid for the witness, not part of the verdict
func firstUnexplained(ops []recOp) string {
	return firstUnexplainedBy(nameModel(false, false), ops)
}

func firstUnexplainedBy(model porcupine.Model, ops []recOp) string {
	s := append([]recOp(nil), ops...)
	sort.Slice(s, func(i, j int) bool { return s[i].call < s[j].call })
	lo, hi := 0, len(s)
	for lo < hi {
		mid := (lo + hi) / 2
		if porcupine.CheckOperationsTimeout(model, toPorcupine(s[:mid+1]), 10*time.Second) == porcupine.Illegal {
			hi = mid
		} else {
			lo = mid + 1
		}
	}
	if lo < len(s) {
		o := s[lo]
		return fmt.Sprintf("[%d,%d] c%d %s", o.call, o.ret, o.client, descOp(o.in, o.out))
	}
	return ""
}

func decide(ops []recOp, events bool) (sig string, timeout bool) {
	h := toPorcupine(ops)
	res := porcupine.CheckOperationsTimeout(nameModel(false, false), h, 60*time.Second)
	switch res {
	case porcupine.Ok:
		return "", false
	case porcupine.Unknown:
		return "", true
	}
	if events {
		if porcupine.CheckOperationsTimeout(nameModel(false, false, true), h, 30*time.Second) == porcupine.Ok {
			return "unregisterevent-check-then-delete-drops-new-owner", false
		}
		return "event-history-not-linearizable", false
	}
	if porcupine.CheckOperationsTimeout(nameModel(true, false), h, 30*time.Second) == porcupine.Ok {
		return "registername-vs-terminate", false
	}
	if porcupine.CheckOperationsTimeout(nameModel(false, true), h, 30*time.Second) == porcupine.Ok {
		return "unregistername-vs-terminate-drops-new-owner", false
	}
	if porcupine.CheckOperationsTimeout(nameModel(true, true), h, 30*time.Second) == porcupine.Ok {
		return "registername-vs-terminate", false
	}
	return "name-history-not-linearizable", false
}

var stressPoints = map[string]float64{
	"proc.unreg.deleted": 0.3, "proc.unreg.name": 0.3, "proc.unreg.event": 0.3, "proc.kill.zombie": 0.2, "proc.kill.term": 0.3,
	"proc.run.term.err": 0.3, "proc.run.term.kill": 0.3, "proc.run.tosleep": 0.05, "proc.run.wake": 0.02,
}

func runNameLin(k int) {
	id := fmt.Sprintf("L/%d", k)
	if !hk.Want(id) {
		return
	}
	beginCase()
	rng := hk.Rng("c06", id)
	r := &result{}
	lc := &linCase{id: id}
	nParts := 1 + rng.Intn(3)
	workers := 3 + rng.Intn(4)
	per := 8 + rng.Intn(14)
	initial := 2 + rng.Intn(4)
	insideToo := k%2 == 1 // also perturb inside RegisterName/UnregisterName (the windows of the known races)
	probs := map[string]float64{}
	for p, v := range stressPoints {
		probs[p] = v
	}
	if insideToo {
		probs["node.regname.alive"] = 0.3
		probs["node.regname.stored"] = 0.3
		probs["node.unregname.deleted"] = 0.3
	}
	hk.Stress(id, probs, time.Duration(20+rng.Intn(200))*time.Microsecond)
	defer hk.StressOff()

	parts := make([]*partition, nParts)
	hist := make([][]recOp, nParts)
	var hmu sync.Mutex
	var resolvers []*handle
	var wg sync.WaitGroup
	for pi := range parts {
		pt := &partition{name: uniq("c06lin"), label: fmt.Sprintf("%s/p%d", id, pi)}
		parts[pi] = pt
		for c := 0; c < initial; c++ {
			h, err := spawnProc(fmt.Sprintf("%s/c%d", pt.label, c))
			if err != nil {
				r.inconclusive("spawn: %v", err)
				continue
			}
			pt.add(h)
		}
		if len(pt.claimers) == 0 {
			continue
		}
		for w := 0; w < workers; w++ {
			var res *handle
			if w == 0 {
				res, _ = spawnProc(pt.label + "/resolver")
				if res != nil {
					resolvers = append(resolvers, res)
				}
			}
			wg.Add(1)
			go func(pi, w int, res *handle) {
				defer wg.Done()
				ops := nameWorker(lc, parts[pi], w, hk.Rng("c06", id, fmt.Sprint(pi), fmt.Sprint(w)), per, res)
				hmu.Lock()
				hist[pi] = append(hist[pi], ops...)
				hmu.Unlock()
			}(pi, w, res)
		}
	}
	wg.Wait()
	hk.StressOff()
	if lc.stall != "" {
		r.inconclusive("%s", lc.stall)
	}
	if len(lc.panics) > 0 {
		sig := "registry-call-panics"
		if (strings.Contains(lc.panics[0], "RouteSendProcessID") || strings.Contains(lc.panics[0], "RouteCallProcessID")) && strings.Contains(lc.panics[0], "nil pointer") {
			sig = "send-to-name-during-spawn-nil-mailbox"
		}
		r.fail(sig, "a send or Call to a registered name panicked inside the framework while a SpawnRegister of that name was in progress (the name is published before the process has a mailbox): %s", strings.SplitN(lc.panics[0], "\n", 2)[0])
	}

	var events int64
	var illegal []map[string]any
	nClaims, nClaimTerm := 0, 0
	for pi, pt := range parts {
		if !settle(pt.claimers) {
			r.inconclusive("watchdog: no quiescence")
		}
		// closing operations: what the name resolves to now, and that a fresh process can take it once released
		ops := hist[pi]
		fin := func(o recOp) { o.client = workers; ops = append(ops, o); opsObserved.Add(1) }
		{
			o := recOp{in: nIn{Op: "unreg-node", Via: "node", Who: -1}}
			o.call = hk.Tick()
			pid, err := node.UnregisterName(pt.name)
			o.ret = hk.Tick()
			o.out = nOut{Res: classify(err), Who: -1, Err: errStr(err)}
			if err == nil {
				o.pidID, o.pidCreation, o.hasPid = pid.ID, pid.Creation, true
			}
			fin(o)
		}
		if fresh, err := spawnProc(pt.label + "/closing"); err == nil && len(pt.claimers) < 60 {
			pt.add(fresh)
			o := recOp{in: nIn{Op: "claim", Via: "node", Who: fresh.idx}}
			o.call = hk.Tick()
			cerr := node.RegisterName(pt.name, fresh.pid)
			o.ret = hk.Tick()
			o.out = nOut{Res: classify(cerr), Who: fresh.idx, Err: errStr(cerr)}
			fin(o)
			o = recOp{in: nIn{Op: "resolve", Via: "send", Who: -1}}
			o.pingID = pingSeq.Add(1)
			o.call = hk.Tick()
			serr := node.Send(pt.name, ping{ID: o.pingID})
			o.ret = hk.Tick()
			switch serr {
			case nil:
				o.out = nOut{Res: "ok", Who: -1}
			case gen.ErrProcessUnknown:
				o.out = nOut{Res: "none", Who: -1, Err: errStr(serr)}
				o.pingID = 0
			default:
				o.drop, o.pingID = true, 0
				o.out = nOut{Res: "noinfo", Who: -1, Err: errStr(serr)}
			}
			fin(o)
			settle([]*handle{fresh})
		}
		// receivers of the pings
		recv := map[int64]int{}
		for _, h := range pt.claimers {
			for _, e := range h.inst.Events() {
				if p, ok := e.Msg.(ping); ok && p.ID != 0 {
					recv[p.ID] = h.idx
				}
			}
			events += h.inst.Callbacks.Load()
		}
		for i := range ops {
			if ops[i].hasPid {
				ops[i].out.Who = -3 // a pid that is not a claimer of this partition
				if ops[i].pidID == 0 {
					// UnregisterName of a name whose SpawnRegister is still constructing the process
					// reports the zero pid: owner unknown
					ops[i].out.Who = -4
					zeroPidUnreg.Add(1)
				}
				for _, h := range pt.claimers {
					if h.pid.ID == ops[i].pidID && h.pid.Creation == ops[i].pidCreation {
						ops[i].out.Who = h.idx
					}
				}
			}
		}
		for i := range ops {
			if ops[i].pingID == 0 {
				continue
			}
			if who, ok := recv[ops[i].pingID]; ok {
				ops[i].out.Who = who
			} else {
				ops[i].drop = true // accepted into a mailbox, never handled: the receiver terminated first
				ops[i].out.Res = "noinfo"
			}
		}
		for i := range ops {
			if strings.HasPrefix(ops[i].out.Res, "other:") {
				r.fail("registry-unexpected-error", "%s returned %s", descOp(ops[i].in, ops[i].out), ops[i].out.Err)
			}
		}
		markRaces(ops)
		c, ct := overlappingClaims(ops)
		nClaims += c
		nClaimTerm += ct
		events += int64(len(ops))
		// a claimer whose closure panicked inside the framework: an observation of its own; the
		// history is not checked then (the process died without a terminate operation)
		panicked := false
		for _, h := range pt.claimers {
			if h.panicked != "" {
				panicked = true
				first := strings.SplitN(h.panicked, "\n", 2)[0]
				sig := "registry-call-panics-in-process"
				if strings.Contains(h.panicked, "(*process).UnregisterName") && strings.Contains(h.panicked, "nil pointer") {
					sig = "process-name-torn-read-panics"
				}
				r.fail(sig, "claimer #%d %s: a registry call made by the process itself panicked inside the framework (%s) while other goroutines used Node.RegisterName/UnregisterName for it; the process terminated with reason %v", h.idx, h.pid, first, h.reason)
				illegal = append(illegal, map[string]any{"name": pt.name, "panic": h.panicked})
			}
		}
		if r.incon == "" && !panicked {
			sig, to := decide(ops, false)
			if to {
				r.inconclusive("porcupine: timeout on partition %d (%d operations)", pi, len(ops))
			} else if sig != "" {
				r.fail(sig, "the history of name %q (%d operations by %d clients over %d claimers) has no linearization against owner∈{none,pid} with claims only by live processes", pt.name, len(ops), workers+1, len(pt.claimers))
				illegal = append(illegal, map[string]any{"name": pt.name, "first_unexplained": firstUnexplained(ops), "history": fmtHistory(ops), "raw": rawHistory(ops), "claimers": descClaimers(pt.claimers)})
			}
		}
		hist[pi] = ops
	}
	for _, pt := range parts {
		for _, h := range pt.claimers {
			if !h.isDead() {
				node.Kill(h.pid)
			}
		}
	}
	for _, h := range resolvers {
		node.Kill(h.pid)
	}
	for _, pt := range parts {
		for _, h := range pt.claimers {
			if !waitDead(h) {
				r.inconclusive("watchdog: claimer did not terminate")
			}
		}
	}
	detail := map[string]any{"partitions": nParts, "workers": workers, "ops_per_worker": per, "initial_claimers": initial, "stress_inside_registername": insideToo, "overlapping_claim_pairs": nClaims, "claim_overlapping_termination_pairs": nClaimTerm}
	if len(illegal) > 0 {
		detail["not_linearizable"] = illegal
	} else if k < 2 && len(hist) > 0 {
		sampleOnce("name-history", 1, map[string]any{"id": id, "history_head": head(fmtHistory(hist[0]), 25)})
	}
	key := fmt.Sprintf("L/parts=%d/workers=%d/claimers=%d/inside=%v/claimXclaim=%v/claimXterm=%v", nParts, workers, initial, insideToo, nClaims >= 1, nClaimTerm >= 1)
	finish(id, "name-linearizability", key, nClaims >= 1, events, r, detail)
}

func head(s []string, n int) []string {
	if len(s) > n {
		return s[:n]
	}
	return s
}

// ---------------------------------------------------------------------------
// events

type tokBox struct {
	mu   sync.Mutex
	toks []gen.Ref
}

func (t *tokBox) add(r gen.Ref) {
	t.mu.Lock()
	t.toks = append(t.toks, r)
	t.mu.Unlock()
}
func (t *tokBox) pick(rng *rand.Rand) (gen.Ref, bool) {
	t.mu.Lock()
	defer t.mu.Unlock()
	if len(t.toks) == 0 {
		return gen.Ref{}, false
	}
	// recent tokens are the interesting ones
	n := len(t.toks)
	i := n - 1 - rng.Intn(min(n, 3))
	return t.toks[i], true
}

func min(a, b int) int {
	if a < b {
		return a
	}
	return b
}

func eventWorker(lc *linCase, pt *partition, tb *tokBox, client int, rng *rand.Rand, n int) []recOp {
	var ops []recOp
	rec := func(o recOp) {
		o.client = client
		ops = append(ops, o)
		opsObserved.Add(1)
	}
	for k := 0; k < n; k++ {
		total, alive := pt.count()
		x := rng.Intn(100)
		switch {
		case x < 25: // Process.RegisterEvent
			h := pt.pick(rng)
			o := recOp{in: nIn{Op: "ev-reg", Via: "self", Who: h.idx}}
			var tok gen.Ref
			var err error
			o.call = hk.Tick()
			ran, werr := inProc(h, func(p *actors.Probe) error { tok, err = p.RegisterEvent(pt.name, gen.EventOptions{}); return nil })
			o.ret = hk.Tick()
			if werr != nil {
				lc.stalled("watchdog: RegisterEvent command not answered")
				return ops
			}
			o.out = nOut{Res: classify(err), Who: h.idx, Tok: tok, Err: errStr(err)}
			o.drop = !ran
			if ran && err == nil {
				tb.add(tok)
			}
			rec(o)
		case x < 33: // Node.RegisterEvent
			o := recOp{in: nIn{Op: "ev-reg", Via: "node", Who: -2}}
			o.call = hk.Tick()
			tok, err := node.RegisterEvent(pt.name, gen.EventOptions{})
			o.ret = hk.Tick()
			o.out = nOut{Res: classify(err), Who: -2, Tok: tok, Err: errStr(err)}
			if err == nil {
				tb.add(tok)
			}
			rec(o)
		case x < 48: // Process.UnregisterEvent
			h := pt.pick(rng)
			o := recOp{in: nIn{Op: "ev-unreg", Via: "self", Who: h.idx}}
			var err error
			o.call = hk.Tick()
			ran, werr := inProc(h, func(p *actors.Probe) error { err = p.UnregisterEvent(pt.name); return nil })
			o.ret = hk.Tick()
			if werr != nil {
				lc.stalled("watchdog: UnregisterEvent command not answered")
				return ops
			}
			o.out = nOut{Res: classify(err), Who: h.idx, Err: errStr(err)}
			o.drop = !ran
			rec(o)
		case x < 55: // Node.UnregisterEvent
			o := recOp{in: nIn{Op: "ev-unreg", Via: "node", Who: -2}}
			o.call = hk.Tick()
			err := node.UnregisterEvent(pt.name)
			o.ret = hk.Tick()
			o.out = nOut{Res: classify(err), Who: -2, Err: errStr(err)}
			rec(o)
		case x < 65: // terminate
			if alive <= 1 && total < maxClaimers {
				if h, err := spawnProc(fmt.Sprintf("%s/r%d.%d", pt.label, client, k)); err == nil {
					pt.add(h)
				}
				continue
			}
			h := pt.pick(rng)
			cause := []string{"kill", "exit", "stop"}[rng.Intn(3)]
			o := recOp{in: nIn{Op: "term", Via: cause, Who: h.idx}}
			o.call = hk.Tick()
			ok := termOp(h, cause)
			o.ret = hk.Tick()
			if !ok {
				lc.stalled("watchdog: claimer did not terminate")
				return ops
			}
			o.out = nOut{Res: "ok", Who: h.idx}
			rec(o)
		default: // publish with a token
			tok, ok := tb.pick(rng)
			if !ok {
				continue
			}
			o := recOp{in: nIn{Op: "ev-pub", Via: "node", Who: -1, Tok: tok}}
			o.call = hk.Tick()
			err := node.SendEvent(pt.name, tok, gen.MessageOptions{}, k)
			o.ret = hk.Tick()
			o.out = nOut{Res: classify(err), Who: -1, Err: errStr(err)}
			rec(o)
		}
	}
	return ops
}

func runEventLin(k int) {
	id := fmt.Sprintf("E/%d", k)
	if !hk.Want(id) {
		return
	}
	beginCase()
	rng := hk.Rng("c06", id)
	r := &result{}
	lc := &linCase{id: id}
	workers := 3 + rng.Intn(4)
	per := 8 + rng.Intn(14)
	initial := 2 + rng.Intn(3)
	hk.Stress(id, stressPoints, time.Duration(20+rng.Intn(200))*time.Microsecond)
	defer hk.StressOff()
	pt := &partition{name: uniq("c06evlin"), label: id}
	for c := 0; c < initial; c++ {
		h, err := spawnProc(fmt.Sprintf("%s/c%d", id, c))
		if err != nil {
			r.inconclusive("spawn: %v", err)
			finish(id, "event-linearizability", id, false, 0, r, nil)
			return
		}
		pt.add(h)
	}
	tb := &tokBox{}
	var ops []recOp
	var mu sync.Mutex
	var wg sync.WaitGroup
	for w := 0; w < workers; w++ {
		wg.Add(1)
		go func(w int) {
			defer wg.Done()
			o := eventWorker(lc, pt, tb, w, hk.Rng("c06", id, fmt.Sprint(w)), per)
			mu.Lock()
			ops = append(ops, o...)
			mu.Unlock()
		}(w)
	}
	wg.Wait()
	hk.StressOff()
	if lc.stall != "" {
		r.inconclusive("%s", lc.stall)
	}
	if !settle(pt.claimers) {
		r.inconclusive("watchdog: no quiescence")
	}
	// closing: terminate every claimer, release the node's registration, then the name must be free
	for _, h := range pt.claimers {
		o := recOp{in: nIn{Op: "term", Via: "kill", Who: h.idx}, client: workers}
		o.call = hk.Tick()
		ok := termOp(h, "kill")
		o.ret = hk.Tick()
		o.out = nOut{Res: "ok", Who: h.idx}
		if !ok {
			r.inconclusive("watchdog: claimer did not terminate")
		}
		ops = append(ops, o)
	}
	{
		o := recOp{in: nIn{Op: "ev-unreg", Via: "node", Who: -2}, client: workers}
		o.call = hk.Tick()
		err := node.UnregisterEvent(pt.name)
		o.ret = hk.Tick()
		o.out = nOut{Res: classify(err), Who: -2, Err: errStr(err)}
		ops = append(ops, o)
		o = recOp{in: nIn{Op: "ev-reg", Via: "node", Who: -2}, client: workers}
		o.call = hk.Tick()
		tok, err := node.RegisterEvent(pt.name, gen.EventOptions{})
		o.ret = hk.Tick()
		o.out = nOut{Res: classify(err), Who: -2, Tok: tok, Err: errStr(err)}
		ops = append(ops, o)
		node.UnregisterEvent(pt.name)
		opsObserved.Add(2)
	}
	for i := range ops {
		if strings.HasPrefix(ops[i].out.Res, "other:") {
			r.fail("registry-unexpected-error", "%s returned %s", descOp(ops[i].in, ops[i].out), ops[i].out.Err)
		}
	}
	var detail = map[string]any{"workers": workers, "ops_per_worker": per, "initial_claimers": initial}
	markRaces(ops)
	c, ct := overlappingClaims(ops)
	if r.incon == "" {
		sig, to := decide(ops, true)
		if to {
			r.inconclusive("porcupine: timeout (%d operations)", len(ops))
		} else if sig != "" {
			r.fail(sig, "the history of event %q (%d operations by %d clients over %d claimers) has no linearization against owner∈{none,(pid,token)}", pt.name, len(ops), workers+1, len(pt.claimers))
			detail["history"] = fmtHistory(ops)
			detail["first_unexplained"] = firstUnexplained(ops)
			detail["raw"] = rawHistory(ops)
		}
	}
	for _, h := range pt.claimers {
		if !waitDead(h) {
			r.inconclusive("watchdog: claimer did not terminate")
		}
	}
	detail["overlapping_claim_pairs"] = c
	detail["claim_overlapping_termination_pairs"] = ct
	if k == 0 {
		sampleOnce("event-history", 1, map[string]any{"id": id, "history_head": head(fmtHistory(ops), 25)})
	}
	key := fmt.Sprintf("E/workers=%d/claimers=%d/claimXclaim=%v/claimXterm=%v", workers, initial, c >= 1, ct >= 1)
	finish(id, "event-linearizability", key, c >= 1, int64(len(ops)), r, detail)
}
