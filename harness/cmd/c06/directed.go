package main

// (a) directed: n claimers released together on one name / event name: exactly
// one wins; gate-directed races of RegisterName / UnregisterName / SpawnMeta
// against termination.

import (
	"fmt"
	"runtime"
	"strings"
	"sync"
	"sync/atomic"
	"time"

	"ergo.services/ergo/gen"

	"verif/harness/actors"
	"verif/harness/hk"
)

type claimRes struct {
	call, ret int64
	err       error
	h         *handle
	ran       bool
}

func overlapping(rs []claimRes) int {
	n := 0
	for i := range rs {
		for j := i + 1; j < len(rs); j++ {
			if rs[i].call < rs[j].ret && rs[j].call < rs[i].ret {
				n++
			}
		}
	}
	return n
}

// claimOnce performs one claim of kind for handle h (nil for spawn)
func claimOnce(kind string, name gen.Atom, h *handle, label string) claimRes {
	var c claimRes
	c.h = h
	c.ran = true
	switch kind {
	case "node":
		c.call = hk.Tick()
		c.err = node.RegisterName(name, h.pid)
		c.ret = hk.Tick()
	case "self":
		c.call = hk.Tick()
		ran, werr := inProc(h, func(p *actors.Probe) error { c.err = p.RegisterName(name); return nil })
		c.ret = hk.Tick()
		c.ran = ran && werr == nil
	case "spawn":
		f, nh := newProc(label)
		c.call = hk.Tick()
		nh.pid, c.err = node.SpawnRegister(name, f, gen.ProcessOptions{})
		c.ret = hk.Tick()
		c.h = nh
	}
	return c
}

func runWinner(kind string, n, round int) {
	id := fmt.Sprintf("W/%s/%d/%d", kind, n, round)
	if !hk.Want(id) {
		return
	}
	beginCase()
	r := &result{}
	rng := hk.Rng("c06", id)
	name := uniq("c06win")
	kinds := make([]string, n)
	hs := make([]*handle, n)
	for i := range kinds {
		kinds[i] = kind
		if kind == "mixed" {
			kinds[i] = []string{"node", "self", "spawn"}[rng.Intn(3)]
		}
		if kinds[i] != "spawn" {
			h, err := spawnProc(fmt.Sprintf("%s/c%d", id, i))
			if err != nil {
				r.inconclusive("spawn: %v", err)
				finish(id, "one-winner", id, false, 0, r, nil)
				return
			}
			hs[i] = h
		}
	}
	gated := 0
	for _, k := range kinds {
		if k != "spawn" {
			gated++
		}
	}
	// line the claimers up right before the flag CAS / table insert: every claimer spins at the
	// yield point inside RegisterName until all have arrived (bounded; only tightens the race)
	start := make(chan struct{})
	var arrived atomic.Int32
	var cancel func()
	lineUp := func() {
		arrived.Add(1)
		deadline := time.Now().Add(3 * time.Millisecond)
		for i := 0; int(arrived.Load()) < n; i++ {
			if i%256 == 255 && time.Now().After(deadline) {
				return
			}
		}
	}
	if gated > 0 {
		cancel = hk.Observe("node.regname.alive", nil, func(string, any) { lineUp() })
	}
	res := make([]claimRes, n)
	var wg sync.WaitGroup
	for i := 0; i < n; i++ {
		wg.Add(1)
		go func(i int) {
			defer wg.Done()
			<-start
			if kinds[i] == "spawn" {
				lineUp() // no yield point in spawn: approach the same moment from outside
			}
			res[i] = claimOnce(kinds[i], name, hs[i], fmt.Sprintf("%s/s%d", id, i))
		}(i)
	}
	close(start)
	wg.Wait()
	if cancel != nil {
		cancel()
	}
	opsObserved.Add(int64(n))
	var winners, losers []claimRes
	for i, c := range res {
		switch {
		case !c.ran:
			r.inconclusive("claimer %d did not run", i)
		case c.err == nil:
			winners = append(winners, c)
		case c.err == gen.ErrTaken:
			losers = append(losers, c)
		default:
			r.fail("claim-unexpected-error", "claimer %d (%s) of free name %q got %v, want nil or ErrTaken", i, kinds[i], name, c.err)
		}
	}
	switch {
	case len(winners) > 1:
		var w []string
		for _, c := range winners {
			w = append(w, c.h.pid.String())
		}
		r.fail("two-claimers-win", "%d concurrent claimers of name %q (%v) succeeded: %v", len(winners), name, kinds, w)
	case len(winners) == 0 && r.incon == "":
		r.fail("no-claimer-wins", "none of %d concurrent claimers of the free name %q (%v) succeeded", n, name, kinds)
	}
	if len(winners) == 1 && r.incon == "" {
		w := winners[0]
		if ok, serr, inc := resolvesTo(name, w.h); inc {
			r.inconclusive("watchdog: ping to name not delivered")
		} else if !ok {
			r.fail("name-misresolves", "name %q claimed by %s does not reach it (send error %v)", name, w.h.pid, serr)
		}
		// release, then a loser must be able to claim
		pid, err := node.UnregisterName(name)
		opsObserved.Add(2)
		if err != nil || pid != w.h.pid {
			r.fail("unregister-wrong-owner", "UnregisterName(%q) = %v, %v; owner is %s", name, pid, err, w.h.pid)
		}
		k2 := kinds[0]
		var lh *handle
		for i, c := range res {
			if c.err == gen.ErrTaken && kinds[i] != "spawn" {
				k2, lh = kinds[i], c.h
				break
			}
		}
		if lh == nil {
			k2 = "spawn"
		}
		c := claimOnce(k2, name, lh, id+"/again")
		if c.ran && c.err != nil {
			r.fail("loser-cannot-claim-freed-name", "after UnregisterName(%q) a claimer that had lost the race (%s) gets %v", name, k2, c.err)
		}
		if c.h != nil && c.h != lh {
			hs = append(hs, c.h)
		}
	}
	for _, c := range res {
		if c.h != nil && c.err == nil {
			hs = append(hs, c.h)
		}
	}
	seen := map[*handle]bool{}
	for _, h := range hs {
		if h == nil || seen[h] || h.pid == (gen.PID{}) {
			continue
		}
		seen[h] = true
		node.Kill(h.pid)
	}
	for h := range seen {
		if !waitDead(h) {
			r.inconclusive("watchdog: claimer did not terminate")
		}
	}
	ov := overlapping(res)
	finish(id, "one-winner", fmt.Sprintf("W/%s/%d/overlap=%v", kind, n, ov > 0), ov > 0, int64(n+3), r, map[string]any{"kinds": kinds, "overlapping_pairs": ov, "winners": len(winners), "losers": len(losers)})
}

// one process, n different names claimed for it at the same moment (lined up at the yield point
// inside RegisterName). Whatever the process was granted: while it lives every granted name
// reaches it, and once it has terminated every granted name is gone and claimable again.
func runOneProcessManyNames(n, round int, withSelf bool, cause string) {
	id := fmt.Sprintf("W1/%d/self=%v/%s/%d", n, withSelf, cause, round)
	if !hk.Want(id) {
		return
	}
	beginCase()
	r := &result{}
	before := snapshot()
	h, err := spawnProc(id)
	if err != nil {
		r.inconclusive("spawn: %v", err)
		finish(id, "one-winner", id, false, 0, r, nil)
		return
	}
	names := make([]gen.Atom, n)
	for i := range names {
		names[i] = uniq("c06multi")
	}
	var arrived atomic.Int32
	cancel := hk.Observe("node.regname.alive", hk.Eq(h.pid), func(string, any) {
		arrived.Add(1)
		deadline := time.Now().Add(3 * time.Millisecond)
		for i := 0; int(arrived.Load()) < n; i++ {
			if i%256 == 255 && time.Now().After(deadline) {
				return
			}
		}
	})
	res := make([]claimRes, n)
	start := make(chan struct{})
	var wg sync.WaitGroup
	for i := 0; i < n; i++ {
		wg.Add(1)
		go func(i int) {
			defer wg.Done()
			<-start
			kind := "node"
			if withSelf && i == 0 {
				kind = "self" // the process claims a name itself while others claim for it
			}
			res[i] = claimOnce(kind, names[i], h, "")
		}(i)
	}
	close(start)
	wg.Wait()
	cancel()
	opsObserved.Add(int64(n))
	var granted []gen.Atom
	for i, c := range res {
		switch {
		case !c.ran:
			r.inconclusive("claimer %d did not run", i)
		case c.err == nil:
			granted = append(granted, names[i])
		case c.err != gen.ErrTaken:
			r.fail("claim-unexpected-error", "RegisterName(%q) for live %s got %v, want nil or ErrTaken", names[i], h.pid, c.err)
		}
	}
	if len(granted) == 0 && r.incon == "" {
		r.fail("no-claimer-wins", "none of %d concurrent RegisterName calls with different free names for the unnamed live process %s succeeded", n, h.pid)
	}
	// while alive: every granted name reaches the process
	for _, nm := range granted {
		if ok, serr, inc := resolvesTo(nm, h); inc {
			r.inconclusive("watchdog: ping to name not delivered")
		} else if !ok {
			r.fail("name-misresolves", "name %q granted to live %s does not reach it (send error %v)", nm, h.pid, serr)
		}
	}
	terminate(h, cause, r)
	if r.incon == "" {
		for _, nm := range granted {
			opsObserved.Add(2)
			serr := node.Send(nm, ping{})
			c, _ := spawnProc(id + "/reclaimer")
			cerr := node.RegisterName(nm, c.pid)
			if serr != gen.ErrProcessUnknown || cerr != nil {
				r.fail("granted-name-survives-termination", "%s was granted %d names %v by concurrent RegisterName calls; after it terminated (%s) name %q is still registered: send %v (want ErrProcessUnknown), RegisterName for a fresh process %v (want nil)", h.pid, len(granted), granted, cause, nm, serr, cerr)
			}
			node.Kill(c.pid)
			if !waitDead(c) {
				r.inconclusive("watchdog: reclaimer did not terminate")
			}
		}
		if after := snapshot(); after != before && len(r.viol) == 0 {
			r.fail("counter-leak", "node counters after the case %+v differ from before %+v (processes, names, aliases, events)", after, before)
		}
	}
	ov := overlapping(res)
	finish(id, "one-winner", fmt.Sprintf("W1/%d/self=%v/%s/overlap=%v", n, withSelf, cause, ov > 0), ov > 0, int64(n+2*len(granted)+2), r, map[string]any{"names": names, "granted": granted, "overlapping_pairs": ov})
}

// the same for event names
func runEventWinner(n, round int, withNode bool) {
	id := fmt.Sprintf("WE/%d/node=%v/%d", n, withNode, round)
	if !hk.Want(id) {
		return
	}
	beginCase()
	r := &result{}
	ev := uniq("c06evwin")
	hs := make([]*handle, n)
	for i := range hs {
		h, err := spawnProc(fmt.Sprintf("%s/c%d", id, i))
		if err != nil {
			r.inconclusive("spawn: %v", err)
			finish(id, "one-winner", id, false, 0, r, nil)
			return
		}
		hs[i] = h
	}
	total := n
	if withNode {
		total++
	}
	type evRes struct {
		claimRes
		tok gen.Ref
	}
	res := make([]evRes, total)
	start := make(chan struct{})
	var arrived atomic.Int32
	lineUp := func() {
		arrived.Add(1)
		deadline := time.Now().Add(3 * time.Millisecond)
		for i := 0; int(arrived.Load()) < total; i++ {
			if i%256 == 255 && time.Now().After(deadline) {
				return
			}
		}
	}
	var wg sync.WaitGroup
	for i := 0; i < total; i++ {
		wg.Add(1)
		go func(i int) {
			defer wg.Done()
			c := &res[i]
			c.ran = true
			if i == n {
				<-start
				lineUp()
				c.call = hk.Tick()
				c.tok, c.err = node.RegisterEvent(ev, gen.EventOptions{})
				c.ret = hk.Tick()
				return
			}
			c.h = hs[i]
			ran, werr := inProc(hs[i], func(p *actors.Probe) error {
				<-start
				lineUp()
				c.call = hk.Tick()
				c.tok, c.err = p.RegisterEvent(ev, gen.EventOptions{})
				c.ret = hk.Tick()
				return nil
			})
			c.ran = ran && werr == nil
		}(i)
	}
	// every claimer process sits in its handler waiting for start
	hk.WaitUntil(5*time.Second, func() bool {
		for _, h := range hs {
			if !h.inst.InCallback() {
				return false
			}
		}
		return true
	})
	close(start)
	wg.Wait()
	opsObserved.Add(int64(total))
	win := -1
	wins := 0
	for i, c := range res {
		switch {
		case !c.ran:
			r.inconclusive("claimer %d did not run", i)
		case c.err == nil:
			wins++
			win = i
		case c.err != gen.ErrTaken:
			r.fail("claim-unexpected-error", "claimer %d of free event %q got %v, want nil or ErrTaken", i, ev, c.err)
		}
	}
	if wins > 1 {
		r.fail("two-claimers-win", "%d concurrent RegisterEvent(%q) calls succeeded", wins, ev)
	} else if wins == 0 && r.incon == "" {
		r.fail("no-claimer-wins", "none of %d concurrent RegisterEvent(%q) calls succeeded", total, ev)
	}
	if wins == 1 && r.incon == "" {
		opsObserved.Add(3)
		if err := node.SendEvent(ev, res[win].tok, gen.MessageOptions{}, "x"); err != nil {
			r.fail("event-token-rejected", "SendEvent(%q) with the winner's token: %v", ev, err)
		}
		// release by the owner, then a loser claims
		var uerr error
		if win == n {
			uerr = node.UnregisterEvent(ev)
		} else {
			inProc(hs[win], func(p *actors.Probe) error { uerr = p.UnregisterEvent(ev); return nil })
		}
		if uerr != nil {
			r.fail("unregister-wrong-owner", "UnregisterEvent(%q) by its owner: %v", ev, uerr)
		}
		l := (win + 1) % n
		var cerr error
		ran, _ := inProc(hs[l], func(p *actors.Probe) error { _, cerr = p.RegisterEvent(ev, gen.EventOptions{}); return nil })
		if ran && cerr != nil {
			r.fail("loser-cannot-claim-freed-name", "after UnregisterEvent(%q) a claimer that had lost the race gets %v", ev, cerr)
		}
		if err := node.SendEvent(ev, res[win].tok, gen.MessageOptions{}, "x"); err == nil {
			r.fail("stale-token-accepted", "SendEvent(%q) with the token of the previous registration succeeds after re-registration by another process", ev)
		}
	} else if wins > 0 && win == n {
		node.UnregisterEvent(ev)
	}
	for _, h := range hs {
		node.Kill(h.pid)
	}
	for _, h := range hs {
		if !waitDead(h) {
			r.inconclusive("watchdog: claimer did not terminate")
		}
	}
	opsObserved.Add(1)
	if _, err := node.RegisterEvent(ev, gen.EventOptions{}); err != nil {
		if r.incon == "" {
			r.fail("event-not-claimable-after-termination", "RegisterEvent(%q) after every claimer terminated: %v", ev, err)
		}
	} else {
		node.UnregisterEvent(ev)
	}
	cr := make([]claimRes, len(res))
	for i := range res {
		cr[i] = res[i].claimRes
	}
	ov := overlapping(cr)
	finish(id, "one-winner", fmt.Sprintf("WE/%d/node=%v/overlap=%v", n, withNode, ov > 0), ov > 0, int64(total+5), r, map[string]any{"claimers": total, "overlapping_pairs": ov, "winners": wins})
}

// ---------------------------------------------------------------------------
// Node.RegisterName(name, pid) parked at a yield point while pid terminates

func runRegVsTerm(point, cause string) {
	id := fmt.Sprintf("D/%s/%s", point, cause)
	if !hk.Want(id) {
		return
	}
	beginCase()
	r := &result{}
	before := snapshot()
	name := uniq("c06race")
	p, err := spawnProc(id)
	if err != nil {
		r.inconclusive("spawn: %v", err)
		finish(id, "directed", id, false, 0, r, nil)
		return
	}
	g := hk.Park(point, hk.Eq(p.pid), false).SetMaxWait(2 * wd())
	res := make(chan error, 1)
	go func() { res <- node.RegisterName(name, p.pid) }()
	fired := g.WaitArrived(5 * time.Second)
	if !fired {
		r.inconclusive("gate: %s never reached", point)
	}
	terminate(p, cause, r)
	g.Release()
	var rerr error
	select {
	case rerr = <-res:
	case <-time.After(wd()):
		r.inconclusive("watchdog: RegisterName did not return")
	}
	if g.TimedOut() {
		r.inconclusive("gate: released by deadline")
	}
	opsObserved.Add(4)
	bound := ""
	if r.incon == "" {
		// p has terminated (Terminate callback over, pid unknown): its name must be gone and claimable
		serr := node.Send(name, ping{})
		c, _ := spawnProc(id + "/reclaimer")
		cerr := node.RegisterName(name, c.pid)
		if serr != gen.ErrProcessUnknown || cerr != nil {
			bound = fmt.Sprintf("send to the name: %v (want ErrProcessUnknown), RegisterName for a fresh process: %v (want nil)", serr, cerr)
			r.fail("registername-vs-terminate", "Node.RegisterName(%q, %s) reached %s, then %s terminated completely (%s), then RegisterName returned %v: the name stays bound to the dead process: %s", name, p.pid, point, p.pid, cause, rerr, bound)
		}
		node.Kill(c.pid)
		waitDead(c)
		if after := snapshot(); after != before {
			r.fail("registername-vs-terminate", "node counters after the case %+v differ from before %+v (processes, names, aliases, events)", after, before)
		}
	}
	finish(id, "directed", id, fired, 5, r, map[string]any{"point": point, "cause": cause, "registername_result": fmt.Sprint(rerr), "pid": p.pid.String(), "name": name, "observed": bound})
}

// Node.UnregisterName(name) parked after the table delete while a new owner
// claims the name and the old owner terminates
func runUnregVsTerm(cause string) {
	id := fmt.Sprintf("D/node.unregname.deleted/%s", cause)
	if !hk.Want(id) {
		return
	}
	beginCase()
	r := &result{}
	name := uniq("c06race")
	p, err1 := spawnProc(id + "/old")
	q, err2 := spawnProc(id + "/new")
	if err1 != nil || err2 != nil {
		r.inconclusive("spawn: %v %v", err1, err2)
		finish(id, "directed", id, false, 0, r, nil)
		return
	}
	if err := node.RegisterName(name, p.pid); err != nil {
		r.inconclusive("setup: %v", err)
	}
	g := hk.Park("node.unregname.deleted", hk.Eq(p.pid), false).SetMaxWait(2 * wd())
	type ur struct {
		pid gen.PID
		err error
	}
	res := make(chan ur, 1)
	go func() { pid, err := node.UnregisterName(name); res <- ur{pid, err} }()
	fired := g.WaitArrived(5 * time.Second)
	if !fired {
		r.inconclusive("gate: node.unregname.deleted never reached")
	}
	qerr := node.RegisterName(name, q.pid)
	terminate(p, cause, r)
	g.Release()
	var u ur
	select {
	case u = <-res:
	case <-time.After(wd()):
		r.inconclusive("watchdog: UnregisterName did not return")
	}
	if g.TimedOut() {
		r.inconclusive("gate: released by deadline")
	}
	opsObserved.Add(4)
	if r.incon == "" && qerr == nil {
		// q is alive, its RegisterName succeeded after the unregistration of p had
		// removed the entry, nothing unregistered q: the name must reach q
		if ok, serr, inc := resolvesTo(name, q); inc {
			r.inconclusive("watchdog: ping to name not delivered")
		} else if !ok {
			r.fail("unregistername-vs-terminate-drops-new-owner", "UnregisterName(%q) (owner %s) was between the table delete and the reset of the owner's registered flag; RegisterName(%q, %s) succeeded; %s terminated (%s) and its unregisterProcess deleted the entry of the NEW owner: the name of live %s does not resolve (send error %v)", name, p.pid, name, q.pid, p.pid, cause, q.pid, serr)
		}
	}
	node.Kill(q.pid)
	waitDead(q)
	finish(id, "directed", id, fired && qerr == nil, 5, r, map[string]any{"cause": cause, "unregister_result": fmt.Sprintf("%v %v", u.pid, u.err), "register_new_owner": fmt.Sprint(qerr)})
}

// ---------------------------------------------------------------------------
// a meta-process spawning another meta-process while the parent terminates

type slowInitMeta struct {
	gen.MetaProcess
	entered chan struct{}
	release chan struct{}
	started chan struct{}
	stop    chan struct{}
	term    chan struct{}
}

func (m *slowInitMeta) Init(p gen.MetaProcess) error {
	m.MetaProcess = p
	close(m.entered)
	<-m.release
	return nil
}
func (m *slowInitMeta) Start() error {
	close(m.started)
	<-m.stop
	return nil
}
func (m *slowInitMeta) HandleMessage(from gen.PID, message any) error { return nil }
func (m *slowInitMeta) HandleCall(from gen.PID, ref gen.Ref, request any) (any, error) {
	return nil, nil
}
func (m *slowInitMeta) Terminate(reason error) { close(m.term) }
func (m *slowInitMeta) HandleInspect(from gen.PID, item ...string) map[string]string {
	return nil
}

func runSpawnMetaVsTerm(cause string) {
	id := fmt.Sprintf("D/spawnmeta-init/%s", cause)
	if !hk.Want(id) {
		return
	}
	beginCase()
	r := &result{}
	before := snapshot()
	p, err := spawnProc(id)
	if err != nil {
		r.inconclusive("spawn: %v", err)
		finish(id, "directed", id, false, 0, r, nil)
		return
	}
	m2 := &slowInitMeta{entered: make(chan struct{}), release: make(chan struct{}), started: make(chan struct{}), stop: make(chan struct{}), term: make(chan struct{})}
	goSpawn := make(chan struct{})
	type sr struct {
		a   gen.Alias
		err error
	}
	res := make(chan sr, 1)
	m1 := actors.NewMeta(id+"/m1", &actors.MetaHooks{Start: func(m *actors.Meta) error {
		<-goSpawn
		a, err := m.Spawn(m2, gen.MetaOptions{}) // what an acceptor meta-process does per connection
		res <- sr{a, err}
		<-m.Stop
		return nil
	}})
	var serr error
	inProc(p, func(pp *actors.Probe) error { _, serr = pp.SpawnMeta(m1, gen.MetaOptions{}); return nil })
	if serr != nil {
		r.inconclusive("setup: SpawnMeta: %v", serr)
	}
	close(goSpawn)
	fired := false
	select {
	case <-m2.entered:
		fired = true
	case <-time.After(5 * time.Second):
		r.inconclusive("gate: Init of the second meta-process never entered")
	}
	terminate(p, cause, r)
	close(m2.release)
	var s sr
	select {
	case s = <-res:
	case <-time.After(wd()):
		r.inconclusive("watchdog: MetaProcess.Spawn did not return")
	}
	opsObserved.Add(3)
	if r.incon == "" && s.err == nil {
		// parent is gone; decide from a stable state: the new meta-process either terminated
		// or sleeps with an empty mailbox and no handler goroutine (nobody will ever stop it)
		terminated := func() bool {
			select {
			case <-m2.term:
				return true
			default:
				return false
			}
		}
		stable := func() bool {
			select {
			case <-m2.started:
			default:
				return false
			}
			mi, err := node.MetaInfo(s.a)
			return err == nil && mi.MailboxQueues.Main+mi.MailboxQueues.System == 0 && hk.LiveRunners(s.a) == 0 && mi.State == gen.MetaStateSleep
		}
		if !hk.WaitUntil(wd(), func() bool { return terminated() || stable() }) {
			r.inconclusive("watchdog: second meta-process neither terminated nor settled")
		} else if !terminated() {
			after := snapshot()
			r.fail("spawnmeta-vs-terminate-orphan-meta", "MetaProcess.Spawn was inside the new meta-process's Init when the parent %s terminated completely (%s); Spawn then returned %v, nil: meta-process %v of a dead parent is registered (RegisteredAliases %d, before the case %d), sleeps with an empty mailbox and is never stopped", p.pid, cause, s.a, s.a, after.Aliases, before.Aliases)
		}
	}
	close(m2.stop)
	close(m1.Stop)
	finish(id, "directed", id, fired, 4, r, map[string]any{"cause": cause, "spawn_result": fmt.Sprintf("%v %v", s.a, s.err)})
}

// senders by name spinning while the name is spawn-registered and killed over and over
func runSendVsSpawn() {
	id := "D/send-vs-spawnregister"
	if !hk.Want(id) {
		return
	}
	beginCase()
	r := &result{}
	lc := &linCase{id: id}
	iters := hk.Pick(1500, 40000)
	name := uniq("c06spawnsend")
	var stop atomic.Bool
	var okN, unknownN, deadN, panicN atomic.Int64
	var wg sync.WaitGroup
	for sdr := 0; sdr < 4; sdr++ {
		wg.Add(1)
		go func() {
			defer wg.Done()
			for !stop.Load() {
				switch safeSend(lc, name, ping{}) {
				case nil:
					okN.Add(1)
				case gen.ErrProcessUnknown:
					unknownN.Add(1)
				case errPanicked:
					panicN.Add(1)
				default:
					deadN.Add(1)
				}
			}
		}()
	}
	spawned := 0
	for i := 0; i < iters; i++ {
		f, h := newProc(id)
		pid, err := node.SpawnRegister(name, f, gen.ProcessOptions{})
		if err != nil {
			continue // the previous owner is still being torn down
		}
		h.pid = pid
		spawned++
		node.Kill(pid)
		if !waitDead(h) {
			r.inconclusive("watchdog: process did not terminate")
			break
		}
	}
	stop.Store(true)
	wg.Wait()
	total := okN.Load() + unknownN.Load() + deadN.Load() + panicN.Load()
	opsObserved.Add(total)
	if panicN.Load() > 0 {
		r.fail("send-to-name-during-spawn-nil-mailbox", "%d of %d Node.Send(%q) calls panicked inside the framework while SpawnRegister(%q) was in progress: the name is published before the process has a mailbox (%s)", panicN.Load(), total, name, name, strings.SplitN(lc.panics[0], "\n", 2)[0])
	}
	finish(id, "directed", id, okN.Load() > 0 && unknownN.Load() > 0, total, r, map[string]any{"spawns": spawned, "sends_delivered": okN.Load(), "sends_unknown": unknownN.Load(), "sends_terminated": deadN.Load(), "sends_panicked": panicN.Load(), "panic": lc.panics})
}

// Node.RegisterName/UnregisterName from outside while the process uses its own name API:
// p.name is a plain string written by the one and read by the other
func runNameFieldRace() {
	id := "D/node-registername-vs-process-unregistername"
	if !hk.Want(id) {
		return
	}
	beginCase()
	r := &result{}
	iters := hk.Pick(20000000, 100000000)
	name := uniq("c06namefield_longer_than_empty")
	h, err := spawnProc(id)
	if err != nil {
		r.inconclusive("spawn: %v", err)
		finish(id, "directed", id, false, 0, r, nil)
		return
	}
	var stop atomic.Bool
	var outside atomic.Int64
	var wg sync.WaitGroup
	wg.Add(1)
	go func() {
		defer wg.Done()
		for !stop.Load() {
			node.RegisterName(name, h.pid)
			node.UnregisterName(name)
			outside.Add(2)
		}
	}()
	inside := 0
	ran, werr := inProcT(h, func(p *actors.Probe) error {
		// a torn read makes UnregisterName panic, which ends the loop (and the process)
		for i := 0; i < iters; i++ {
			p.UnregisterName()
			inside++
		}
		return nil
	}, 10*time.Minute)
	stop.Store(true)
	wg.Wait()
	opsObserved.Add(int64(inside) + outside.Load())
	if h.isDead() || h.panicked != "" {
		<-h.dead
		first := strings.SplitN(h.panicked, "\n", 2)[0]
		r.fail("process-name-torn-read-panics", "Process.UnregisterName panicked inside the framework (%s) after %d calls while another goroutine was calling Node.RegisterName/UnregisterName for this process (%d calls): process.name is a plain string written by Node.RegisterName/UnregisterName and read by the process without synchronisation; the process terminated with reason %v", first, inside, outside.Load(), h.reason)
	} else if !ran || werr != nil {
		r.inconclusive("watchdog: closure did not finish")
	}
	node.UnregisterName(name)
	node.Kill(h.pid)
	waitDead(h)
	finish(id, "directed", id, inside > 1000 && outside.Load() > 1000, int64(inside)+outside.Load(), r, map[string]any{"process_calls": inside, "node_calls": outside.Load(), "panic": h.panicked})
}

// two concurrent Node.UnregisterEvent of the node's own event while a process registers the
// freed name: the slower unregistration (entry checked, then deleted) removes the process's event
func runUnregisterEventRace() {
	id := "D/unregisterevent-check-then-delete"
	if !hk.Want(id) {
		return
	}
	beginCase()
	r := &result{}
	rounds := hk.Pick(60000, 1500000)
	ev := uniq("c06evtoctou")
	h, err := spawnProc(id)
	if err != nil {
		r.inconclusive("spawn: %v", err)
		finish(id, "directed", id, false, 0, r, nil)
		return
	}
	rng := hk.Rng("c06", id)
	var phase, done atomic.Int64 // phase 2r+1: race, 2r+2: cleanup
	var stop atomic.Bool
	var unregErr [2]error
	var pTok gen.Ref
	var pErr error
	var delay atomic.Int64
	await := func(ph int64) bool {
		for i := 0; phase.Load() < ph; i++ {
			if stop.Load() {
				return false
			}
			if i%1024 == 1023 {
				runtime.Gosched()
			}
		}
		return true
	}
	var wg sync.WaitGroup
	for k := 0; k < 2; k++ {
		wg.Add(1)
		go func(k int) {
			defer wg.Done()
			for rd := int64(0); ; rd++ {
				if !await(2*rd + 1) {
					return
				}
				unregErr[k] = node.UnregisterEvent(ev)
				done.Add(1)
			}
		}(k)
	}
	wg.Add(1)
	go func() {
		defer wg.Done()
		inProcT(h, func(p *actors.Probe) error {
			for rd := int64(0); ; rd++ {
				if !await(2*rd + 1) {
					return nil
				}
				for i := int64(0); i < delay.Load(); i++ {
				}
				pTok, pErr = p.RegisterEvent(ev, gen.EventOptions{})
				done.Add(1)
				if !await(2*rd + 2) {
					return nil
				}
				if pErr == nil {
					p.UnregisterEvent(ev)
				}
				done.Add(1)
			}
		}, 10*time.Minute)
	}()
	hits, bothOK, pWon := 0, 0, 0
	var witness string
	deadline := time.Now().Add(2 * time.Minute)
	rd := int64(0)
	for ; rd < int64(rounds) && hits == 0; rd++ {
		if _, err := node.RegisterEvent(ev, gen.EventOptions{}); err != nil {
			r.inconclusive("setup: RegisterEvent: %v", err)
			break
		}
		delay.Store(int64(rng.Intn(200)))
		done.Store(0)
		phase.Store(2*rd + 1)
		for done.Load() < 3 {
			if time.Now().After(deadline) {
				break
			}
		}
		if done.Load() < 3 {
			r.inconclusive("watchdog: round did not finish")
			break
		}
		if unregErr[0] == nil && unregErr[1] == nil {
			bothOK++
		}
		if pErr == nil {
			pWon++
			// the process is alive, its RegisterEvent succeeded and it has not unregistered: the
			// event must exist and accept the process's token
			if err := node.SendEvent(ev, pTok, gen.MessageOptions{}, "x"); err == gen.ErrEventUnknown {
				hits++
				witness = fmt.Sprintf("round %d: Node.UnregisterEvent x2 returned %v and %v, Process.RegisterEvent returned a token, SendEvent with that token: %v", rd, unregErr[0], unregErr[1], err)
			}
		}
		done.Store(0)
		phase.Store(2*rd + 2)
		for done.Load() < 1 {
			if time.Now().After(deadline) {
				break
			}
		}
		node.UnregisterEvent(ev) // whatever is left of the node's registration
	}
	stop.Store(true)
	wg.Wait()
	opsObserved.Add(rd * 4)
	if hits > 0 {
		r.fail("unregisterevent-check-then-delete-drops-new-owner", "two concurrent Node.UnregisterEvent(%q) both succeeded; the slower one deleted the registration a process had made in between: %s", ev, witness)
	}
	node.Kill(h.pid)
	waitDead(h)
	finish(id, "directed", id, bothOK > 0 && pWon > 0, rd*4, r, map[string]any{"rounds": rd, "both_unregistrations_succeeded": bothOK, "process_registered": pWon, "witness": witness})
}

func runDirected() {
	runUnregisterEventRace()
	runNameFieldRace()
	t0 := time.Now()
	runSendVsSpawn()
	hk.Note("wall_s_send-vs-spawn", time.Since(t0).Seconds())
	for _, point := range []string{"node.regname.alive", "node.regname.stored"} {
		for _, cause := range []string{"kill-sleeping", "exit-signal", "normal", "panic"} {
			runRegVsTerm(point, cause)
		}
	}
	for _, cause := range []string{"kill-sleeping", "exit-signal", "normal"} {
		runUnregVsTerm(cause)
	}
	for _, cause := range []string{"kill-sleeping", "normal"} {
		runSpawnMetaVsTerm(cause)
	}
	rounds := hk.Pick(120, 2500)
	for _, kind := range []string{"node", "self", "spawn", "mixed"} {
		for _, n := range []int{2, 3, 8} {
			for k := 0; k < rounds; k++ {
				runWinner(kind, n, k)
			}
		}
	}
	for _, n := range []int{2, 4} {
		for k := 0; k < rounds; k++ {
			runEventWinner(n, k, k%2 == 0)
		}
	}
	for _, n := range []int{2, 3, 6} {
		for k := 0; k < rounds; k++ {
			runOneProcessManyNames(n, k, k%3 == 0, []string{"kill-sleeping", "normal", "exit-signal", "kill-running"}[k%4])
		}
	}
}
