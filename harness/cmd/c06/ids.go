package main

// (b) identifiers minted by a node are never repeated during its lifetime.
// Oracle: exact duplicate detection over everything minted.

import (
	"fmt"
	"sort"
	"sync"
	"time"

	"ergo.services/ergo/gen"

	"verif/harness/actors"
	"verif/harness/hk"
)

const refPeriodBits = 18

var (
	refPeriodOnce sync.Once
	refPeriod     int // distance (in MakeRef calls) between the first repeated reference and its earlier twin; 0 = none seen
)

// diagnoseRefPeriod mints references sequentially (nothing else runs on the
// node) until one repeats; used only to give repeats a specific signature.
func diagnoseRefPeriod() int {
	refPeriodOnce.Do(func() {
		seen := make(map[gen.Ref]int, 1<<refPeriodBits+16)
		for i := 0; i < 1<<refPeriodBits+16; i++ {
			r := node.MakeRef()
			if j, dup := seen[r]; dup {
				refPeriod = i - j
				return
			}
			seen[r] = i
		}
	})
	return refPeriod
}

func repeatSig(kind string) string {
	if diagnoseRefPeriod() == 1<<refPeriodBits {
		return "makeref-repeat-2^18"
	}
	return kind + "-repeat"
}

// sequential references: position and distance of the first repeat
func runRefSeq() {
	id := "I/ref/seq"
	if !hk.Want(id) {
		return
	}
	beginCase()
	r := &result{}
	n := hk.Pick(1<<refPeriodBits+1000, 1<<22)
	seen := make(map[gen.Ref]int, n)
	repeats := 0
	first, dist := -1, 0
	var w gen.Ref
	for i := 0; i < n; i++ {
		ref := node.MakeRef()
		if j, dup := seen[ref]; dup {
			repeats++
			if first < 0 {
				first, dist, w = i, i-j, ref
			}
			continue
		}
		seen[ref] = i
	}
	opsObserved.Add(int64(n))
	var detail any
	if repeats > 0 {
		sig := "ref-repeat"
		if dist == 1<<refPeriodBits {
			sig = "makeref-repeat-2^18"
		}
		r.fail(sig, "Node.MakeRef: call #%d returned %v again, first returned %d calls earlier; %d of %d references were repeats", first, w, dist, repeats, n)
		detail = map[string]any{"n": n, "first_repeat_at": first, "distance": dist, "ref": fmt.Sprint(w), "repeats": repeats}
	}
	finish(id, "ids", "ref/sequential", n > 1<<refPeriodBits, int64(n), r, detail)
}

type k2 [2]uint64

// concurrent references: 16 minters
func runRefConc() {
	id := "I/ref/conc16"
	if !hk.Want(id) {
		return
	}
	beginCase()
	r := &result{}
	n := hk.Pick(2*(1<<refPeriodBits)+1000, 50_000_000)
	const g = 16
	per := n / g
	parts := make([][]k2, g)
	var odd []gen.Ref // references that do not share Node/Creation/ID[2] with the first one
	var oddMu sync.Mutex
	base := node.MakeRef()
	var wg sync.WaitGroup
	for w := 0; w < g; w++ {
		wg.Add(1)
		go func(w int) {
			defer wg.Done()
			s := make([]k2, 0, per)
			for i := 0; i < per; i++ {
				ref := node.MakeRef()
				if ref.Node != base.Node || ref.Creation != base.Creation || ref.ID[2] != base.ID[2] {
					oddMu.Lock()
					odd = append(odd, ref)
					oddMu.Unlock()
					continue
				}
				s = append(s, k2{ref.ID[0], ref.ID[1]})
			}
			parts[w] = s
		}(w)
	}
	wg.Wait()
	all := make([]k2, 0, per*g)
	for _, p := range parts {
		all = append(all, p...)
	}
	sort.Slice(all, func(i, j int) bool {
		if all[i][0] != all[j][0] {
			return all[i][0] < all[j][0]
		}
		return all[i][1] < all[j][1]
	})
	repeats := 0
	var w k2
	for i := 1; i < len(all); i++ {
		if all[i] == all[i-1] {
			if repeats == 0 {
				w = all[i]
			}
			repeats++
		}
	}
	oddSeen := map[gen.Ref]bool{}
	for _, o := range odd {
		if oddSeen[o] {
			repeats++
		}
		oddSeen[o] = true
	}
	total := per * g
	opsObserved.Add(int64(total))
	var detail any
	if repeats > 0 {
		r.fail(repeatSig("ref"), "Node.MakeRef from %d goroutines: %d of %d references were repeats (e.g. ID[0]=%d ID[1]=%d twice)", g, repeats, total, w[0], w[1])
		detail = map[string]any{"n": total, "goroutines": g, "repeats": repeats, "example_id0": w[0], "example_id1": w[1]}
	}
	finish(id, "ids", "ref/concurrent16", total > 1<<refPeriodBits, int64(total), r, detail)
}

// pids from many spawns (16 spawners), processes killed right away
func runPids() {
	id := "I/pid/conc16"
	if !hk.Want(id) {
		return
	}
	beginCase()
	r := &result{}
	n := hk.Pick(50_000, 2_000_000)
	const g = 16
	per := n / g
	parts := make([][]gen.PID, g)
	lastInst := make([]*actors.Inst, g)
	var wg sync.WaitGroup
	for w := 0; w < g; w++ {
		wg.Add(1)
		go func(w int) {
			defer wg.Done()
			s := make([]gen.PID, 0, per)
			for i := 0; i < per; i++ {
				f, inst := actors.NewRaw("pid", nil)
				var pid gen.PID
				var err error
				if i%8 == 0 {
					// through the name path as well
					pid, err = node.SpawnRegister(gen.Atom(fmt.Sprintf("pidgen_%d_%d", w, i)), f, gen.ProcessOptions{})
				} else {
					pid, err = node.Spawn(f, gen.ProcessOptions{})
				}
				if err != nil {
					continue
				}
				s = append(s, pid)
				lastInst[w] = inst
				node.Kill(pid)
			}
			parts[w] = s
		}(w)
	}
	wg.Wait()
	seen := make(map[gen.PID]bool, n)
	repeats, total := 0, 0
	var w gen.PID
	for _, p := range parts {
		for _, pid := range p {
			total++
			if seen[pid] {
				if repeats == 0 {
					w = pid
				}
				repeats++
			}
			seen[pid] = true
		}
	}
	opsObserved.Add(int64(total))
	if repeats > 0 {
		r.fail("pid-repeat", "%d of %d spawned processes got a pid that had been handed out before (e.g. %s)", repeats, total, w)
	}
	// the last process of every spawner: after its terminate callback the pid must be unknown
	done := hk.WaitUntil(wd(), func() bool {
		for _, i := range lastInst {
			if i != nil && (i.TermCount.Load() == 0 || !i.Quiet()) {
				return false
			}
		}
		return true
	})
	if !done {
		r.inconclusive("watchdog: spawned processes did not terminate")
	} else {
		for _, p := range parts {
			if len(p) == 0 {
				continue
			}
			if _, err := node.ProcessInfo(p[len(p)-1]); err != gen.ErrProcessUnknown {
				r.fail("pid-listed-after-termination", "ProcessInfo(%s) = %v after the process's terminate callback, want ErrProcessUnknown", p[len(p)-1], err)
				break
			}
		}
	}
	finish(id, "ids", "pid/concurrent16", total >= n/2, int64(total), r, map[string]any{"spawns": total, "repeats": repeats})
}

// aliases: create+delete in a loop inside one process
func runAliasLoop() {
	id := "I/alias/create-delete-loop"
	if !hk.Want(id) {
		return
	}
	beginCase()
	r := &result{}
	n := hk.Pick(1<<refPeriodBits+1000, 1<<21)
	h, err := spawnProc(id)
	if err != nil {
		r.inconclusive("spawn: %v", err)
		finish(id, "ids", "alias/loop", false, 0, r, nil)
		return
	}
	seen := make(map[gen.Alias]int, n)
	repeats, first, dist, fails := 0, -1, 0, 0
	var w gen.Alias
	var ferr error
	ran, werr := inProcT(h, func(p *actors.Probe) error {
		for i := 0; i < n; i++ {
			a, err := p.CreateAlias()
			if err != nil {
				fails++
				ferr = err
				continue
			}
			if j, dup := seen[a]; dup {
				repeats++
				if first < 0 {
					first, dist, w = i, i-j, a
				}
			} else {
				seen[a] = i
			}
			p.DeleteAlias(a)
		}
		return nil
	}, 5*time.Minute)
	if !ran || werr != nil {
		r.inconclusive("watchdog: alias loop did not run (%v)", werr)
	}
	opsObserved.Add(int64(n))
	if repeats > 0 {
		sig := "alias-repeat"
		if dist == 1<<refPeriodBits {
			sig = "makeref-repeat-2^18"
		}
		r.fail(sig, "Process.CreateAlias: call #%d returned alias %v again (first returned %d calls earlier, deleted since): a stale holder of the old alias now reaches whoever owns the new one; %d of %d aliases were repeats", first, w, dist, repeats, n)
	}
	if fails > 0 {
		r.fail(repeatSig("alias"), "Process.CreateAlias failed %d times with %v although every alias is deleted right after creation", fails, ferr)
	}
	node.Kill(h.pid)
	waitDead(h)
	finish(id, "ids", "alias/create-delete-loop", n > 1<<refPeriodBits, int64(n), r, map[string]any{"n": n, "repeats": repeats, "first_repeat_at": first, "distance": dist})
}

// a live alias of one process and a later CreateAlias of another process
func runAliasLive() {
	id := "I/alias/live-collision"
	if !hk.Want(id) {
		return
	}
	beginCase()
	r := &result{}
	h1, err1 := spawnProc(id + "/p1")
	h2, err2 := spawnProc(id + "/p2")
	if err1 != nil || err2 != nil {
		r.inconclusive("spawn: %v %v", err1, err2)
		finish(id, "ids", "alias/live", false, 0, r, nil)
		return
	}
	var a1 gen.Alias
	var e1 error
	inProc(h1, func(p *actors.Probe) error { a1, e1 = p.CreateAlias(); return nil })
	burn := 1<<refPeriodBits - 1
	for i := 0; i < burn; i++ {
		node.MakeRef()
	}
	// a few attempts around the period: other minters on the node may have shifted the counter
	var got []gen.Alias
	var gerr error
	inProc(h2, func(p *actors.Probe) error {
		for k := 0; k < 4; k++ {
			a, err := p.CreateAlias()
			if err != nil {
				gerr = err
				continue
			}
			got = append(got, a)
		}
		return nil
	})
	opsObserved.Add(int64(burn + 5))
	if e1 != nil {
		r.inconclusive("first CreateAlias failed: %v", e1)
	}
	for _, a := range got {
		if a == a1 {
			r.fail(repeatSig("alias"), "alias %v of live process %s was handed out again to %s", a1, h1.pid, h2.pid)
		}
	}
	if gerr != nil {
		r.fail(repeatSig("alias"), "CreateAlias in %s returned %v after %d references had been minted since %s created its (still registered) alias %v: the freshly minted alias collided with a live one", h2.pid, gerr, burn, h1.pid, a1)
	}
	// the old alias must still reach its owner
	if e1 == nil {
		if ok, serr, inc := resolvesTo(a1, h1); inc {
			r.inconclusive("watchdog: ping over alias not delivered")
		} else if !ok {
			r.fail("alias-lost", "alias %v of live process %s does not reach it any more (send error %v)", a1, h1.pid, serr)
		}
	}
	node.Kill(h1.pid)
	node.Kill(h2.pid)
	waitDead(h1)
	waitDead(h2)
	finish(id, "ids", "alias/live-collision", true, int64(burn+5), r, map[string]any{"alias": fmt.Sprint(a1), "burned_refs": burn, "create_error": fmt.Sprint(gerr)})
}

// aliases of several kinds minted concurrently: CreateAlias in 4 processes, SpawnMeta in 4 others
func runAliasMix() {
	id := "I/alias/create+spawnmeta"
	if !hk.Want(id) {
		return
	}
	beginCase()
	r := &result{}
	n := hk.Pick(3000, 60000)
	const g = 8
	parts := make([][]gen.Alias, g)
	fails := make([]int, g)
	var hs []*handle
	var metas []*actors.Meta
	var mmu sync.Mutex
	var wg sync.WaitGroup
	for w := 0; w < g; w++ {
		h, err := spawnProc(fmt.Sprintf("%s/%d", id, w))
		if err != nil {
			continue
		}
		hs = append(hs, h)
		wg.Add(1)
		go func(w int, h *handle) {
			defer wg.Done()
			inProcT(h, func(p *actors.Probe) error {
				for i := 0; i < n; i++ {
					if w%2 == 0 {
						a, err := p.CreateAlias()
						if err != nil {
							fails[w]++
							continue
						}
						parts[w] = append(parts[w], a)
						if i%4 != 0 {
							p.DeleteAlias(a)
						}
					} else {
						if i%10 != 0 {
							continue // meta processes are heavier: a tenth of them
						}
						m := actors.NewMeta("idmeta", nil)
						a, err := p.SpawnMeta(m, gen.MetaOptions{})
						if err != nil {
							fails[w]++
							continue
						}
						mmu.Lock()
						metas = append(metas, m)
						mmu.Unlock()
						parts[w] = append(parts[w], a)
					}
				}
				return nil
			}, 5*time.Minute)
		}(w, h)
	}
	wg.Wait()
	seen := map[gen.Alias]bool{}
	repeats, total, nfail := 0, 0, 0
	var w gen.Alias
	for i, p := range parts {
		nfail += fails[i]
		for _, a := range p {
			total++
			if seen[a] {
				repeats++
				w = a
			}
			seen[a] = true
		}
	}
	opsObserved.Add(int64(total))
	if repeats > 0 {
		r.fail(repeatSig("alias"), "%d of %d aliases (CreateAlias and SpawnMeta, %d processes) were handed out twice, e.g. %v", repeats, total, g, w)
	}
	if nfail > 0 {
		r.fail(repeatSig("alias"), "%d CreateAlias/SpawnMeta calls failed (a minted alias collided with a registered one)", nfail)
	}
	for _, h := range hs {
		node.Kill(h.pid)
	}
	for _, h := range hs {
		if !waitDead(h) {
			r.inconclusive("watchdog: process did not terminate")
		}
	}
	for _, m := range metas {
		close(m.Stop)
	}
	finish(id, "ids", "alias/create+spawnmeta", total > 100, int64(total), r, map[string]any{"aliases": total, "repeats": repeats})
}

// references seen through the public message API: Call references at the callee, event tokens
func runRefPublic() {
	id := "I/ref/call+token"
	if !hk.Want(id) {
		return
	}
	beginCase()
	r := &result{}
	n := hk.Pick(4000, 100000)
	const g = 4
	callee, err := spawnProc(id + "/callee")
	if err != nil {
		r.inconclusive("spawn: %v", err)
		finish(id, "ids", "ref/public", false, 0, r, nil)
		return
	}
	tokens := make([][]gen.Ref, g)
	var hs []*handle
	var wg sync.WaitGroup
	for w := 0; w < g; w++ {
		h, err := spawnProc(fmt.Sprintf("%s/%d", id, w))
		if err != nil {
			continue
		}
		hs = append(hs, h)
		wg.Add(1)
		go func(w int, h *handle) {
			defer wg.Done()
			ev := gen.Atom(fmt.Sprintf("idtoken_%d", w))
			inProcT(h, func(p *actors.Probe) error {
				for i := 0; i < n; i++ {
					if w%2 == 0 {
						p.Call(callee.pid, i)
					} else {
						t, err := p.RegisterEvent(ev, gen.EventOptions{})
						if err == nil {
							tokens[w] = append(tokens[w], t)
							p.UnregisterEvent(ev)
						}
					}
				}
				return nil
			}, 5*time.Minute)
		}(w, h)
	}
	wg.Wait()
	seen := map[gen.Ref]string{}
	repeats, total := 0, 0
	var wit string
	add := func(ref gen.Ref, kind string) {
		total++
		if k, dup := seen[ref]; dup {
			repeats++
			wit = fmt.Sprintf("%v (%s, earlier %s)", ref, kind, k)
		}
		seen[ref] = kind
	}
	for _, e := range callee.inst.Events() {
		if e.CB == "call" {
			add(e.Ref, "call reference")
		}
	}
	for _, ts := range tokens {
		for _, t := range ts {
			add(t, "event token")
		}
	}
	opsObserved.Add(int64(total))
	if repeats > 0 {
		r.fail(repeatSig("ref"), "%d of %d references handed out through Call and RegisterEvent were repeats, e.g. %s", repeats, total, wit)
	}
	hs = append(hs, callee)
	for _, h := range hs {
		node.Kill(h.pid)
	}
	for _, h := range hs {
		waitDead(h)
	}
	finish(id, "ids", "ref/call+token", total > 100, int64(total), r, map[string]any{"refs": total, "repeats": repeats})
}

func runIDs() {
	runRefPublic()
	runAliasMix()
	runAliasLive()
	runAliasLoop()
	runRefSeq()
	runRefConc()
}
