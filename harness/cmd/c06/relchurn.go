package main

// (c) "in no link or monitor relation as target": relation churn by OTHER processes on the
// same target before the subject terminates (link + monitor mixes, several consumers, some of
// them removing their relation again), per target kind. Afterwards the relation state is read
// from the consumers' side too (ProcessInfo of every consumer, GetTargetsForConsumer), not only
// through the per-target index.

import (
	"fmt"

	"ergo.services/ergo/gen"

	"verif/harness/actors"
	"verif/harness/hk"
)

// relOp: one consumer adds or removes one relation on the target
type relOp struct {
	Consumer int    `json:"consumer"`
	Op       string `json:"op"` // link unlink monitor demonitor
}

func applyRel(consumer *handle, target any, op string) (err error, ran bool) {
	ran, _ = inProc(consumer, func(p *actors.Probe) error {
		p.SetTrapExit(true)
		ev, isEv := target.(gen.Event)
		switch op {
		case "link":
			if isEv {
				_, err = p.LinkEvent(ev)
			} else {
				err = p.Link(target)
			}
		case "unlink":
			if isEv {
				err = p.UnlinkEvent(ev)
			} else {
				err = p.Unlink(target)
			}
		case "monitor":
			if isEv {
				_, err = p.MonitorEvent(ev)
			} else {
				err = p.Monitor(target)
			}
		case "demonitor":
			if isEv {
				err = p.DemonitorEvent(ev)
			} else {
				err = p.Demonitor(target)
			}
		}
		return nil
	})
	return err, ran
}

// holds: every place where consumer is still recorded as related to one of the targets
func holds(consumer *handle, targets []any) []string {
	var out []string
	is := func(x any) bool {
		for _, t := range targets {
			if t == x {
				return true
			}
		}
		return false
	}
	opsObserved.Add(2)
	l, m := tap.GetTargetsForConsumer(consumer.pid)
	for _, t := range l {
		if is(t) {
			out = append(out, fmt.Sprintf("TargetManager.GetTargetsForConsumer(%s): link to %T %v", consumer.pid, t, t))
		}
	}
	for _, t := range m {
		if is(t) {
			out = append(out, fmt.Sprintf("TargetManager.GetTargetsForConsumer(%s): monitor of %T %v", consumer.pid, t, t))
		}
	}
	info, err := node.ProcessInfo(consumer.pid)
	if err != nil {
		return out
	}
	add := func(field string, x any) {
		if is(x) {
			out = append(out, fmt.Sprintf("ProcessInfo(%s).%s has %v", consumer.pid, field, x))
		}
	}
	for _, x := range info.LinksPID {
		add("LinksPID", x)
	}
	for _, x := range info.MonitorsPID {
		add("MonitorsPID", x)
	}
	for _, x := range info.LinksProcessID {
		add("LinksProcessID", x)
	}
	for _, x := range info.MonitorsProcessID {
		add("MonitorsProcessID", x)
	}
	for _, x := range info.LinksAlias {
		add("LinksAlias", x)
	}
	for _, x := range info.MonitorsAlias {
		add("MonitorsAlias", x)
	}
	for _, x := range info.LinksEvent {
		add("LinksEvent", x)
	}
	for _, x := range info.MonitorsEvent {
		add("MonitorsEvent", x)
	}
	return out
}

var churnPlans = map[string][]relOp{
	// B links, A monitors and demonitors
	"link-stays/monitor-removed": {{0, "link"}, {1, "monitor"}, {1, "demonitor"}},
	// B monitors, A links and unlinks
	"monitor-stays/link-removed": {{0, "monitor"}, {1, "link"}, {1, "unlink"}},
	// one consumer holds both kinds and drops one
	"both-by-one/monitor-removed": {{0, "link"}, {0, "monitor"}, {0, "demonitor"}},
	"both-by-one/link-removed":    {{0, "monitor"}, {0, "link"}, {0, "unlink"}},
	// several consumers of each kind, some leave
	"two-linkers/two-monitors-leave":  {{0, "link"}, {1, "link"}, {2, "monitor"}, {3, "monitor"}, {2, "demonitor"}, {3, "demonitor"}},
	"two-monitors/two-linkers-leave":  {{0, "monitor"}, {1, "monitor"}, {2, "link"}, {3, "link"}, {2, "unlink"}, {3, "unlink"}},
	"mixed/one-of-each-leaves":        {{0, "link"}, {1, "monitor"}, {2, "link"}, {3, "monitor"}, {2, "unlink"}, {3, "demonitor"}},
	"monitor-removed-then-added-back": {{0, "link"}, {1, "monitor"}, {1, "demonitor"}, {1, "monitor"}},
	"everybody-leaves":                {{0, "link"}, {1, "monitor"}, {0, "unlink"}, {1, "demonitor"}},
}

var churnOrder = []string{"link-stays/monitor-removed", "monitor-stays/link-removed", "both-by-one/monitor-removed", "both-by-one/link-removed",
	"two-linkers/two-monitors-leave", "two-monitors/two-linkers-leave", "mixed/one-of-each-leaves", "monitor-removed-then-added-back", "everybody-leaves"}

func runChurn(kind, plan, cause string, ops []relOp) {
	id := fmt.Sprintf("RC/%s/%s/%s", kind, plan, cause)
	if !hk.Want(id) {
		return
	}
	beginCase()
	r := &result{}
	before := snapshot()
	name := uniq("c06churn")
	subj, err := spawnProc(id)
	if err != nil {
		r.inconclusive("spawn: %v", err)
		finish(id, "release", id, false, 0, r, nil)
		return
	}
	st := equip(subj, relShape{NameMode: "node", Aliases: 1, Events: 1, Metas: 1}, name, r)
	var target any
	switch kind {
	case "pid":
		target = subj.pid
	case "name":
		target = gen.ProcessID{Name: name, Node: node.Name()}
	case "alias":
		if len(st.aliases) > 0 {
			target = st.aliases[0]
		}
	case "meta-alias":
		if len(st.malias) > 0 {
			target = st.malias[0]
		}
	case "event":
		if len(st.events) > 0 {
			target = gen.Event{Name: st.events[0], Node: node.Name()}
		}
	}
	if target == nil {
		r.inconclusive("setup: no target of kind %s", kind)
	}
	nCons := 0
	for _, o := range ops {
		if o.Consumer+1 > nCons {
			nCons = o.Consumer + 1
		}
	}
	cons := make([]*handle, nCons)
	for i := range cons {
		cons[i], err = spawnProc(fmt.Sprintf("%s/consumer%d", id, i))
		if err != nil {
			r.inconclusive("spawn consumer: %v", err)
		}
	}
	// what the consumers hold when the subject terminates, by the results of their own calls
	type rk struct {
		c  int
		op string
	}
	held := map[rk]bool{}
	if r.incon == "" {
		for _, o := range ops {
			e, ran := applyRel(cons[o.Consumer], target, o.Op)
			opsObserved.Add(1)
			if !ran || e != nil {
				r.inconclusive("setup: consumer %d %s %T: %v", o.Consumer, o.Op, target, e)
				break
			}
			switch o.Op {
			case "link", "monitor":
				held[rk{o.Consumer, o.Op}] = true
			case "unlink":
				delete(held, rk{o.Consumer, "link"})
			case "demonitor":
				delete(held, rk{o.Consumer, "monitor"})
			}
		}
	}
	// before termination the real state must agree with the results of the calls (sanity of the oracle's reading)
	if r.incon == "" {
		for i, c := range cons {
			n := len(holds(c, []any{target})) / 2 // each relation shows up in both views
			want := 0
			if held[rk{i, "link"}] {
				want++
			}
			if held[rk{i, "monitor"}] {
				want++
			}
			if n != want {
				r.fail("relation-set-disagrees-with-calls", "before the termination consumer %d %s holds %d relations on %T %v by the results of its calls, the relation state shows %d", i, c.pid, want, target, target, n)
			}
		}
	}
	terminate(subj, cause, r)
	// its meta-processes are told by an exit message: their aliases are drained when they have handled it
	for _, m := range st.metas {
		if !hk.WaitUntil(wd(), func() bool { return m.I.TermCount.Load() > 0 && m.I.Quiet() }) {
			r.inconclusive("watchdog: meta-process did not terminate")
		}
	}
	if r.incon == "" {
		// the subject has terminated: it may not be a target of anything any more
		targets := st.targets()
		for _, tg := range targets {
			opsObserved.Add(1)
			if c := tap.GetConsumersForTarget(tg); len(c) > 0 {
				r.fail("dead-target-stays-in-relations", "after %s terminated (%s) GetConsumersForTarget(%T %v) = %v", subj.pid, cause, tg, tg, c)
			}
		}
		for i, c := range cons {
			if c.isDead() {
				continue
			}
			if h := holds(c, targets); len(h) > 0 {
				r.fail("dead-target-stays-in-relations", "after %s terminated (%s), plan %v on its %s: consumer %d is still related to the dead target: %v", subj.pid, cause, ops, kind, i, h)
			}
		}
	}
	for _, c := range cons {
		if c != nil {
			node.Kill(c.pid)
		}
	}
	for _, c := range cons {
		if c != nil && !waitDead(c) {
			r.inconclusive("watchdog: consumer did not terminate")
		}
	}
	stopMetas(st)
	if r.incon == "" && len(r.viol) == 0 {
		if after := snapshot(); after != before {
			r.fail("counter-leak", "node counters after the case %+v differ from before %+v (processes, names, aliases, events)", after, before)
		}
	}
	finish(id, "release", fmt.Sprintf("RC/%s/%s", kind, plan), len(ops) > 0 && r.incon == "", int64(len(ops)+2*nCons+len(st.targets())), r, map[string]any{"target_kind": kind, "plan": ops, "cause": cause, "held_at_termination": len(held)})
}

func runChurnAll() {
	k := 0
	for _, kind := range []string{"pid", "name", "alias", "meta-alias", "event"} {
		for _, plan := range churnOrder {
			cause := []string{"kill-sleeping", "normal", "exit-signal", "error", "kill-running", "panic", "shutdown"}[k%7]
			k++
			runChurn(kind, plan, cause, churnPlans[plan])
		}
	}
	// seeded random plans
	rng := hk.Rng("c06", "churn")
	n := hk.Pick(40, 1500)
	kinds := []string{"pid", "name", "alias", "meta-alias", "event"}
	for i := 0; i < n; i++ {
		nc := 2 + rng.Intn(3)
		has := map[[2]int]bool{}
		var ops []relOp
		for j := 0; j < 4+rng.Intn(8); j++ {
			c := rng.Intn(nc)
			mon := rng.Intn(2)
			key := [2]int{c, mon}
			op := []string{"link", "monitor"}[mon]
			if has[key] {
				op = []string{"unlink", "demonitor"}[mon]
			}
			has[key] = !has[key]
			ops = append(ops, relOp{c, op})
		}
		runChurn(kinds[rng.Intn(len(kinds))], fmt.Sprintf("random%d", i), causes[rng.Intn(len(causes))], ops)
	}
}
