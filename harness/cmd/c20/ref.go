package main

// Independent reference for C20: a crontab parser written from the documented
// grammar and a matcher written on civil-calendar arithmetic only (days since
// epoch <-> y/m/d by the proleptic Gregorian rules; no time.Add of weeks, no
// time.Date normalisation).  The only thing taken from package time is the zone
// database: the UTC offset in force at an instant and the bounds of that offset
// (time.Time.Zone / ZoneBounds).

import (
	"sort"
	"strconv"
	"strings"
	"time"
)

// ---------- grammar ----------

const (
	clsValid   = "valid"
	clsInvalid = "invalid"
	clsUnspec  = "unspecified" // the documentation / the crontab tradition do not decide; never asserted
)

type nth struct{ W, N int }

type refSpec struct {
	Min   [60]bool
	Hour  [24]bool
	Month [13]bool
	Dom   [32]bool
	Dow   [8]bool // 1..7, 7 = Sunday

	MinStar, HourStar, MonthStar, DomStar, DowStar bool

	DomLast bool  // L
	DowLast []int // dL
	DowNth  []nth // d#n

	Macro string
	// feature tags for keys / coverage
	Forms [5]string
	// the day field has a "*/n" element while the weekday field is restricted:
	// Vixie cron treats that day field as a star field (AND), others use OR
	StarStepDayWithDow bool
}

func (s *refSpec) restricted() int {
	n := 0
	for _, b := range []bool{s.MinStar, s.HourStar, s.DomStar, s.MonthStar, s.DowStar} {
		if !b {
			n++
		}
	}
	return n
}

type fieldKind struct {
	name     string
	min, max int
	idx      int
}

var (
	fkMin   = fieldKind{"min", 0, 59, 0}
	fkHour  = fieldKind{"hour", 0, 23, 1}
	fkDom   = fieldKind{"dom", 1, 31, 2}
	fkMonth = fieldKind{"month", 1, 12, 3}
	fkDow   = fieldKind{"dow", 1, 7, 4}
)

var names3 = map[string]bool{
	"jan": true, "feb": true, "mar": true, "apr": true, "may": true, "jun": true, "jul": true, "aug": true, "sep": true, "oct": true, "nov": true, "dec": true,
	"mon": true, "tue": true, "wed": true, "thu": true, "fri": true, "sat": true, "sun": true,
}

func allDigits(s string) bool {
	if s == "" {
		return false
	}
	for _, c := range s {
		if c < '0' || c > '9' {
			return false
		}
	}
	return true
}

// number classification: value, class
func refNum(s string, lo, hi int) (int, string) {
	if !allDigits(s) {
		return 0, clsInvalid
	}
	if len(s) > 6 {
		// absurdly long digit strings: out of range unless they are zero padded
		if strings.TrimLeft(s, "0") == "" || len(strings.TrimLeft(s, "0")) <= 2 {
			return 0, clsUnspec
		}
		return 0, clsInvalid
	}
	v, _ := strconv.Atoi(s)
	if v < lo || v > hi {
		return v, clsInvalid
	}
	return v, clsValid
}

func worse(a, b string) string {
	// invalid dominates unspecified dominates valid
	rank := map[string]int{clsValid: 0, clsUnspec: 1, clsInvalid: 2}
	if rank[b] > rank[a] {
		return b
	}
	return a
}

// refParseField parses one field into set (indices lo..hi). Returns class and form tag.
func refParseField(f string, k fieldKind, out *refSpec) (cls string, form string) {
	cls = clsValid
	set := func(v int) {
		switch k.idx {
		case 0:
			out.Min[v] = true
		case 1:
			out.Hour[v] = true
		case 2:
			out.Dom[v] = true
		case 3:
			out.Month[v] = true
		case 4:
			out.Dow[v] = true
		}
	}
	if f == "*" {
		switch k.idx {
		case 0:
			out.MinStar = true
		case 1:
			out.HourStar = true
		case 2:
			out.DomStar = true
		case 3:
			out.MonthStar = true
		case 4:
			out.DowStar = true
		}
		return clsValid, "*"
	}
	elems := strings.Split(f, ",")
	forms := map[string]bool{}
	for _, e := range elems {
		ec, ef := refParseElem(e, k, len(elems), out, set)
		cls = worse(cls, ec)
		forms[ef] = true
	}
	var fl []string
	for x := range forms {
		fl = append(fl, x)
	}
	sort.Strings(fl)
	form = strings.Join(fl, "+")
	if len(elems) > 1 {
		form = "list(" + form + ")"
	}
	return cls, form
}

func refParseElem(e string, k fieldKind, nElems int, out *refSpec, set func(int)) (string, string) {
	if e == "" {
		return clsInvalid, "empty"
	}
	if e == "*" {
		// a bare star is only reachable here as a member of a list
		return clsInvalid, "star-in-list"
	}
	le := strings.ToLower(e)
	// names (JAN, MON, ranges of names): accepted by many crons, not documented here
	if k.idx == 3 || k.idx == 4 {
		parts := strings.FieldsFunc(le, func(r rune) bool { return r == '-' || r == '/' })
		for _, p := range parts {
			if names3[p] {
				return clsUnspec, "name"
			}
		}
	}
	if e == "?" {
		return clsUnspec, "qmark"
	}
	if e == "L" {
		if k.idx == 2 {
			out.DomLast = true
			return clsValid, "L"
		}
		if k.idx == 4 {
			return clsUnspec, "L" // Quartz: Saturday
		}
		return clsInvalid, "L"
	}
	if strings.HasSuffix(e, "W") && k.idx == 2 {
		return clsUnspec, "W"
	}
	if strings.HasPrefix(e, "L-") && k.idx == 2 {
		return clsUnspec, "L-n"
	}
	if strings.HasSuffix(e, "L") {
		d := strings.TrimSuffix(e, "L")
		if k.idx == 2 && allDigits(d) {
			return clsUnspec, "dL"
		}
		if k.idx != 4 {
			return clsInvalid, "dL"
		}
		if d == "0" {
			return clsUnspec, "dL"
		}
		if len(d) != 1 {
			return clsInvalid, "dL"
		}
		v, c := refNum(d, 1, 7)
		if c != clsValid {
			return clsInvalid, "dL"
		}
		out.DowLast = append(out.DowLast, v)
		return clsValid, "dL"
	}
	if strings.Contains(e, "#") {
		if k.idx != 4 {
			return clsInvalid, "d#n"
		}
		p := strings.Split(e, "#")
		if len(p) != 2 || len(p[0]) != 1 || len(p[1]) != 1 {
			return clsInvalid, "d#n"
		}
		if p[0] == "0" && allDigits(p[1]) {
			return clsUnspec, "d#n"
		}
		w, c1 := refNum(p[0], 1, 7)
		n, c2 := refNum(p[1], 1, 5)
		if c1 != clsValid || c2 != clsValid {
			return clsInvalid, "d#n"
		}
		out.DowNth = append(out.DowNth, nth{w, n})
		return clsValid, "d#n"
	}
	// steps
	base, stepS, hasStep := strings.Cut(e, "/")
	step := 1
	cls := clsValid
	if hasStep {
		if !allDigits(stepS) {
			return clsInvalid, "step"
		}
		if len(stepS) > 4 {
			return clsUnspec, "step"
		}
		step, _ = strconv.Atoi(stepS)
		if step == 0 {
			return clsInvalid, "step0"
		}
		if step > k.max {
			cls = clsUnspec // some crons accept a step larger than the range
		}
		if len(stepS) > 1 && stepS[0] == '0' {
			cls = worse(cls, clsUnspec)
		}
	}
	if base == "*" {
		if !hasStep {
			return clsInvalid, "star"
		}
		if k.idx == 4 {
			return clsUnspec, "*/n" // not in the documented weekday grammar, standard elsewhere
		}
		if cls == clsValid {
			for v := k.min; v <= k.max; v += step {
				set(v)
			}
		}
		if k.idx == 2 {
			out.StarStepDayWithDow = true // finalised by the caller (needs the weekday field)
		}
		return cls, "*/n"
	}
	if a, b, isRange := strings.Cut(base, "-"); isRange {
		if !allDigits(a) || !allDigits(b) {
			return clsInvalid, "range"
		}
		lo := k.min
		if k.idx == 4 {
			lo = 0
		}
		va, ca := refNum(a, lo, k.max)
		vb, cb := refNum(b, lo, k.max)
		if ca == clsInvalid || cb == clsInvalid {
			return clsInvalid, "range"
		}
		cls = worse(cls, worse(ca, cb))
		if k.idx == 4 && (va == 0 || vb == 0) {
			cls = worse(cls, clsUnspec)
		}
		if (len(a) > 1 && a[0] == '0') || (len(b) > 1 && b[0] == '0') {
			cls = worse(cls, clsUnspec) // zero padded
		}
		if cls != clsUnspec && va > vb {
			return clsInvalid, "range-reversed"
		}
		if va > vb {
			return clsUnspec, "range"
		}
		form := "range"
		if hasStep {
			form = "range/n"
			if k.idx == 3 || k.idx == 4 {
				cls = worse(cls, clsUnspec) // documented grammar has no d-d/n for month and weekday
			}
		}
		if cls == clsValid {
			for v := va; v <= vb; v += step {
				set(v)
			}
		}
		return cls, form
	}
	if hasStep {
		if allDigits(base) {
			return clsUnspec, "n/n" // "5/15": an extension of some crons
		}
		return clsInvalid, "step"
	}
	if !allDigits(e) {
		return clsInvalid, "garbage"
	}
	lo := k.min
	if k.idx == 4 {
		lo = 0
	}
	v, c := refNum(e, lo, k.max)
	if c != clsValid {
		return c, "num"
	}
	if k.idx == 4 && v == 0 {
		return clsUnspec, "num" // 0 = Sunday in the tradition, documented range here is 1..7
	}
	if len(e) > 1 && e[0] == '0' {
		return clsUnspec, "num" // zero padded
	}
	set(v)
	return clsValid, "num"
}

var macroNames = map[string]bool{"@hourly": true, "@daily": true, "@monthly": true, "@weekly": true}
var macroOther = map[string]bool{"@yearly": true, "@annually": true, "@midnight": true, "@reboot": true}

// refParse classifies a spec and (for valid non-macro specs) returns its meaning.
func refParse(spec string) (*refSpec, string) {
	rs := &refSpec{}
	if macroNames[spec] {
		rs.Macro = spec
		return rs, clsValid
	}
	if strings.HasPrefix(strings.TrimSpace(spec), "@") {
		t := strings.TrimSpace(spec)
		if macroNames[t] || macroOther[t] || strings.HasPrefix(t, "@every") {
			return nil, clsUnspec
		}
		return nil, clsInvalid
	}
	for _, c := range spec {
		if c == ' ' || c == '\t' {
			continue
		}
		if c < 0x21 || c > 0x7e {
			return nil, clsUnspec // other white space / non ASCII: not generated, not judged
		}
	}
	fields := strings.FieldsFunc(spec, func(r rune) bool { return r == ' ' || r == '\t' })
	if len(fields) != 5 {
		return nil, clsInvalid
	}
	cls := clsValid
	for i, k := range []fieldKind{fkMin, fkHour, fkDom, fkMonth, fkDow} {
		c, form := refParseField(fields[i], k, rs)
		rs.Forms[i] = form
		cls = worse(cls, c)
	}
	if cls == clsInvalid {
		return nil, clsInvalid
	}
	if cls == clsUnspec {
		return nil, clsUnspec
	}
	rs.StarStepDayWithDow = rs.StarStepDayWithDow && !rs.DowStar
	return rs, clsValid
}

// ---------- civil calendar ----------

func isLeap(y int) bool { return y%4 == 0 && (y%100 != 0 || y%400 == 0) }

func daysIn(y, m int) int {
	switch m {
	case 2:
		if isLeap(y) {
			return 29
		}
		return 28
	case 4, 6, 9, 11:
		return 30
	}
	return 31
}

// civilFromDays converts days since 1970-01-01 to y/m/d (proleptic Gregorian).
func civilFromDays(z int64) (y, m, d int) {
	z += 719468
	era := z / 146097
	if z < 0 {
		era = (z - 146096) / 146097
	}
	doe := z - era*146097
	yoe := (doe - doe/1460 + doe/36524 - doe/146096) / 365
	yy := yoe + era*400
	doy := doe - (365*yoe + yoe/4 - yoe/100)
	mp := (5*doy + 2) / 153
	dd := doy - (153*mp+2)/5 + 1
	mm := mp + 3
	if mm > 12 {
		mm -= 12
	}
	if mm <= 2 {
		yy++
	}
	return int(yy), int(mm), int(dd)
}

// weekday of days-since-epoch: 1 = Monday .. 7 = Sunday (1970-01-01 was a Thursday)
func weekdayOfDays(z int64) int {
	w := (z%7 + 7 + 3) % 7 // 0 = Monday
	return int(w) + 1
}

func floorDiv(a, b int64) int64 {
	q := a / b
	if (a%b != 0) && ((a < 0) != (b < 0)) {
		q--
	}
	return q
}

// dayMatches: the day part of the rule (day-of-month / day-of-week, OR when both are restricted)
func (s *refSpec) dayMatches(y, m, d, wd int) bool {
	dim := daysIn(y, m)
	domM := s.Dom[d] || (s.DomLast && d == dim)
	dowM := s.Dow[wd]
	for _, w := range s.DowLast {
		if w == wd && d+7 > dim {
			dowM = true
		}
	}
	for _, n := range s.DowNth {
		if n.W == wd && (d-1)/7+1 == n.N {
			dowM = true
		}
	}
	switch {
	case s.DomStar && s.DowStar:
		return true
	case s.DomStar:
		return dowM
	case s.DowStar:
		return domM
	}
	return domM || dowM
}

// matchCivil decides a local civil minute
func (s *refSpec) matchCivil(y, mo, d, h, mi, wd int) bool {
	if !s.MinStar && !s.Min[mi] {
		return false
	}
	if !s.HourStar && !s.Hour[h] {
		return false
	}
	if !s.MonthStar && !s.Month[mo] {
		return false
	}
	return s.dayMatches(y, mo, d, wd)
}

// civilOf returns the local civil fields of the instant u (unix seconds) in loc,
// computed from the zone offset only.
func civilOf(u int64, loc *time.Location) (y, mo, d, h, mi, wd int, off int) {
	_, off = time.Unix(u, 0).In(loc).Zone()
	ls := u + int64(off)
	day := floorDiv(ls, 86400)
	sod := ls - day*86400
	y, mo, d = civilFromDays(day)
	return y, mo, d, int(sod / 3600), int(sod % 3600 / 60), weekdayOfDays(day), off
}

// matchInstant decides the minute that starts at unix second u
func (s *refSpec) matchInstant(u int64, loc *time.Location) bool {
	y, mo, d, h, mi, wd, _ := civilOf(u, loc)
	return s.matchCivil(y, mo, d, h, mi, wd)
}

// expected returns the unix seconds of all matching minutes in [from, to) in loc,
// ascending. oddOffset is set if a zone offset is not a whole number of minutes.
func (s *refSpec) expected(from, to int64, loc *time.Location) (res []int64, oddOffset bool) {
	var mins, hours []int
	for i := 0; i < 60; i++ {
		if s.MinStar || s.Min[i] {
			mins = append(mins, i)
		}
	}
	for i := 0; i < 24; i++ {
		if s.HourStar || s.Hour[i] {
			hours = append(hours, i)
		}
	}
	t := from
	for t < to {
		tt := time.Unix(t, 0).In(loc)
		_, off := tt.Zone()
		_, zend := tt.ZoneBounds()
		segEnd := to
		if !zend.IsZero() && zend.Unix() < to {
			segEnd = zend.Unix()
		}
		if segEnd <= t { // defensive
			segEnd = t + 60
		}
		if off%60 != 0 {
			oddOffset = true
		}
		o := int64(off)
		d0 := floorDiv(t+o, 86400)
		d1 := floorDiv(segEnd-1+o, 86400)
		for day := d0; day <= d1; day++ {
			y, mo, d := civilFromDays(day)
			if !s.MonthStar && !s.Month[mo] {
				continue
			}
			if !s.dayMatches(y, mo, d, weekdayOfDays(day)) {
				continue
			}
			for _, h := range hours {
				for _, mi := range mins {
					u := day*86400 + int64(h)*3600 + int64(mi)*60 - o
					if u >= t && u < segEnd {
						res = append(res, u)
					}
				}
			}
		}
		t = segEnd
	}
	return res, oddOffset
}

// ---------- zones ----------

type transition struct {
	At        int64 // unix second of the change
	OffBefore int
	OffAfter  int
}

// transitions lists offset changes of loc in [from, to)
func transitions(loc *time.Location, from, to int64) []transition {
	var r []transition
	t := from
	for t < to {
		tt := time.Unix(t, 0).In(loc)
		_, off := tt.Zone()
		_, zend := tt.ZoneBounds()
		if zend.IsZero() || zend.Unix() >= to {
			break
		}
		_, off2 := zend.In(loc).Zone()
		if off2 != off {
			r = append(r, transition{At: zend.Unix(), OffBefore: off, OffAfter: off2})
		}
		t = zend.Unix()
	}
	return r
}

// ambiguous reports whether the local wall-clock minute of instant u occurs twice
// (fall-back overlap): both occurrences are reported as ambiguous.
func ambiguous(u int64, trs []transition) bool {
	for _, tr := range trs {
		if tr.OffAfter < tr.OffBefore {
			delta := int64(tr.OffBefore - tr.OffAfter)
			if u >= tr.At-delta && u < tr.At+delta {
				return true
			}
		}
	}
	return false
}

// nearTransition reports whether u is within d seconds of an offset change
func nearTransition(u int64, trs []transition, d int64) bool {
	for _, tr := range trs {
		if u >= tr.At-d && u < tr.At+d {
			return true
		}
	}
	return false
}

// daysFromCivil converts y/m/d to days since 1970-01-01 (proleptic Gregorian)
func daysFromCivil(y, m, d int) int64 {
	yy := int64(y)
	if m <= 2 {
		yy--
	}
	era := yy / 400
	if yy < 0 {
		era = (yy - 399) / 400
	}
	yoe := yy - era*400
	mp := int64(m) - 3
	if m <= 2 {
		mp = int64(m) + 9
	}
	doy := (153*mp+2)/5 + int64(d) - 1
	doe := yoe*365 + yoe/4 - yoe/100 + doy
	return era*146097 + doe - 719468
}
