// C20 — cron: jobs run exactly at the minutes their spec denotes.
//
// Three scenario families, all through the public gen.Cron API of live nodes:
//
//	grammar  seeded valid / malformed specs; AddJob must accept / reject them as an
//	         independent reference parser (ref.go) says
//	schedule JobSchedule / Schedule over multi-year windows in six zones compared,
//	         minute by minute, with a reference matcher on civil-calendar arithmetic
//	firing   jobs computed from the wall clock, added before and after the node's
//	         first tick, enabled / disabled / removed across ticks; the (job,
//	         actionTime) pairs the scheduler produced must equal the reference's
//	         for the minute boundaries that were crossed (runs beside the others)
package main

import (
	"fmt"
	"os"
	"runtime"
	"sort"
	"strconv"
	"strings"
	"sync"
	"sync/atomic"
	"time"
	_ "time/tzdata"

	"ergo.services/ergo/gen"

	"verif/harness/hk"
)

// ---------- zones / windows ----------

var zoneNames = []string{"UTC", "Europe/Berlin", "America/New_York", "Australia/Lord_Howe", "Asia/Kolkata", "Pacific/Chatham"}

// extra zones (thorough): offset changes at local midnight (the last day of a
// month can start with a gap) and a 24:00 transition
var extraZoneNames = []string{"Asia/Beirut", "America/Havana", "Africa/Cairo", "America/Santiago"}

type zone struct {
	Name string
	Loc  *time.Location
	Trs  []transition
}

var zones []*zone

const (
	yearFrom = 2024
	yearTo   = 2027 // inclusive
)

func utcUnix(y, m, d int) int64 { return daysFromCivil(y, m, d) * 86400 }

func loadZones() error {
	names := append([]string{}, zoneNames...)
	if hk.Thorough() {
		names = append(names, extraZoneNames...)
	}
	for _, n := range names {
		loc, err := time.LoadLocation(n)
		if err != nil {
			return fmt.Errorf("zone %s: %w", n, err)
		}
		z := &zone{Name: n, Loc: loc}
		z.Trs = transitions(loc, utcUnix(yearFrom, 1, 1)-40*86400, utcUnix(yearTo+1, 1, 1)+40*86400)
		zones = append(zones, z)
	}
	return nil
}

type window struct{ From, To int64 }

func mergeWindows(ws []window) []window {
	sort.Slice(ws, func(i, j int) bool { return ws[i].From < ws[j].From })
	var r []window
	for _, w := range ws {
		w.From -= ((w.From % 60) + 60) % 60
		w.To -= ((w.To % 60) + 60) % 60
		if len(r) > 0 && w.From <= r[len(r)-1].To {
			if w.To > r[len(r)-1].To {
				r[len(r)-1].To = w.To
			}
			continue
		}
		r = append(r, w)
	}
	return r
}

// quickWindows: every month end of 2024..2027 (the last local day and the first
// of the next month, for every offset in use), Feb 29 2024, and +-dstDays days
// around every offset change of the zone.
func quickWindows(z *zone, dstDays int64) []window {
	var ws []window
	for y := yearFrom; y <= yearTo; y++ {
		for m := 1; m <= 12; m++ {
			ny, nm := y, m+1
			if nm == 13 {
				ny, nm = y+1, 1
			}
			first := utcUnix(ny, nm, 1)
			ws = append(ws, window{first - 40*3600, first + 30*3600})
		}
	}
	for _, tr := range z.Trs {
		if tr.At < utcUnix(yearFrom, 1, 1) || tr.At >= utcUnix(yearTo+1, 1, 1) {
			continue
		}
		ws = append(ws, window{tr.At - dstDays*86400, tr.At + dstDays*86400})
	}
	return mergeWindows(ws)
}

func yearWindows() []window {
	var ws []window
	for y := yearFrom; y <= yearTo; y++ {
		ws = append(ws, window{utcUnix(y, 1, 1), utcUnix(y+1, 1, 1)})
	}
	return ws
}

// thorough: the whole years 2024..2027.  quick: every month end, Feb 29, +-8 days
// around every offset change of the zone, plus one whole year chosen by idx and seed.
func windowsFor(z *zone, idx int) []window {
	if hk.Thorough() {
		return yearWindows()
	}
	ws := quickWindows(z, 8)
	y := yearFrom + int((int64(idx)+hk.Seed())%int64(yearTo-yearFrom+1))
	ws = append(ws, window{utcUnix(y, 1, 1), utcUnix(y+1, 1, 1)})
	return mergeWindows(ws)
}

func windowHasTransition(w window, z *zone) bool {
	for _, tr := range z.Trs {
		if tr.At >= w.From && tr.At < w.To {
			return true
		}
	}
	return false
}

// ---------- actions ----------

type nopAction struct{}

func (nopAction) Do(job gen.Atom, node gen.Node, atime time.Time) error { return nil }
func (nopAction) Info() string                                          { return "nop" }

type firing struct {
	Job   gen.Atom
	ATime time.Time
	Wall  time.Time
}

type recorder struct {
	mu sync.Mutex
	ev []firing
}

func (r *recorder) add(job gen.Atom, at time.Time) {
	r.mu.Lock()
	r.ev = append(r.ev, firing{job, at, time.Now()})
	r.mu.Unlock()
}
func (r *recorder) list() []firing {
	r.mu.Lock()
	defer r.mu.Unlock()
	return append([]firing(nil), r.ev...)
}

type recAction struct{ r *recorder }

func (a recAction) Do(job gen.Atom, node gen.Node, atime time.Time) error {
	a.r.add(job, atime)
	return nil
}
func (a recAction) Info() string { return "record" }

// ---------- helpers ----------

// safeAddJob: a panic inside AddJob is an observation, not a crash of the monitor
func safeAddJob(cron gen.Cron, job gen.CronJob) (err error, panicked string) {
	defer func() {
		if r := recover(); r != nil {
			panicked = fmt.Sprint(r)
		}
	}()
	return cron.AddJob(job), ""
}

func fmtLocal(u int64, loc *time.Location) string {
	y, mo, d, h, mi, wd, off := civilOf(u, loc)
	sign := "+"
	if off < 0 {
		sign = "-"
		off = -off
	}
	return fmt.Sprintf("%04d-%02d-%02d %02d:%02d wd%d %s%02d:%02d", y, mo, d, h, mi, wd, sign, off/3600, off%3600/60)
}

func formsKey(rs *refSpec) string {
	if rs.Macro != "" {
		return rs.Macro
	}
	return strings.Join(rs.Forms[:], " ")
}

var jobSeq atomic.Int64

func jobName(prefix string) gen.Atom {
	return gen.Atom(fmt.Sprintf("%s-%d", prefix, jobSeq.Add(1)))
}

func selfCheck() error {
	// the civil calendar of the reference against package time, every day of 2023..2028 (harness self test)
	for day := daysFromCivil(2023, 1, 1); day <= daysFromCivil(2028, 12, 31); day++ {
		y, m, d := civilFromDays(day)
		t := time.Unix(day*86400, 0).UTC()
		wd := int(t.Weekday())
		if wd == 0 {
			wd = 7
		}
		if t.Year() != y || int(t.Month()) != m || t.Day() != d || weekdayOfDays(day) != wd || daysFromCivil(y, m, d) != day {
			return fmt.Errorf("civil calendar self check failed at day %d: %d-%d-%d wd %d vs %s", day, y, m, d, weekdayOfDays(day), t)
		}
	}
	return nil
}

// ---------- family (a): grammar ----------

func runGrammar(node *hk.HNode) {
	cron := node.Cron()
	nValid := hk.Pick(300, 4000)
	nInvalid := hk.Pick(300, 4000)
	r := hk.Rng("c20", "grammar")

	type item struct {
		id, spec, want, class string
	}
	var items []item
	for i, s := range targetedValid {
		items = append(items, item{fmt.Sprintf("G/valid/t%d", i), s, clsValid, "targeted"})
	}
	for _, s := range []string{"@hourly", "@daily", "@monthly", "@weekly"} {
		items = append(items, item{"G/valid/" + s, s, clsValid, "macro"})
	}
	for i := 0; i < nValid; i++ {
		items = append(items, item{fmt.Sprintf("G/valid/%d", i), genValid(r, i), clsValid, "generated"})
	}
	for i := 0; i < nInvalid; i++ {
		b := genInvalid(r, i)
		items = append(items, item{fmt.Sprintf("G/invalid/%d", i), b.Spec, clsInvalid, b.Class})
	}
	var accepted, rejected int64
	for _, it := range items {
		if !hk.Want(it.id) {
			continue
		}
		rs, cls := refParse(it.spec)
		c := hk.Case{ID: it.id, Scenario: "grammar", Events: 1, Detail: map[string]any{"spec": it.spec, "reference": cls, "class": it.class}}
		if cls != it.want {
			// generator and reference parser disagree: harness problem, never a verdict about /repo
			c.Verdict = hk.Inconclusive
			c.What = fmt.Sprintf("harness: generator meant %s, reference parser says %s for %q", it.want, cls, it.spec)
			fmt.Fprintln(os.Stderr, c.What)
			hk.Emit(c)
			continue
		}
		name := jobName("g")
		err, pan := safeAddJob(cron, gen.CronJob{Name: name, Spec: it.spec, Location: time.UTC, Action: nopAction{}})
		if pan != "" {
			c.Verdict = hk.Violated
			c.Key = "G/" + cls + "/panic"
			c.Nontrivial = true
			c.Sig = "addjob-panics/" + it.class
			if rs != nil {
				c.Sig = "addjob-panics/" + formsKey(rs)
			}
			c.What = fmt.Sprintf("AddJob(%q) panicked instead of returning: %s", it.spec, pan)
			hk.Emit(c)
			continue
		}
		_, infoErr := cron.JobInfo(name)
		if err == nil {
			accepted++
			cron.RemoveJob(name)
		} else {
			rejected++
		}
		switch cls {
		case clsValid:
			c.Key = "G/valid/" + formsKey(rs)
			c.Nontrivial = rs.Macro != "" || rs.restricted() >= 2
			if err != nil {
				c.Verdict = hk.Violated
				c.Sig = "valid-spec-rejected/" + formsKey(rs)
				c.What = fmt.Sprintf("AddJob rejected the valid spec %q: %v", it.spec, err)
			} else if infoErr != nil {
				c.Verdict = hk.Violated
				c.Sig = "accepted-job-not-registered"
				c.What = fmt.Sprintf("AddJob accepted %q but JobInfo says %v", it.spec, infoErr)
			}
		case clsInvalid:
			c.Key = "G/invalid/" + it.class
			c.Nontrivial = true
			if err == nil {
				c.Verdict = hk.Violated
				c.Sig = "malformed-spec-accepted/" + it.class
				c.What = fmt.Sprintf("AddJob accepted the malformed spec %q (%s)", it.spec, it.class)
			} else if infoErr == nil {
				c.Verdict = hk.Violated
				c.Sig = "rejected-job-registered/" + it.class
				c.What = fmt.Sprintf("AddJob rejected %q (%v) but the job is registered", it.spec, err)
			}
		}
		hk.Emit(c)
	}
	hk.Stat("grammar_accepted", accepted)
	hk.Stat("grammar_rejected", rejected)
	// undecided specs: record what the implementation does, never judge
	und := map[string]string{}
	for _, s := range unspecifiedSpecs {
		if _, cls := refParse(s); cls != clsUnspec {
			fmt.Fprintf(os.Stderr, "harness: %q expected to be unspecified, reference says %s\n", s, cls)
			continue
		}
		name := jobName("u")
		if err, pan := safeAddJob(cron, gen.CronJob{Name: name, Spec: s, Location: time.UTC, Action: nopAction{}}); pan != "" {
			und[s] = "panic: " + pan
		} else if err != nil {
			und[s] = "rejected"
		} else {
			und[s] = "accepted"
			cron.RemoveJob(name)
		}
	}
	hk.Note("undecided_specs_implementation_choice", und)
}

// ---------- family (b): schedule ----------

type diff struct {
	Missing []int64 // expected, not reported
	Extra   []int64 // reported, not matching
	Ambig   int64   // instants skipped because their wall-clock minute occurs twice
	Outside int64   // reported outside the asked window (but matching the spec)
	Order   bool    // reported times not strictly ascending / not minute aligned
}

func (d *diff) empty() bool { return len(d.Missing) == 0 && len(d.Extra) == 0 && !d.Order }

// compare one window
func compareWindow(rs *refSpec, z *zone, w window, actual []time.Time, d *diff) (nExp int) {
	exp, _ := rs.expected(w.From, w.To, z.Loc)
	nExp = len(exp)
	act := make([]int64, 0, len(actual))
	var prev int64 = -1 << 62
	for _, t := range actual {
		u := t.Unix()
		if t.Nanosecond() != 0 || u%60 != 0 || u <= prev {
			d.Order = true
		}
		prev = u
		act = append(act, u)
	}
	sort.Slice(act, func(i, j int) bool { return act[i] < act[j] })
	i, j := 0, 0
	for i < len(exp) || j < len(act) {
		switch {
		case j >= len(act) || (i < len(exp) && exp[i] < act[j]):
			if ambiguous(exp[i], z.Trs) {
				d.Ambig++
			} else {
				d.Missing = append(d.Missing, exp[i])
			}
			i++
		case i >= len(exp) || act[j] < exp[i]:
			u := act[j]
			switch {
			case ambiguous(u, z.Trs):
				d.Ambig++
			case (u < w.From || u >= w.To) && rs.matchInstant(u, z.Loc):
				d.Outside++
			default:
				d.Extra = append(d.Extra, u)
			}
			j++
		default:
			i++
			j++
		}
	}
	return nExp
}

// classify names WHAT fails
func classify(rs *refSpec, z *zone, d *diff) string {
	if d.Order && len(d.Missing) == 0 && len(d.Extra) == 0 {
		return "schedule-not-ascending-minutes"
	}
	all := append(append([]int64{}, d.Missing...), d.Extra...)
	nearAll := len(z.Trs) > 0
	lastWd := len(rs.DowLast) > 0
	for _, u := range all {
		if !nearTransition(u, z.Trs, 8*86400) {
			nearAll = false
		}
		_, _, _, _, _, wd, _ := civilOf(u, z.Loc)
		hit := false
		for _, w := range rs.DowLast {
			if w == wd {
				hit = true
			}
		}
		if !hit {
			lastWd = false
		}
	}
	if lastWd && nearAll {
		// every wrong minute is on a weekday named by a dL term and within 8 days of an offset change
		return "last-weekday-dst"
	}
	kind := "mismatch"
	if len(d.Missing) == 0 {
		kind = "extra"
	} else if len(d.Extra) == 0 {
		kind = "missing"
	}
	s := fmt.Sprintf("schedule-%s/dom=%s/dow=%s", kind, rs.Forms[2], rs.Forms[4])
	if rs.Macro != "" {
		s = fmt.Sprintf("schedule-%s/%s", kind, rs.Macro)
	}
	if nearAll {
		s += "/near-offset-change"
	}
	return s
}

func witness(d *diff, z *zone) map[string]any {
	f := func(l []int64) []string {
		var r []string
		for i, u := range l {
			if i >= 6 {
				r = append(r, fmt.Sprintf("... %d more", len(l)-6))
				break
			}
			r = append(r, time.Unix(u, 0).UTC().Format(time.RFC3339)+" = local "+fmtLocal(u, z.Loc))
		}
		return r
	}
	return map[string]any{"missing_n": len(d.Missing), "extra_n": len(d.Extra), "missing": f(d.Missing), "extra": f(d.Extra), "not_ascending_or_unaligned": d.Order}
}

var statMinutes, statReported, statAmbig, statOutside atomic.Int64

type schedTask struct {
	id   string
	spec string
	z    *zone
	idx  int
}

func sinceLoc(k int, z *zone) *time.Location {
	switch k % 3 {
	case 0:
		return time.UTC
	case 1:
		return z.Loc
	}
	return zones[(k/3)%len(zones)].Loc
}

func runScheduleTask(node *hk.HNode, t schedTask) {
	rs, cls := refParse(t.spec)
	if cls != clsValid {
		fmt.Fprintf(os.Stderr, "harness: schedule spec %q is %s\n", t.spec, cls)
		return
	}
	cron := node.Cron()
	name := jobName("s")
	c := hk.Case{ID: t.id, Scenario: "schedule", Detail: map[string]any{"spec": t.spec, "zone": t.z.Name}}
	if err, pan := safeAddJob(cron, gen.CronJob{Name: name, Spec: t.spec, Location: t.z.Loc, Action: nopAction{}}); err != nil || pan != "" {
		c.Verdict = hk.Violated
		c.Sig = "valid-spec-rejected/" + formsKey(rs)
		if pan != "" {
			c.Sig = "addjob-panics/" + formsKey(rs)
		}
		c.Key = "S/addjob-failed/" + formsKey(rs)
		c.Events = 1
		c.What = fmt.Sprintf("AddJob(%q) failed for a valid spec: %v %s", t.spec, err, pan)
		hk.Emit(c)
		return
	}
	defer cron.RemoveJob(name)
	ws := windowsFor(t.z, t.idx)
	var d diff
	var nAct, nExp, minutes int64
	hasTr := false
	for k, w := range ws {
		since := time.Unix(w.From, 0).In(sinceLoc(t.idx+k, t.z))
		if (t.idx+k)%5 == 4 {
			// 'since' inside a minute: whether that (already started) minute is listed is not judged
			since = since.Add(17*time.Second + 250*time.Millisecond)
			w.From += 60
		}
		act, err := cron.JobSchedule(name, since, time.Duration(w.To-since.Truncate(time.Minute).Unix())*time.Second)
		if err != nil {
			c.Verdict = hk.Violated
			c.Sig = "jobschedule-error"
			c.What = fmt.Sprintf("JobSchedule of an added job failed: %v", err)
			hk.Emit(c)
			return
		}
		nAct += int64(len(act))
		nExp += int64(compareWindow(rs, t.z, w, act, &d))
		minutes += (w.To - w.From) / 60
		hasTr = hasTr || windowHasTransition(w, t.z)
	}
	c.Events = nAct + nExp
	if c.Events == 0 {
		c.Events = 1 // the empty schedule was observed
	}
	// non-trivial: >= 2 restricted fields, the windows contain month ends (always) and something was scheduled
	c.Nontrivial = (rs.Macro != "" || rs.restricted() >= 2) && nAct > 0
	c.Key = fmt.Sprintf("S/%s/%s/dst=%v", formsKey(rs), t.z.Name, hasTr)
	det := c.Detail.(map[string]any)
	det["windows"] = len(ws)
	det["minutes_compared"] = minutes
	det["reported"] = nAct
	det["expected"] = nExp
	det["ambiguous_skipped"] = d.Ambig
	statMinutes.Add(minutes)
	statReported.Add(nAct)
	statAmbig.Add(d.Ambig)
	statOutside.Add(d.Outside)
	if !d.empty() {
		c.Verdict = hk.Violated
		c.Sig = classify(rs, t.z, &d)
		det["witness"] = witness(&d, t.z)
		c.What = fmt.Sprintf("JobSchedule(%q, %s): %d matching minutes not reported, %d reported minutes do not match", t.spec, t.z.Name, len(d.Missing), len(d.Extra))
	}
	hk.Emit(c)
}

// macros: the expansion is the implementation's choice; what is asserted is that
// the macro behaves like a spec of its family (fixed minute [hour [day|weekday]]).
func runMacroTask(node *hk.HNode, macro string, z *zone) {
	id := fmt.Sprintf("S/macro/%s/%s", macro, z.Name)
	if !hk.Want(id) {
		return
	}
	cron := node.Cron()
	name := jobName("m")
	c := hk.Case{ID: id, Scenario: "schedule", Detail: map[string]any{"spec": macro, "zone": z.Name}}
	if err, pan := safeAddJob(cron, gen.CronJob{Name: name, Spec: macro, Location: z.Loc, Action: nopAction{}}); err != nil || pan != "" {
		c.Verdict = hk.Violated
		c.Sig = "valid-spec-rejected/" + macro
		c.Events = 1
		c.What = fmt.Sprint(err, pan)
		hk.Emit(c)
		return
	}
	defer cron.RemoveJob(name)
	// infer the parameters from a probe window free of offset changes: June 2025 (first full week after the 1st)
	pf := utcUnix(2025, 6, 1)
	probe, _ := cron.JobSchedule(name, time.Unix(pf, 0).UTC(), 45*24*time.Hour)
	if len(probe) == 0 {
		c.Verdict = hk.Violated
		c.Sig = "macro-never-runs/" + macro
		c.What = "no run time in 45 days"
		hk.Emit(c)
		return
	}
	_, _, d0, h0, mi0, wd0, _ := civilOf(probe[0].Unix(), z.Loc)
	rs := &refSpec{Macro: macro, MinStar: false, HourStar: true, DomStar: true, MonthStar: true, DowStar: true}
	rs.Min[mi0] = true
	switch macro {
	case "@daily":
		rs.HourStar = false
		rs.Hour[h0] = true
	case "@monthly":
		rs.HourStar, rs.DomStar = false, false
		rs.Hour[h0] = true
		rs.Dom[d0] = true
	case "@weekly":
		rs.HourStar, rs.DowStar = false, false
		rs.Hour[h0] = true
		rs.Dow[wd0] = true
	}
	det := c.Detail.(map[string]any)
	det["inferred"] = fmt.Sprintf("min=%d hour=%d dom=%d wd=%d (only the fields of the macro's family are used)", mi0, h0, d0, wd0)
	var d diff
	var nAct, nExp int64
	for _, w := range windowsFor(z, len(macro)) {
		act, _ := cron.JobSchedule(name, time.Unix(w.From, 0).UTC(), time.Duration(w.To-w.From)*time.Second)
		nAct += int64(len(act))
		nExp += int64(compareWindow(rs, z, w, act, &d))
	}
	c.Events = nAct + nExp
	c.Nontrivial = nAct > 0
	c.Key = fmt.Sprintf("S/%s/%s", macro, z.Name)
	if !d.empty() {
		c.Verdict = hk.Violated
		c.Sig = classify(rs, z, &d)
		det["witness"] = witness(&d, z)
		c.What = fmt.Sprintf("%s in %s is not a fixed-time schedule of its family", macro, z.Name)
	}
	hk.Emit(c)
}

// Schedule(): several jobs of different zones on a private node
func runMultiTask(g int, specs []string) {
	id := fmt.Sprintf("S/multi/%d", g)
	if !hk.Want(id) {
		return
	}
	node, err := hk.StartNode(hk.NodeCfg{Name: hk.UniqueName("c20m"), Network: false})
	c := hk.Case{ID: id, Scenario: "schedule-all"}
	if err != nil {
		c.Verdict = hk.Inconclusive
		c.What = "start node: " + err.Error()
		hk.Emit(c)
		return
	}
	defer node.StopForce()
	cron := node.Cron()
	type mj struct {
		name gen.Atom
		spec string
		rs   *refSpec
		z    *zone
	}
	var jobs []mj
	for k, s := range specs {
		rs, cls := refParse(s)
		if cls != clsValid {
			continue
		}
		z := zones[(g+k)%len(zones)]
		n := gen.Atom(fmt.Sprintf("multi%d", k))
		if err, pan := safeAddJob(cron, gen.CronJob{Name: n, Spec: s, Location: z.Loc, Action: nopAction{}}); err != nil || pan != "" {
			continue // judged by the per-job cases
		}
		jobs = append(jobs, mj{n, s, rs, z})
	}
	if len(jobs) == 0 {
		c.Verdict = hk.Inconclusive
		c.What = "no job could be added"
		hk.Emit(c)
		return
	}
	// windows: the 2026 part of the quick windows of the first job's zone (thorough: all of them)
	var ws []window
	for _, w := range quickWindows(jobs[0].z, 3) {
		if hk.Thorough() || (w.From >= utcUnix(2026, 1, 1) && w.To <= utcUnix(2027, 1, 15)) {
			ws = append(ws, w)
		}
	}
	diffs := make([]diff, len(jobs))
	var entries int64
	for _, w := range ws {
		sch := cron.Schedule(time.Unix(w.From, 0).UTC(), time.Duration(w.To-w.From)*time.Second)
		per := make([][]time.Time, len(jobs))
		for _, e := range sch {
			entries += int64(len(e.Jobs))
			for _, jn := range e.Jobs {
				for k := range jobs {
					if jobs[k].name == jn {
						per[k] = append(per[k], e.Time)
					}
				}
			}
		}
		for k := range jobs {
			compareWindow(jobs[k].rs, jobs[k].z, w, per[k], &diffs[k])
		}
	}
	c.Events = entries
	c.Nontrivial = entries > 0 && len(jobs) >= 2
	var dl []string
	for k := range jobs {
		dl = append(dl, jobs[k].spec+" @"+jobs[k].z.Name)
	}
	c.Key = fmt.Sprintf("M/%d jobs/%s", len(jobs), jobs[0].z.Name)
	det := map[string]any{"jobs": dl, "windows": len(ws), "entries": entries}
	c.Detail = det
	for k := range jobs {
		if !diffs[k].empty() {
			c.Verdict = hk.Violated
			c.Sig = classify(jobs[k].rs, jobs[k].z, &diffs[k])
			det["witness"] = witness(&diffs[k], jobs[k].z)
			det["job"] = dl[k]
			c.What = fmt.Sprintf("Schedule(): job %q (%s): %d matching minutes not reported, %d reported do not match", jobs[k].spec, jobs[k].z.Name, len(diffs[k].Missing), len(diffs[k].Extra))
			break
		}
	}
	hk.Emit(c)
}

func scheduleSpecs() []string {
	r := hk.Rng("c20", "schedule")
	specs := append([]string{}, targetedValid...)
	n := hk.Pick(40, 300)
	if v, err := strconv.Atoi(os.Getenv("C20_NSPECS")); err == nil { // development aid
		n = v
	}
	for i := 0; i < n; i++ {
		specs = append(specs, genValid(r, i))
	}
	return specs
}

func runSchedule(node *hk.HNode) {
	specs := scheduleSpecs()
	var tasks []schedTask
	for i, s := range specs {
		for _, z := range zones {
			id := fmt.Sprintf("S/%d/%s", i, z.Name)
			if hk.Want(id) {
				tasks = append(tasks, schedTask{id, s, z, i})
			}
		}
	}
	// one node per worker: JobSchedule holds the cron read lock for the whole scan and a
	// waiting AddJob (write lock) would serialise the workers of a shared node
	ch := make(chan func(n *hk.HNode), 64)
	var wg sync.WaitGroup
	for k := 0; k < runtime.NumCPU(); k++ {
		wn := node
		if k > 0 {
			gateEnter() // no node start / stop while the firing family watches a boundary
			n, err := hk.StartNode(hk.NodeCfg{Name: hk.UniqueName("c20w"), Network: false})
			gateLeave()
			if err != nil {
				continue
			}
			wn = n
		}
		wg.Add(1)
		go func() {
			defer wg.Done()
			for f := range ch {
				gateEnter()
				f(wn)
				gateLeave()
			}
			if wn != node {
				gateEnter()
				wn.StopForce()
				gateLeave()
			}
		}()
	}
	for _, t := range tasks {
		t := t
		ch <- func(n *hk.HNode) { runScheduleTask(n, t) }
	}
	for _, m := range []string{"@hourly", "@daily", "@monthly", "@weekly"} {
		for _, z := range zones {
			m, z := m, z
			ch <- func(n *hk.HNode) { runMacroTask(n, m, z) }
		}
	}
	ng := hk.Pick(6, 40)
	for g := 0; g < ng; g++ {
		g := g
		gs := []string{specs[(g*4)%len(specs)], specs[(g*4+1)%len(specs)], specs[(g*4+2)%len(specs)], specs[(g*4+3)%len(specs)]}
		ch <- func(*hk.HNode) { runMultiTask(g, gs) }
	}
	close(ch)
	wg.Wait()
	hk.Stat("schedule_minutes_compared", statMinutes.Load())
	hk.Stat("schedule_run_times_reported", statReported.Load())
	hk.Stat("schedule_ambiguous_minutes_not_judged", statAmbig.Load())
	hk.Stat("schedule_reported_outside_window_but_matching", statOutside.Load())
}

func main() {
	t0 := time.Now()
	hk.Rule("grammar: seeded valid specs (every field form per field directed, lists <= 3, L, dL, d#n, steps, ranges, macros, blank/tab runs) and malformed ones by mutation class; non-trivial iff >= 2 restricted fields (valid) or a malformed class (invalid); " +
		"schedule: spec x zone, JobSchedule/Schedule compared minute by minute with the civil-calendar reference over windows containing every month end of 2024-2027, Feb 29, +-8 days around every offset change and one whole year (quick) or the whole years 2024-2027 in 10 zones (thorough); non-trivial iff >= 2 restricted fields and >= 1 run time was reported; distinct = field forms x zone; " +
		"firing: wall-clock derived jobs added before the node's first tick (batch fresh) and after it (batch warm), state changes across ticks, two (quick) or three (thorough) minute boundaries; non-trivial iff >= 1 boundary of the job's batch was crossed and observed")
	hk.Assume("a local wall-clock minute that does not exist (spring-forward gap) never matches; a local minute that occurs twice (fall-back overlap) is not judged at either instant: crontab implementations differ there (Vixie runs fixed-time jobs once, wildcard jobs twice)")
	hk.Assume("weekday numbers 1..7 with 7 = Sunday as documented in node/cron_parse.go; weekday 0, month/day names, steps on month ranges / weekdays, steps larger than the field, zero padded numbers, n/step, ?, W, L-n, @yearly & co are not judged (recorded in the note undecided_specs_implementation_choice)")
	hk.Assume("a day field made of */n together with a restricted weekday is not generated: Vixie cron treats it as a star field (AND), the OR rule applies otherwise")
	hk.Assume("macros: the time of day / day a macro expands to is the implementation's choice; asserted is that the macro is accepted and equals a fixed-time spec of its family inferred from its first run time")
	hk.Assume("zone data: Go's embedded time/tzdata; the reference takes UTC offsets and their bounds from it (Time.Zone, ZoneBounds) and nothing else")
	if err := selfCheck(); err != nil {
		fmt.Fprintln(os.Stderr, err)
		os.Exit(3)
	}
	if err := loadZones(); err != nil {
		fmt.Fprintln(os.Stderr, err)
		os.Exit(3)
	}
	work, err := hk.StartNode(hk.NodeCfg{Name: hk.UniqueName("c20"), Network: false})
	if err != nil {
		fmt.Fprintln(os.Stderr, "start node:", err)
		os.Exit(3)
	}
	// C20_PHASES (development aid): subset of "gsf"; default all
	phases := os.Getenv("C20_PHASES")
	if phases == "" {
		phases = "gsf"
	}
	// the firing family runs beside the other two (they share the waiting for the minute boundaries)
	fdone := make(chan float64, 1)
	if strings.Contains(phases, "f") {
		go func() {
			tf := time.Now()
			runFiring()
			fdone <- time.Since(tf).Seconds()
		}()
	} else {
		fdone <- 0
	}
	if strings.Contains(phases, "g") {
		gateEnter()
		runGrammar(work)
		gateLeave()
	}
	tg := time.Now()
	if strings.Contains(phases, "s") {
		runSchedule(work)
	}
	ts := time.Now()
	fsec := <-fdone
	hk.Note("wall_seconds", map[string]any{"grammar": tg.Sub(t0).Seconds(), "schedule": ts.Sub(tg).Seconds(), "firing_parallel": fsec, "total": time.Since(t0).Seconds()})
	if n := len(work.Cap.PanicLines()); n > 0 {
		hk.Note("framework_panic_log_lines", work.Cap.PanicLines())
	}
	os.Stdout.Sync()
	os.Exit(0)
}
