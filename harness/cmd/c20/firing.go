package main

// family (c): firing.  Jobs computed from the wall clock on a warm node (its
// first tick is past) and on a node started a moment ago.  The verdict uses
// only the actionTime values the scheduler passed to the actions; wall-clock
// waits are watchdogs (expiry = inconclusive).

import (
	"fmt"
	"os"
	"runtime"
	"sort"
	"strings"
	"time"

	"ergo.services/ergo/gen"

	"verif/harness/actors"
	"verif/harness/hk"
)

const (
	modeOn          = "on"
	modeDisabled    = "disabled"     // added, then DisableJob
	modeRemoved     = "removed"      // added, then RemoveJob
	modeReenabled   = "reenabled"    // added, DisableJob, EnableJob
	modeLateDisable = "late-disable" // DisableJob after the first boundary
	modeLateEnable  = "late-enable"  // added + disabled; EnableJob after the first boundary
	modeLateRemove  = "late-remove"  // RemoveJob after the first boundary
	modeLateAdd     = "late-add"     // AddJob after the first boundary
	// warm node only: added when the node started (before its first tick) ...
	modePreEnable  = "pre-enable"  // ... and disabled at once; EnableJob during the set-up
	modePreDisable = "pre-disable" // ... left running; DisableJob during the set-up (it is in the spool by then)
	modePreRemove  = "pre-remove"  // ... left running; RemoveJob during the set-up
)

var preJobs = []*fjob{
	{kind: "pre-enable", spec: "* * * * *", loc: time.UTC, mode: modePreEnable},
	{kind: "pre-disable", spec: "* * * * *", loc: time.UTC, mode: modePreDisable},
	{kind: "pre-remove", spec: "* * * * *", loc: time.UTC, mode: modePreRemove},
}

var warmRec = &recorder{}
var warmPreErr = map[string]error{}

// prepWarm adds the pre-* jobs right after the warm node started
func prepWarm(warm *hk.HNode) {
	if !firingWanted() {
		return
	}
	cron := warm.Cron()
	for _, j := range preJobs {
		j.rs, _ = refParse(j.spec)
		name := gen.Atom(j.kind)
		err, p := safeAddJob(cron, gen.CronJob{Name: name, Spec: j.spec, Location: j.loc, Action: recAction{warmRec}})
		if p != "" {
			err = fmt.Errorf("panic: %s", p)
		}
		if err == nil && j.mode == modePreEnable {
			err = cron.DisableJob(name)
		}
		if err != nil {
			warmPreErr[j.kind] = err
		}
	}
}

type fjob struct {
	kind string
	spec string
	loc  *time.Location
	mode string
	msg  bool
	rs   *refSpec
}

func (j *fjob) active(k int) bool {
	switch j.mode {
	case modeOn, modeReenabled, modePreEnable:
		return true
	case modeLateDisable, modeLateRemove:
		return k == 0
	case modeLateEnable, modeLateAdd:
		return k >= 1
	}
	return false
}

type fnode struct {
	label         string
	node          *hk.HNode
	rec           *recorder
	probe         gen.PID
	inst          *actors.Inst
	nextZeroAtAdd bool
	wrongNode     int
	jobs          []*fjob
	addErr        map[string]error
}

func mustLoc(name string) *time.Location {
	l, err := time.LoadLocation(name)
	if err != nil {
		panic(err)
	}
	return l
}

func exactSpec(u int64, loc *time.Location) string {
	_, mo, d, h, mi, _, _ := civilOf(u, loc)
	return fmt.Sprintf("%d %d %d %d *", mi, h, d, mo)
}

func buildJobs(b []int64) []*fjob {
	kol, cha, ber := mustLoc("Asia/Kolkata"), mustLoc("Pacific/Chatham"), mustLoc("Europe/Berlin")
	ny, lh := mustLoc("America/New_York"), mustLoc("Australia/Lord_Howe")
	b0 := b[0]
	_, _, dBer, _, _, wdBer, _ := civilOf(b0, ber)
	_, _, dLh, _, _, wdLh, _ := civilOf(b0, lh)
	_, moU, _, _, miU, _, _ := civilOf(b0, time.UTC)
	_, _, _, hKol, _, _, _ := civilOf(b0, kol)
	_, _, dNy, _, _, wdNy, _ := civilOf(b0, ny)
	_ = dNy
	otherDay := dLh%28 + 1
	jobs := []*fjob{
		{kind: "coming-minute", spec: exactSpec(b0, kol), loc: kol, mode: modeOn},
		{kind: "minute-after", spec: exactSpec(b0+60, cha), loc: cha, mode: modeOn},
		{kind: "every-minute", spec: "* * * * *", loc: time.UTC, mode: modeOn},
		{kind: "jan1-0000-monday", spec: "0 0 1 1 1", loc: time.UTC, mode: modeOn},
		{kind: "disabled", spec: "* * * * *", loc: lh, mode: modeDisabled},
		{kind: "removed", spec: "* * * * *", loc: ber, mode: modeRemoved},
		{kind: "disabled-then-enabled", spec: "* * * * *", loc: ny, mode: modeReenabled},
		{kind: "every-minute-msg", spec: "* * * * *", loc: ny, mode: modeOn, msg: true},
		{kind: "coming-minute-msg", spec: exactSpec(b0, ber), loc: ber, mode: modeOn, msg: true},
		{kind: "weekday-today", spec: fmt.Sprintf("* * * * %d", wdBer), loc: ber, mode: modeOn},
		{kind: "weekday-other", spec: fmt.Sprintf("* * * * %d", wdBer%7+1), loc: ber, mode: modeOn},
		{kind: "dom-or-dow", spec: fmt.Sprintf("* * %d * %d", otherDay, wdLh), loc: lh, mode: modeOn},
		{kind: "dom-dow-both-miss", spec: fmt.Sprintf("* * %d * %d", otherDay, (wdLh+2)%7+1), loc: lh, mode: modeOn},
		{kind: "minute-list", spec: fmt.Sprintf("%d,%d,%d * * * *", (miU+31)%60, miU, (miU+7)%60), loc: time.UTC, mode: modeOn},
		{kind: "minute-range-step", spec: fmt.Sprintf("%d-59/7 * * * *", miU%7), loc: time.UTC, mode: modeOn},
		{kind: "minute-star-step", spec: "*/2 * * * *", loc: time.UTC, mode: modeOn},
		{kind: "hour-other", spec: fmt.Sprintf("* %d * * *", (hKol+5)%24), loc: kol, mode: modeOn},
		{kind: "last-day-of-month", spec: "* * L * *", loc: time.UTC, mode: modeOn},
		{kind: "nth-weekday", spec: fmt.Sprintf("* * * * %d#%d", wdBer, (dBer-1)/7+1), loc: ber, mode: modeOn},
		{kind: "last-weekday", spec: fmt.Sprintf("* * * * %dL", wdNy), loc: ny, mode: modeOn},
		{kind: "month-other", spec: fmt.Sprintf("* * * %d *", moU%12+1), loc: time.UTC, mode: modeOn},
	}
	if len(b) > 1 {
		jobs = append(jobs,
			&fjob{kind: "late-disable", spec: "* * * * *", loc: kol, mode: modeLateDisable},
			&fjob{kind: "late-enable", spec: "* * * * *", loc: cha, mode: modeLateEnable},
			&fjob{kind: "late-remove", spec: "* * * * *", loc: ber, mode: modeLateRemove},
			&fjob{kind: "late-add-every", spec: "* * * * *", loc: lh, mode: modeLateAdd},
			&fjob{kind: "late-add-exact-last", spec: exactSpec(b[len(b)-1], cha), loc: cha, mode: modeLateAdd},
		)
	}
	for _, j := range jobs {
		rs, cls := refParse(j.spec)
		if cls != clsValid {
			fmt.Fprintf(os.Stderr, "harness: firing spec %q is %s\n", j.spec, cls)
			rs = nil
		}
		j.rs = rs
	}
	return jobs
}

func (fn *fnode) action(j *fjob) gen.CronAction {
	if j.msg {
		return gen.CreateCronActionMessage(fn.probe, gen.MessagePriorityNormal)
	}
	return recAction{fn.rec}
}

func (fn *fnode) setup(b []int64) error {
	fn.rec = &recorder{}
	fn.addErr = map[string]error{}
	if fn.label == "warm" {
		fn.rec = warmRec
		for k, e := range warmPreErr {
			fn.addErr[k] = e
		}
	}
	factory, inst := actors.NewProbe("cron-probe-"+fn.label, &actors.Hooks{
		Msg: func(p *actors.Probe, from gen.PID, msg any) error {
			if m, ok := msg.(gen.MessageCron); ok {
				if m.Node != fn.node.Name() {
					fn.wrongNode++
				}
				fn.rec.add(m.Job, m.Time)
			}
			return nil
		},
	})
	pid, err := fn.node.Spawn(factory, gen.ProcessOptions{})
	if err != nil {
		return err
	}
	fn.probe, fn.inst = pid, inst
	fn.jobs = buildJobs(b)
	cron := fn.node.Cron()
	fn.nextZeroAtAdd = cron.Info().Next.IsZero()
	if fn.label == "warm" {
		fn.jobs = append(fn.jobs, preJobs...)
	}
	for _, j := range fn.jobs {
		if j.rs == nil || j.mode == modeLateAdd {
			continue
		}
		name := gen.Atom(j.kind)
		if fn.addErr[j.kind] != nil {
			continue
		}
		switch j.mode {
		case modePreEnable:
			if err := cron.EnableJob(name); err != nil {
				fn.addErr[j.kind] = err
			}
			continue
		case modePreDisable:
			if err := cron.DisableJob(name); err != nil {
				fn.addErr[j.kind] = err
			}
			continue
		case modePreRemove:
			if err := cron.RemoveJob(name); err != nil {
				fn.addErr[j.kind] = err
			}
			continue
		}
		if err, p := safeAddJob(cron, gen.CronJob{Name: name, Spec: j.spec, Location: j.loc, Action: fn.action(j)}); err != nil || p != "" {
			if p != "" {
				err = fmt.Errorf("panic: %s", p)
			}
			fn.addErr[j.kind] = err
			continue
		}
		switch j.mode {
		case modeDisabled, modeLateEnable:
			fn.addErr[j.kind] = cron.DisableJob(name)
		case modeRemoved:
			fn.addErr[j.kind] = cron.RemoveJob(name)
		case modeReenabled:
			if err := cron.DisableJob(name); err != nil {
				fn.addErr[j.kind] = err
			} else {
				fn.addErr[j.kind] = cron.EnableJob(name)
			}
		}
		if fn.addErr[j.kind] == nil {
			delete(fn.addErr, j.kind)
		}
	}
	return nil
}

func (fn *fnode) lateOps() {
	cron := fn.node.Cron()
	for _, j := range fn.jobs {
		if j.rs == nil {
			continue
		}
		name := gen.Atom(j.kind)
		var err error
		switch j.mode {
		case modeLateDisable:
			err = cron.DisableJob(name)
		case modeLateEnable:
			err = cron.EnableJob(name)
		case modeLateRemove:
			err = cron.RemoveJob(name)
		case modeLateAdd:
			var p string
			err, p = safeAddJob(cron, gen.CronJob{Name: name, Spec: j.spec, Location: j.loc, Action: fn.action(j)})
			if p != "" {
				err = fmt.Errorf("panic: %s", p)
			}
		}
		if err != nil {
			fn.addErr[j.kind] = err
		}
	}
}

func goroutineFloor() int {
	m := runtime.NumGoroutine()
	for i := 0; i < 40; i++ {
		time.Sleep(time.Millisecond)
		if n := runtime.NumGoroutine(); n < m {
			m = n
		}
	}
	return m
}

func firingWanted() bool {
	o := hk.Only()
	return o == "" || strings.HasPrefix(o, "F/")
}

func runFiring(warm *hk.HNode) {
	if !firingWanted() {
		return
	}
	nb := hk.Pick(1, 3)
	inconclusiveAll := func(why string) {
		hk.Emit(hk.Case{ID: "F/all", Scenario: "firing", Verdict: hk.Inconclusive, What: why})
	}
	// the warm node must have had its first tick
	if !hk.WaitUntil(80*time.Second, func() bool { return !warm.Cron().Info().Next.IsZero() }) {
		inconclusiveAll("watchdog: the warm node never ticked (Info().Next still zero after 80 s)")
		return
	}
	// leave room for the set-up before the boundary
	if s := time.Now().Second(); s >= 45 {
		time.Sleep(time.Duration(61-s) * time.Second)
	}
	start := time.Now()
	if !hk.WaitUntil(10*time.Second, func() bool { return warm.Cron().Info().Next.After(start) }) {
		inconclusiveAll("watchdog: the warm node's scheduler is behind the wall clock")
		return
	}
	b0 := start.Truncate(time.Minute).Add(time.Minute)
	var b []int64
	for k := 0; k < nb; k++ {
		b = append(b, b0.Unix()+int64(60*k))
	}
	cold, err := hk.StartNode(hk.NodeCfg{Name: hk.UniqueName("c20cold"), Network: false})
	if err != nil {
		inconclusiveAll("start node: " + err.Error())
		return
	}
	nodes := []*fnode{{label: "warm", node: warm}, {label: "fresh", node: cold}}
	for _, fn := range nodes {
		if err := fn.setup(b); err != nil {
			inconclusiveAll("set-up: " + err.Error())
			return
		}
	}
	if !time.Now().Before(b0.Add(-2 * time.Second)) {
		inconclusiveAll("set-up was not finished 2 s before the minute boundary")
		return
	}
	hk.Note("firing_setup", map[string]any{"first_boundary": b0.UTC().Format(time.RFC3339), "boundaries": nb,
		"warm_next_zero_at_add": nodes[0].nextZeroAtAdd, "fresh_next_zero_at_add": nodes[1].nextZeroAtAdd})
	floor := goroutineFloor()
	crossed := 0
	why := ""
	for k := 0; k < nb; k++ {
		bk := time.Unix(b[k], 0)
		wait := time.Until(bk) + 30*time.Second
		ok := hk.WaitUntil(wait, func() bool {
			if time.Now().Before(bk.Add(-300 * time.Millisecond)) {
				// keep lowering the quiescence floor while nothing is due
				if n := runtime.NumGoroutine(); n < floor {
					floor = n
				}
				return false
			}
			for _, fn := range nodes {
				if !fn.node.Cron().Info().Next.After(bk) {
					return false
				}
			}
			return true
		})
		if !ok {
			why = fmt.Sprintf("watchdog: a scheduler did not pass the boundary %s within 30 s of it", bk.UTC().Format(time.RFC3339))
			break
		}
		// every due job has been popped and its action goroutine created; wait until they are gone
		if !hk.WaitUntil(15*time.Second, func() bool {
			return runtime.NumGoroutine() <= floor && nodes[0].inst.Quiet() && nodes[1].inst.Quiet()
		}) {
			why = fmt.Sprintf("watchdog: action goroutines did not drain (goroutines %d > floor %d)", runtime.NumGoroutine(), floor)
			break
		}
		crossed++
		if k == 0 && nb > 1 {
			for _, fn := range nodes {
				fn.lateOps()
			}
			if !time.Now().Before(time.Unix(b[1], 0).Add(-2 * time.Second)) {
				why = "late operations were not finished 2 s before the second boundary"
				break
			}
			floor = goroutineFloor()
		}
	}
	// stop everything that could still fire
	for _, fn := range nodes {
		for _, j := range fn.jobs {
			fn.node.Cron().RemoveJob(gen.Atom(j.kind))
		}
	}
	for _, fn := range nodes {
		evaluateFiring(fn, b, crossed, why)
	}
	cold.StopForce()
}

func evaluateFiring(fn *fnode, b []int64, crossed int, why string) {
	last := int64(-1)
	if crossed > 0 {
		last = b[crossed-1]
	}
	obs := map[string]map[int64]int{}
	var unaligned int
	for _, f := range fn.rec.list() {
		u := f.ATime.Unix()
		if u%60 != 0 || f.ATime.Nanosecond() != 0 {
			unaligned++
		}
		m := floorDiv(u, 60) * 60
		if m > last {
			continue // beyond the observed horizon
		}
		if m < b[0] && strings.HasPrefix(string(f.Job), "pre-") {
			continue // the pre-* jobs of the warm node ran before the observed boundaries by design
		}
		k := string(f.Job)
		if obs[k] == nil {
			obs[k] = map[int64]int{}
		}
		obs[k][m]++
	}
	fmtM := func(l []int64) []string {
		var r []string
		for _, u := range l {
			r = append(r, time.Unix(u, 0).UTC().Format("2006-01-02T15:04Z"))
		}
		return r
	}
	var dups int64
	for _, j := range fn.jobs {
		id := fmt.Sprintf("F/%s/%s", fn.label, j.kind)
		if !hk.Want(id) || j.rs == nil {
			continue
		}
		c := hk.Case{ID: id, Scenario: "firing", Key: id}
		det := map[string]any{"spec": j.spec, "zone": j.loc.String(), "mode": j.mode, "message_action": j.msg,
			"next_zero_when_added": fn.nextZeroAtAdd, "boundaries_crossed": crossed}
		c.Detail = det
		if e := fn.addErr[j.kind]; e != nil {
			c.Verdict = hk.Violated
			c.Sig = "firing-job-api-error/" + j.mode
			c.What = fmt.Sprintf("AddJob/EnableJob/DisableJob/RemoveJob for %q failed: %v", j.spec, e)
			hk.Emit(c)
			continue
		}
		if crossed == 0 {
			c.Verdict = hk.Inconclusive
			c.What = why
			hk.Emit(c)
			continue
		}
		var exp, got, missing, extra []int64
		for k := 0; k < crossed; k++ {
			if j.active(k) && j.rs.matchInstant(b[k], j.loc) {
				exp = append(exp, b[k])
			}
		}
		for m, n := range obs[j.kind] {
			got = append(got, m)
			if n > 1 {
				dups += int64(n - 1)
			}
		}
		sort.Slice(got, func(i, k int) bool { return got[i] < got[k] })
		in := func(l []int64, v int64) bool {
			for _, x := range l {
				if x == v {
					return true
				}
			}
			return false
		}
		for _, e := range exp {
			if !in(got, e) {
				missing = append(missing, e)
			}
		}
		for _, g := range got {
			if !in(exp, g) {
				extra = append(extra, g)
			}
		}
		c.Events = int64(len(got) + crossed)
		c.Nontrivial = crossed >= 1
		det["expected"] = fmtM(exp)
		det["fired"] = fmtM(got)
		if len(missing)+len(extra) > 0 {
			c.Verdict = hk.Violated
			onlyFirst := true
			for _, u := range append(append([]int64{}, missing...), extra...) {
				if u != b[0] {
					onlyFirst = false
				}
			}
			switch {
			case fn.nextZeroAtAdd && onlyFirst && j.mode != modeLateAdd && !strings.HasPrefix(j.mode, "pre-"):
				// job added while Cron.Info().Next was the zero time; wrong only at the node's first tick
				c.Sig = "next-zero-at-start"
			case len(extra) > 0 && (j.mode == modeDisabled || j.mode == modeLateDisable || j.mode == modePreDisable):
				c.Sig = "disabled-job-fired"
			case len(extra) > 0 && (j.mode == modeRemoved || j.mode == modeLateRemove || j.mode == modePreRemove):
				c.Sig = "removed-job-fired"
			case len(extra) > 0:
				c.Sig = "fired-at-non-matching-minute/" + j.kind
			default:
				c.Sig = "matching-minute-not-fired/" + j.kind
			}
			c.What = fmt.Sprintf("%s node, job %q (%s, %s): not fired at %v, fired though not due at %v", fn.label, j.spec, j.loc, j.mode, fmtM(missing), fmtM(extra))
		}
		if why != "" && c.Verdict != hk.Violated && crossed < len(b) {
			det["note"] = "only " + fmt.Sprint(crossed) + " boundaries judged: " + why
		}
		hk.Emit(c)
	}
	hk.Stat("firing_duplicate_runs_in_one_minute", dups)
	hk.Stat("firing_action_times_not_minute_aligned", int64(unaligned))
	if fn.wrongNode > 0 {
		hk.Stat("firing_messagecron_wrong_node_field", int64(fn.wrongNode))
	}
}
