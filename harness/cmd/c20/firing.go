package main

// family (c): firing.  One node, started with the program.  Jobs computed from
// the wall clock are added in batches: batch "fresh" before the node's first
// tick, batch "warm" right after the first observed minute boundary (thorough:
// one more after the second).  Every batch contains jobs whose state is changed
// ACROSS a tick (disabled -> tick -> enabled, enabled -> tick -> disabled /
// removed, added late ...).  The verdict uses only the actionTime values the
// scheduler passed to the actions; wall-clock waits are watchdogs (expiry =
// inconclusive).  The family runs beside the grammar / schedule families and
// pauses their workers around each boundary (gate) so that the goroutine count
// is a usable quiescence signal.

import (
	"fmt"
	"os"
	"runtime"
	"sort"
	"strings"
	"sync"
	"time"

	"ergo.services/ergo/gen"

	"verif/harness/actors"
	"verif/harness/hk"
)

const (
	modeOn          = "on"
	modeDisabled    = "disabled"            // added, then DisableJob
	modeRemoved     = "removed"             // added, then RemoveJob
	modeReenabled   = "reenabled"           // added, DisableJob, EnableJob (no tick between)
	modeLateDisable = "late-disable"        // enabled over one boundary, then DisableJob
	modeLateEnable  = "late-enable"         // added + disabled, one boundary passes while disabled, then EnableJob
	modeLateRemove  = "late-remove"         // enabled over one boundary, then RemoveJob
	modeLateAdd     = "late-add"            // AddJob only after the batch's first boundary
	modeLateEnDis   = "late-enable-disable" // added + disabled, boundary, EnableJob + DisableJob: never runs
	modeLateDisEn   = "late-disable-enable" // enabled, boundary, DisableJob + EnableJob: runs at every boundary
)

type fjob struct {
	kind  string
	batch string // fresh | warm | warm2
	phase int    // index of the first boundary the batch can see
	spec  string
	loc   *time.Location
	mode  string
	msg   bool
	rs    *refSpec

	nextZero bool // Cron.Info().Next was the zero time when the job was added
	err      error
}

func (j *fjob) name() gen.Atom { return gen.Atom(j.batch + "-" + j.kind) }

// active: is the job present and enabled at boundary k
func (j *fjob) active(k int) bool {
	kk := k - j.phase
	if kk < 0 {
		return false
	}
	switch j.mode {
	case modeOn, modeReenabled, modeLateDisEn:
		return true
	case modeLateDisable, modeLateRemove:
		return kk == 0
	case modeLateEnable, modeLateAdd:
		return kk >= 1
	}
	return false
}

// ---------- gate: pauses the workers of the other families around a boundary ----------

var gate = struct {
	mu     sync.Mutex
	cond   *sync.Cond
	paused bool
	active int
}{}

func init() { gate.cond = sync.NewCond(&gate.mu) }

func gateEnter() {
	gate.mu.Lock()
	for gate.paused {
		gate.cond.Wait()
	}
	gate.active++
	gate.mu.Unlock()
}

func gateLeave() {
	gate.mu.Lock()
	gate.active--
	gate.mu.Unlock()
}

// gatePause stops new tasks and waits (watchdog d) until the running ones are done
func gatePause(d time.Duration) bool {
	gate.mu.Lock()
	gate.paused = true
	gate.mu.Unlock()
	return hk.WaitUntil(d, func() bool {
		gate.mu.Lock()
		defer gate.mu.Unlock()
		return gate.active == 0
	})
}

func gateResume() {
	gate.mu.Lock()
	gate.paused = false
	gate.cond.Broadcast()
	gate.mu.Unlock()
}

// ---------- jobs ----------

func mustLoc(name string) *time.Location {
	l, err := time.LoadLocation(name)
	if err != nil {
		panic(err)
	}
	return l
}

func exactSpec(u int64, loc *time.Location) string {
	_, mo, d, h, mi, _, _ := civilOf(u, loc)
	return fmt.Sprintf("%d %d %d %d *", mi, h, d, mo)
}

// buildJobs: the batch that is added before boundary b[0]; b[1:] are the later boundaries it can see
func buildJobs(batch string, phase int, b []int64) []*fjob {
	kol, cha, ber := mustLoc("Asia/Kolkata"), mustLoc("Pacific/Chatham"), mustLoc("Europe/Berlin")
	ny, lh := mustLoc("America/New_York"), mustLoc("Australia/Lord_Howe")
	b0 := b[0]
	_, _, dBer, _, _, wdBer, _ := civilOf(b0, ber)
	_, _, dLh, _, _, wdLh, _ := civilOf(b0, lh)
	_, moU, _, _, miU, _, _ := civilOf(b0, time.UTC)
	_, _, _, hKol, _, _, _ := civilOf(b0, kol)
	_, _, _, _, _, wdNy, _ := civilOf(b0, ny)
	otherDay := dLh%28 + 1
	jobs := []*fjob{
		{kind: "coming-minute", spec: exactSpec(b0, kol), loc: kol, mode: modeOn},
		{kind: "minute-after", spec: exactSpec(b0+60, cha), loc: cha, mode: modeOn},
		{kind: "every-minute", spec: "* * * * *", loc: time.UTC, mode: modeOn},
		{kind: "jan1-0000-monday", spec: "0 0 1 1 1", loc: time.UTC, mode: modeOn},
		{kind: "disabled", spec: "* * * * *", loc: lh, mode: modeDisabled},
		{kind: "removed", spec: "* * * * *", loc: ber, mode: modeRemoved},
		{kind: "disabled-then-enabled", spec: "* * * * *", loc: ny, mode: modeReenabled},
		{kind: "every-minute-msg", spec: "* * * * *", loc: ny, mode: modeOn, msg: true},
		{kind: "coming-minute-msg", spec: exactSpec(b0, ber), loc: ber, mode: modeOn, msg: true},
		{kind: "weekday-today", spec: fmt.Sprintf("* * * * %d", wdBer), loc: ber, mode: modeOn},
		{kind: "weekday-other", spec: fmt.Sprintf("* * * * %d", wdBer%7+1), loc: ber, mode: modeOn},
		{kind: "dom-or-dow", spec: fmt.Sprintf("* * %d * %d", otherDay, wdLh), loc: lh, mode: modeOn},
		{kind: "dom-dow-both-miss", spec: fmt.Sprintf("* * %d * %d", otherDay, (wdLh+2)%7+1), loc: lh, mode: modeOn},
		{kind: "minute-list", spec: fmt.Sprintf("%d,%d,%d * * * *", (miU+31)%60, miU, (miU+7)%60), loc: time.UTC, mode: modeOn},
		{kind: "minute-range-step", spec: fmt.Sprintf("%d-59/7 * * * *", miU%7), loc: time.UTC, mode: modeOn},
		{kind: "minute-star-step", spec: "*/2 * * * *", loc: time.UTC, mode: modeOn},
		{kind: "hour-other", spec: fmt.Sprintf("* %d * * *", (hKol+5)%24), loc: kol, mode: modeOn},
		{kind: "last-day-of-month", spec: "* * L * *", loc: time.UTC, mode: modeOn},
		{kind: "nth-weekday", spec: fmt.Sprintf("* * * * %d#%d", wdBer, (dBer-1)/7+1), loc: ber, mode: modeOn},
		{kind: "last-weekday", spec: fmt.Sprintf("* * * * %dL", wdNy), loc: ny, mode: modeOn},
		{kind: "month-other", spec: fmt.Sprintf("* * * %d *", moU%12+1), loc: time.UTC, mode: modeOn},
	}
	if len(b) > 1 {
		// state changes across the tick of b[0]; judged at b[1]...
		jobs = append(jobs,
			&fjob{kind: "late-disable", spec: "* * * * *", loc: kol, mode: modeLateDisable},
			&fjob{kind: "late-disable-msg", spec: "* * * * *", loc: ber, mode: modeLateDisable, msg: true},
			&fjob{kind: "late-enable", spec: "* * * * *", loc: cha, mode: modeLateEnable},
			&fjob{kind: "late-enable-exact", spec: exactSpec(b[1], ny), loc: ny, mode: modeLateEnable},
			&fjob{kind: "late-enable-msg", spec: "* * * * *", loc: kol, mode: modeLateEnable, msg: true},
			&fjob{kind: "late-remove", spec: "* * * * *", loc: ber, mode: modeLateRemove},
			&fjob{kind: "late-enable-disable", spec: "* * * * *", loc: lh, mode: modeLateEnDis},
			&fjob{kind: "late-disable-enable", spec: "* * * * *", loc: time.UTC, mode: modeLateDisEn},
			&fjob{kind: "late-add-every", spec: "* * * * *", loc: lh, mode: modeLateAdd},
			&fjob{kind: "late-add-exact-last", spec: exactSpec(b[len(b)-1], cha), loc: cha, mode: modeLateAdd},
		)
	}
	for _, j := range jobs {
		j.batch, j.phase = batch, phase
		rs, cls := refParse(j.spec)
		if cls != clsValid {
			fmt.Fprintf(os.Stderr, "harness: firing spec %q is %s\n", j.spec, cls)
			rs = nil
		}
		j.rs = rs
	}
	return jobs
}

type fnode struct {
	node      *hk.HNode
	rec       *recorder
	probe     gen.PID
	inst      *actors.Inst
	wrongNode int
	jobs      []*fjob
}

func (fn *fnode) action(j *fjob) gen.CronAction {
	if j.msg {
		return gen.CreateCronActionMessage(fn.probe, gen.MessagePriorityNormal)
	}
	return recAction{fn.rec}
}

func (fn *fnode) spawnProbe() error {
	fn.rec = &recorder{}
	factory, inst := actors.NewProbe("cron-probe", &actors.Hooks{
		Msg: func(p *actors.Probe, from gen.PID, msg any) error {
			if m, ok := msg.(gen.MessageCron); ok {
				if m.Node != fn.node.Name() {
					fn.wrongNode++
				}
				fn.rec.add(m.Job, m.Time)
			}
			return nil
		},
	})
	pid, err := fn.node.Spawn(factory, gen.ProcessOptions{})
	if err != nil {
		return err
	}
	fn.probe, fn.inst = pid, inst
	return nil
}

func (fn *fnode) add(j *fjob) error {
	cron := fn.node.Cron()
	j.nextZero = cron.Info().Next.IsZero()
	err, p := safeAddJob(cron, gen.CronJob{Name: j.name(), Spec: j.spec, Location: j.loc, Action: fn.action(j)})
	if p != "" {
		err = fmt.Errorf("panic: %s", p)
	}
	return err
}

// ops performs the operations due at point p: p = 0 before the first boundary,
// p = k+1 after boundary k has been observed.
func (fn *fnode) ops(p int) {
	cron := fn.node.Cron()
	first := func(errs ...error) error {
		for _, e := range errs {
			if e != nil {
				return e
			}
		}
		return nil
	}
	for _, j := range fn.jobs {
		if j.rs == nil || j.err != nil {
			continue
		}
		n := j.name()
		switch {
		case j.phase == p: // the batch's set-up
			if j.mode == modeLateAdd {
				continue
			}
			if j.err = fn.add(j); j.err != nil {
				continue
			}
			switch j.mode {
			case modeDisabled, modeLateEnable, modeLateEnDis:
				j.err = cron.DisableJob(n)
			case modeRemoved:
				j.err = cron.RemoveJob(n)
			case modeReenabled:
				j.err = first(cron.DisableJob(n), cron.EnableJob(n))
			}
		case j.phase == p-1: // one boundary of the batch has passed
			switch j.mode {
			case modeLateDisable:
				j.err = cron.DisableJob(n)
			case modeLateEnable:
				j.err = cron.EnableJob(n)
			case modeLateRemove:
				j.err = cron.RemoveJob(n)
			case modeLateAdd:
				j.err = fn.add(j)
			case modeLateEnDis:
				j.err = first(cron.EnableJob(n), cron.DisableJob(n))
			case modeLateDisEn:
				j.err = first(cron.DisableJob(n), cron.EnableJob(n))
			}
		}
	}
}

func firingWanted() bool {
	o := hk.Only()
	return o == "" || strings.HasPrefix(o, "F/")
}

var batchNames = []string{"fresh", "warm", "warm2"}

// runFiring runs beside the other families (see gate)
func runFiring() {
	if !firingWanted() {
		return
	}
	nb := hk.Pick(2, 3)
	lead := time.Duration(hk.Pick(12, 45)) * time.Second // the other families stop taking tasks this long before a boundary
	inconclusiveAll := func(why string) {
		hk.Emit(hk.Case{ID: "F/all", Scenario: "firing", Verdict: hk.Inconclusive, What: why})
	}
	// leave room for the set-up before the boundary
	if s := time.Now().Second(); s >= 53 {
		time.Sleep(time.Duration(61-s) * time.Second)
	}
	start := time.Now()
	b0 := start.Truncate(time.Minute).Add(time.Minute)
	var b []int64
	for k := 0; k < nb; k++ {
		b = append(b, b0.Unix()+int64(60*k))
	}
	// the node is started now: the first batch is added before its first tick
	gateEnter()
	node, err := hk.StartNode(hk.NodeCfg{Name: hk.UniqueName("c20fire"), Network: false})
	gateLeave()
	if err != nil {
		inconclusiveAll("start node: " + err.Error())
		return
	}
	fn := &fnode{node: node}
	if err := fn.spawnProbe(); err != nil {
		inconclusiveAll("set-up: " + err.Error())
		return
	}
	// batches: batch p is added at point p and sees the boundaries b[p:]; the last boundary gets no batch of its own
	// in thorough (three boundaries: fresh, warm, warm2 would need a fourth) - every batch sees >= 1 boundary
	for p := 0; p < nb && p < len(batchNames); p++ {
		fn.jobs = append(fn.jobs, buildJobs(batchNames[p], p, b[p:])...)
	}
	fn.ops(0)
	if !time.Now().Before(b0.Add(-2 * time.Second)) {
		inconclusiveAll("set-up was not finished 2 s before the minute boundary")
		return
	}
	hk.Note("firing_setup", map[string]any{"first_boundary": b0.UTC().Format(time.RFC3339), "boundaries": nb, "jobs": len(fn.jobs),
		"next_zero_at_first_add": fn.jobs[0].nextZero})
	crossed := 0
	why := ""
	for k := 0; k < nb; k++ {
		bk := time.Unix(b[k], 0)
		if d := time.Until(bk.Add(-lead)); d > 0 {
			time.Sleep(d)
		}
		// quiet process around the boundary: no node is started or stopped, no worker runs
		idle := gatePause(time.Until(bk.Add(-time.Second)))
		floor := runtime.NumGoroutine()
		wait := time.Until(bk) + 30*time.Second
		ok := hk.WaitUntil(wait, func() bool {
			if time.Now().Before(bk.Add(-300 * time.Millisecond)) {
				// keep lowering the quiescence floor while nothing is due
				if n := runtime.NumGoroutine(); n < floor {
					floor = n
				}
				return false
			}
			return fn.node.Cron().Info().Next.After(bk)
		})
		if !ok {
			why = fmt.Sprintf("watchdog: the scheduler did not pass the boundary %s within 30 s of it", bk.UTC().Format(time.RFC3339))
			gateResume()
			break
		}
		// every due job has been popped and its action goroutine created; wait until they are gone
		if !hk.WaitUntil(15*time.Second, func() bool { return runtime.NumGoroutine() <= floor && fn.inst.Quiet() }) {
			why = fmt.Sprintf("watchdog: action goroutines did not drain (goroutines %d > floor %d, other families idle=%v)", runtime.NumGoroutine(), floor, idle)
			gateResume()
			break
		}
		crossed++
		if k+1 < nb {
			fn.ops(k + 1)
			if !time.Now().Before(time.Unix(b[k+1], 0).Add(-2 * time.Second)) {
				why = "operations after a boundary were not finished 2 s before the next one"
				gateResume()
				break
			}
		}
		gateResume()
	}
	// stop everything that could still fire
	for _, j := range fn.jobs {
		fn.node.Cron().RemoveJob(j.name())
	}
	evaluateFiring(fn, b, crossed, why)
	gateEnter()
	node.StopForce()
	gateLeave()
}

func evaluateFiring(fn *fnode, b []int64, crossed int, why string) {
	last := int64(-1)
	if crossed > 0 {
		last = b[crossed-1]
	}
	obs := map[string]map[int64]int{}
	var unaligned int
	for _, f := range fn.rec.list() {
		u := f.ATime.Unix()
		if u%60 != 0 || f.ATime.Nanosecond() != 0 {
			unaligned++
		}
		m := floorDiv(u, 60) * 60
		if m > last {
			continue // beyond the observed horizon
		}
		k := string(f.Job)
		if obs[k] == nil {
			obs[k] = map[int64]int{}
		}
		obs[k][m]++
	}
	fmtM := func(l []int64) []string {
		var r []string
		for _, u := range l {
			r = append(r, time.Unix(u, 0).UTC().Format("2006-01-02T15:04Z"))
		}
		return r
	}
	var dups int64
	for _, j := range fn.jobs {
		id := fmt.Sprintf("F/%s/%s", j.batch, j.kind)
		if !hk.Want(id) || j.rs == nil {
			continue
		}
		seen := crossed - j.phase // boundaries of this batch that were judged
		c := hk.Case{ID: id, Scenario: "firing", Key: id}
		det := map[string]any{"spec": j.spec, "zone": j.loc.String(), "mode": j.mode, "message_action": j.msg,
			"next_zero_when_added": j.nextZero, "boundaries_judged": seen}
		c.Detail = det
		if j.err != nil {
			c.Verdict = hk.Violated
			c.Sig = "firing-job-api-error/" + j.mode
			c.What = fmt.Sprintf("AddJob/EnableJob/DisableJob/RemoveJob for %q failed: %v", j.spec, j.err)
			hk.Emit(c)
			continue
		}
		if seen <= 0 {
			c.Verdict = hk.Inconclusive
			c.What = why
			hk.Emit(c)
			continue
		}
		var exp, got, missing, extra []int64
		for k := 0; k < crossed; k++ {
			if j.active(k) && j.rs.matchInstant(b[k], j.loc) {
				exp = append(exp, b[k])
			}
		}
		for m, n := range obs[string(j.name())] {
			got = append(got, m)
			if n > 1 {
				dups += int64(n - 1)
			}
		}
		sort.Slice(got, func(i, k int) bool { return got[i] < got[k] })
		in := func(l []int64, v int64) bool {
			for _, x := range l {
				if x == v {
					return true
				}
			}
			return false
		}
		for _, e := range exp {
			if !in(got, e) {
				missing = append(missing, e)
			}
		}
		for _, g := range got {
			if !in(exp, g) {
				extra = append(extra, g)
			}
		}
		c.Events = int64(len(got) + seen)
		c.Nontrivial = seen >= 1
		det["expected"] = fmtM(exp)
		det["fired"] = fmtM(got)
		if len(missing)+len(extra) > 0 {
			c.Verdict = hk.Violated
			onlyFirst := true
			for _, u := range append(append([]int64{}, missing...), extra...) {
				if u != b[0] {
					onlyFirst = false
				}
			}
			switch {
			case j.nextZero && onlyFirst && j.phase == 0:
				// job added while Cron.Info().Next was the zero time; wrong only at the node's first tick
				c.Sig = "next-zero-at-start"
			case len(extra) > 0 && (j.mode == modeDisabled || j.mode == modeLateDisable || j.mode == modeLateEnDis):
				c.Sig = "disabled-job-fired"
			case len(extra) > 0 && (j.mode == modeRemoved || j.mode == modeLateRemove):
				c.Sig = "removed-job-fired"
			case len(extra) > 0:
				c.Sig = "fired-at-non-matching-minute/" + j.kind
			case j.mode == modeLateEnable || j.mode == modeLateDisEn || j.mode == modeReenabled:
				c.Sig = "enabled-job-not-fired/" + j.mode
			default:
				c.Sig = "matching-minute-not-fired/" + j.kind
			}
			c.What = fmt.Sprintf("batch %s, job %q (%s, %s): not fired at %v, fired though not due at %v", j.batch, j.spec, j.loc, j.mode, fmtM(missing), fmtM(extra))
		}
		if why != "" && c.Verdict != hk.Violated && crossed < len(b) {
			det["note"] = "only " + fmt.Sprint(crossed) + " boundaries judged: " + why
		}
		hk.Emit(c)
	}
	hk.Stat("firing_duplicate_runs_in_one_minute", dups)
	hk.Stat("firing_action_times_not_minute_aligned", int64(unaligned))
	if fn.wrongNode > 0 {
		hk.Stat("firing_messagecron_wrong_node_field", int64(fn.wrongNode))
	}
}
