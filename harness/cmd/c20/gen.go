package main

// Seeded generators of crontab specs: valid ones (every documented field form)
// and malformed ones (mutations by class).

import (
	"fmt"
	"math/rand"
	"strings"
)

// form ids for directed coverage
const (
	fStar = iota
	fNum
	fRange
	fStarStep
	fRangeStep
	fList
	fSpecial // L (day), dL / d#n (weekday)
)

func genNum(r *rand.Rand, k fieldKind) string { return fmt.Sprint(k.min + r.Intn(k.max-k.min+1)) }

func genRange(r *rand.Rand, k fieldKind) (int, int) {
	a := k.min + r.Intn(k.max-k.min+1)
	b := k.min + r.Intn(k.max-k.min+1)
	if a > b {
		a, b = b, a
	}
	return a, b
}

func genStep(r *rand.Rand, k fieldKind) int {
	if r.Intn(4) == 0 {
		return 1 + r.Intn(k.max) // 1..max
	}
	small := []int{1, 2, 3, 4, 5, 6, 7, 10, 12, 15, 20, 30}
	s := small[r.Intn(len(small))]
	if s > k.max {
		s = 1 + r.Intn(k.max)
	}
	return s
}

// genElem generates one non-star element of the given form
func genElem(r *rand.Rand, k fieldKind, form int) string {
	switch form {
	case fRange:
		a, b := genRange(r, k)
		return fmt.Sprintf("%d-%d", a, b)
	case fStarStep:
		if k.idx == 4 {
			return genNum(r, k)
		}
		return fmt.Sprintf("*/%d", genStep(r, k))
	case fRangeStep:
		a, b := genRange(r, k)
		if k.idx == 3 || k.idx == 4 {
			return fmt.Sprintf("%d-%d", a, b)
		}
		return fmt.Sprintf("%d-%d/%d", a, b, genStep(r, k))
	case fSpecial:
		switch k.idx {
		case 2:
			return "L"
		case 4:
			if r.Intn(2) == 0 {
				return fmt.Sprintf("%dL", 1+r.Intn(7))
			}
			return fmt.Sprintf("%d#%d", 1+r.Intn(7), 1+r.Intn(5))
		}
		return genNum(r, k)
	}
	return genNum(r, k)
}

func genField(r *rand.Rand, k fieldKind, form int) string {
	switch form {
	case fStar:
		return "*"
	case fList:
		n := 2 + r.Intn(2)
		var el []string
		for i := 0; i < n; i++ {
			forms := []int{fNum, fNum, fRange, fStarStep, fRangeStep, fSpecial}
			el = append(el, genElem(r, k, forms[r.Intn(len(forms))]))
		}
		return strings.Join(el, ",")
	}
	return genElem(r, k, form)
}

var allFields = []fieldKind{fkMin, fkHour, fkDom, fkMonth, fkDow}

// genValid generates the i-th valid spec. The first specs are directed so that
// every form of every field occurs and so that day and weekday are both
// restricted in a fair share; the rest is random.
func genValid(r *rand.Rand, i int) string {
	forms := [5]int{}
	// base: random forms, biased to star for minute/hour sometimes so that schedules are not tiny
	for f := 0; f < 5; f++ {
		w := []int{fStar, fStar, fStar, fNum, fNum, fRange, fStarStep, fRangeStep, fList, fSpecial}
		forms[f] = w[r.Intn(len(w))]
	}
	// directed part: cycle (field, form)
	type ff struct{ f, form int }
	var directed []ff
	for f := 0; f < 5; f++ {
		for form := fStar; form <= fSpecial; form++ {
			directed = append(directed, ff{f, form})
		}
	}
	if i < len(directed) {
		d := directed[i]
		forms[d.f] = d.form
	}
	// every third spec: both day and weekday restricted (OR rule)
	if i%3 == 0 {
		if forms[2] == fStar {
			forms[2] = []int{fNum, fRange, fList, fSpecial, fRangeStep}[r.Intn(5)]
		}
		if forms[4] == fStar {
			forms[4] = []int{fNum, fRange, fList, fSpecial, fSpecial}[r.Intn(5)]
		}
	}
	// every fifth: weekday special with star day (pure last / n-th weekday)
	if i%5 == 1 {
		forms[2] = fStar
		forms[4] = fSpecial
	}
	for attempt := 0; ; attempt++ {
		var fs []string
		for f := 0; f < 5; f++ {
			fs = append(fs, genField(r, allFields[f], forms[f]))
		}
		sep := " "
		spec := strings.Join(fs, sep)
		if r.Intn(12) == 0 {
			// white space variety: tabs / runs of blanks / surrounding blanks
			seps := []string{"  ", "\t", " \t "}
			spec = strings.Join(fs, seps[r.Intn(len(seps))])
			if r.Intn(2) == 0 {
				spec = " " + spec + " "
			}
		}
		rs, cls := refParse(spec)
		if cls == clsValid && !rs.StarStepDayWithDow {
			return spec
		}
		if attempt > 50 {
			return "* * * * *"
		}
	}
}

// targeted valid specs: the documented examples and the classic edge forms
var targetedValid = []string{
	"* * * * *",
	"0 0 1 1 1",       // OR rule: Jan 1st or any Monday in January
	"0 12 15 * 1",     // OR rule
	"1 19 * * 1#1,7L", // from the package tests
	"1 19 */15,L 2,7 *",
	"30 2 * * *", // inside the spring-forward gap of several zones
	"15 1 * * 7", // inside the fall-back overlap
	"0 0 L * *",
	"59 23 L 2 *",
	"0 0 29 2 *",
	"*/20 0,23 * * 7L",
	"*/30 * * * 2L",
	"0 */6 * * 5#5",
	"0 0 31 * 3#1",
	"5-59/11 3-23/5 2-31/3 */4 1-5",
	"0 0 1-7 * 1",
	"0 0 * * 7",
	"0 0 * * 6-7",
	"0 9 * 1-12 1L,2L,3L",
	"0 0 30,31,L * *",
}

// ---------- malformed specs ----------

type badSpec struct {
	Spec  string
	Class string // mutation class
}

// genInvalid produces a malformed spec by mutating a valid one
func genInvalid(r *rand.Rand, i int) badSpec {
	classes := []string{"field-count-less", "field-count-more", "over-range", "under-range", "reversed-range", "bad-char", "star-in-list",
		"empty-elem", "step-zero", "misplaced-L", "misplaced-hash", "bad-hash", "bad-lastweekday", "dangling", "negative", "empty", "unknown-macro", "huge"}
	class := classes[i%len(classes)]
	for attempt := 0; attempt < 100; attempt++ {
		base := strings.Fields(genValid(r, 1000+r.Intn(1000)))
		f := r.Intn(5)
		k := allFields[f]
		switch class {
		case "field-count-less":
			n := r.Intn(5) // 0..4 fields
			base = base[:n]
			if n == 0 {
				base = []string{}
			}
		case "field-count-more":
			for j := 0; j <= r.Intn(2); j++ {
				base = append(base, genField(r, allFields[r.Intn(5)], fNum))
			}
		case "over-range":
			v := k.max + 1 + r.Intn(40)
			if r.Intn(3) == 0 {
				v = k.max + 1 // boundary
			}
			switch r.Intn(3) {
			case 0:
				base[f] = fmt.Sprint(v)
			case 1:
				base[f] = fmt.Sprintf("%d-%d", k.min, v)
			default:
				base[f] = fmt.Sprintf("%s,%d", genNum(r, k), v)
			}
		case "under-range":
			f = []int{2, 3}[r.Intn(2)] // day and month start at 1 (weekday 0 is left undecided)
			k = allFields[f]
			if r.Intn(2) == 0 {
				base[f] = "0"
			} else {
				base[f] = fmt.Sprintf("0-%d", k.max)
			}
		case "reversed-range":
			a, b := genRange(r, k)
			if a == b {
				continue
			}
			base[f] = fmt.Sprintf("%d-%d", b, a)
			if r.Intn(3) == 0 && f < 3 {
				base[f] += "/2"
			}
			if r.Intn(3) == 0 {
				base[f] = genNum(r, k) + "," + base[f] // inside a list: the other element keeps the mask non-empty
			}
		case "bad-char":
			chars := []string{"a", "x", "%", "&", "1x", "x1", "1.5", "1;2", "1:2", "*x", "~", "1_2", "z-9", "+1"}
			c := chars[r.Intn(len(chars))]
			if r.Intn(2) == 0 {
				base[f] = c
			} else {
				base[f] = genNum(r, k) + "," + c
			}
		case "star-in-list":
			if r.Intn(2) == 0 {
				base[f] = "*," + genNum(r, k)
			} else {
				base[f] = genNum(r, k) + ",*"
			}
		case "empty-elem":
			switch r.Intn(3) {
			case 0:
				base[f] = genNum(r, k) + ",," + genNum(r, k)
			case 1:
				base[f] = "," + genNum(r, k)
			default:
				base[f] = genNum(r, k) + ","
			}
		case "step-zero":
			f = r.Intn(3)
			k = allFields[f]
			if r.Intn(2) == 0 {
				base[f] = "*/0"
			} else {
				a, b := genRange(r, k)
				base[f] = fmt.Sprintf("%d-%d/0", a, b)
			}
		case "misplaced-L":
			f = []int{0, 1, 3}[r.Intn(3)]
			if r.Intn(2) == 0 {
				base[f] = "L"
			} else {
				base[f] = fmt.Sprintf("%dL", 1+r.Intn(7))
			}
		case "misplaced-hash":
			f = r.Intn(4)
			base[f] = fmt.Sprintf("%d#%d", 1+r.Intn(7), 1+r.Intn(5))
		case "bad-hash":
			opts := []string{"1#6", "1#0", "8#1", "9#2", "#1", "1#", "1##2", "1#2#3", "3#9", "#"}
			base[4] = opts[r.Intn(len(opts))]
		case "bad-lastweekday":
			opts := []string{"8L", "9L", "LL", "1LL", "12L", "L1", "3L4"}
			base[4] = opts[r.Intn(len(opts))]
		case "dangling":
			opts := []string{"1-", "-", "*/", "/5", "1-5/", "-5", "1--5", "*-5", "5-*", "**", "*/*", "1-2-3", "*/2/3"}
			base[f] = opts[r.Intn(len(opts))]
		case "negative":
			base[f] = fmt.Sprintf("-%d", 1+r.Intn(9))
		case "empty":
			opts := []string{"", " ", "   ", "\t"}
			return badSpec{opts[r.Intn(len(opts))], class}
		case "unknown-macro":
			opts := []string{"@foo", "@", "@dailyy", "@hour", "@ daily", "@daily @daily", "@weekly 1", "@DAILYX", "@never"}
			return badSpec{opts[r.Intn(len(opts))], class}
		case "huge":
			base[f] = "99999999999999999999"
		}
		spec := strings.Join(base, " ")
		if _, cls := refParse(spec); cls == clsInvalid {
			return badSpec{spec, class}
		}
	}
	return badSpec{"* * * *", "field-count-less"}
}

// specs whose status neither the documentation nor the crontab tradition decides:
// the implementation's answer is recorded, never judged
var unspecifiedSpecs = []string{
	"0 0 * * 0", "0 0 * jan *", "0 0 * * mon", "0 0 * * MON-FRI", "0 0 * 1-12/3 *", "0 0 * * 1-5/2", "0 0 * * */2",
	"5/15 * * * *", "*/70 * * * *", "0 0 ? * 1", "0 0 15W * *", "0 0 L-3 * *", "0 0 * * L", "0 0 5L * *",
	"@yearly", "@annually", "@midnight", "@reboot", "05 07 * * *", "0 0 * * 0#1", "0 0 * * 0L", " @daily",
}
