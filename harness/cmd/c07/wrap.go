package main

import (
	"fmt"
	"sync"
	"time"

	"ergo.services/ergo/gen"

	"verif/harness/actors"
	"verif/harness/hk"
)

// Scenario W: the history "late reply to a timed-out request arrives while a
// later request is waiting" with the additional twist that so many references
// were minted in between that the later request carries a reference equal to
// the one of the timed-out request — if (and only if) the node's references
// repeat.  The scenario decides that by observation: it mints references until
// the one of the timed-out request shows up again (bounded by 2^18+4096 calls).

type wrapCmd struct {
	To      any
	R       Req
	Timeout int
	Done    chan wrapRes
}

type wrapRes struct {
	Val any
	Err error
}

type wrapSeen struct {
	N    int
	From gen.PID
	Ref  gen.Ref
}

func runWrap() {
	runWrapOn("local", nodeA)
	if nodeB != nil {
		runWrapOn("remote", nodeB)
	}
}

func runWrapOn(where string, calleeNode *hk.HNode) {
	id := "W/ref-wrap/" + where
	if !hk.Want(id) {
		return
	}
	const limit = (1 << 18) + 4096
	b := &book{tokens: map[int]chan struct{}{}}
	var mu sync.Mutex
	var seen []wrapSeen
	var first *wrapSeen
	var staleRes []string

	calleeF, _ := actors.NewProbe(id+"/callee", &actors.Hooks{
		Call: func(p *actors.Probe, from gen.PID, ref gen.Ref, req any) (any, error) {
			r, ok := req.(Req)
			if !ok {
				return "?", nil
			}
			mu.Lock()
			seen = append(seen, wrapSeen{N: r.N, From: from, Ref: ref})
			f := first
			if r.N == 0 {
				first = &wrapSeen{N: 0, From: from, Ref: ref}
			}
			mu.Unlock()
			if r.N == 0 {
				return nil, nil // never answered in time: the caller times out
			}
			// the late reply to request 0 ...
			err := p.SendResponse(f.From, f.Ref, b.mkRep(r.Caller, 0, 1, "stale"))
			mu.Lock()
			staleRes = append(staleRes, resText(err))
			mu.Unlock()
			// ... then the own reply
			return b.mkRep(r.Caller, r.N, 1, "own"), nil
		},
	})
	callerF, _ := actors.NewProbe(id+"/caller", &actors.Hooks{
		Msg: func(p *actors.Probe, from gen.PID, msg any) error {
			if c, ok := msg.(wrapCmd); ok {
				v, err := p.CallWithTimeout(c.To, c.R, c.Timeout)
				c.Done <- wrapRes{Val: v, Err: err}
			}
			return nil
		},
	})
	callee, err1 := calleeNode.Spawn(calleeF, gen.ProcessOptions{})
	caller, err2 := nodeA.Spawn(callerF, gen.ProcessOptions{})
	defer func() {
		calleeNode.Kill(callee)
		nodeA.Kill(caller)
	}()
	emit := func(c hk.Case) {
		c.ID = id
		c.Scenario = "ref-wrap"
		hk.Emit(c)
	}
	if err1 != nil || err2 != nil {
		emit(hk.Case{Verdict: hk.Inconclusive, What: fmt.Sprint("spawn: ", err1, err2)})
		return
	}
	call := func(n, timeout int) (wrapRes, bool) {
		done := make(chan wrapRes, 1)
		nodeA.Send(caller, wrapCmd{To: callee, R: Req{Caller: 0, N: n}, Timeout: timeout, Done: done})
		select {
		case r := <-done:
			return r, true
		case <-time.After(time.Duration(timeout+20) * time.Second):
			return wrapRes{}, false
		}
	}
	r0, ok := call(0, 1)
	if !ok || r0.Err != gen.ErrTimeout {
		emit(hk.Case{Verdict: hk.Inconclusive, What: fmt.Sprintf("request 0 did not time out: %v %v", r0.Val, r0.Err), Events: 1})
		return
	}
	mu.Lock()
	f := first
	mu.Unlock()
	if f == nil {
		emit(hk.Case{Verdict: hk.Inconclusive, What: "request 0 was not seen by the callee", Events: 1})
		return
	}
	ref0 := f.Ref
	// mint references until ref0 shows up again
	var prev, r gen.Ref
	minted := 0
	repeat := false
	for minted < limit {
		prev = r
		r = nodeA.MakeRef()
		minted++
		if r == ref0 {
			repeat = true
			break
		}
	}
	hk.Stat("wrap_refs_minted_and_compared", int64(minted))
	if !repeat {
		emit(hk.Case{Verdict: hk.Held, Key: "ref-wrap/" + where + "/no-repeat-within-2^18+4096", Nontrivial: false, Events: 3,
			What: "references did not repeat: the colliding history cannot be built"})
		return
	}
	period := minted
	if minted == 1 {
		// the very next reference is the same again: any request collides
		prev = gen.Ref{}
	}
	// line the counter up so that the caller's next Call mints ref0 again
	var res wrapRes
	var got gen.Ref
	collided := false
	n := 0
	total := minted
	for attempt := 0; attempt < 3 && !collided; attempt++ {
		if period > 1 {
			k := 0
			for ; k < limit; k++ {
				total++
				if nodeA.MakeRef() == prev {
					break
				}
			}
			if k == limit {
				break
			}
		}
		n++
		var ok bool
		res, ok = call(n, 2)
		if !ok {
			emit(hk.Case{Verdict: hk.Inconclusive, What: "watchdog: call did not return", Events: int64(total)})
			return
		}
		mu.Lock()
		for _, s := range seen {
			if s.N == n {
				got = s.Ref
			}
		}
		mu.Unlock()
		collided = got == ref0
	}
	detail := map[string]any{"ref_of_timed_out_request": ref0.String(), "ref_of_later_request": got.String(), "refs_minted_until_repeat": period,
		"later_request_n": n, "returned_value": fmt.Sprintf("%+v", res.Val), "returned_error": fmt.Sprint(res.Err), "stale_send_results": staleRes}
	if !collided {
		emit(hk.Case{Verdict: hk.Inconclusive, What: "references repeat but the counter could not be lined up (concurrent minting)", Events: int64(total), Detail: detail})
		return
	}
	c := hk.Case{Key: "ref-wrap/" + where + "/same-ref-after-" + fmt.Sprint(period), Nontrivial: true, Events: int64(2*n + 3), Detail: detail}
	rep, isRep := res.Val.(Rep)
	switch {
	case res.Err == nil && isRep && rep.N != n:
		c.Verdict = hk.Violated
		c.Sig = "stale-reply-accepted-after-ref-wrap"
		c.What = fmt.Sprintf("request n=%d (ref %s) returned %+v, the late reply made for the timed-out request n=0: after %d MakeRef calls the node minted the reference of request 0 again, so waitResponse accepted the late reply as the answer of the later request", n, got, rep, period)
	case res.Err == nil && !isRep:
		c.Verdict = hk.Violated
		c.Sig = "call-returned-unknown-value"
		c.What = fmt.Sprintf("request n=%d returned (%#v, nil)", n, res.Val)
	default:
		c.Verdict = hk.Held
	}
	emit(c)
}
