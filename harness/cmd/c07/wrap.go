package main

import (
	"fmt"
	"sort"
	"sync"
	"time"

	"ergo.services/ergo/gen"

	"verif/harness/actors"
	"verif/harness/hk"
)

// Scenario W: the history "late reply to a timed-out request arrives while a
// later request is waiting" with the additional twist that so many references
// were minted in between that the later request carries a reference equal to
// the one of the timed-out request — if (and only if) the node's references
// repeat.
//
// Step 1 (scan) decides by observation whether references repeat at all: it
// mints a window of 2*2^18+4096 references and looks for ANY two equal ones
// (whatever the distance, whatever the phase of the counter: a repeat that
// exists only for counter values with a certain bit clear, or only once, is
// found as well).  Step 2 builds the history for the distances seen: request
// 2k times out, exactly d-1 references are minted, request 2k+1 is made; the
// callee reports whether both requests carried the same reference.  Attempts
// start at different counter phases (every attempt moves the counter by d).

type wrapCmd struct {
	To      any
	R       Req
	Timeout int
	Done    chan wrapRes
}

type wrapRes struct {
	Val any
	Err error
}

type wrapSeen struct {
	N    int
	From gen.PID
	Ref  gen.Ref
}

const wrapWindow = 2*(1<<18) + 4096

// scanRefRepeats mints `window` references on n and returns the distances between equal references
// (distance -> number of pairs) found in that window
func scanRefRepeats(n *hk.HNode, window int) map[int]int {
	seen := make(map[[3]uint64]int, window)
	dist := map[int]int{}
	for i := 0; i < window; i++ {
		r := n.MakeRef()
		if j, ok := seen[r.ID]; ok {
			dist[i-j]++
		}
		seen[r.ID] = i
	}
	return dist
}

func runWrap() {
	runWrapOn("local", nodeA)
	if nodeB != nil {
		runWrapOn("remote", nodeB)
	}
}

func runWrapOn(where string, calleeNode *hk.HNode) {
	id := "W/ref-wrap/" + where
	if !hk.Want(id) {
		return
	}
	b := &book{tokens: map[int]chan struct{}{}}
	var mu sync.Mutex
	held := map[int]wrapSeen{}
	var staleRes []string

	calleeF, _ := actors.NewProbe(id+"/callee", &actors.Hooks{
		Call: func(p *actors.Probe, from gen.PID, ref gen.Ref, req any) (any, error) {
			r, ok := req.(Req)
			if !ok {
				return "?", nil
			}
			mu.Lock()
			held[r.N] = wrapSeen{N: r.N, From: from, Ref: ref}
			f, have := held[r.N-1]
			mu.Unlock()
			if r.N%2 == 0 || !have {
				return nil, nil // even requests are never answered in time: the caller times out
			}
			// the late reply to the preceding (timed-out) request ...
			err := p.SendResponse(f.From, f.Ref, b.mkRep(r.Caller, f.N, 1, "stale"))
			mu.Lock()
			staleRes = append(staleRes, resText(err))
			mu.Unlock()
			// ... then the own reply
			return b.mkRep(r.Caller, r.N, 1, "own"), nil
		},
	})
	callerF, _ := actors.NewProbe(id+"/caller", &actors.Hooks{
		Msg: func(p *actors.Probe, from gen.PID, msg any) error {
			if c, ok := msg.(wrapCmd); ok {
				v, err := p.CallWithTimeout(c.To, c.R, c.Timeout)
				c.Done <- wrapRes{Val: v, Err: err}
			}
			return nil
		},
	})
	callee, err1 := calleeNode.Spawn(calleeF, gen.ProcessOptions{})
	caller, err2 := nodeA.Spawn(callerF, gen.ProcessOptions{})
	defer func() {
		calleeNode.Kill(callee)
		nodeA.Kill(caller)
	}()
	emit := func(c hk.Case) {
		c.ID = id
		c.Scenario = "ref-wrap"
		hk.Emit(c)
	}
	if err1 != nil || err2 != nil {
		emit(hk.Case{Verdict: hk.Inconclusive, What: fmt.Sprint("spawn: ", err1, err2)})
		return
	}
	call := func(n, timeout int) (wrapRes, bool) {
		done := make(chan wrapRes, 1)
		nodeA.Send(caller, wrapCmd{To: callee, R: Req{Caller: 0, N: n}, Timeout: timeout, Done: done})
		select {
		case r := <-done:
			return r, true
		case <-time.After(time.Duration(timeout+20) * time.Second):
			return wrapRes{}, false
		}
	}

	// step 1: do references of the calling node repeat at all?
	dist := scanRefRepeats(nodeA, wrapWindow)
	hk.Stat("wrap_refs_minted_and_compared", int64(wrapWindow))
	if len(dist) == 0 {
		emit(hk.Case{Verdict: hk.Held, Key: "ref-wrap/" + where + "/no-repeat-in-window", Nontrivial: false, Events: 1,
			What: fmt.Sprintf("no two of %d consecutively minted references were equal: the colliding history cannot be built", wrapWindow)})
		return
	}
	var ds []int
	for d := range dist {
		ds = append(ds, d)
	}
	sort.Ints(ds)
	if len(ds) > 3 {
		ds = ds[:3]
	}

	// step 2: build the history
	var res wrapRes
	var ref0, got gen.Ref
	collided := false
	n := -1
	usedD := 0
	events := int64(1)
	for attempt := 0; attempt < 6 && !collided; attempt++ {
		d := ds[attempt%len(ds)]
		n += 2
		r0, ok := call(n-1, 1)
		events++
		if !ok || r0.Err != gen.ErrTimeout {
			emit(hk.Case{Verdict: hk.Inconclusive, What: fmt.Sprintf("request %d did not time out: %v %v", n-1, r0.Val, r0.Err), Events: events})
			return
		}
		mu.Lock()
		f, have := held[n-1]
		mu.Unlock()
		if !have {
			emit(hk.Case{Verdict: hk.Inconclusive, What: "the timed-out request was not seen by the callee", Events: events})
			return
		}
		ref0 = f.Ref
		early := false
		for k := 0; k < d-1; k++ {
			if nodeA.MakeRef() == ref0 {
				early = true // a shorter distance than scanned, now used up: next attempt
				break
			}
		}
		if early {
			continue
		}
		res, ok = call(n, 2)
		events++
		if !ok {
			emit(hk.Case{Verdict: hk.Inconclusive, What: "watchdog: call did not return", Events: events})
			return
		}
		mu.Lock()
		got = held[n].Ref
		mu.Unlock()
		collided = got == ref0
		usedD = d
	}
	detail := map[string]any{"repeat_distances_seen_in_scan": dist, "ref_of_timed_out_request": ref0.String(), "ref_of_later_request": got.String(), "refs_minted_between": usedD - 1,
		"later_request_n": n, "returned_value": fmt.Sprintf("%+v", res.Val), "returned_error": fmt.Sprint(res.Err), "stale_send_results": staleRes}
	if !collided {
		emit(hk.Case{Verdict: hk.Inconclusive, What: fmt.Sprintf("references repeat (distances %v) but no attempt gave the later request the reference of the timed-out one", ds), Events: events, Detail: detail})
		return
	}
	c := hk.Case{Key: "ref-wrap/" + where + "/same-ref-after-" + fmt.Sprint(usedD), Nontrivial: true, Events: events, Detail: detail}
	rep, isRep := res.Val.(Rep)
	switch {
	case res.Err == nil && isRep && rep.N != n:
		c.Verdict = hk.Violated
		c.Sig = "stale-reply-accepted-after-ref-wrap"
		c.What = fmt.Sprintf("request n=%d (ref %s) returned %+v, the late reply made for the timed-out request n=%d: %d MakeRef calls later the node minted the reference of that request again, so waitResponse accepted the late reply as the answer of the later request", n, got, rep, n-1, usedD)
	case res.Err == nil && !isRep:
		c.Verdict = hk.Violated
		c.Sig = "call-returned-unknown-value"
		c.What = fmt.Sprintf("request n=%d returned (%#v, nil)", n, res.Val)
	default:
		c.Verdict = hk.Held
	}
	emit(c)
}
