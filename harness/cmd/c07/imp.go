package main

import (
	"errors"
	"fmt"
	"time"

	"ergo.services/ergo/gen"

	"verif/harness/actors"
	"verif/harness/hk"
)

// Scenario I: delivery errors of remote requests made with the
// important-delivery flag.  The remote node answers such a request itself
// (SendResponseError with the error its RouteCall* returned) when it cannot
// hand it to the callee.  Differential oracle: a caller living ON the callee's
// node asks the same target in the same (stable) state and gets the error the
// node produces for such a request; the remote important Call must return an
// errors.Is-equal error (or time out).  Targets: a pid that never existed, a
// terminated pid, a callee with a full mailbox (size 1, blocked in a handler).

type impCmd struct {
	To        any
	Important bool
	Timeout   int
	Done      chan wrapRes
}

type impBlock struct {
	Entered chan struct{}
	Release chan struct{}
}

func runImportant() {
	if nodeB == nil {
		return
	}
	mkCaller := func(label string) gen.ProcessFactory {
		f, _ := actors.NewProbe("I/"+label, &actors.Hooks{
			Msg: func(p *actors.Probe, from gen.PID, msg any) error {
				if c, ok := msg.(impCmd); ok {
					p.SetImportantDelivery(c.Important)
					v, err := p.CallWithTimeout(c.To, Req{Caller: 0, N: 0}, c.Timeout)
					p.SetImportantDelivery(false)
					c.Done <- wrapRes{Val: v, Err: err}
				}
				return nil
			},
		})
		return f
	}
	calleeF := func(label string) gen.ProcessFactory {
		f, _ := actors.NewProbe("I/"+label, &actors.Hooks{
			Msg: func(p *actors.Probe, from gen.PID, msg any) error {
				if b, ok := msg.(impBlock); ok {
					close(b.Entered)
					<-b.Release
				}
				return nil
			},
		})
		return f
	}
	local, e1 := nodeB.Spawn(mkCaller("local-caller"), gen.ProcessOptions{})
	remote, e2 := nodeA.Spawn(mkCaller("remote-caller"), gen.ProcessOptions{})
	if e1 != nil || e2 != nil {
		hk.Emit(hk.Case{ID: "I/setup", Scenario: "important-delivery-error", Verdict: hk.Inconclusive, What: fmt.Sprint("spawn: ", e1, e2)})
		return
	}
	defer nodeB.Kill(local)
	defer nodeA.Kill(remote)
	ask := func(n *hk.HNode, caller gen.PID, to any, important bool) (wrapRes, bool) {
		done := make(chan wrapRes, 1)
		n.Send(caller, impCmd{To: to, Important: important, Timeout: 2, Done: done})
		select {
		case r := <-done:
			return r, true
		case <-time.After(25 * time.Second):
			return wrapRes{}, false
		}
	}

	for _, kind := range []string{"unknown-pid", "terminated-pid", "full-mailbox", "unknown-name"} {
		id := "I/important-call/" + kind
		if !hk.Want(id) {
			continue
		}
		var to any
		cleanup := func() {}
		incon := ""
		switch kind {
		case "unknown-pid":
			to = gen.PID{Node: nodeB.Name(), ID: 1 << 40, Creation: nodeB.Creation()}
		case "unknown-name":
			to = gen.ProcessID{Name: "c07_no_such_name", Node: nodeB.Name()}
		case "terminated-pid":
			pid, err := nodeB.Spawn(calleeF("mortal"), gen.ProcessOptions{})
			if err != nil {
				incon = "spawn: " + err.Error()
				break
			}
			nodeB.Kill(pid)
			if !hk.WaitUntil(10*time.Second, func() bool { _, err := nodeB.ProcessInfo(pid); return err != nil }) {
				incon = "watchdog: killed process still registered"
			}
			to = pid
		case "full-mailbox":
			pid, err := nodeB.Spawn(calleeF("full"), gen.ProcessOptions{MailboxSize: 1})
			if err != nil {
				incon = "spawn: " + err.Error()
				break
			}
			b := impBlock{Entered: make(chan struct{}), Release: make(chan struct{})}
			nodeB.Send(pid, b)
			select {
			case <-b.Entered:
			case <-time.After(10 * time.Second):
				incon = "watchdog: blocking handler not entered"
			}
			// fill the mailbox (size 1) behind the blocked handler
			filled := false
			for k := 0; k < 4 && !filled; k++ {
				if err := nodeB.Send(pid, "filler"); err != nil {
					filled = true
				}
			}
			if !filled && incon == "" {
				incon = "mailbox of size 1 never reported full"
			}
			to = pid
			cleanup = func() { close(b.Release); nodeB.Kill(pid) }
		}
		if incon != "" {
			cleanup()
			hk.Emit(hk.Case{ID: id, Scenario: "important-delivery-error", Verdict: hk.Inconclusive, What: incon})
			continue
		}
		lres, ok1 := ask(nodeB, local, to, false)
		rres, ok2 := ask(nodeA, remote, to, true)
		lres2, ok3 := ask(nodeB, local, to, false) // the state must have been stable
		cleanup()
		c := hk.Case{ID: id, Scenario: "important-delivery-error", Events: 3, Key: "important-call/" + kind,
			Detail: map[string]any{"target": fmt.Sprint(to), "error_for_a_caller_on_the_callee_node": fmt.Sprint(lres.Err), "error_returned_to_the_remote_important_call": fmt.Sprint(rres.Err), "remote_value": fmt.Sprint(rres.Val)}}
		switch {
		case !ok1 || !ok2 || !ok3:
			c.Verdict = hk.Inconclusive
			c.What = "watchdog: call did not return"
		case lres.Err == nil || lres.Err == gen.ErrTimeout || fmt.Sprint(lres.Err) != fmt.Sprint(lres2.Err):
			c.Verdict = hk.Inconclusive
			c.What = fmt.Sprintf("no stable delivery error on the callee's node: %v / %v", lres.Err, lres2.Err)
		case rres.Err == gen.ErrTimeout:
			c.Verdict = hk.Held // a timeout is always allowed
			c.Key += "/timeout"
		case rres.Err == nil:
			c.Verdict = hk.Violated
			c.Sig = "important-delivery-error-altered"
			c.What = fmt.Sprintf("%s: the callee's node reports %q for this request, the remote important Call returned the value %v", kind, lres.Err, rres.Val)
		case !errors.Is(rres.Err, lres.Err):
			c.Verdict = hk.Violated
			c.Sig = "important-delivery-error-altered"
			c.What = fmt.Sprintf("%s: the callee's node produces the delivery error %q for this request, the remote Call with the important-delivery flag returned the different error %q", kind, lres.Err, rres.Err)
		default:
			c.Verdict = hk.Held
			c.Nontrivial = true
			c.Key += "/" + fmt.Sprint(lres.Err)
		}
		hk.Emit(c)
	}
}
