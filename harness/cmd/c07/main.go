// C07 — request/response correlation.
//
// Every request carries (caller, n); every reply produced by the harness
// callees carries (caller, n, callee, unique replyNo).  The caller log pairs
// each value/error returned by Call with the request just made.  Refuting
// observations: a returned value/error made for another (caller, n); a reply
// identity consumed twice; a returned value nobody produced; a request id
// presented twice to a callee.
//
// Workloads (rounds of 64 concurrent callers with seeded scripts): immediate,
// asynchronous (callee later / third process / after the callee terminated),
// duplicate replies, error replies, replies after the caller's 1 s timeout sent
// while a later request is waiting, >10 stale replies sprayed at an idle caller
// (response channel overflow), replies with foreign refs and for other
// processes; callees addressed by pid, name (split handlers), meta alias, and on
// a second node.  Scenario W builds the "stale reply meets a repeated ref"
// history by minting 2^18 references between two requests.
package main

import (
	"errors"
	"fmt"
	"os"
	"runtime"
	"sort"
	"strings"
	"sync"
	"sync/atomic"
	"time"

	"ergo.services/ergo/act"
	"ergo.services/ergo/gen"
	"ergo.services/ergo/net/edf"

	"verif/harness/actors"
	"verif/harness/hk"
)

// ---------------------------------------------------------------------------
// wire types (exported fields: they cross the network in the remote rounds)

// Req is the request payload
type Req struct {
	Caller  int
	N       int
	Mode    string // imm | late | err | dup | die | dier
	Via     string // sync | async | third
	Flush   int    // stale replies (to earlier requests of this caller) sent before the own reply
	Foreign bool   // also send replies with foreign refs / to another process before the own reply
}

// Rep is a reply value. No is unique per produced reply.
type Rep struct {
	Caller int
	N      int
	Callee int
	No     int
}

// Fwd hands a request over to the process which will answer it
type Fwd struct {
	R      Req
	From   gen.PID
	Ref    gen.Ref
	Callee int
}

// Spray asks a third process to send K stale replies to an idle caller
type Spray struct {
	Caller int
	K      int
	Token  int
}

const errTag = "C07ERR"

func tagErr(r Rep) error {
	return fmt.Errorf("%s/%d/%d/%d/%d", errTag, r.Caller, r.N, r.Callee, r.No)
}

func parseTagErr(err error) (Rep, bool) {
	s := err.Error()
	i := strings.Index(s, errTag+"/")
	if i < 0 {
		return Rep{}, false
	}
	var r Rep
	if _, e := fmt.Sscanf(s[i+len(errTag)+1:], "%d/%d/%d/%d", &r.Caller, &r.N, &r.Callee, &r.No); e != nil {
		return Rep{}, false
	}
	return r, true
}

// ---------------------------------------------------------------------------
// the book: shared memory of one round (all nodes live in this OS process)

type ticket struct {
	n      int
	from   gen.PID
	ref    gen.Ref
	callee int
}

type staleRec struct {
	DuringN int    `json:"during_n"` // request being served when it was sent (-1: caller idle, -2: duplicate after own reply)
	TicketN int    `json:"ticket_n"` // request the reply was made for
	Kind    string `json:"kind"`
	Res     string `json:"res"`
	L       int64  `json:"l"`
	No      int    `json:"no"`
}

type cstate struct {
	mu      sync.Mutex
	id      int
	pid     gen.PID
	tickets []ticket
	seen    map[int]int
	stale   []staleRec
	// accepted counts stale replies whose SendResponse returned nil and that are, by construction,
	// in the caller's response channel no later than the next own reply (see the rule text)
	accepted int64
	snap     int64
	// window[n] = number of such stale replies that precede the own reply to request n
	window  map[int]int64
	ignored int64
	events  int64
	ownRes  map[int]string // request n -> result of the explicit SendResponse of its own reply
	// request n -> sentinel error the answering process sent as the reply (mode serr)
	ownSentinel map[int]error
}

// own records the result of sending the own reply to request n
func (cs *cstate) own(n int, err error) {
	cs.mu.Lock()
	cs.ownRes[n] = resText(err)
	cs.mu.Unlock()
}

var sentinels = []error{gen.ErrProcessTerminated, gen.ErrProcessMailboxFull, gen.ErrProcessUnknown, gen.ErrTimeout}

type sender interface {
	SendResponse(to gen.PID, ref gen.Ref, message any) error
	SendResponseError(to gen.PID, ref gen.Ref, err error) error
}

type book struct {
	calleeOnB map[int]bool // callee id -> lives on node B (written before the callers start)
	callers   []*cstate
	repNo     atomic.Int64
	produced  sync.Map // Rep -> kind
	tokMu     sync.Mutex
	tokens    map[int]chan struct{}
	tokSeq    int
}

func (b *book) mkRep(c, n, callee int, kind string) Rep {
	r := Rep{Caller: c, N: n, Callee: callee, No: int(b.repNo.Add(1))}
	b.produced.Store(r, kind)
	return r
}

func (b *book) newToken() (int, chan struct{}) {
	b.tokMu.Lock()
	defer b.tokMu.Unlock()
	b.tokSeq++
	ch := make(chan struct{})
	b.tokens[b.tokSeq] = ch
	return b.tokSeq, ch
}

func (b *book) tokenDone(t int) {
	b.tokMu.Lock()
	ch := b.tokens[t]
	delete(b.tokens, t)
	b.tokMu.Unlock()
	if ch != nil {
		close(ch)
	}
}

func resText(err error) string {
	if err == nil {
		return "ok"
	}
	return err.Error()
}

// sendStale sends the reply made for ticket t of caller cs to `to` with `ref`; kind says why
// asErr selects the error flavour: SendResponseError with an error whose text carries the reply identity
func (b *book) sendStale(s sender, cs *cstate, to gen.PID, ref gen.Ref, rep Rep, kind string, duringN int, count bool, asErr bool) {
	var err error
	if asErr {
		kind += "-err"
		b.produced.Store(rep, kind)
		err = s.SendResponseError(to, ref, tagErr(rep))
	} else {
		err = s.SendResponse(to, ref, rep)
	}
	if to.ID%255 == 0 {
		// receivers whose id is a multiple of 255 get "no order" frames across nodes: do not base the
		// non-triviality measure (stale reply precedes the own reply) on them
		count = false
	}
	cs.mu.Lock()
	cs.stale = append(cs.stale, staleRec{DuringN: duringN, TicketN: rep.N, Kind: kind, Res: resText(err), L: hk.Tick(), No: rep.No})
	cs.events++
	if count {
		if err == nil {
			cs.accepted++
		} else if err == gen.ErrResponseIgnored {
			cs.ignored++
		}
	}
	cs.mu.Unlock()
}

// observe records that callee got request r (from, ref). Returns false for a malformed caller id.
func (b *book) observe(r Req, callee int, from gen.PID, ref gen.Ref) *cstate {
	if r.Caller < 0 || r.Caller >= len(b.callers) {
		return nil
	}
	cs := b.callers[r.Caller]
	cs.mu.Lock()
	cs.seen[r.N]++
	cs.events++
	cs.tickets = append(cs.tickets, ticket{n: r.N, from: from, ref: ref, callee: callee})
	cs.mu.Unlock()
	return cs
}

// staleTickets returns the tickets of requests earlier than n (the caller is sequential: all of them are over)
func (cs *cstate) staleTickets(n int) []ticket {
	cs.mu.Lock()
	defer cs.mu.Unlock()
	var r []ticket
	for _, t := range cs.tickets {
		if n < 0 || t.n < n {
			r = append(r, t)
		}
	}
	return r
}

// serve answers request r; runs inside a callback of the answering process s.
// With canReturn the own reply is handed back to the framework (HandleCall return value).
func (b *book) serve(s sender, callee int, from gen.PID, ref gen.Ref, r Req, canReturn bool) (any, error) {
	if r.Caller < 0 || r.Caller >= len(b.callers) {
		return nil, nil
	}
	cs := b.callers[r.Caller]
	if r.Flush > 0 {
		ts := cs.staleTickets(r.N)
		for i := 0; i < r.Flush && len(ts) > 0; i++ {
			t := ts[(len(ts)-1-i%len(ts)+len(ts))%len(ts)] // newest first, wrapping
			b.sendStale(s, cs, t.from, t.ref, b.mkRep(r.Caller, t.n, callee, "stale"), "stale", r.N, true, (r.N+i)%2 == 1)
			if i >= 7 {
				// workload shaping only: give the waiting caller a chance to drain its 10-slot channel
				runtime.Gosched()
			}
		}
	}
	if r.Foreign && len(b.callers) > 1 {
		buddy := b.callers[(r.Caller+1)%len(b.callers)]
		// the reply made for this request, sent to another process (which may be waiting for its own reply)
		b.sendStale(s, cs, buddy.pid, ref, b.mkRep(r.Caller, r.N, callee, "to-other-process"), "to-other-process", r.N, false, r.N%2 == 0)
		// a reply made for the buddy's latest request, sent to this caller with the buddy's ref
		if bt := buddy.staleTickets(-1); len(bt) > 0 {
			t := bt[len(bt)-1]
			b.sendStale(s, cs, from, t.ref, b.mkRep(buddy.id, t.n, callee, "foreign-ref"), "foreign-ref", r.N, true, r.N%2 == 1)
		}
	}
	cs.mu.Lock()
	if cs.accepted > cs.snap {
		cs.window[r.N] = cs.accepted - cs.snap
	}
	cs.snap = cs.accepted
	cs.mu.Unlock()

	switch r.Mode {
	case "late":
		return nil, nil
	case "err":
		cs.own(r.N, s.SendResponseError(from, ref, tagErr(b.mkRep(r.Caller, r.N, callee, "own-err"))))
		return nil, nil
	case "serr":
		// one of the framework's own sentinel errors as the error the callee produced for this request
		e := sentinels[(r.Caller+r.N)%len(sentinels)]
		cs.mu.Lock()
		cs.ownSentinel[r.N] = e
		cs.events++
		cs.mu.Unlock()
		cs.own(r.N, s.SendResponseError(from, ref, e))
		return nil, nil
	case "dup":
		cs.own(r.N, s.SendResponse(from, ref, b.mkRep(r.Caller, r.N, callee, "own")))
		// second reply to the same request: behind the first in the FIFO response channel
		b.sendStale(s, cs, from, ref, b.mkRep(r.Caller, r.N, callee, "dup"), "dup", -2, true, r.N%2 == 1)
		return nil, nil
	}
	rep := b.mkRep(r.Caller, r.N, callee, "own")
	if canReturn {
		return rep, nil
	}
	cs.own(r.N, s.SendResponse(from, ref, rep))
	return nil, nil
}

func (b *book) spray(s sender, sp Spray) {
	defer b.tokenDone(sp.Token)
	if sp.Caller < 0 || sp.Caller >= len(b.callers) {
		return
	}
	cs := b.callers[sp.Caller]
	ts := cs.staleTickets(-1)
	for i := 0; i < sp.K && len(ts) > 0; i++ {
		t := ts[i%len(ts)]
		b.sendStale(s, cs, t.from, t.ref, b.mkRep(sp.Caller, t.n, -1, "spray"), "spray", -1, true, i%2 == 1)
	}
}

// ---------------------------------------------------------------------------
// processes

var errDie = errors.New("c07-callee-dies")

type calleeCfg struct {
	b     *book // book of the round this process belongs to
	id    int
	third func() gen.PID // the third process of this callee's node
	split bool
}

func calleeHooks(cfg *calleeCfg) *actors.Hooks {
	bk := cfg.b
	return &actors.Hooks{
		Init: func(p *actors.Probe, args ...any) error {
			if cfg.split {
				p.SetSplitHandle(true)
			}
			return nil
		},
		Call: func(p *actors.Probe, from gen.PID, ref gen.Ref, req any) (any, error) {
			r, ok := req.(Req)
			if !ok {
				return "not-a-c07-request", nil
			}
			if bk.observe(r, cfg.id, from, ref) == nil {
				return nil, nil
			}
			switch r.Mode {
			case "die":
				return nil, errDie
			case "dier":
				return bk.mkRep(r.Caller, r.N, cfg.id, "own"), gen.TerminateReasonNormal
			}
			switch r.Via {
			case "async":
				p.Send(p.PID(), Fwd{R: r, From: from, Ref: ref, Callee: cfg.id})
				return nil, nil
			case "third":
				p.Send(cfg.third(), Fwd{R: r, From: from, Ref: ref, Callee: cfg.id})
				return nil, nil
			}
			return bk.serve(p, cfg.id, from, ref, r, true)
		},
		Msg: func(p *actors.Probe, from gen.PID, msg any) error {
			switch m := msg.(type) {
			case Fwd:
				bk.serve(p, m.Callee, m.From, m.Ref, m.R, false)
			case Spray:
				bk.spray(p, m)
			case spawnMeta:
				a, err := p.SpawnMeta(m.M, gen.MetaOptions{})
				if err != nil {
					close(m.Done)
				} else {
					m.Done <- a
				}
			}
			return nil
		},
	}
}

type spawnMeta struct {
	M    *actors.Meta
	Done chan gen.Alias
}

func metaHooks(bk *book, id int, third func() gen.PID) *actors.MetaHooks {
	return &actors.MetaHooks{
		Call: func(m *actors.Meta, from gen.PID, ref gen.Ref, req any) (any, error) {
			r, ok := req.(Req)
			if !ok {
				return "not-a-c07-request", nil
			}
			if bk.observe(r, id, from, ref) == nil {
				return nil, nil
			}
			if r.Via == "third" {
				m.Send(third(), Fwd{R: r, From: from, Ref: ref, Callee: id})
				return nil, nil
			}
			if r.Mode == "late" {
				cs := bk.callers[r.Caller]
				cs.mu.Lock()
				if cs.accepted > cs.snap {
					cs.window[r.N] = cs.accepted - cs.snap
				}
				cs.snap = cs.accepted
				cs.mu.Unlock()
				return nil, nil
			}
			// a meta process cannot send responses itself: immediate reply only
			cs := bk.callers[r.Caller]
			cs.mu.Lock()
			if cs.accepted > cs.snap {
				cs.window[r.N] = cs.accepted - cs.snap
			}
			cs.snap = cs.accepted
			cs.mu.Unlock()
			return bk.mkRep(r.Caller, r.N, id, "own"), nil
		},
	}
}

// caller side

type step struct {
	Kind    string  `json:"kind"` // call | spray
	To      any     `json:"-"`
	ToText  string  `json:"to"`
	Req     Req     `json:"req"`
	Timeout int     `json:"timeout"`
	K       int     `json:"k,omitempty"`
	Third   gen.PID `json:"-"`
}

type callLog struct {
	N    int    `json:"n"`
	To   string `json:"to"`
	Mode string `json:"mode"`
	L0   int64  `json:"l0"`
	L1   int64  `json:"l1"`
	Val  any    `json:"val"`
	Err  string `json:"err,omitempty"`
	err  error
	Ms   int64 `json:"ms"`
}

type script struct {
	Important bool // caller sets the important-delivery flag: delivery errors of remote requests come back as error responses
	Steps     []step
	b         *book
	Log       []callLog
	Incon     string
	Done      chan struct{}
}

func callerHooks() *actors.Hooks {
	return &actors.Hooks{
		Msg: func(p *actors.Probe, from gen.PID, msg any) error {
			sc, ok := msg.(*script)
			if !ok {
				return nil
			}
			defer close(sc.Done)
			p.SetImportantDelivery(sc.Important)
			for _, st := range sc.Steps {
				switch st.Kind {
				case "spray":
					tok, ch := sc.b.newToken()
					p.SetImportantDelivery(false) // the delivery ack would compete with the sprayed replies for the channel
					err := p.Send(st.Third, Spray{Caller: st.Req.Caller, K: st.K, Token: tok})
					p.SetImportantDelivery(sc.Important)
					if err != nil {
						sc.Incon = "spray: send failed: " + err.Error()
						return nil
					}
					select {
					case <-ch:
					case <-time.After(20 * time.Second):
						sc.Incon = "watchdog: spray not finished"
						return nil
					}
				default:
					t0 := time.Now()
					l0 := hk.Tick()
					v, err := p.CallWithTimeout(st.To, st.Req, st.Timeout)
					l1 := hk.Tick()
					cl := callLog{N: st.Req.N, To: st.ToText, Mode: st.Req.Mode + "/" + st.Req.Via, L0: l0, L1: l1, Val: v, err: err, Ms: time.Since(t0).Milliseconds()}
					if err != nil {
						cl.Err = err.Error()
					}
					sc.Log = append(sc.Log, cl)
				}
			}
			return nil
		},
	}
}

// ---------------------------------------------------------------------------
// round

type target struct {
	to     any
	text   string
	kind   string // pid | name | meta | rpid | rname
	remote bool
	meta   bool
	pool   bool // an act.Pool: requests are forwarded to one of its workers
}

// poolB is an act.Pool whose workers are instrumented callees
type poolB struct {
	act.Pool
	opts act.PoolOptions
}

func (p *poolB) Init(args ...any) (act.PoolOptions, error) { return p.opts, nil }

var nodeA, nodeB *hk.HNode

var consumed sync.Map // Rep -> "round/caller/n" of the call that returned it

type roundCfg struct {
	id      string
	kind    string // local | name | meta | remote | mixed
	callers int
	steps   int
	stress  bool
}

func waitIdle(n gen.Node, pids []gen.PID) bool {
	return hk.WaitUntil(20*time.Second, func() bool {
		for _, p := range pids {
			if hk.LiveRunners(p) > 0 {
				return false
			}
			info, err := n.ProcessInfo(p)
			if err != nil {
				continue
			}
			if q := info.MailboxQueues; q.Main+q.System+q.Urgent+q.Log > 0 {
				return false
			}
			if info.State != gen.ProcessStateSleep {
				return false
			}
		}
		return true
	})
}

func wantRound(id string) bool {
	o := hk.Only()
	return o == "" || strings.HasPrefix(o, id+"/")
}

var calleeSeq int

func runRound(rc roundCfg) {
	if !wantRound(rc.id) {
		return
	}
	b := &book{tokens: map[int]chan struct{}{}, calleeOnB: map[int]bool{}}
	var pidsA, pidsB []gen.PID
	spawn := func(n *hk.HNode, f gen.ProcessFactory) (gen.PID, error) {
		pid, err := n.Spawn(f, gen.ProcessOptions{})
		if err == nil {
			if n == nodeA {
				pidsA = append(pidsA, pid)
			} else {
				pidsB = append(pidsB, pid)
			}
		}
		return pid, err
	}
	fail := func(what string) {
		hk.Emit(hk.Case{ID: rc.id + "/setup", Scenario: rc.kind, Verdict: hk.Inconclusive, What: what})
		for _, p := range pidsA {
			nodeA.Kill(p)
		}
		for _, p := range pidsB {
			nodeB.Kill(p)
		}
	}

	useRemote := (rc.kind == "remote" || rc.kind == "mixed") && nodeB != nil
	useLocal := rc.kind != "remote" || nodeB == nil

	var thirdA, thirdB gen.PID
	mkThird := func(n *hk.HNode) (gen.PID, error) {
		calleeSeq++
		cfg := &calleeCfg{b: b, id: calleeSeq}
		f, _ := actors.NewProbe(rc.id+"/third", calleeHooks(cfg))
		return spawn(n, f)
	}
	var err error
	if thirdA, err = mkThird(nodeA); err != nil {
		fail("spawn third: " + err.Error())
		return
	}
	if useRemote {
		if thirdB, err = mkThird(nodeB); err != nil {
			fail("spawn remote third: " + err.Error())
			return
		}
	}
	getThirdA := func() gen.PID { return thirdA }
	getThirdB := func() gen.PID { return thirdB }

	var targets []target
	mkCallee := func(n *hk.HNode, third func() gen.PID, split bool) (gen.PID, int, error) {
		calleeSeq++
		cfg := &calleeCfg{b: b, id: calleeSeq, third: third, split: split}
		b.calleeOnB[cfg.id] = n == nodeB
		f, _ := actors.NewProbe(fmt.Sprintf("%s/callee%d", rc.id, cfg.id), calleeHooks(cfg))
		pid, err := spawn(n, f)
		return pid, cfg.id, err
	}
	var metas []*actors.Meta
	var workerMu sync.Mutex
	var workers []*actors.Inst
	if rc.kind == "pool" {
		for k := 0; k < 2; k++ {
			calleeSeq++
			cfg := &calleeCfg{b: b, id: calleeSeq, third: getThirdA}
			wf := actors.NewProbeMulti(fmt.Sprintf("%s/pool%d/worker", rc.id, cfg.id), calleeHooks(cfg), func(i *actors.Inst) {
				workerMu.Lock()
				workers = append(workers, i)
				workerMu.Unlock()
			})
			size := int64(2 + k) // pools of 2 and 3 workers
			pid, err := spawn(nodeA, func() gen.ProcessBehavior {
				return &poolB{opts: act.PoolOptions{PoolSize: size, WorkerFactory: wf}}
			})
			if err != nil {
				fail("spawn pool: " + err.Error())
				return
			}
			targets = append(targets, target{to: pid, text: fmt.Sprintf("pool:pool%d size=%d", cfg.id, size), kind: "pool", pool: true})
		}
	}
	if useLocal {
		nPid := 3
		if rc.kind == "pool" {
			nPid = 1
		}
		if rc.kind == "meta" {
			nPid = 1
		}
		for k := 0; k < nPid; k++ {
			pid, id, err := mkCallee(nodeA, getThirdA, false)
			if err != nil {
				fail("spawn callee: " + err.Error())
				return
			}
			targets = append(targets, target{to: pid, text: fmt.Sprintf("pid:callee%d", id), kind: "pid"})
		}
		if rc.kind == "name" || rc.kind == "mixed" {
			for k := 0; k < 2; k++ {
				pid, id, err := mkCallee(nodeA, getThirdA, k == 0)
				if err != nil {
					fail("spawn named callee: " + err.Error())
					return
				}
				name := gen.Atom(fmt.Sprintf("c07_%s_%d", strings.ReplaceAll(rc.id, "/", "_"), id))
				if err := nodeA.RegisterName(name, pid); err != nil {
					fail("register name: " + err.Error())
					return
				}
				targets = append(targets, target{to: gen.ProcessID{Name: name, Node: nodeA.Name()}, text: fmt.Sprintf("name:callee%d split=%v", id, k == 0), kind: "name"})
			}
		}
		if rc.kind == "meta" || rc.kind == "mixed" {
			// host process spawns the meta processes
			host, _, err := mkCallee(nodeA, getThirdA, false)
			if err != nil {
				fail("spawn meta host: " + err.Error())
				return
			}
			for k := 0; k < 2; k++ {
				calleeSeq++
				id := calleeSeq
				m := actors.NewMeta(fmt.Sprintf("%s/meta%d", rc.id, id), metaHooks(b, id, getThirdA))
				ch := make(chan gen.Alias, 1)
				nodeA.Send(host, spawnMeta{M: m, Done: ch})
				select {
				case a, ok := <-ch:
					if !ok {
						fail("spawn meta failed")
						return
					}
					select {
					case <-m.Started:
					case <-time.After(5 * time.Second):
						fail("meta not started")
						return
					}
					metas = append(metas, m)
					targets = append(targets, target{to: a, text: fmt.Sprintf("alias:meta%d", id), kind: "meta", meta: true})
				case <-time.After(5 * time.Second):
					fail("spawn meta: watchdog")
					return
				}
			}
		}
	}
	if useRemote {
		for k := 0; k < 3; k++ {
			pid, id, err := mkCallee(nodeB, getThirdB, false)
			if err != nil {
				fail("spawn remote callee: " + err.Error())
				return
			}
			if k < 2 {
				targets = append(targets, target{to: pid, text: fmt.Sprintf("rpid:callee%d", id), kind: "rpid", remote: true})
			} else {
				name := gen.Atom(fmt.Sprintf("c07r_%s_%d", strings.ReplaceAll(rc.id, "/", "_"), id))
				if err := nodeB.RegisterName(name, pid); err != nil {
					fail("register remote name: " + err.Error())
					return
				}
				targets = append(targets, target{to: gen.ProcessID{Name: name, Node: nodeB.Name()}, text: fmt.Sprintf("rname:callee%d", id), kind: "rname", remote: true})
			}
		}
	}

	// callers
	var callerPids []gen.PID
	var callerNodes []*hk.HNode
	for c := 0; c < rc.callers; c++ {
		f, _ := actors.NewProbe(fmt.Sprintf("%s/caller%d", rc.id, c), callerHooks())
		cn := nodeA
		if useRemote && c%2 == 1 {
			// callers on both nodes: requests and replies cross the connection in both directions,
			// process ids of the two nodes overlap numerically
			cn = nodeB
		}
		callerNodes = append(callerNodes, cn)
		pid, err := spawn(cn, f)
		if err != nil {
			fail("spawn caller: " + err.Error())
			return
		}
		callerPids = append(callerPids, pid)
		b.callers = append(b.callers, &cstate{id: c, pid: pid, seen: map[int]int{}, window: map[int]int64{}, ownRes: map[int]string{}, ownSentinel: map[int]error{}})
	}

	// scripts
	scripts := make([]*script, rc.callers)
	for c := 0; c < rc.callers; c++ {
		rng := hk.Rng("c07", rc.id, fmt.Sprint(c))
		sc := &script{b: b, Done: make(chan struct{}), Important: c%4 == 3}
		latePos := 1 + rng.Intn(rc.steps-3)
		diePos := -1
		if rng.Intn(2) == 0 {
			diePos = 1 + rng.Intn(rc.steps-2)
			if diePos == latePos {
				diePos = -1
			}
		}
		sprayPos := 2 + rng.Intn(rc.steps-3)
		bigPos := 2 + rng.Intn(rc.steps-2)
		n := 0
		afterSpray := false
		for s := 0; s < rc.steps; s++ {
			t := targets[rng.Intn(len(targets))]
			r := Req{Caller: c, N: n, Mode: "imm", Via: "sync"}
			timeout := 3
			if rc.kind == "pool" {
				timeout = 2 // requests queued at a worker that terminates are lost
			}
			switch {
			case s == 0:
			case s == latePos:
				r.Mode = "late"
				timeout = 1
				if rng.Intn(2) == 0 {
					r.Flush = 1 + rng.Intn(3)
				}
			case s == diePos && t.pool:
				// the worker that gets this request terminates; a later request finds the dead slot and the pool respawns it
				r.Mode = []string{"die", "dier"}[rng.Intn(2)]
				timeout = 1
			case s == diePos && !t.meta:
				r.Mode = []string{"die", "dier"}[rng.Intn(2)]
				timeout = 1
				// an expendable callee
				n2 := nodeA
				third := getThirdA
				if t.remote {
					n2, third = nodeB, getThirdB
				}
				pid, id, err := mkCallee(n2, third, false)
				if err != nil {
					fail("spawn mortal callee: " + err.Error())
					return
				}
				t = target{to: pid, text: fmt.Sprintf("%s:mortal%d", t.kind, id), kind: t.kind, remote: t.remote}
			default:
				r.Mode = []string{"imm", "imm", "dup", "err", "serr"}[rng.Intn(5)]
				r.Via = []string{"sync", "async", "third"}[rng.Intn(3)]
				r.Flush = []int{0, 0, 1, 2, 4}[rng.Intn(5)]
				if s == bigPos {
					// more stale replies than the response channel holds; the own reply may be refused: short timeout
					r.Flush = 11 + rng.Intn(4)
					timeout = 1
				}
				r.Foreign = rng.Intn(4) == 0
				if s == latePos+1 && r.Flush == 0 {
					r.Flush = 1 + rng.Intn(3) // the late reply of the timed-out request arrives while this one waits
				}
			}
			if t.meta && (r.Mode == "dup" || r.Mode == "err" || r.Mode == "serr" || r.Flush > 0 || r.Foreign) {
				r.Via = "third"
			}
			if t.meta && r.Via == "async" {
				r.Via = "third"
			}
			if afterSpray {
				timeout = 1
				afterSpray = false
			}
			sc.Steps = append(sc.Steps, step{Kind: "call", To: t.to, ToText: t.text, Req: r, Timeout: timeout})
			n++
			if s == sprayPos {
				th := thirdA
				if t.remote {
					th = thirdB
				}
				sc.Steps = append(sc.Steps, step{Kind: "spray", Req: Req{Caller: c}, K: 4 + rng.Intn(12), Third: th})
				afterSpray = true
			}
		}
		scripts[c] = sc
	}

	if rc.stress {
		hk.Stress(rc.id, map[string]float64{
			"proc.run.wake": 0.05, "proc.run.tosleep": 0.1, "proc.run.recheck": 0.1, "proc.run.enter": 0.05,
			"mpsc.push.swapped": 0.03, "meta.wake": 0.05, "meta.tosleep": 0.1, "recv.push": 0.03, "send.pick": 0.03,
		}, 300*time.Microsecond)
	}
	t0 := time.Now()
	for c, sc := range scripts {
		callerNodes[c].Send(callerPids[c], sc)
	}
	finished := make([]bool, rc.callers)
	deadline := time.After(time.Duration(60+rc.steps*4) * time.Second)
	for c, sc := range scripts {
		select {
		case <-sc.Done:
			finished[c] = true
		case <-deadline:
			deadline = time.After(time.Millisecond)
		}
	}
	hk.StressOff()
	// pool workers (also the respawned ones) must have drained their mailboxes before the presentations are counted
	workerMu.Lock()
	for _, w := range workers {
		if w.PID != (gen.PID{}) {
			pidsA = append(pidsA, w.PID)
		}
	}
	if rc.kind == "pool" {
		hk.Stat("pool_workers_respawned_after_termination", int64(len(workers)-5))
	}
	workerMu.Unlock()
	quiet := waitIdle(nodeA, pidsA)
	if nodeB != nil && len(pidsB) > 0 {
		quiet = waitIdle(nodeB, pidsB) && quiet
		quiet = waitIdle(nodeA, pidsA) && quiet
	}
	hk.StatMax("round_wall_ms_max", time.Since(t0).Milliseconds())

	// ---- oracles
	for c, sc := range scripts {
		id := fmt.Sprintf("%s/c%d", rc.id, c)
		cs := b.callers[c]
		var viol []string
		sig := ""
		setSig := func(s string) {
			if sig == "" {
				sig = s
			}
		}
		timedOut := map[int]bool{}
		classes := map[string]bool{}
		nontrivial := false
		var unexpectedTimeouts, otherTimeouts, returnedOwn, sentinelOK int64
		lostOwn := map[int]string{} // unscripted timeouts: what the replier was told when it sent the own reply
		crowded := map[int]bool{}   // requests whose own reply may be refused: channel crowded by >10 stale replies
		{
			after := false
			for _, st := range sc.Steps {
				if st.Kind == "spray" {
					after = true
					continue
				}
				if after || st.Req.Flush > 10 {
					crowded[st.Req.N] = true
				}
				after = false
			}
		}
		for _, cl := range sc.Log {
			check := func(r Rep, what string) {
				if r.Caller != c || r.N != cl.N {
					pk, _ := b.produced.Load(r)
					pks, _ := pk.(string)
					switch {
					case strings.HasPrefix(pks, "foreign-ref") && b.calleeOnB[r.Callee] != (callerNodes[c] == nodeB):
						// the reply carried a ref minted by the replier's node and crossed the connection: see scenario X
						setSig("foreign-node-ref-reply-accepted-across-nodes")
					case what == "error":
						// a tagged reply-error made for another request ended this one
						setSig("late-error-reply-of-other-request-returned")
					case r.Caller != c:
						setSig("reply-for-other-process-returned")
					case timedOut[r.N]:
						setSig("late-reply-of-timed-out-request-returned")
					default:
						setSig("stale-reply-returned-for-newer-request")
					}
					kind, _ := b.produced.Load(r)
					viol = append(viol, fmt.Sprintf("request (caller %d, n %d) to %s returned the %s %+v (produced as %v) made for request (caller %d, n %d)", c, cl.N, cl.To, what, r, kind, r.Caller, r.N))
					return
				}
				if _, ok := b.produced.Load(r); !ok {
					setSig("reply-nobody-produced-returned")
					viol = append(viol, fmt.Sprintf("request (caller %d, n %d) returned %s %+v which no callee produced", c, cl.N, what, r))
					return
				}
				key := fmt.Sprintf("%s/n%d", id, cl.N)
				if prev, loaded := consumed.LoadOrStore(fmt.Sprintf("%s|%+v", rc.id, r), key); loaded {
					setSig("reply-consumed-twice")
					viol = append(viol, fmt.Sprintf("reply %+v returned by call %s was already returned by call %v", r, key, prev))
					return
				}
				returnedOwn++
			}
			switch {
			case cl.err == nil:
				r, ok := cl.Val.(Rep)
				if !ok {
					if cl.Val == nil {
						setSig("call-returned-neither-value-nor-error")
					} else {
						setSig("call-returned-unknown-value")
					}
					viol = append(viol, fmt.Sprintf("request (caller %d, n %d) to %s returned (%#v, nil)", c, cl.N, cl.To, cl.Val))
					continue
				}
				check(r, "value")
				if w := func() int64 { cs.mu.Lock(); defer cs.mu.Unlock(); return cs.window[cl.N] }(); w > 0 && r.Caller == c && r.N == cl.N {
					// own reply returned although w stale replies preceded it in the response channel
					nontrivial = true
					classes["stale-before-own-reply"] = true
					cs.mu.Lock()
					for _, s := range cs.stale {
						if s.Res != "ok" || s.TicketN >= cl.N {
							continue
						}
						if s.DuringN == cl.N && timedOut[s.TicketN] {
							if strings.HasSuffix(s.Kind, "-err") {
								classes["late-error-reply-of-timed-out-request-while-waiting"] = true
							} else {
								classes["late-reply-of-timed-out-request-while-waiting"] = true
							}
						}
						if strings.HasSuffix(s.Kind, "-err") {
							classes["stale-error-reply"] = true
						}
						if s.DuringN == cl.N && strings.HasPrefix(s.Kind, "foreign-ref") {
							classes["foreign-ref"] = true
						}
					}
					cs.mu.Unlock()
					if w > 10 {
						classes["more-than-10-stale"] = true
					}
				}
			default:
				if r, ok := parseTagErr(cl.err); ok {
					check(r, "error")
					classes["error-reply"] = true
				} else if prod := func() error { cs.mu.Lock(); defer cs.mu.Unlock(); return cs.ownSentinel[cl.N] }(); prod != nil && errors.Is(cl.err, prod) {
					// the very error the answering process produced for this request
					classes["sentinel-error-reply"] = true
					returnedOwn++
					sentinelOK++
				} else if prod != nil && cl.err != gen.ErrTimeout {
					setSig("error-reply-altered")
					viol = append(viol, fmt.Sprintf("request (caller %d, n %d) to %s: the answering process replied with the error %q (SendResponseError), the Call returned the different error %q", c, cl.N, cl.To, prod, cl.err))
				} else if cl.err == gen.ErrTimeout {
					timedOut[cl.N] = true
					if !strings.HasPrefix(cl.Mode, "late") && !strings.HasPrefix(cl.Mode, "die/") {
						unexpectedTimeouts++
						if !crowded[cl.N] {
							otherTimeouts++
						}
						cs.mu.Lock()
						lostOwn[cl.N] = cs.ownRes[cl.N]
						cs.mu.Unlock()
					}
				}
				// any other error: a delivery error, allowed by the statement
			}
			if strings.HasPrefix(cl.Mode, "dup") {
				classes["dup"] = true
			}
			if strings.HasPrefix(cl.Mode, "die") {
				classes["callee-terminated"] = true
			}
			if strings.HasSuffix(cl.Mode, "/third") {
				classes["third"] = true
			}
			if strings.HasSuffix(cl.Mode, "/async") {
				classes["async"] = true
			}
		}
		cs.mu.Lock()
		for n, k := range cs.seen {
			if k > 1 {
				setSig("request-presented-twice")
				viol = append(viol, fmt.Sprintf("request (caller %d, n %d) was presented %d times to a callee", c, n, k))
			}
		}
		if cs.ignored > 0 {
			classes["response-ignored-at-replier"] = true
		}
		events := cs.events + int64(len(sc.Log))
		ignored, accepted := cs.ignored, cs.accepted
		stale := append([]staleRec(nil), cs.stale...)
		cs.mu.Unlock()
		hk.Stat("stale_replies_accepted", accepted)
		hk.Stat("stale_replies_ignored_at_replier", ignored)
		hk.Stat("calls_returned", int64(len(sc.Log)))
		hk.Stat("calls_returned_own_reply", returnedOwn)
		hk.Stat("timeouts_not_scripted", unexpectedTimeouts)
		hk.Stat("sentinel_error_replies_returned_unaltered", sentinelOK)
		hk.Stat("timeouts_not_scripted_and_channel_not_crowded", otherTimeouts)
		for _, v := range lostOwn {
			switch v {
			case "ok":
				hk.Stat("timeouts_not_scripted_own_reply_sent_ok", 1)
			case "":
				hk.Stat("timeouts_not_scripted_own_reply_by_return_value", 1)
			default:
				hk.Stat("timeouts_not_scripted_own_reply_refused", 1)
			}
		}

		if !hk.Want(id) {
			continue
		}
		var cls []string
		for k := range classes {
			cls = append(cls, k)
		}
		sort.Strings(cls)
		kinds := map[string]bool{}
		for _, st := range sc.Steps {
			if st.Kind == "call" {
				kinds[strings.SplitN(st.ToText, ":", 2)[0]] = true
			}
		}
		var ks []string
		for k := range kinds {
			ks = append(ks, k)
		}
		sort.Strings(ks)
		cse := hk.Case{ID: id, Scenario: "round-" + rc.kind, Key: fmt.Sprintf("%s/caller@%s|%s|%s", rc.kind, map[bool]string{true: "A", false: "B"}[callerNodes[c] == nodeA], strings.Join(ks, ","), strings.Join(cls, ",")),
			Nontrivial: nontrivial, Events: events}
		switch {
		case len(viol) > 0:
			cse.Verdict = hk.Violated
			cse.Sig = sig
			cse.What = strings.Join(viol, "; ")
			cse.Detail = map[string]any{"steps": sc.Steps, "caller_log": sc.Log, "stale_sends": stale, "stress": rc.stress, "important": sc.Important, "own_reply_send_result_of_unscripted_timeouts": lostOwn}
		case !finished[c]:
			cse.Verdict = hk.Inconclusive
			cse.What = "watchdog: caller script not finished"
		case sc.Incon != "":
			cse.Verdict = hk.Inconclusive
			cse.What = sc.Incon
		case !quiet:
			cse.Verdict = hk.Inconclusive
			cse.What = "watchdog: no quiescence of the callees"
		default:
			cse.Verdict = hk.Held
			if c < 2 || otherTimeouts > 0 {
				cse.Detail = map[string]any{"steps": sc.Steps, "caller_log": sc.Log, "stale_sends": stale, "stress": rc.stress, "important": sc.Important, "own_reply_send_result_of_unscripted_timeouts": lostOwn}
			}
		}
		hk.Emit(cse)
	}
	for _, m := range metas {
		close(m.Stop)
	}
	for _, p := range pidsA {
		nodeA.Kill(p)
	}
	for _, p := range pidsB {
		nodeB.Kill(p)
	}
	hk.WaitUntil(10*time.Second, func() bool {
		for _, p := range pidsA {
			if _, err := nodeA.ProcessInfo(p); err == nil {
				return false
			}
		}
		return true
	})
}

func main() {
	hk.InstallHook()
	hk.Rule("rounds: 64 concurrent caller processes x seeded scripts of sequential Calls to shared callees (kinds: pid, registered name incl. split handlers, meta alias, act.Pool of 2 and 3 instrumented workers which terminate now and then so that later requests take the pool's respawn branch (presentations are counted across all workers), remote pid/name/alias across a second node, in the remote and mixed rounds callers live on both nodes; reply by HandleCall return value, SendResponse from the callee later, from a third process, twice, as tagged error, as one of the framework's sentinel errors (ErrProcessTerminated/MailboxFull/Unknown/Timeout via SendResponseError; the Call must return errors.Is-equal or time out), never (1 s timeout), callee terminating). Before its own reply the answering process re-sends replies made for EARLIER requests of the same caller (incl. the timed-out ones), replies with another caller's ref, and the reply to another process, each alternately as value (SendResponse) and as tagged error (SendResponseError); a third process sprays 4..15 stale replies at the idle caller (channel capacity 10). One case = one caller script. Non-trivial iff at least one Call returned its own reply although >=1 stale reply, whose SendResponse returned nil, preceded that reply in the caller's FIFO response channel (sent by the answering process before the own reply, or accepted while the caller was idle, or a duplicate queued behind the previous own reply; for remote callees: sent without error on the same order-preserving connection). Distinct = round kind x target kinds used x observed classes (late reply of a timed-out request while waiting, >10 stale, foreign ref, dup, error reply, callee terminated, ignored at replier, third, async). Scenario W: ref-wrap history, non-trivial iff the later request really carried the same ref as the timed-out one. Scenario I: remote Calls with the important-delivery flag to an unknown pid/name, a terminated pid and a full mailbox must return the error a caller on the callee's node gets for the same target (or time out), non-trivial iff that error came back. Scenario X: reply with a ref minted by another node, non-trivial iff the two outstanding requests really carried refs with equal ids minted by different nodes.")
	hk.Assume("the harness callees are the only repliers; reply identity (caller,n,callee,no) is carried in the payload")
	hk.Assume("a caller process issues its Calls sequentially (a process can have one outstanding Call), so every ticket of an earlier request is stale by construction")
	for _, v := range []any{Req{}, Rep{}, Fwd{}, Spray{}} {
		if err := edf.RegisterTypeOf(v); err != nil {
			fmt.Fprintln(os.Stderr, "register type:", err)
		}
	}
	var err error
	reg := hk.FreePort()
	nodeA, err = hk.StartNode(hk.NodeCfg{Name: hk.UniqueName("c07a"), Network: true, RegPort: reg})
	if err != nil {
		fmt.Fprintln(os.Stderr, "start node:", err)
		os.Exit(3)
	}
	nodeB, err = hk.StartNode(hk.NodeCfg{Name: hk.UniqueName("c07b"), Network: true, RegPort: reg})
	if err != nil {
		fmt.Fprintln(os.Stderr, "start node B:", err)
		nodeB = nil
	} else if _, err := hk.Connect(nodeA, nodeB); err != nil {
		fmt.Fprintln(os.Stderr, "connect:", err)
		hk.Note("remote_rounds_skipped", err.Error())
		nodeB = nil
	}

	kinds := []string{"local", "name", "meta", "pool", "remote", "mixed"}
	reps := hk.Pick(2, 50)
	for k := 0; k < reps; k++ {
		for _, kind := range kinds {
			if (kind == "remote") && nodeB == nil {
				continue
			}
			runRound(roundCfg{id: fmt.Sprintf("R%d-%s", k, kind), kind: kind, callers: 64, steps: hk.Pick(10, 14), stress: k%2 == 1})
		}
	}
	runImportant()
	runXNode() // before W: W moves node A's reference counter far ahead of node B's
	runWrap()

	h, d := hk.PointStats()
	hk.Note("hook_hits", h)
	hk.Note("hook_delays", d)
	for _, n := range []*hk.HNode{nodeA, nodeB} {
		if n != nil && len(n.Cap.PanicLines()) > 0 {
			hk.Note("framework_panic_log_lines", n.Cap.PanicLines())
		}
	}
	os.Stdout.Sync()
	os.Exit(0)
}
