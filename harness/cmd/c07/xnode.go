package main

import (
	"fmt"
	"sync"
	"time"

	"ergo.services/ergo/gen"

	"verif/harness/actors"
	"verif/harness/hk"
)

// Scenario X: "a reply meant for another process, carrying a foreign ref".
// P (node B) and P2 (node A) both have a request outstanding at Q (node A).
// The reference counters of the two nodes were lined up beforehand so that the
// two requests carry references with equal numeric ids minted by different
// nodes (the id space is per node; equal ids on two nodes are ordinary).
// Q sends the reply it made for P2's request, with P2's ref, to P — the
// mistake the statement names — and then answers both properly.  On one node
// such a reply is dropped because the refs differ (Node field).  P must return
// the reply made for its own request.

func alignRefCounters(a, b *hk.HNode, limit int) (bool, int) {
	minted := 1
	rb := b.MakeRef()
	for i := 0; i < limit; i++ {
		minted++
		if a.MakeRef().ID == rb.ID {
			return true, minted
		}
	}
	// a was ahead of b (and is now `limit` further ahead): let b catch up
	ra := a.MakeRef()
	minted++
	for i := 0; i < 2*limit+16; i++ {
		minted++
		if b.MakeRef().ID == ra.ID {
			return true, minted
		}
	}
	return false, minted
}

func runXNode() {
	id := "X/foreign-node-ref/remote"
	if !hk.Want(id) || nodeB == nil {
		return
	}
	const limit = (1 << 18) + 4096
	b := &book{tokens: map[int]chan struct{}{}}
	var mu sync.Mutex
	held := map[int]wrapSeen{} // request n -> ticket
	var foreignRes []string

	calleeF, _ := actors.NewProbe(id+"/callee", &actors.Hooks{
		Call: func(p *actors.Probe, from gen.PID, ref gen.Ref, req any) (any, error) {
			r, ok := req.(Req)
			if !ok {
				return "?", nil
			}
			mu.Lock()
			held[r.N] = wrapSeen{N: r.N, From: from, Ref: ref}
			other, have := held[r.N-1] // P2's request is 2k, P's is 2k+1
			mu.Unlock()
			if r.Caller != 0 || !have {
				return nil, nil // P2's request waits until P's has arrived
			}
			// the reply made for P2's request, with P2's ref, sent to P
			err := p.SendResponse(from, other.Ref, b.mkRep(1, other.N, 1, "foreign-ref"))
			mu.Lock()
			foreignRes = append(foreignRes, resText(err))
			mu.Unlock()
			// proper replies
			p.SendResponse(other.From, other.Ref, b.mkRep(1, other.N, 1, "own"))
			return b.mkRep(0, r.N, 1, "own"), nil
		},
	})
	mkCaller := func(label string) gen.ProcessFactory {
		f, _ := actors.NewProbe(id+"/"+label, &actors.Hooks{
			Msg: func(p *actors.Probe, from gen.PID, msg any) error {
				if c, ok := msg.(wrapCmd); ok {
					v, err := p.CallWithTimeout(c.To, c.R, c.Timeout)
					c.Done <- wrapRes{Val: v, Err: err}
				}
				return nil
			},
		})
		return f
	}
	q, e1 := nodeA.Spawn(calleeF, gen.ProcessOptions{})
	p2, e2 := nodeA.Spawn(mkCaller("P2"), gen.ProcessOptions{})
	p1, e3 := nodeB.Spawn(mkCaller("P"), gen.ProcessOptions{})
	defer func() {
		nodeA.Kill(q)
		nodeA.Kill(p2)
		nodeB.Kill(p1)
	}()
	emit := func(c hk.Case) {
		c.ID = id
		c.Scenario = "foreign-node-ref"
		hk.Emit(c)
	}
	if e1 != nil || e2 != nil || e3 != nil {
		emit(hk.Case{Verdict: hk.Inconclusive, What: fmt.Sprint("spawn: ", e1, e2, e3)})
		return
	}
	var resP wrapRes
	var tP, tP2 wrapSeen
	equal := false
	attempts := 0
	totalMinted := 0
	for attempts < 3 && !equal {
		attempts++
		ok, m := alignRefCounters(nodeA, nodeB, limit)
		totalMinted += m
		if !ok {
			emit(hk.Case{Verdict: hk.Held, Key: "foreign-node-ref/ids-not-alignable", Nontrivial: false, Events: 1,
				What: "could not mint references with equal ids on the two nodes: the history cannot be built"})
			return
		}
		n2, n1 := 2*attempts, 2*attempts+1
		done2 := make(chan wrapRes, 1)
		done1 := make(chan wrapRes, 1)
		nodeA.Send(p2, wrapCmd{To: q, R: Req{Caller: 1, N: n2}, Timeout: 4, Done: done2})
		if !hk.WaitUntil(10*time.Second, func() bool { mu.Lock(); defer mu.Unlock(); _, ok := held[n2]; return ok }) {
			emit(hk.Case{Verdict: hk.Inconclusive, What: "watchdog: request of P2 not seen", Events: 1})
			return
		}
		nodeB.Send(p1, wrapCmd{To: q, R: Req{Caller: 0, N: n1}, Timeout: 4, Done: done1})
		select {
		case resP = <-done1:
		case <-time.After(20 * time.Second):
			emit(hk.Case{Verdict: hk.Inconclusive, What: "watchdog: call of P did not return", Events: 2})
			return
		}
		select {
		case <-done2:
		case <-time.After(20 * time.Second):
		}
		mu.Lock()
		tP, tP2 = held[n1], held[n2]
		mu.Unlock()
		equal = tP.Ref.ID == tP2.Ref.ID && tP.Ref.Node != tP2.Ref.Node
	}
	hk.Stat("xnode_refs_minted_to_align", int64(totalMinted))
	detail := map[string]any{"ref_of_P_request": fmt.Sprintf("%s minted by %s", tP.Ref, tP.Ref.Node), "ref_of_P2_request": fmt.Sprintf("%s minted by %s", tP2.Ref, tP2.Ref.Node),
		"P": tP.From.String(), "P2": tP2.From.String(), "returned_value": fmt.Sprintf("%+v", resP.Val), "returned_error": fmt.Sprint(resP.Err), "foreign_send_results": foreignRes, "attempts": attempts}
	if !equal {
		emit(hk.Case{Verdict: hk.Inconclusive, What: "the two requests did not get equal reference ids (concurrent minting)", Events: int64(4 * attempts), Detail: detail})
		return
	}
	c := hk.Case{Key: "foreign-node-ref/equal-ids-different-nodes", Nontrivial: true, Events: int64(4 * attempts), Detail: detail}
	rep, isRep := resP.Val.(Rep)
	switch {
	case resP.Err == nil && isRep && (rep.Caller != 0 || rep.N != tP.N):
		c.Verdict = hk.Violated
		c.Sig = "foreign-node-ref-reply-accepted-across-nodes"
		c.What = fmt.Sprintf("P=%s (node B) asked request n=%d with ref %s (minted by B) and got %+v: the reply made for request n=%d of P2=%s, sent to P with P2's ref %s (minted by node A). The wire format of a response carries only the numeric id of the ref; the receiving node rebuilds Node/Creation from itself, so a ref minted by another node with the same numeric id is taken for P's own",
			tP.From, tP.N, tP.Ref, rep, tP2.N, tP2.From, tP2.Ref)
	case resP.Err == nil && !isRep:
		c.Verdict = hk.Violated
		c.Sig = "call-returned-unknown-value"
		c.What = fmt.Sprintf("request of P returned (%#v, nil)", resP.Val)
	default:
		c.Verdict = hk.Held
	}
	emit(c)
}
