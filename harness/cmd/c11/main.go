// C11 — EDF round trip: what the encoder accepts decodes to an equal value of
// the same type, consuming exactly the bytes produced; with and without the
// per-connection caches; registered sentinel errors keep their identity.
//
// Monitor: the round-trip oracle around the public edf.Encode / edf.Decode
// API.  Workloads: a directed family of boundary values in several container
// contexts, and seeded bulk generation over ~50 registered harness types,
// framework types and reflect-built unnamed composites, under every cache
// configuration (none, common Cache, caches negotiated by the real handshake
// in both directions, a peer process with different cache ids).
package main

import (
	"encoding/hex"
	"fmt"
	"os"
	"reflect"
	"regexp"
	"runtime"
	"sort"
	"strconv"
	"strings"
	"sync"
	"sync/atomic"
	"time"

	"ergo.services/ergo/lib"
	"ergo.services/ergo/net/edf"

	"verif/harness/hk"
)

// ---------------------------------------------------------------------------
// cache configurations

type cfg struct {
	name    string
	enc     edf.Options
	dec     edf.Options
	errIDs  bool // ErrCache negotiated: sentinel identity is demanded
	caches  bool // atom/type/error caches present: shorter output = cache hit
	mapping bool
}

var cfgs []*cfg

// ---------------------------------------------------------------------------
// one round trip

type failure struct {
	kind string // decode-error | rest | value | panic
	msg  string
	mm   *mismatch
}

type rtResult struct {
	encErr error
	fail   *failure
	nbytes int
	st     eqStats
	hexb   string
	junk   []byte
	header int
	// the encoded bytes (without junk) of a round trip whose decoding failed
	packet []byte
}

var junkChoices = [][]byte{nil, nil, {0xff}, {0x83, 0x00, 0x01}, {0x82, 0x9d, 0xff, 0x00, 0x00, 0x00, 0x01, 0x8d}}

// roundtrip encodes v the way the network layer does (pooled lib.Buffer with a
// header in front), decodes bytes++junk and applies the oracle.
func roundtrip(v any, c *cfg, junk []byte, header int, wantHex bool) (res rtResult) {
	return roundtripOpt(v, c, junk, header, wantHex, 0)
}

// roundtripOpt: pregrow > 0 makes the pooled buffer at least that large before
// encoding, so that it does not grow while the value is encoded (diagnosis only)
func roundtripOpt(v any, c *cfg, junk []byte, header int, wantHex bool, pregrow int) (res rtResult) {
	defer func() {
		if r := recover(); r != nil {
			res.fail = &failure{kind: "panic", msg: fmt.Sprintf("panic escaped the codec: %v", r)}
		}
	}()
	res.junk, res.header = junk, header
	if diagnosing.Load() {
		dirtyPool()
	}
	buf := lib.TakeBuffer()
	if pregrow > 0 {
		buf.Allocate(pregrow)
	}
	buf.Allocate(header)
	err := edf.Encode(v, buf, c.enc)
	if err != nil {
		lib.ReleaseBuffer(buf)
		res.encErr = err
		return
	}
	res.nbytes = buf.Len() - header
	packet := make([]byte, 0, res.nbytes+len(junk))
	packet = append(packet, buf.B[header:]...)
	packet = append(packet, junk...)
	lib.ReleaseBuffer(buf)
	if wantHex {
		if len(packet) <= 160 {
			res.hexb = hex.EncodeToString(packet)
		} else {
			res.hexb = hex.EncodeToString(packet[:96]) + fmt.Sprintf("...(%d bytes)...", len(packet)) + hex.EncodeToString(packet[len(packet)-32:])
		}
	}

	out, rest, err := edf.Decode(packet, c.dec)
	if err != nil {
		res.fail = &failure{kind: "decode-error", msg: fmt.Sprintf("Encode accepted the value (%d bytes) but Decode failed: %v", res.nbytes, err)}
		res.packet = packet[:res.nbytes:res.nbytes]
		return
	}
	if len(rest) != len(junk) || (len(junk) > 0 && &rest[0] != &packet[res.nbytes]) {
		res.fail = &failure{kind: "rest", msg: fmt.Sprintf("Decode consumed %d bytes, Encode produced %d", len(packet)-len(rest), res.nbytes)}
		res.packet = packet[:res.nbytes:res.nbytes]
		return
	}
	// the receiver's buffer goes back to a pool: a decoded value must not alias it
	for i := range packet {
		packet[i] = 0xA5
	}
	a := reflect.ValueOf(v)
	b := reflect.ValueOf(out)
	if mm := equalEDF(a, b, "v", eqOpts{sentinelIdentity: c.errIDs}, &res.st); mm != nil {
		res.fail = &failure{kind: "value", msg: mm.String(), mm: mm}
	}
	return
}

// ---------------------------------------------------------------------------
// minimisation and signatures

// children returns the directly contained values that can be encoded on their own
func children(v reflect.Value) []reflect.Value {
	var out []reflect.Value
	add := func(c reflect.Value) {
		if !c.IsValid() {
			return
		}
		if c.Kind() == reflect.Interface {
			if c.IsNil() {
				return
			}
			c = c.Elem()
		}
		out = append(out, c)
	}
	if !v.IsValid() {
		return nil
	}
	switch v.Type() {
	case tTime, tMEDF, tMBin, tMBinArr, tPID, tRef, tAlias, tEvent, tProcID:
		return nil
	}
	switch v.Kind() {
	case reflect.Struct:
		for i := 0; i < v.NumField(); i++ {
			add(v.Field(i))
		}
	case reflect.Slice, reflect.Array:
		if v.Type() == tBytes {
			return nil
		}
		n := v.Len()
		for i := 0; i < n && i < 64; i++ {
			add(v.Index(i))
		}
		if n > 64 {
			add(v.Index(n - 1))
		}
	case reflect.Map:
		it := v.MapRange()
		for k := 0; it.Next() && k < 64; k++ {
			add(it.Key())
			add(it.Value())
		}
	}
	return out
}

// minimize: descend into the first child that fails on its own (same config).
// Buffers are pre-grown so that the result does not depend on the position in
// the pooled buffer.
func minimize(v reflect.Value, c *cfg, depth int, grow int) (reflect.Value, rtResult) {
	res := roundtripOpt(v.Interface(), c, nil, 0, true, grow)
	if depth > 12 {
		return v, res
	}
	for _, ch := range children(v) {
		if !ch.CanInterface() {
			continue
		}
		r := roundtripOpt(ch.Interface(), c, nil, 0, false, grow)
		if r.encErr == nil && r.fail != nil {
			// (a child that fails only sometimes - map iteration order - is not a reproducer)
			if m, mr := minimize(ch, c, depth+1, grow); mr.encErr == nil && mr.fail != nil {
				return m, mr
			}
		}
	}
	return v, res
}

// typeHas: the static type t contains (at any depth) a type satisfying pred
func typeHas(t reflect.Type, pred func(reflect.Type) bool, depth int) bool {
	if depth > 12 {
		return false
	}
	if pred(t) {
		return true
	}
	switch t.Kind() {
	case reflect.Slice, reflect.Array:
		return typeHas(t.Elem(), pred, depth+1)
	case reflect.Map:
		return typeHas(t.Key(), pred, depth+1) || typeHas(t.Elem(), pred, depth+1)
	case reflect.Struct:
		if t == tTime {
			return false
		}
		for i := 0; i < t.NumField(); i++ {
			if typeHas(t.Field(i).Type, pred, depth+1) {
				return true
			}
		}
	}
	return false
}

// contains: the value contains, statically or through its interface-typed slots, a type satisfying pred
func contains(v reflect.Value, pred func(reflect.Type) bool) bool {
	return containsD(v, pred, 0, true)
}

func containsD(v reflect.Value, pred func(reflect.Type) bool, depth int, checkType bool) bool {
	if !v.IsValid() || depth > 40 {
		return false
	}
	if checkType && typeHas(v.Type(), pred, 0) {
		return true
	}
	if !typeHas(v.Type(), func(t reflect.Type) bool { return t.Kind() == reflect.Interface }, 0) {
		return false
	}
	switch v.Kind() {
	case reflect.Interface:
		if v.IsNil() {
			return false
		}
		return containsD(v.Elem(), pred, depth+1, true)
	case reflect.Struct:
		for i := 0; i < v.NumField(); i++ {
			if containsD(v.Field(i), pred, depth+1, false) {
				return true
			}
		}
	case reflect.Slice, reflect.Array:
		for i := 0; i < v.Len(); i++ {
			if containsD(v.Index(i), pred, depth+1, false) {
				return true
			}
		}
	case reflect.Map:
		it := v.MapRange()
		for it.Next() {
			if containsD(it.Key(), pred, depth+1, false) || containsD(it.Value(), pred, depth+1, false) {
				return true
			}
		}
	}
	return false
}

var tMarshaler = reflect.TypeOf((*edf.Marshaler)(nil)).Elem()

func isMarshalerType(t reflect.Type) bool { return t.Implements(tMarshaler) }

func isArrayKeyMap(t reflect.Type) bool {
	return t.Kind() == reflect.Map && t.Name() == "" && t.Key().Kind() == reflect.Array && t.Key().Name() == ""
}

var longJunk = make([]byte, 1<<17)

// zeroEncoded: values of type e are encoded with no bytes at all
func zeroEncoded(e reflect.Type) bool {
	switch e.Kind() {
	case reflect.Struct:
		if e == tTime || e.PkgPath() != "main" || isMarshalerType(e) || e == tMBin {
			return false
		}
		for i := 0; i < e.NumField(); i++ {
			if !zeroEncoded(e.Field(i).Type) {
				return false
			}
		}
		return true
	case reflect.Array:
		if e == tMBinArr {
			return false
		}
		return e.Len() == 0 || zeroEncoded(e.Elem())
	}
	return false
}

// hasZeroSizeElems: t is a collection whose elements are encoded with no bytes
func hasZeroSizeElems(t reflect.Type) bool {
	switch t.Kind() {
	case reflect.Slice, reflect.Array:
		return zeroEncoded(t.Elem())
	case reflect.Map:
		return zeroEncoded(t.Key()) && zeroEncoded(t.Elem())
	}
	return false
}

var reNum = regexp.MustCompile(`[0-9]+`)

// signature names WHAT fails, from the minimal failing value
func signature(min reflect.Value, res rtResult, c *cfg, grow int) string {
	f := res.fail
	if f == nil {
		return "not-reproduced-standalone"
	}
	t := min.Type()
	if f.kind == "decode-error" && strings.Contains(f.msg, "extra data in folded type") && contains(min, isArrayKeyMap) {
		return "map-with-unnamed-array-key-undecodable"
	}
	if f.kind == "decode-error" || f.kind == "rest" {
		// does the failure depend on how many bytes follow the value in the packet?
		if r := roundtripOpt(min.Interface(), c, longJunk, 0, false, grow+len(longJunk)); r.encErr == nil && r.fail == nil {
			if contains(min, hasZeroSizeElems) {
				return "zero-size-elements-rejected"
			}
			return "depends-on-trailing-bytes/" + shape(t, 1)
		}
	}
	switch {
	case f.kind != "value" && t.Kind() == reflect.String && min.Len() >= 65534:
		return "decode-string-65534"
	case f.kind == "value" && f.mm.leaf == "error" && f.mm.orig.IsValid() && isErrorValue(f.mm.orig) && errTextHasPercent(f.mm.orig):
		return "decode-error-percent"
	}
	switch f.kind {
	case "value":
		return "value-differs/" + f.mm.leaf + "/" + shape(t, 1)
	case "rest":
		return "consumed-bytes-differ/" + shape(t, 1)
	case "panic":
		return "codec-panic/" + shape(t, 1)
	}
	msg := f.msg
	if i := strings.Index(msg, "Decode failed: "); i >= 0 {
		msg = msg[i+len("Decode failed: "):]
	}
	msg = reNum.ReplaceAllString(msg, "N")
	if len(msg) > 48 {
		msg = msg[:48]
	}
	return "decode-fails/" + shape(t, 1) + "/" + strings.ReplaceAll(msg, " ", "-")
}

func errTextHasPercent(v reflect.Value) bool {
	if v.Kind() == reflect.Interface && v.IsNil() {
		return false
	}
	e, ok := v.Interface().(error)
	return ok && e != nil && strings.Contains(e.Error(), "%")
}

func describeValue(v reflect.Value) string {
	if !v.IsValid() {
		return "<invalid>"
	}
	s := ""
	func() {
		defer func() { recover() }()
		switch {
		case v.Kind() == reflect.String && v.Len() > 96:
			s = fmt.Sprintf("%s of %d bytes: %s", v.Type(), v.Len(), clip(fmt.Sprintf("%q", v.String()), 64))
		case (v.Kind() == reflect.Slice || v.Kind() == reflect.Map) && v.Len() > 16:
			s = fmt.Sprintf("%s with %d elements", v.Type(), v.Len())
		default:
			s = fmt.Sprintf("%s %s", v.Type(), clip(fmt.Sprintf("%#v", v.Interface()), 400))
		}
	}()
	return s
}

// ---------------------------------------------------------------------------
// emission with a cap per signature

var (
	emitMu     sync.Mutex
	sigCount   = map[string]int{}
	sigCap     = 12
	violations atomic.Int64
)

// diagnosing: single-threaded diagnosis re-runs use pooled buffers with stale
// content, like buffers that carried earlier traffic
var diagnosing atomic.Bool
var diagMu sync.Mutex
var preCount = map[string]int{}
var undiagnosed atomic.Int64

func preKey(v reflect.Value, res rtResult) string {
	m := res.fail.msg
	if res.fail.mm != nil {
		m = res.fail.mm.leaf + ":" + res.fail.mm.why
	}
	if i := strings.Index(m, "Decode failed: "); i >= 0 {
		m = m[i:]
	}
	m = reNum.ReplaceAllString(m, "N")
	if len(m) > 60 {
		m = m[:60]
	}
	return res.fail.kind + "|" + m + "|" + keyShape(v.Type())
}

func emitViolation(id, scenario, key string, c *cfg, v reflect.Value, res rtResult, tags []string) {
	violations.Add(1)
	pk := preKey(v, res)
	diagMu.Lock()
	defer diagMu.Unlock()
	preCount[pk]++
	if preCount[pk] > 6 && hk.Only() == "" {
		// same failure message on the same type shape was already diagnosed several times
		undiagnosed.Add(1)
		return
	}
	diagnosing.Store(true)
	defer diagnosing.Store(false)
	x := v.Interface()
	grow := 2*res.nbytes + 8192
	// deterministic test on the very bytes that failed to decode: if the same bytes decode to the right value once
	// enough bytes follow them, the encoding is correct and the failure is the decoder's dependence on trailing
	// bytes ("n elements need n bytes" guards) - not a defect of the encoder such as a stale length after buffer
	// growth, whatever else the value contains and however map iteration order falls in the re-runs below.
	if res.packet != nil && bytesDecodeWithTrailingJunk(x, c, res.packet) {
		sig := "depends-on-trailing-bytes/" + res.fail.kind
		if contains(v, hasZeroSizeElems) {
			sig = "zero-size-elements-rejected"
		}
		min, mres := v, res
		if m, mr := minimize(v, c, 0, grow); mr.encErr == nil && mr.fail != nil && mr.fail.kind != "value" {
			min, mres = m, mr
		}
		report(id, scenario, key, c, sig, v, res, min, mres, tags, "the bytes that failed to decode decode to the equal value when 128 KiB of junk follow them")
		return
	}
	// evidence: how often does the same value pass (a) as it was, (b) when the pooled buffer cannot grow while
	// encoding, (c) when many bytes follow the value in the packet.  Repeated because map iteration order
	// changes the layout.
	const n = 4
	passPlain, passGrown, passJunk := 0, 0, 0
	var rG rtResult
	for i := 0; i < n; i++ {
		if r := roundtripOpt(x, c, res.junk, res.header, false, 0); r.encErr == nil && r.fail == nil {
			passPlain++
		}
		if r := roundtripOpt(x, c, res.junk, res.header, false, grow); r.encErr == nil && r.fail == nil {
			passGrown++
		} else {
			rG = r
		}
		if r := roundtripOpt(x, c, longJunk, res.header, false, 0); r.encErr == nil && r.fail == nil {
			passJunk++
		}
	}
	if passGrown == n {
		// buffer growth suspected: it must NEVER fail with a pre-grown buffer; more re-runs so that a failure that
		// merely depends on map iteration order is not mistaken for it
		for i := 0; i < 12 && passGrown == n; i++ {
			if r := roundtripOpt(x, c, res.junk, res.header, false, grow); r.encErr != nil || r.fail != nil {
				passGrown--
				rG = r
			}
		}
	}
	hintGrowth := contains(v, isMarshalerType) && res.nbytes+res.header > lib.DefaultBufferLength-8
	hintZero := contains(v, hasZeroSizeElems)
	lengthMsg := res.fail.kind == "decode-error" && (strings.Contains(res.fail.msg, "incorrect data length") || strings.Contains(res.fail.msg, "end of data"))
	sig := ""
	switch {
	case passJunk == n && hintZero && lengthMsg && !(hintGrowth && passGrown == n && passPlain < n):
		// decodes whenever enough bytes follow the value: the decoders' "n elements need n bytes" guard
		sig = "zero-size-elements-rejected"
	case passGrown == n && hintGrowth && (passPlain < n || passJunk < n):
		// reproduced, and never fails when the buffer cannot grow while a MarshalEDF value is encoded
		sig = "marshaler-length-after-buffer-growth"
	case passGrown == n && passPlain < n:
		sig = "depends-on-buffer-growth/" + res.fail.kind
	case passJunk == n && passPlain < n:
		sig = "depends-on-trailing-bytes/" + res.fail.kind
	case passPlain == n && passGrown == n && passJunk == n:
		sig = "not-reproduced/" + res.fail.kind
	}
	if sig != "" {
		report(id, scenario, key, c, sig, v, res, v, res, tags, fmt.Sprintf("re-runs passing: unchanged %d/%d, buffer pre-grown %d/%d, long trailing junk %d/%d", passPlain, n, passGrown, n, passJunk, n))
		if sig == "marshaler-length-after-buffer-growth" && rG.fail != nil && rG.encErr == nil {
			// another defect hides behind the buffer growth one
			res = rG
		} else {
			return
		}
	}
	// reproducible independent of buffer growth: minimise with pre-grown buffers
	min, mres := minimize(v, c, 0, grow)
	sig = signature(min, mres, c, grow)
	if sig == "not-reproduced-standalone" {
		sig = "not-reproduced/" + res.fail.kind
		if hintZero && lengthMsg {
			sig = "zero-size-elements-rejected"
		}
		mres = res
	}
	report(id, scenario, key, c, sig, v, res, min, mres, tags, "")
}

// bytesDecodeWithTrailingJunk: packet (an encoding of x that failed to decode) decodes to x when long junk follows
func bytesDecodeWithTrailingJunk(x any, c *cfg, packet []byte) (ok bool) {
	defer func() {
		if r := recover(); r != nil {
			ok = false
		}
	}()
	p := make([]byte, 0, len(packet)+len(longJunk))
	p = append(append(p, packet...), longJunk...)
	out, rest, err := edf.Decode(p, c.dec)
	if err != nil || len(rest) != len(longJunk) {
		return false
	}
	var st eqStats
	return equalEDF(reflect.ValueOf(x), reflect.ValueOf(out), "v", eqOpts{sentinelIdentity: c.errIDs}, &st) == nil
}

func report(id, scenario, key string, c *cfg, sig string, v reflect.Value, res rtResult, min reflect.Value, mres rtResult, tags []string, evidence string) {
	what := res.fail.msg
	if mres.fail != nil {
		what = mres.fail.msg
	}
	emitMu.Lock()
	sigCount[sig]++
	n := sigCount[sig]
	emitMu.Unlock()
	if n > sigCap && hk.Only() == "" {
		return
	}
	hk.Emit(hk.Case{ID: id, Scenario: scenario, Verdict: hk.Violated, Sig: sig, Key: key, Nontrivial: true, Events: 1,
		What: fmt.Sprintf("[%s] %s; minimal failing value: %s", c.name, what, describeValue(min)),
		Detail: map[string]any{"config": c.name, "type": v.Type().String(), "value": describeValue(v), "failure": res.fail.msg, "tags": tags,
			"minimal_type": min.Type().String(), "minimal_value": describeValue(min), "minimal_failure": what, "minimal_bytes_hex": mres.hexb, "diagnosis": evidence}})
}

// ---------------------------------------------------------------------------
// bulk generation

type classAgg struct {
	n      int64
	first  uint64
	events int64
	shape  string
	class  string
	hit    bool
	nest   int
	sample string
}

var tagPriority = []string{"str:6", "bin:6", "slice:6", "map:6", "err:3", "medf:", "str:4", "bin:4", "slice:4", "map:4", "atom:25", "atom:0", "atom:1",
	"str:25", "bin:25", "slice:25", "map:25", "err:", "f32:", "f64:", "time:", "int:", "uint:", "nil:", "any:", "atom:", "text:", "str:", "bin:", "slice:", "map:"}

func primaryTags(tags []string, k int) []string {
	var out []string
	used := map[string]bool{}
	for _, p := range tagPriority {
		for _, t := range tags {
			if !used[t] && strings.HasPrefix(t, p) {
				used[t] = true
				out = append(out, t)
				if len(out) == k {
					return out
				}
			}
		}
	}
	return out
}

func keyShape(t reflect.Type) string {
	cat := func(e reflect.Type) string {
		switch {
		case e == tAny:
			return "any"
		case e == tErr:
			return "error"
		case e == tTime:
			return "time"
		case e == tBytes:
			return "binary"
		case e.PkgPath() == "ergo.services/ergo/gen":
			return "id"
		case e.Name() != "" && e.PkgPath() == "main":
			return "registered"
		}
		switch e.Kind() {
		case reflect.String:
			return "string"
		case reflect.Slice, reflect.Array, reflect.Map:
			return "composite"
		}
		return "scalar"
	}
	if t.Name() != "" {
		return t.Name()
	}
	switch t.Kind() {
	case reflect.Slice:
		if t == tBytes {
			return "[]byte"
		}
		return "[]" + cat(t.Elem())
	case reflect.Array:
		return "[N]" + cat(t.Elem())
	case reflect.Map:
		return "map[" + cat(t.Key()) + "]" + cat(t.Elem())
	}
	return t.String()
}

type worker struct {
	classes  map[string]*classAgg
	values   int64
	checks   int64
	encErrs  map[string]int64
	bytes    int64
	maxBytes int64
	f32q     int64
	sentText int64
	stdTime  int64
	hits     int64
	maxNest  int
}

func newWorker() *worker {
	return &worker{classes: map[string]*classAgg{}, encErrs: map[string]int64{}}
}

func normErr(err error) string {
	s := reNum.ReplaceAllString(err.Error(), "N")
	if i := strings.Index(s, "main."); i >= 0 && strings.HasPrefix(s, "no encoder for type") {
		s = "no encoder for type <unregistered>"
	}
	if strings.HasPrefix(s, "no encoder for type") {
		s = "no encoder for type ..."
	}
	if len(s) > 70 {
		s = s[:70]
	}
	return s
}

// genBulkValue: value number n of the run
func genBulkValue(base uint64, n uint64, pool *typePool) (reflect.Value, *gctx) {
	rng := newRng(base, n)
	g := &gctx{rng: rng, pool: pool, budget: 96 << 10}
	if rng.Intn(16) == 0 {
		g.budget = 2 << 20
	}
	switch r := rng.Intn(100); {
	case r < 55:
	case r < 88:
		g.midLeft = 1 + rng.Intn(2)
		if rng.Intn(3) == 0 {
			g.bigLeft = 1
		}
	default:
		g.bigLeft = 1 + rng.Intn(2)
		g.midLeft = 2
	}
	t := pool.tops[rng.Intn(len(pool.tops))]
	return g.genValue(t), g
}

func (w *worker) runValue(base, n uint64, pool *typePool, replay bool) {
	v, g := genBulkValue(base, n, pool)
	x := v.Interface()
	tags := g.tagList()
	if replay && os.Getenv("C11_DUMP") != "" {
		fmt.Fprintf(os.Stderr, "%#v\n", x)
	}
	w.values++
	if g.maxNes > w.maxNest {
		w.maxNest = g.maxNes
	}
	rng := newRng(base^0x5bd1e995, n)
	plain := -1
	hit := false
	okCfgs := 0
	held := true
	for _, c := range cfgs {
		if c.mapping {
			continue
		}
		junk := junkChoices[rng.Intn(len(junkChoices))]
		header := []int{0, 0, 8, 6}[rng.Intn(4)]
		res := roundtrip(x, c, junk, header, false)
		w.checks++
		if res.encErr != nil {
			w.encErrs[normErr(res.encErr)]++
			continue
		}
		okCfgs++
		w.bytes += int64(res.nbytes)
		if int64(res.nbytes) > w.maxBytes {
			w.maxBytes = int64(res.nbytes)
		}
		w.f32q += int64(res.st.f32NaNQuieted)
		w.sentText += int64(res.st.sentinelByText)
		w.stdTime += int64(res.st.stdlibTime)
		if c.name == "none" {
			plain = res.nbytes
		} else if c.caches && plain >= 0 && res.nbytes < plain {
			hit = true
		}
		id := fmt.Sprintf("bulk/%d/%s", n, c.name)
		if res.fail != nil {
			held = false
			if hk.Want(id) || !replay {
				emitViolation(id, "bulk", keyShape(v.Type())+"|"+classOf(primaryTags(tags, 1)), c, v, res, tags)
			}
		} else if replay && hk.Only() == id {
			hk.Emit(hk.Case{ID: id, Scenario: "bulk", Verdict: hk.Held, Key: keyShape(v.Type()), Nontrivial: true, Events: 1,
				Detail: map[string]any{"type": v.Type().String(), "value": describeValue(v), "tags": tags}})
		}
	}
	if okCfgs == 0 || !held {
		return
	}
	if hit {
		w.hits++
	}
	ptags := primaryTags(tags, 1)
	nest2 := g.maxNes >= 2
	key := fmt.Sprintf("%s|%s|nest2=%v|cachehit=%v", keyShape(v.Type()), classOf(ptags), nest2, hit)
	a := w.classes[key]
	if a == nil {
		a = &classAgg{first: n, shape: keyShape(v.Type()), class: classOf(ptags), hit: hit, nest: g.maxNes}
		if len(w.classes) < 4000 {
			a.sample = clip(describeValue(v), 240)
		}
		w.classes[key] = a
	}
	a.n++
	a.events += int64(okCfgs)
	if n < a.first {
		a.first = n
	}
}

func runBulk(pool *typePool, total int) {
	base := hk.Rng("c11", "bulk").Uint64()
	if o := hk.Only(); o != "" {
		if !strings.HasPrefix(o, "bulk/") {
			return
		}
		parts := strings.Split(o, "/")
		n, err := strconv.ParseUint(parts[1], 10, 64)
		if err != nil {
			return
		}
		newWorker().runValue(base, n, pool, true)
		return
	}
	nw := 16
	if runtime.NumCPU() < nw {
		nw = runtime.NumCPU()
	}
	var next atomic.Uint64
	workers := make([]*worker, nw)
	var wg sync.WaitGroup
	for i := 0; i < nw; i++ {
		workers[i] = newWorker()
		wg.Add(1)
		go func(w *worker) {
			defer wg.Done()
			for {
				lo := next.Add(256) - 256
				if lo >= uint64(total) {
					return
				}
				for n := lo; n < lo+256 && n < uint64(total); n++ {
					w.runValue(base, n, pool, false)
				}
			}
		}(workers[i])
	}
	wg.Wait()

	// merge
	all := map[string]*classAgg{}
	tot := newWorker()
	for _, w := range workers {
		for k, a := range w.classes {
			if b := all[k]; b == nil {
				all[k] = a
			} else {
				b.n += a.n
				b.events += a.events
				if a.first < b.first {
					b.first = a.first
					if a.sample != "" {
						b.sample = a.sample
					}
				}
			}
		}
		tot.values += w.values
		tot.checks += w.checks
		tot.bytes += w.bytes
		tot.f32q += w.f32q
		tot.sentText += w.sentText
		tot.stdTime += w.stdTime
		tot.hits += w.hits
		if w.maxBytes > tot.maxBytes {
			tot.maxBytes = w.maxBytes
		}
		if w.maxNest > tot.maxNest {
			tot.maxNest = w.maxNest
		}
		for k, n := range w.encErrs {
			tot.encErrs[k] += n
		}
	}
	keys := make([]string, 0, len(all))
	for k := range all {
		keys = append(keys, k)
	}
	sort.Strings(keys)
	samples := 0
	for _, k := range keys {
		a := all[k]
		nontrivial := a.class != "" || a.nest >= 2 || a.hit
		// trivial classes still count as evaluations
		d := map[string]any{"values": a.n, "first_value": fmt.Sprintf("bulk/%d", a.first), "max_nesting_of_first": a.nest}
		if a.sample != "" && samples < 400 {
			d["example"] = a.sample
			samples++
			if nontrivial && samples%40 == 1 && samples < 300 {
				hk.Sample(map[string]any{"scenario": "bulk", "class": k, "values_in_class": a.n, "replay": fmt.Sprintf("bulk/%d", a.first), "example": a.sample})
			}
		}
		hk.Emit(hk.Case{ID: "class/" + k, Scenario: "bulk", Verdict: hk.Held, Key: k, Nontrivial: nontrivial, Events: a.events, Detail: d})
	}
	hk.Stat("bulk_values_generated", tot.values)
	hk.Stat("bulk_roundtrips_attempted", tot.checks)
	hk.Stat("bulk_bytes_encoded", tot.bytes)
	hk.Stat("bulk_values_with_cache_hit", tot.hits)
	hk.Stat("float32_nan_payload_quieted_not_judged", tot.f32q)
	hk.Stat("sentinel_errors_compared_by_text_without_errcache", tot.sentText)
	hk.Stat("time_mangled_by_stdlib_binary_form_not_judged", tot.stdTime)
	hk.StatMax("max_encoded_bytes", tot.maxBytes)
	hk.StatMax("max_nesting_levels", int64(tot.maxNest))
	var encErrTotal int64
	for _, n := range tot.encErrs {
		encErrTotal += n
	}
	hk.Stat("bulk_encode_rejections_not_judged", encErrTotal)
	hk.Note("bulk_encode_rejections_by_message", tot.encErrs)
}

// ---------------------------------------------------------------------------

func main() {
	if len(os.Args) > 1 && os.Args[1] == "peer" {
		peerMain()
		return
	}
	hk.Rule("directed: boundary value (lengths 0/1/255/256/4095/4096/65533..65536 of strings, binaries, slices, maps, arrays; atoms 0/1/254/255/256; error texts incl. '%', 32767/32768 bytes, invalid UTF-8, sentinels; numeric extremes, NaN payloads, times, nil vs empty, zero-size elements, marshaler payloads around the pooled buffer capacity) x container context (top level, []any, []T, [1]T, map[string]T, struct field) x cache configuration, non-trivial iff Encode accepted the value and the oracle compared a decoded value; " +
		"bulk: value n = f(seed, tier, n) drawn from ~55 registered harness types, framework ids and reflect-built unnamed composites (depth <= 4), every value under every cache configuration; non-trivial iff the value contains a boundary tag (measured by the generator) or >= 2 composite nesting levels or was encoded shorter with the negotiated caches than without (cache hit); distinct = type shape x primary boundary tag x nesting>=2 x cache hit")
	hk.Assume("equality: floats by bit pattern except that a float32 NaN may come back with the quiet bit set (counted, not judged); time.Time by Equal and zone offset (zone name and monotonic reading are not part of the value); errors by identity when registered and an ErrCache is negotiated, by text otherwise; []byte nil == empty; any other nil != empty")
	hk.Assume("supported types = basic kinds, framework types, types registered with edf.RegisterTypeOf, unnamed slices/arrays/maps of those; unregistered named composites are accepted by the encoder and decode as the unnamed type: counted as a note, not judged")
	hk.Assume("gen.NetworkFlags (custom marshaler of the framework) transports no other flag when Enable is false, by design: only such canonical values are generated; gen.NetworkProxyFlags (marshaler is a TODO stub of the unimplemented proxy feature) is not generated")
	hk.Assume("map keys never contain NaN, time.Time or errors (such keys cannot be looked up after any transport)")

	if err := registerAll(0); err != nil {
		fmt.Fprintln(os.Stderr, "c11: registration failed:", err)
		os.Exit(3)
	}
	setupConfigs()

	pool := buildTypePool(hk.Rng("c11", "types"), hk.Pick(400, 3000))
	hk.Stat("registered_harness_types", int64(len(registeredTypes)))
	hk.Stat("unnamed_composite_types", int64(len(pool.unnamed)))
	hk.Stat("framework_registered_struct_types_generated", int64(pool.frameworkStructs))

	t0 := time.Now()
	runDirected()
	runMapping()
	hk.Note("directed_wall_s", time.Since(t0).Seconds())
	t0 = time.Now()
	runPeer(pool)
	hk.Note("peer_wall_s", time.Since(t0).Seconds())
	t0 = time.Now()
	runBulk(pool, hk.Pick(40000, 1500000))
	hk.Note("bulk_wall_s", time.Since(t0).Seconds())

	emitMu.Lock()
	for sig, n := range sigCount {
		if n > sigCap {
			hk.Stat("violations_not_printed_beyond_cap/"+sig, int64(n-sigCap))
		}
	}
	emitMu.Unlock()
	{
		type kv struct {
			K string
			N int
		}
		var l []kv
		for k, n := range preCount {
			l = append(l, kv{k, n})
		}
		sort.Slice(l, func(i, j int) bool { return l[i].N > l[j].N || l[i].N == l[j].N && l[i].K < l[j].K })
		if len(l) > 25 {
			l = l[:25]
		}
		hk.Note("most_frequent_failure_message_x_shape", l)
	}
	hk.Stat("violating_roundtrips_total", violations.Load())
	hk.Stat("violating_roundtrips_not_diagnosed_same_message_and_shape_as_diagnosed_ones", undiagnosed.Load())
	os.Stdout.Sync()
	os.Exit(0)
}

func encodeTo(x any, buf *lib.Buffer, c *cfg) error { return edf.Encode(x, buf, c.enc) }

func decodeFrom(packet []byte, c *cfg) (any, []byte, error) { return edf.Decode(packet, c.dec) }
