package main

// Harness types registered with edf.RegisterTypeOf (in dependency order), the
// registered atoms and sentinel errors, and the custom marshalers.

import (
	"bytes"
	"encoding/binary"
	"errors"
	"fmt"
	"io"
	"reflect"
	"time"

	"ergo.services/ergo/gen"
	"ergo.services/ergo/net/edf"
)

// ---- named scalars
type NBool bool
type NInt int
type NInt8 int8
type NInt16 int16
type NInt32 int32
type NInt64 int64
type NUint uint
type NUint8 uint8
type NUint16 uint16
type NUint32 uint32
type NUint64 uint64
type NF32 float32
type NF64 float64
type NStr string

// ---- named collections of basic types
type NSliceInt []int
type NSliceStr []string
type NSliceAny []any
type NBytes []byte
type NSliceErr []error
type NSliceBin [][]byte
type NArr3 [3]int16
type NArr0 [0]int
type NArrStr [2]string
type NArr300 [300]uint8
type NArrAny [2]any
type NMapSI map[string]int
type NMapIA map[int32]any
type NMapAtomT map[gen.Atom]time.Time
type NMapArrKey map[[2]int8]string

// ---- structs
type Empty struct{}

type Leaf struct {
	A  int8
	B  string
	C  []byte
	F  float32
	G  float64
	T  time.Time
	E  error
	On bool
}

type Ids struct {
	P  gen.PID
	PI gen.ProcessID
	R  gen.Ref
	AL gen.Alias
	EV gen.Event
	AT gen.Atom
}

type Scalars struct {
	B   bool
	I   int
	I8  int8
	I16 int16
	I32 int32
	I64 int64
	U   uint
	U8  uint8
	U16 uint16
	U32 uint32
	U64 uint64
	F32 float32
	F64 float64
	S   string
	NB  NBool
	NI  NInt
	NI8 NInt8
	NU6 NUint16
	NF  NF32
	ND  NF64
	NS  NStr
}

// KeyS is a hashable struct used as a map key
type KeyS struct {
	A int16
	B string
	C gen.Atom
	D [2]uint8
}

type Mid struct {
	L  Leaf
	LS []Leaf
	LA [2]Leaf
	LM map[string]Leaf
	X  any
	N  NInt
	NS NSliceInt
	I  Ids
	Em Empty
	NA NArr3
}

type NSliceLeaf []Leaf
type NMapKL map[KeyS]Leaf
type NArrMid [2]Mid
type NSliceM []MEDF
type NMapM map[string]MBin
type NSliceEmpty []Empty

type Top struct {
	M      Mid
	MS     []Mid
	Any    any
	AnyS   []any
	MM     map[NStr]Mid
	Err    error
	Errs   []error
	Nested [][]string
	MapSl  map[int][]Leaf
	NM     NMapKL
	Ms     MEDF
	Mb     MBin
	Arr    [3][]any
	Tm     []time.Time
	NL     NSliceLeaf
	Sc     Scalars
}

// Wide has many fields of alternating widths: catches field order drift
type Wide struct {
	F00 uint8
	F01 int64
	F02 string
	F03 uint16
	F04 bool
	F05 []byte
	F06 int32
	F07 gen.Atom
	F08 float64
	F09 uint8
	F10 any
	F11 int16
	F12 []int8
	F13 uint64
	F14 string
	F15 error
	F16 uint32
	F17 [2]uint16
	F18 NInt8
	F19 map[uint8]uint8
	F20 time.Time
	F21 int
	F22 gen.PID
	F23 float32
}

// ---- custom marshalers

// MEDF implements edf.Marshaler / edf.Unmarshaler
type MEDF struct {
	P   []byte
	tag uint16 // unexported: only custom marshaling can carry it
}

func (m MEDF) MarshalEDF(w io.Writer) error {
	if m.tag == 0xdead {
		return errors.New("MEDF refuses to marshal")
	}
	var h [2]byte
	binary.BigEndian.PutUint16(h[:], m.tag)
	if _, err := w.Write(h[:]); err != nil {
		return err
	}
	// written in two chunks on purpose
	half := len(m.P) / 2
	if _, err := w.Write(m.P[:half]); err != nil {
		return err
	}
	_, err := w.Write(m.P[half:])
	return err
}

func (m *MEDF) UnmarshalEDF(b []byte) error {
	if len(b) < 2 {
		return fmt.Errorf("MEDF: short data (%d bytes)", len(b))
	}
	m.tag = binary.BigEndian.Uint16(b)
	m.P = append([]byte{}, b[2:]...)
	return nil
}

// MEDFStr is a named string with custom marshaling (reverses the bytes on the wire)
type MEDFStr string

func (m MEDFStr) MarshalEDF(w io.Writer) error {
	b := []byte(m)
	for i, j := 0, len(b)-1; i < j; i, j = i+1, j-1 {
		b[i], b[j] = b[j], b[i]
	}
	_, err := w.Write(b)
	return err
}

func (m *MEDFStr) UnmarshalEDF(b []byte) error {
	c := append([]byte{}, b...)
	for i, j := 0, len(c)-1; i < j; i, j = i+1, j-1 {
		c[i], c[j] = c[j], c[i]
	}
	*m = MEDFStr(c)
	return nil
}

// MBin implements encoding.BinaryMarshaler / BinaryUnmarshaler
type MBin struct {
	A int64
	S string
	x uint8
}

func (m MBin) MarshalBinary() ([]byte, error) {
	if m.x == 0xee {
		return nil, errors.New("MBin refuses to marshal")
	}
	b := make([]byte, 9, 9+len(m.S))
	binary.BigEndian.PutUint64(b, uint64(m.A))
	b[8] = m.x
	return append(b, m.S...), nil
}

func (m *MBin) UnmarshalBinary(b []byte) error {
	if len(b) < 9 {
		return fmt.Errorf("MBin: short data (%d bytes)", len(b))
	}
	m.A = int64(binary.BigEndian.Uint64(b))
	m.x = b[8]
	m.S = string(b[9:])
	return nil
}

// MBinArr is an array type with binary marshaling (empty output for the zero value)
type MBinArr [4]byte

func (m MBinArr) MarshalBinary() ([]byte, error) {
	if m == (MBinArr{}) {
		return nil, nil
	}
	return append([]byte{}, m[:]...), nil
}

func (m *MBinArr) UnmarshalBinary(b []byte) error {
	if len(b) == 0 {
		*m = MBinArr{}
		return nil
	}
	if len(b) != 4 {
		return fmt.Errorf("MBinArr: %d bytes", len(b))
	}
	copy(m[:], b)
	return nil
}

// cErr is a custom (unregistered, unregistrable) error type: travels by text in error slots
type cErr struct{ S string }

func (e *cErr) Error() string { return e.S }

// vErr is a non-pointer custom error
type vErr string

func (e vErr) Error() string { return string(e) }

// unregistered types: must be rejected when encoding (or, for named composites, are not "supported types")
type unregStruct struct{ A int }
type UnregStruct struct{ A int }
type UnregInt int
type UnregSlice []int

var (
	// sentinel errors registered by the harness
	errSentA       = errors.New("c11 sentinel A")
	errSentB       = errors.New("c11 sentinel B")
	errSentEmpty   = errors.New("")
	errSentPercent = errors.New("c11 sentinel 100% done")
	errSentWrap    = fmt.Errorf("c11 wrapped sentinel: %w", errSentA)
	errSentCustom  = &cErr{"c11 custom sentinel"}
	errSentDupText = errors.New("c11 sentinel A") // same text as errSentA, not registered

	harnessSentinels   = []error{errSentA, errSentB, errSentEmpty, errSentPercent, errSentWrap, errSentCustom}
	frameworkSentinels = []error{
		gen.ErrIncorrect, gen.ErrTimeout, gen.ErrUnsupported, gen.ErrUnknown, gen.ErrNameUnknown, gen.ErrNotAllowed,
		gen.ErrProcessUnknown, gen.ErrProcessTerminated, gen.ErrMetaUnknown, gen.ErrApplicationUnknown, gen.ErrTaken,
		gen.TerminateReasonNormal, gen.TerminateReasonShutdown, gen.TerminateReasonKill, gen.TerminateReasonPanic,
	}
	// sentinels whose text is free of '%' (the '%' one is exercised by the directed family only)
	cleanSentinels []error
	sentinelSet    = map[error]bool{}

	atom255         = gen.Atom(bytes.Repeat([]byte("m"), 255))
	harnessAtoms    = []gen.Atom{"c11_atom_a", "c11_atom_b", "c11@node", "", "x", atom255, "c11 atom with space", "c11_\xff\xfe"}
	harnessAtomSet  = map[gen.Atom]bool{}
	mappingFrom     = gen.Atom("c11_map_from")
	mappingTo       = gen.Atom("c11_map_to")
	registeredTypes []reflect.Type
)

// registration order = dependency order. permute (for the peer process) keeps
// dependencies: a type may only move before types that do not depend on it, so
// the peer rotates whole independent groups instead.
func registrationGroups() [][]any {
	return [][]any{
		{NBool(false), NInt(0), NInt8(0), NInt16(0), NInt32(0), NInt64(0), NUint(0), NUint8(0), NUint16(0), NUint32(0), NUint64(0), NF32(0), NF64(0), NStr("")},
		{NSliceInt{}, NSliceStr{}, NSliceAny{}, NBytes{}, NSliceErr{}, NSliceBin{}},
		{NArr3{}, NArr0{}, NArrStr{}, NArr300{}, NArrAny{}},
		{NMapSI{}, NMapIA{}, NMapAtomT{}, NMapArrKey{}},
		{MEDF{}, MEDFStr(""), MBin{}, MBinArr{}},
		{Empty{}, Leaf{}, Ids{}, Scalars{}, KeyS{}, Wide{}},
		// everything below depends on the groups above
		{Mid{}},
		{NSliceLeaf{}, NMapKL{}, NArrMid{}, NSliceM{}, NMapM{}, NSliceEmpty{}},
		{Top{}},
	}
}

// registerAll registers types, atoms, errors. rot rotates the order inside
// groups and the order of atoms/errors: the peer process uses rot != 0 so that
// its cache ids differ from ours.
func registerAll(rot int) error {
	for _, g := range registrationGroups() {
		n := len(g)
		for i := 0; i < n; i++ {
			v := g[(i+rot)%n]
			if err := edf.RegisterTypeOf(v); err != nil {
				return fmt.Errorf("RegisterTypeOf(%T): %w", v, err)
			}
			registeredTypes = append(registeredTypes, reflect.TypeOf(v))
		}
	}
	if rot != 0 {
		// shift the id space of the peer as well
		for i := 0; i < rot; i++ {
			edf.RegisterAtom(gen.Atom(fmt.Sprintf("c11_peer_only_%d", i)))
			edf.RegisterError(fmt.Errorf("c11 peer only %d", i))
		}
	}
	na := len(harnessAtoms)
	for i := 0; i < na; i++ {
		a := harnessAtoms[(i+rot)%na]
		if err := edf.RegisterAtom(a); err != nil {
			return fmt.Errorf("RegisterAtom(%q): %w", a, err)
		}
		harnessAtomSet[a] = true
	}
	ne := len(harnessSentinels)
	for i := 0; i < ne; i++ {
		e := harnessSentinels[(i+rot)%ne]
		if err := edf.RegisterError(e); err != nil {
			return fmt.Errorf("RegisterError(%q): %w", e, err)
		}
	}
	for _, e := range append(append([]error{}, harnessSentinels...), frameworkSentinels...) {
		sentinelSet[e] = true
		if e != errSentPercent {
			cleanSentinels = append(cleanSentinels, e)
		}
	}
	return nil
}
