package main

// Cache configurations.  The per-connection caches are produced by the REAL
// handshake (net/handshake Start/Accept) running over a net.Pipe between two
// stub gen.NodeHandshake implementations, and turned into edf.Options exactly
// the way net/proto/enp.go NewConnection does.

import (
	"fmt"
	"net"
	"sync"
	"time"

	"ergo.services/ergo/gen"
	"ergo.services/ergo/net/edf"
	"ergo.services/ergo/net/handshake"

	"verif/harness/hk"
)

type stubNode struct {
	name     gen.Atom
	creation int64
}

func (s stubNode) Name() gen.Atom       { return s.name }
func (s stubNode) Creation() int64      { return s.creation }
func (s stubNode) Version() gen.Version { return gen.Version{Name: "c11", Release: "1"} }

// realHandshake runs Start (side A) and Accept (side B) over conn pair
func realHandshake(ca, cb net.Conn, mapping map[gen.Atom]gen.Atom) (ra, rb gen.HandshakeResult, err error) {
	hA := handshake.Create(handshake.Options{PoolSize: 1, AtomMapping: mapping})
	hB := handshake.Create(handshake.Options{PoolSize: 1})
	opts := gen.HandshakeOptions{Cookie: "c11-cookie", MaxMessageSize: 0}
	var wg sync.WaitGroup
	var errB error
	wg.Add(1)
	go func() {
		defer wg.Done()
		rb, errB = hB.Accept(stubNode{"b@c11", 2}, cb, opts)
	}()
	ra, err = hA.Start(stubNode{"a@c11", 1}, ca, opts)
	if err != nil {
		ca.Close()
		cb.Close()
	}
	wg.Wait()
	if err == nil {
		err = errB
	}
	return
}

// connOptions mirrors net/proto/enp.go NewConnection
func connOptions(r gen.HandshakeResult, common bool) (enc, dec edf.Options, err error) {
	o, ok := r.Custom.(handshake.ConnectionOptions)
	if !ok {
		return enc, dec, fmt.Errorf("HandshakeResult.Custom has type %T", r.Custom)
	}
	enc = edf.Options{AtomCache: o.EncodeAtomCache, RegCache: o.EncodeRegCache, ErrCache: o.EncodeErrCache}
	dec = edf.Options{AtomCache: o.DecodeAtomCache, RegCache: o.DecodeRegCache, ErrCache: o.DecodeErrCache}
	if common {
		enc.Cache = new(sync.Map)
		dec.Cache = new(sync.Map)
	}
	if len(r.AtomMapping) > 0 {
		enc.AtomMapping = &sync.Map{}
		dec.AtomMapping = &sync.Map{}
		for k, v := range r.AtomMapping {
			enc.AtomMapping.Store(k, v)
			dec.AtomMapping.Store(v, k)
		}
	}
	return
}

var hsA, hsB gen.HandshakeResult
var hsOK bool

func syncMapLen(m *sync.Map) int64 {
	if m == nil {
		return 0
	}
	var n int64
	m.Range(func(_, _ any) bool { n++; return true })
	return n
}

func setupConfigs() {
	cfgs = append(cfgs, &cfg{name: "none"})
	cfgs = append(cfgs, &cfg{name: "cache", enc: edf.Options{Cache: new(sync.Map)}, dec: edf.Options{Cache: new(sync.Map)}})

	var err error
	for try := 0; try < 3; try++ {
		ca, cb := net.Pipe()
		t0 := time.Now()
		hsA, hsB, err = realHandshake(ca, cb, map[gen.Atom]gen.Atom{mappingFrom: mappingTo})
		ca.Close()
		cb.Close()
		if err == nil {
			hk.Note("handshake_over_pipe_ms", time.Since(t0).Milliseconds())
			break
		}
	}
	if err != nil {
		// the handshake's read deadlines (1 s) are the only way this fails on the unchanged tree
		hk.Emit(hk.Case{ID: "setup/handshake", Scenario: "setup", Verdict: hk.Inconclusive, What: "watchdog: real handshake over net.Pipe failed 3 times: " + err.Error()})
		return
	}
	hsOK = true
	// A -> B: encode with the caches side A built from its own Introduce, decode with what B built from A's Introduce
	mk := func(name string, from, to gen.HandshakeResult, common bool) {
		from.AtomMapping, to.AtomMapping = nil, nil
		enc, _, e1 := connOptions(from, common)
		_, dec, e2 := connOptions(to, common)
		if e1 != nil || e2 != nil {
			hk.Emit(hk.Case{ID: "setup/" + name, Scenario: "setup", Verdict: hk.Inconclusive, What: fmt.Sprint("connection options: ", e1, e2)})
			return
		}
		cfgs = append(cfgs, &cfg{name: name, enc: enc, dec: dec, errIDs: enc.ErrCache != nil && dec.ErrCache != nil, caches: true})
	}
	mk("hs:A>B", hsA, hsB, false)
	mk("hs:A>B+cache", hsA, hsB, true)
	mk("hs:B>A+cache", hsB, hsA, true)

	// mapping configuration: the dialing side has AtomMapping{from: to}
	encA, decA, _ := connOptions(hsA, true)
	_, decB, _ := connOptions(hsB, true)
	cfgs = append(cfgs, &cfg{name: "hs:A>B+mapping", enc: encA, dec: decB, errIDs: true, caches: true, mapping: true})
	cfgs = append(cfgs, &cfg{name: "hs:A>A+mapping-loopback", enc: encA, dec: decA, errIDs: true, caches: true, mapping: true})

	hk.Note("negotiated_cache_sizes", map[string]int64{
		"A.encode.atoms": syncMapLen(encA.AtomCache), "A.encode.types": syncMapLen(encA.RegCache), "A.encode.errors": syncMapLen(encA.ErrCache),
		"B.decode.atoms": syncMapLen(decB.AtomCache), "B.decode.types": syncMapLen(decB.RegCache), "B.decode.errors": syncMapLen(decB.ErrCache)})
}
