package main

// Directed family: boundary values in several container contexts under every
// cache configuration.

import (
	"errors"
	"fmt"
	"math"
	"reflect"
	"strings"
	"time"

	"ergo.services/ergo/gen"
	"ergo.services/ergo/lib"

	"verif/harness/hk"
)

type dval struct {
	name  string
	v     reflect.Value   // static type matters (error / any slots)
	extra []reflect.Value // additional, value-specific contexts
	ctxs  string          // "all" | "top" (only top level + extras)
}

func rv(x any) reflect.Value { return reflect.ValueOf(x) }

func errSlot(e error) reflect.Value {
	return reflect.ValueOf(&e).Elem()
}

func hashable(t reflect.Type) bool {
	switch t.Kind() {
	case reflect.Slice, reflect.Map, reflect.Func:
		return false
	case reflect.Interface:
		return false
	case reflect.Array:
		return hashable(t.Elem())
	case reflect.Struct:
		if t == tTime {
			return false
		}
		for i := 0; i < t.NumField(); i++ {
			if !hashable(t.Field(i).Type) {
				return false
			}
		}
	case reflect.Float32, reflect.Float64:
		return false // NaN / -0 keys
	}
	return true
}

// contexts wraps v into containers
func contexts(d dval) map[string]reflect.Value {
	out := map[string]reflect.Value{}
	v := d.v
	T := v.Type()
	if !(v.Kind() == reflect.Interface && v.IsNil()) {
		top := v
		if v.Kind() == reflect.Interface {
			top = v.Elem()
		}
		out["top"] = top
	}
	for i, e := range d.extra {
		out[fmt.Sprintf("x%d:%s", i, shape(e.Type(), 1))] = e
	}
	if d.ctxs == "top" {
		return out
	}
	if !(v.Kind() == reflect.Interface && v.IsNil()) {
		out["[]any"] = rv([]any{v.Interface(), 7, v.Interface()})
		m := Mid{X: v.Interface()}
		out["Mid.X"] = rv(m)
	}
	s := reflect.MakeSlice(reflect.SliceOf(T), 2, 2)
	s.Index(0).Set(v)
	s.Index(1).Set(v)
	out["[]T"] = s
	a := reflect.New(reflect.ArrayOf(1, T)).Elem()
	a.Index(0).Set(v)
	out["[1]T"] = a
	m := reflect.MakeMap(reflect.MapOf(tString, T))
	m.SetMapIndex(rv("k"), v)
	out["map[string]T"] = m
	if hashable(T) {
		mk := reflect.MakeMap(reflect.MapOf(T, tInt8))
		mk.SetMapIndex(v, rv(int8(1)))
		out["map[T]int8"] = mk
	}
	return out
}

func rep(n int) string { return strings.Repeat("s", n) }

func directedValues() []dval {
	var l []dval
	add := func(name string, x any, extra ...any) {
		d := dval{name: name, v: rv(x), ctxs: "all"}
		for _, e := range extra {
			d.extra = append(d.extra, rv(e))
		}
		l = append(l, d)
	}
	addTop := func(name string, x any) { l = append(l, dval{name: name, v: rv(x), ctxs: "top"}) }
	addErr := func(name string, e error) {
		l = append(l, dval{name: name, v: errSlot(e), ctxs: "all", extra: []reflect.Value{rv(Leaf{E: e}), rv(Top{Err: e, Errs: []error{e, nil, e}}), rv(NSliceErr{e})}})
	}

	// strings / binaries / named strings
	for _, n := range []int{0, 1, 255, 256, 4095, 4096, 65533, 65534, 65535, 65536} {
		s := rep(n)
		add(fmt.Sprintf("string/%d", n), s, Leaf{B: s}, NStr(s), Scalars{S: s, NS: NStr(s)})
		b := []byte(s)
		add(fmt.Sprintf("binary/%d", n), b, Leaf{C: b}, NSliceBin{b, nil, {}})
	}
	add("string/invalid-utf8", "a\xff\xfe\x00b\xc3", NStr("\xf0\x28\x8c\x28"))
	add("string/percent", "100% %d %s")
	add("binary/nil", []byte(nil), Leaf{})
	add("NBytes/nil-vs-empty", NBytes(nil), NBytes{}, NBytes{0, 255}, NSliceBin(nil), NSliceBin{})

	// slices, maps, arrays: lengths
	for _, n := range []int{0, 1, 255, 256, 4095, 4096, 65535, 65536, 65537} {
		si := make([]int16, n)
		sa := make([]any, n)
		ss := make([]string, n)
		ns := make(NSliceInt, n)
		mi := make(map[int32]int8, n)
		ms := make(NMapSI, n)
		for i := 0; i < n; i++ {
			si[i] = int16(i)
			if i%3 == 0 {
				sa[i] = i
			} else if i%3 == 1 {
				sa[i] = "e"
			}
			ss[i] = "q"
			ns[i] = -i
			mi[int32(i)] = int8(i)
			if n <= 4096 {
				ms[fmt.Sprint(i)] = i
			}
		}
		addTop(fmt.Sprintf("[]int16/%d", n), si)
		addTop(fmt.Sprintf("[]any/%d", n), sa)
		addTop(fmt.Sprintf("[]string/%d", n), ss)
		addTop(fmt.Sprintf("NSliceInt/%d", n), ns)
		addTop(fmt.Sprintf("map[int32]int8/%d", n), mi)
		if n <= 4096 {
			addTop(fmt.Sprintf("NMapSI/%d", n), ms)
		}
		l = append(l, dval{name: fmt.Sprintf("Mid.NS+X/%d", n), v: rv(Mid{NS: ns, X: si}), ctxs: "top"})
	}
	add("array/0", [0]int{}, NArr0{}, [0]string{}, [3][0]int8{})
	add("array/256xuint8", [256]uint8{1, 2, 255: 9}, NArr300{299: 1})
	addTop("array/65536xuint8", [65536]uint8{65535: 7})
	addTop("array/70000xint8", [70000]int8{69999: -7})
	add("array/named", NArr3{-1, 0, math.MaxInt16}, NArrStr{"", "x"}, NArrAny{nil, 1}, NArrAny{[]int(nil), NArr0{}})

	// nil vs empty at every level
	add("nil-vs-empty/slices", [][]int{nil, {}, {1}}, [][][]string{nil, {}, {nil}, {{}}, {{""}}}, []map[string]int{nil, {}},
		map[string][]int{"n": nil, "e": {}}, map[string]map[int]int{"n": nil, "e": {}}, [2][]int{}, [2][]int{{}, nil}, [2]map[int]int{nil, {}})
	add("nil-vs-empty/typed-nil-in-any", []any{[]int(nil), []int{}, map[string]int(nil), map[string]int{}, NSliceInt(nil), NSliceInt{}, NMapSI(nil), NMapSI{}, []byte(nil), []any(nil), []any{}, nil, []error(nil), []error{}})
	add("nil-vs-empty/struct", Mid{}, Mid{LS: []Leaf{}, LM: map[string]Leaf{}, NS: NSliceInt{}}, Top{}, Top{MS: []Mid{}, AnyS: []any{}, MM: map[NStr]Mid{}, Errs: []error{}, Nested: [][]string{}, MapSl: map[int][]Leaf{}, NM: NMapKL{}, Tm: []time.Time{}, NL: NSliceLeaf{}},
		Top{Nested: [][]string{nil, {}}, MapSl: map[int][]Leaf{0: nil, 1: {}}, Arr: [3][]any{nil, {}, {nil}}})
	add("nil-vs-empty/named", NSliceInt(nil), NSliceInt{}, NSliceStr(nil), NSliceStr{}, NSliceAny(nil), NSliceAny{}, NSliceAny{nil}, NMapSI(nil), NMapSI{}, NMapIA(nil), NMapIA{}, NMapIA{0: nil}, NSliceLeaf(nil), NSliceLeaf{}, NSliceErr(nil), NSliceErr{}, NSliceErr{nil})

	// zero-size elements
	add("zero-size/slice-of-empty-struct", []Empty{{}, {}}, NSliceEmpty{{}}, []Empty{}, NSliceEmpty{}, NSliceEmpty(nil))
	add("zero-size/array-of-empty-struct", [2]Empty{}, [1][0]int{}, [2]NArr0{})
	add("zero-size/map-of-empty-struct", map[Empty]Empty{{}: {}}, map[NArr0]Empty{{}: {}})
	add("zero-size/slice-of-empty-array", [][0]int{{}, {}}, []NArr0{{}})
	add("zero-size/empty-struct", Empty{}, Mid{}.Em)
	// zero-size elements next to a custom marshaler in a message larger than the pooled buffer: must be attributed to
	// the trailing-bytes guard, not to the marshaler (the map variants fail or hold depending on iteration order)
	big := MEDF{P: make([]byte, 5000), tag: 1}
	addTop("zero-size/after-big-marshaler/slice", []any{big, []Empty{{}, {}, {}}})
	addTop("zero-size/after-big-marshaler/map", map[int32]any{1: big, 2: []Empty{{}, {}, {}}, 3: MEDFStr("m")})
	addTop("zero-size/after-big-marshaler/NMapIA", NMapIA{1: NSliceM{big, big}, 2: NSliceEmpty{{}, {}, {}, {}}, 3: [2]map[Empty]uint32{{{}: 1}, {{}: 2}}})

	// atoms
	for _, n := range []int{0, 1, 254, 255, 256} {
		a := gen.Atom(strings.Repeat("a", n))
		add(fmt.Sprintf("atom/%d", n), a, gen.PID{Node: a, ID: 1, Creation: 2}, gen.ProcessID{Name: a, Node: "n"}, gen.ProcessID{Name: "p", Node: a},
			gen.Ref{Node: a, ID: [3]uint64{1, 2, 3}}, gen.Alias{Node: a, ID: [3]uint64{4, 5, 6}}, gen.Event{Name: a, Node: "n"}, gen.Event{Name: "e", Node: a},
			Ids{AT: a}, map[gen.Atom]gen.Atom{a: a}, NMapAtomT{a: time.Unix(1, 0)})
	}
	for i, a := range harnessAtoms {
		add(fmt.Sprintf("atom/registered-%d", i), a, gen.PID{Node: a, ID: math.MaxUint64, Creation: math.MinInt64}, Ids{P: gen.PID{Node: a}, PI: gen.ProcessID{Name: a, Node: a}, R: gen.Ref{Node: a}, AL: gen.Alias{Node: a}, EV: gen.Event{Name: a, Node: a}, AT: a})
	}
	add("ids/extremes", gen.PID{Node: "x@y", ID: math.MaxUint64, Creation: math.MinInt64}, gen.Ref{Node: "x@y", Creation: math.MaxInt64, ID: [3]uint64{math.MaxUint64, 0, 1 << 63}}, gen.Alias{Node: "", Creation: -1, ID: [3]uint64{0, math.MaxUint64, 0}}, gen.PID{}, gen.Ref{}, gen.Alias{}, gen.Event{}, gen.ProcessID{})

	// errors
	for _, t := range []string{"", "x", "plain text", "\xff\xfe invalid utf8 \xc3", "%", "100%", "%d %s %v", "%%", "%!", "a%sb", "rate 5%/s", "tab\tnl\n\x00"} {
		addErr(fmt.Sprintf("error/text/%q", t), errors.New(t))
	}
	for _, n := range []int{32766, 32767, 32768, 65534, 65535, 65536} {
		addErr(fmt.Sprintf("error/len/%d", n), errors.New(strings.Repeat("e", n)))
	}
	for i, e := range harnessSentinels {
		addErr(fmt.Sprintf("error/sentinel/harness-%d", i), e)
	}
	for i, e := range frameworkSentinels {
		addErr(fmt.Sprintf("error/sentinel/framework-%d", i), e)
	}
	addErr("error/nil", nil)
	addErr("error/wrapped", fmt.Errorf("outer: %w", errors.New("inner")))
	addErr("error/wrapped-sentinel-unregistered", fmt.Errorf("outer: %w", gen.ErrTimeout))
	addErr("error/custom-pointer-type", &cErr{"custom"})
	addErr("error/custom-value-type", vErr("custom value"))
	addErr("error/same-text-as-sentinel", errSentDupText)
	addErr("error/same-text-as-framework-sentinel", errors.New(gen.ErrTimeout.Error()))
	addErr("error/joined", errors.Join(errors.New("a"), errors.New("b")))

	// numbers
	add("int/extremes", []int{math.MinInt64, -1, 0, 1, math.MaxInt64}, []int8{-128, -1, 0, 127}, []int16{math.MinInt16, -1, math.MaxInt16}, []int32{math.MinInt32, -1, math.MaxInt32}, []int64{math.MinInt64, math.MaxInt64},
		[]uint{0, math.MaxUint64}, []uint16{0, 255, 256, 65535}, []uint32{0, math.MaxUint32, 1 << 31}, []uint64{math.MaxUint64, 1 << 63},
		Scalars{I: math.MinInt64, I8: -128, I16: math.MinInt16, I32: math.MinInt32, I64: math.MinInt64, U: math.MaxUint64, U8: 255, U16: 65535, U32: math.MaxUint32, U64: math.MaxUint64, NI: math.MinInt64, NI8: -128, NU6: 65535},
		[]NInt8{-128, 127}, []NInt16{math.MinInt16}, []NInt32{math.MinInt32}, []NInt64{math.MinInt64}, []NUint8{255}, []NUint32{math.MaxUint32}, []NUint64{math.MaxUint64}, []NUint{math.MaxUint64}, []NBool{true, false})
	for _, x := range []any{int(math.MinInt64), int8(-128), int16(math.MinInt16), int32(math.MinInt32), int64(math.MinInt64), uint(math.MaxUint64), uint8(255), uint16(65535), uint32(math.MaxUint32), uint64(math.MaxUint64),
		NInt(math.MinInt64), NInt8(-128), NInt16(-32768), NInt32(math.MinInt32), NInt64(math.MaxInt64), NUint(math.MaxUint64), NUint8(255), NUint16(65535), NUint32(math.MaxUint32), NUint64(math.MaxUint64), true, false, NBool(true)} {
		add(fmt.Sprintf("scalar/%T/%v", x, x), x)
	}
	f64 := []float64{math.NaN(), math.Float64frombits(0x7ff8000000000123), math.Float64frombits(0xfff8000000000001), math.Float64frombits(0x7ff0000000000001), math.Copysign(0, -1), 0,
		math.Inf(1), math.Inf(-1), math.SmallestNonzeroFloat64, math.Float64frombits(0x000fffffffffffff), math.MaxFloat64, -math.MaxFloat64, 1.0 / 3}
	add("float64/special", f64, Leaf{G: math.Float64frombits(0x7ff0000000000001)}, []NF64{NF64(math.Copysign(0, -1)), NF64(math.NaN())}, map[string]float64{"nan": math.NaN(), "-0": math.Copysign(0, -1)})
	for i, f := range f64 {
		add(fmt.Sprintf("float64/%d", i), f, NF64(f))
	}
	f32 := []float32{math.Float32frombits(0x7fc00000), math.Float32frombits(0x7fc00123), math.Float32frombits(0xffc00001), float32(math.Copysign(0, -1)), 0, float32(math.Inf(1)), float32(math.Inf(-1)),
		math.SmallestNonzeroFloat32, math.Float32frombits(0x007fffff), math.MaxFloat32, -math.MaxFloat32, 1.0 / 3}
	add("float32/special", f32, Leaf{F: math.Float32frombits(0x7fc00123)}, []NF32{NF32(math.Float32frombits(0x80000000))})
	for i, f := range f32 {
		add(fmt.Sprintf("float32/%d", i), f, NF32(f))
	}
	// signalling NaN: built without float conversions
	snan := make([]float32, 2)
	setF32bits(rv(snan).Index(0), 0x7fa00001)
	setF32bits(rv(snan).Index(1), 0xff800001)
	add("float32/signalling-nan", snan)

	// times
	loc := time.FixedZone("c11", 3*3600+1800)
	times := []time.Time{{}, time.Unix(0, 0), time.Unix(0, 0).UTC(), time.Now(), time.Now().UTC(), time.Now().Round(0), time.Unix(1e9, 999999999).In(loc), time.Unix(1e9, 1).In(time.FixedZone("neg", -11*3600)),
		time.Unix(1e9, 1).In(time.FixedZone("sec", 3600+17)), time.Unix(1e9, 1).In(time.FixedZone("negsec", -(3600 + 17))), time.Unix(253402300799, 999999999).UTC(), time.Unix(-62135596800, 0).UTC(), time.Unix(1<<55-1, 0).UTC(), time.Unix(-(1 << 55), 0).UTC(),
		time.Date(-5000, 1, 1, 0, 0, 0, 0, time.UTC), time.Date(99999, 12, 31, 23, 59, 59, 999999999, loc),
		time.Unix(1e9, 5).In(time.FixedZone("max", 32767*60)), time.Unix(1e9, 5).In(time.FixedZone("min", -32767*60)), time.Unix(1e9, 5).In(time.FixedZone("over", 32768*60)), time.Unix(1e9, 5).In(time.FixedZone("under", -32768*60)),
		time.Unix(1e9, 5).In(time.FixedZone("minus1min", -60)), time.Unix(1e9, 5).In(time.FixedZone("minus1s", -1)), time.Unix(1e9, 5).In(time.Local)}
	for i, t := range times {
		add(fmt.Sprintf("time/%d", i), t, Leaf{T: t}, NMapAtomT{"t": t})
	}
	add("time/all", times, Top{Tm: times})

	// marshalers: payload sizes around the capacity of a pooled lib.Buffer (4096)
	for _, n := range []int{0, 1, 100, 4000, 4070, 4080, 4086, 4090, 4094, 4096, 4100, 5000, 8192, 8200, 70000} {
		p := make([]byte, n)
		for i := range p {
			p[i] = byte(i*13 + 1)
		}
		m := MEDF{P: p, tag: uint16(n)}
		add(fmt.Sprintf("marshaler/MEDF/%d", n), m, NSliceM{m, MEDF{}, m}, Top{Ms: m}, []any{"head", m, "tail"})
		b := MBin{A: int64(n), S: string(p), x: 7}
		add(fmt.Sprintf("marshaler/MBin/%d", n), b, NMapM{"a": b, "b": MBin{}}, Top{Mb: b})
	}
	add("marshaler/MEDFStr", MEDFStr("abc"), MEDFStr(""), []MEDFStr{"x", "", "yz"}, map[MEDFStr]MEDFStr{"k": "v"})
	add("marshaler/MBinArr", MBinArr{1, 2, 3, 4}, MBinArr{}, []MBinArr{{}, {9}}, map[MBinArr]int{{}: 1, {1}: 2})
	addTop("marshaler/refuses", MEDF{tag: 0xdead})
	addTop("marshaler/binary-refuses", MBin{x: 0xee})

	// structs: field order, nesting 3 deep
	w := Wide{F00: 1, F01: -2, F02: "three", F03: 4, F04: true, F05: []byte{6}, F06: -7, F07: "eight", F08: 9.5, F09: 10, F10: int8(11), F11: -12, F12: []int8{13}, F13: 14, F14: "fifteen",
		F15: errors.New("sixteen"), F16: 17, F17: [2]uint16{18, 19}, F18: -20, F19: map[uint8]uint8{21: 22}, F20: time.Unix(23, 24).UTC(), F21: -25, F22: gen.PID{Node: "n26", ID: 27, Creation: 28}, F23: 29.5}
	add("struct/wide", w, []Wide{w, {}, w})
	leaf := Leaf{A: -1, B: "b", C: []byte("c"), F: 1.5, G: -2.5, T: time.Unix(5, 6).UTC(), E: gen.ErrTimeout, On: true}
	mid := Mid{L: leaf, LS: []Leaf{leaf, {}}, LA: [2]Leaf{{}, leaf}, LM: map[string]Leaf{"l": leaf}, X: leaf, N: 5, NS: NSliceInt{1}, I: Ids{AT: "a"}, NA: NArr3{1, 2, 3}}
	top := Top{M: mid, MS: []Mid{mid, {}}, Any: mid, AnyS: []any{mid, leaf, nil, []Mid{mid}}, MM: map[NStr]Mid{"m": mid}, Err: errSentA, Errs: []error{errSentB, nil, errors.New("plain")},
		Nested: [][]string{{"a"}, nil, {}}, MapSl: map[int][]Leaf{1: {leaf}}, NM: NMapKL{KeyS{A: 1, B: "k", C: "c", D: [2]uint8{1, 2}}: leaf}, Ms: MEDF{P: []byte("p"), tag: 3}, Mb: MBin{A: 4, S: "s"},
		Arr: [3][]any{{1}, nil, {leaf}}, Tm: []time.Time{time.Unix(7, 8)}, NL: NSliceLeaf{leaf}, Sc: Scalars{F32: 1, NF: 2}}
	add("struct/nested-3-deep", top, mid, leaf, NArrMid{mid, {}}, []any{top, []any{mid, []any{leaf, []any{nil}}}})
	add("any/deep", []any{[]any{[]any{[]any{[]any{1, "x", nil}}}}}, map[string]any{"a": map[string]any{"b": map[string]any{"c": []any{nil}}}}, map[any]any{1: "int", "s": 2, gen.Atom("a"): nil, KeyS{A: 1}: KeyS{}, [2]int8{1, 2}: true})
	add("map/key-kinds", NMapArrKey{{1, 2}: "a", {0, 0}: ""}, NMapKL{{}: {}}, map[gen.PID]gen.Ref{{Node: "a"}: {Node: "b"}}, map[bool]bool{true: false, false: true}, map[NStr]NInt{"": 0},
		map[[2]string][]byte{{"", "a"}: nil}, map[Ids]int8{{AT: "x"}: 1}, map[int8]map[int8]map[int8]int8{1: {2: {3: 4}}})

	// not representable: must be rejected when encoding (counted, never judged as a violation)
	one := 1
	addTop("unrepresentable/pointer", &one)
	addTop("unrepresentable/pointer-in-any", []any{&one})
	addTop("unrepresentable/chan", make(chan int))
	addTop("unrepresentable/func", func() {})
	addTop("unrepresentable/unregistered-struct", UnregStruct{1})
	addTop("unrepresentable/unexported-struct", unregStruct{1})
	addTop("unrepresentable/unregistered-named-int", UnregInt(1))
	addTop("unrepresentable/complex", complex(1, 2))
	addTop("unrepresentable/anonymous-struct", struct{ A int }{1})
	addTop("unrepresentable/slice-of-pointers", []*int{&one})
	addTop("unrepresentable/uintptr", uintptr(1))
	return l
}

var directedRejected, directedF32Quieted, directedStdTime int64

func runDirected() {
	defer func() {
		hk.Stat("directed_values_rejected_by_encode_not_judged", directedRejected)
		hk.Stat("float32_nan_payload_quieted_not_judged", directedF32Quieted)
		hk.Stat("time_mangled_by_stdlib_binary_form_not_judged", directedStdTime)
	}()
	vals := directedValues()
	seen := map[string]bool{}
	for _, d := range vals {
		if seen[d.name] {
			panic("c11: duplicate directed value " + d.name)
		}
		seen[d.name] = true
		ctx := contexts(d)
		names := make([]string, 0, len(ctx))
		for k := range ctx {
			names = append(names, k)
		}
		sortStrings(names)
		// top level context first: its violation is the most readable witness
		for i, n := range names {
			if n == "top" {
				copy(names[1:i+1], names[:i])
				names[0] = "top"
			}
		}
		for _, cn := range names {
			id := "dir/" + d.name + "/" + cn
			if o := hk.Only(); o != "" && !strings.HasPrefix(o, id+"/") && o != id {
				continue
			}
			runDirectedCase(id, d, ctx[cn])
		}
	}
	// unregistered named composite: accepted, decoded as the unnamed type (note only)
	if hk.Only() == "" {
		r := roundtrip(UnregSlice{1, 2}, cfgs[0], nil, 0, false)
		note := "rejected by Encode"
		if r.encErr == nil {
			note = "accepted by Encode; "
			if r.fail != nil {
				note += r.fail.msg
			} else {
				note += "round trip equal"
			}
		}
		hk.Note("unregistered_named_slice_type", note)
	}
}

func sortStrings(s []string) {
	for i := 1; i < len(s); i++ {
		for j := i; j > 0 && s[j] < s[j-1]; j-- {
			s[j], s[j-1] = s[j-1], s[j]
		}
	}
}

// dirtyPool leaves non-zero bytes in the pooled buffers, like earlier traffic does
func dirtyPool() {
	var bs []*lib.Buffer
	for i := 0; i < 4; i++ {
		b := lib.TakeBuffer()
		b.Allocate(cap(b.B))
		for k := range b.B {
			b.B[k] = 0x77
		}
		bs = append(bs, b)
	}
	for _, b := range bs {
		lib.ReleaseBuffer(b)
	}
}

func runDirectedCase(id string, d dval, v reflect.Value) {
	x := v.Interface()
	var events int64
	rejected := ""
	okAll := true
	plain := -1
	hit := false
	for _, c := range cfgs {
		if c.mapping {
			continue
		}
		for ji, junk := range [][]byte{nil, {0x83, 0xff, 0x00}} {
			dirtyPool()
			res := roundtrip(x, c, junk, []int{0, 8}[ji], false)
			if res.encErr != nil {
				rejected = res.encErr.Error()
				continue
			}
			events++
			if c.name == "none" {
				plain = res.nbytes
			} else if c.caches && plain >= 0 && res.nbytes < plain {
				hit = true
			}
			directedF32Quieted += int64(res.st.f32NaNQuieted)
			directedStdTime += int64(res.st.stdlibTime)
			if res.fail != nil {
				okAll = false
				vid := id + "/" + c.name
				if ji == 1 {
					vid += "+junk"
				}
				if hk.Want(vid) {
					emitViolation(vid, "directed", id, c, v, res, []string{d.name})
				}
			}
		}
	}
	if hk.Only() != "" && hk.Only() != id {
		return
	}
	if !okAll {
		return
	}
	c := hk.Case{ID: id, Scenario: "directed", Verdict: hk.Held, Key: fmt.Sprintf("%s|cachehit=%v", id, hit), Events: events, Nontrivial: events > 0}
	if events == 0 {
		// every configuration rejected the value when encoding: allowed, counted
		c.What = "rejected by Encode: " + clip(rejected, 100)
		c.Events = 1
		directedRejected++
	} else if rejected != "" {
		c.What = "rejected by Encode in some configuration: " + clip(rejected, 100)
	}
	hk.Emit(c)
}

// ---------------------------------------------------------------------------
// atom mapping (dialing side configured with AtomMapping{from: to})

func substituteAtoms(v reflect.Value, from, to gen.Atom) {
	switch v.Kind() {
	case reflect.String:
		if v.Type() == tAtom && v.String() == string(from) {
			v.SetString(string(to))
		}
	case reflect.Struct:
		if v.Type() == tTime {
			return
		}
		for i := 0; i < v.NumField(); i++ {
			if v.Field(i).CanSet() {
				substituteAtoms(v.Field(i), from, to)
			}
		}
	case reflect.Slice, reflect.Array:
		for i := 0; i < v.Len(); i++ {
			substituteAtoms(v.Index(i), from, to)
		}
	}
}

func runMapping() {
	if !hsOK {
		return
	}
	mk := func() []any {
		return []any{
			mappingFrom, gen.PID{Node: mappingFrom, ID: 1}, gen.ProcessID{Name: mappingFrom, Node: "other"}, gen.Event{Name: "e", Node: mappingFrom},
			gen.Ref{Node: mappingFrom}, gen.Alias{Node: mappingFrom}, []gen.Atom{"a", mappingFrom, "c11_atom_a", mappingFrom}, Ids{AT: mappingFrom, P: gen.PID{Node: mappingFrom}},
			gen.Atom("unmapped"), []Ids{{AT: "plain"}, {AT: mappingFrom}},
		}
	}
	for _, c := range cfgs {
		if !c.mapping {
			continue
		}
		for i, x := range mk() {
			id := fmt.Sprintf("mapping/%s/%d", c.name, i)
			if !hk.Want(id) {
				continue
			}
			// expected value at the receiver
			exp := reflect.New(reflect.TypeOf(x)).Elem()
			exp.Set(rv(mk()[i]))
			if c.name == "hs:A>B+mapping" {
				substituteAtoms(exp, mappingFrom, mappingTo)
			}
			buf := lib.TakeBuffer()
			err := func() (err error) {
				defer func() {
					if r := recover(); r != nil {
						err = fmt.Errorf("panic: %v", r)
					}
				}()
				return encodeTo(x, buf, c)
			}()
			if err != nil {
				lib.ReleaseBuffer(buf)
				hk.Emit(hk.Case{ID: id, Scenario: "mapping", Verdict: hk.Held, Key: id, Events: 1, What: "rejected by Encode: " + err.Error()})
				continue
			}
			packet := append([]byte{}, buf.B...)
			lib.ReleaseBuffer(buf)
			out, rest, derr := decodeFrom(packet, c)
			cs := hk.Case{ID: id, Scenario: "mapping", Verdict: hk.Held, Key: id, Events: 1, Nontrivial: true, Detail: map[string]any{"value": describeValue(rv(x)), "expected": describeValue(exp)}}
			var st eqStats
			switch {
			case derr != nil:
				cs.Verdict, cs.Sig, cs.What = hk.Violated, "atom-mapping/decode-fails", derr.Error()
			case len(rest) != 0:
				cs.Verdict, cs.Sig, cs.What = hk.Violated, "atom-mapping/consumed-bytes-differ", fmt.Sprintf("%d bytes left", len(rest))
			default:
				if mm := equalEDF(exp, rv(out), "v", eqOpts{sentinelIdentity: true}, &st); mm != nil {
					cs.Verdict, cs.Sig, cs.What = hk.Violated, "atom-mapping/value-differs", mm.String()
				}
			}
			hk.Emit(cs)
		}
	}
}
